/* C04.sparse_new: read_gnu_new_sparse (lib/tar/src/read_sparse_map_new.c),
 * the real function (its static helper decode() is called through decode's
 * contract, see stub_decode), on a well-formed GNU sparse format 1.0 map that occupies exactly NBLK 512-byte blocks of the member's
 * data area (NBLK concrete per case: 1, 2, 3).
 *
 * Contract, from the GNU tar manual ("Sparse Formats", PAX format version
 * 1.0): "the sparse map is stored in the file data block, preceding the
 * actual file data. It consists of a series of decimal numbers delimited by
 * newlines: the number of entries, followed by (offset, numbytes) pairs.
 * The map is padded with nulls to the nearest block boundary." Hence after
 * the map has been read, the member has exactly (size - 512 * NBLK) bytes of
 * data area left, the next byte of the stream is the first data byte, and
 * the list is the sequence of pairs in the text.
 *
 * Layout of the text (shape and the entry count concrete, every other number
 * symbolic): every line is LW bytes: LW-1 decimal digits (leading zeros allowed) and '\n'.
 *   LW = 20: lines straddle the block boundaries (512 = 25 * 20 + 12)
 *   LW = 16: a newline is the last byte of every block (512 = 32 * 16), so
 *            the next number starts exactly at the boundary
 * NENT entries => 1 + 2 * NENT lines; the case picks NENT such that the text
 * needs exactly NBLK blocks (checked by a compile-time assertion).
 *
 *  C04.sparse_new.record_size_exact  on success out->record_size ==
 *        record_size_before - 512 * NBLK, and the stream was read NBLK times
 *        (512 bytes each): the iterator will skip exactly the rest of the
 *        member. A member whose data area is shorter than the map is refused.
 *  C04.sparse_new.list_eq_spec       the result has exactly NENT nodes and
 *        node i holds (number of line 1+2i, number of line 2+2i)
 *  C04.sparse_new.accepts_wellformed a well-formed map on a healthy stream
 *        is not refused
 */
#include "verif.h"
#include "lib/tar/src/read_sparse_map_new.c"

#ifndef NBLK
#define NBLK 2
#endif
#ifndef LW
#define LW 20
#endif
#ifndef NENT
#define NENT 13
#endif
#define NLINES (1 + 2 * NENT)
#define TEXTLEN (NLINES * LW)
#define MAPLEN (512 * NBLK)

/* the text needs exactly NBLK blocks */
typedef char w19_shape_ok[(TEXTLEN <= MAPLEN && TEXTLEN > MAPLEN - 512) ? 1 : -1];
/* LW - 1 digits never overflow 64 bit */
typedef char w19_width_ok[(LW == 16 || LW == 20) ? 1 : -1];
#define W19_MAXVAL ((LW == 20) ? 9999999999999999999ULL : 999999999999999ULL)

/* the text: line n holds the decimal number g_expect[n] (LW-1 digits with
 * leading zeros, '\n'); line 0 = NENT; NUL padding up to MAPLEN */
static sqfs_u64 g_expect[NLINES];
static unsigned int g_reads;
static int g_failed;
static sqfs_istream_t g_strm;
static const char *g_buf;	/* the function's 1 KiB window */
static size_t g_base;		/* stream offset of g_buf[0] */
static size_t g_valid;		/* bytes of the window holding stream data */

static const char *env_get_filename(sqfs_istream_t *strm)
{
	(void)strm;
	return "stdin";
}

void sqfs_perror(const char *file, const char *action, int error_code)
{
	(void)file; (void)action; (void)error_code;
}

/* archive stream positioned at the first byte of the member's data area */
sqfs_s32 sqfs_istream_read(sqfs_istream_t *strm, void *data, size_t size)
{
	VERIF_ASSERT(strm == &g_strm && size == 512 && VERIF_W_OK(data, 512),
		     "C04.sparse_new.env.stream");
	/* never beyond the map: the bytes behind it are file data */
	VERIF_ASSERT(g_reads < NBLK, "C04.sparse_new.record_size_exact");
	if (g_reads >= NBLK) {
		g_failed = 1;
		return -1;
	}
	/* the window is filled from the bottom, then through its upper half */
	if (g_reads == 0) {
		g_buf = data;
		g_base = 0;
	} else {
		VERIF_ASSERT((const char *)data == g_buf + 512 &&
			     g_valid == 512, "C04.sparse_new.env.window");
	}
	/* g_reads counts attempts (advanced before the nondeterministic
	 * outcome so that it stays a constant on every path); a failed
	 * attempt is recorded in g_failed */
	++g_reads;
	g_valid = (g_reads == 1) ? 512 : 1024;
	if (verif_nd_bool("read.fail")) {
		g_failed = 1;
		return verif_nd_bool("read.short") ? 100 : -1;
	}
	return 512;
}

#ifndef VERIF_REPLAY
/* the only memcpy of the function moves the upper half of the window down */
void *memcpy(void *dst, const void *src, size_t n)
{
	VERIF_ASSERT(n == 512 && (const char *)dst == g_buf &&
		     (const char *)src == g_buf + 512 && g_valid == 1024,
		     "C04.sparse_new.env.window");
	g_valid = 512;
	g_base += 512;
	return dst;
}
#endif

/* decode() through its contract (decode is verified against it in harness
 * w19_decode_line for whole lines, and in C07 decode_safety / decode_spec):
 * "value and length of the digit run at str, limited to len bytes: 0 if
 * there is no digit or the run reaches the end of the range, run + 1 if a
 * newline follows, -1 otherwise" - instantiated on the text of this case,
 * whose digit runs are known from the layout: at stream offset pos the run
 * has LW-1 - pos % LW digits and ends in a newline; behind the text there
 * are NULs. The window bytes themselves are never materialised. */
int stub_decode(const char *str, size_t len, size_t *out)
{
	size_t off = (size_t)(str - g_buf), pos, run;

	VERIF_ASSERT(VERIF_SAME_OBJECT(str, g_buf) && off + len <= g_valid &&
		     VERIF_R_OK(str, len), "C04.sparse_new.env.window");
	pos = g_base + off;
	*out = 0;
	if (pos >= TEXTLEN)
		return 0;		/* NUL padding: no digit */
	run = (LW - 1) - pos % LW;
	if (pos % LW == 0)
		*out = g_expect[pos / LW];
	else
		*out = verif_nd_size("decode.partial");
	if (run == 0 || run >= len)
		return 0;
	return (int)run + 1;
}

#ifndef VERIF_REPLAY
/* allocator contract: NULL (recorded as a reason to fail) or a fresh zeroed
 * node */
void *calloc(size_t n, size_t size)
{
	void *p;

	VERIF_ASSERT(n == 1 && size == sizeof(sparse_map_t),
		     "C04.sparse_new.env.calloc");
	if (verif_nd_bool("calloc.fail")) {
		g_failed = 1;
		return NULL;
	}
	p = malloc(sizeof(sparse_map_t));
	VERIF_ASSUME(p != NULL);
	memset(p, 0, sizeof(sparse_map_t));
	return p;
}
#endif

void free_sparse_list(sparse_map_t *sparse)
{
	unsigned int n = 0;

	while (sparse != NULL && n <= NENT) {
		sparse_map_t *old = sparse;

		sparse = sparse->next;
		free(old);
		++n;
	}
}

void harness(void)
{
	tar_header_decoded_t out;
	sparse_map_t *list, *it;
	sqfs_u64 size0;
	unsigned int n;

	g_strm.get_filename = env_get_filename;
	g_reads = 0;
	g_failed = 0;
	g_valid = 0;
	g_base = 0;

	/* ---- a well-formed map: arbitrary numbers below 10^(LW-1) ---- */
	g_expect[0] = NENT;
	for (n = 1; n < NLINES; ++n) {
		g_expect[n] = verif_nd_u64("number");
		VERIF_ASSUME(g_expect[n] <= W19_MAXVAL);
	}

	memset(&out, 0, sizeof(out));
	out.record_size = verif_nd_u64("record_size");
	size0 = out.record_size;

	list = read_gnu_new_sparse(&g_strm, &out);

	if (list == NULL) {
		/* refused: only for a reason */
		VERIF_ASSERT(g_failed || size0 < MAPLEN,
			     "C04.sparse_new.accepts_wellformed");
		VERIF_COVER(g_failed);
		VERIF_COVER(!g_failed && size0 < MAPLEN && size0 >= MAPLEN - 512);
		return;
	}

	VERIF_ASSERT(!g_failed && size0 >= MAPLEN,
		     "C04.sparse_new.record_size_exact");
	VERIF_ASSERT(g_reads == NBLK, "C04.sparse_new.record_size_exact");
	VERIF_ASSERT(out.record_size == size0 - MAPLEN,
		     "C04.sparse_new.record_size_exact");

	n = 0;
	for (it = list; it != NULL && n < NENT; it = it->next) {
		VERIF_ASSERT(it->offset == g_expect[1 + 2 * n] &&
			     it->count == g_expect[2 + 2 * n],
			     "C04.sparse_new.list_eq_spec");
		++n;
	}
	VERIF_ASSERT(n == NENT && it == NULL, "C04.sparse_new.list_eq_spec");
	VERIF_COVER(size0 == MAPLEN);
	VERIF_COVER(size0 > MAPLEN && list->offset != 0);

	free_sparse_list(list);
}
