/* C04.hdr.ext_records_accumulate: read_header (lib/tar/src/read_header.c)
 * on a scripted archive stream: NREC extension records (kinds concrete per
 * case: GNU 'L' long name, GNU 'K' long link, PAX 'x' with a concrete key
 * set, PAX 'g' global) followed by the real header of the member (type flag
 * TF concrete). Everything else is symbolic: all other header bytes, every
 * numeric field, every record payload, every PAX value.
 *
 * The functional contract is taken from the format documentation, not from
 * the code: GNU tar manual ("the next file on the tape has a long name /
 * long link name"), POSIX pax ("extended header records ... affect the
 * following file"): every extension record in front of a member applies to
 * THAT member, records of different kinds do not cancel each other, and
 * for one attribute the record closest to the member wins. A field of the
 * fixed header is used only where no extension record supplied it.
 * spec_* below compute the expected entry from the case's record list.
 *
 * Only read_header is called; the harness names no static helper of
 * read_header.c, so it survives a refactoring of the switch cases.
 *
 * Callee contracts (each verified in its own harness):
 *   sqfs_istream_read   scripted: header i carries typeflag kind[i]
 *   read_number         C04.num.* / C07 number: value or failure, PER FIELD
 *                       (the harness knows which field produced which value)
 *   tar_compute_checksum, is_memory_zero  trivial contracts
 *   record_to_memory    C12.record.*: NULL or a fresh NUL-terminated copy
 *                       of the payload (payload = symbolic string < 8 bytes)
 *   read_pax_header     C07 pax_loop / w15: for every key of the record it
 *                       stores the value in *out (freeing a string it
 *                       replaces), ORs the key's flag into *set_by_pax;
 *                       0 or -1
 *
 *  C04.hdr.ext_records_accumulate.name    name = payload of the last L /
 *        PAX path record if there was one, else the header's name field
 *  C04.hdr.ext_records_accumulate.link    same for K / PAX linkpath (links
 *        and symlinks)
 *  C04.hdr.ext_records_accumulate.numbers size, uid, gid, mtime = value of
 *        the last PAX record carrying the key, else the header field
 *  C04.hdr.ext_size_field     the payload length handed to the record
 *        reader is the size field of that very record; a 'g' record is
 *        skipped with exactly its 512-padded size
 *  C04.hdr.ext_reads          one 512-byte header read per record + one
 *        for the member header, nothing else is read by read_header itself
 */
#include "verif.h"
#include "lib/tar/src/read_header.c"
#include "lib/tar/src/cleanup.c"
#include "w19_libc.h"

#ifndef NREC
#define NREC 2
#endif
#ifndef K0
#define K0 'L'
#endif
#ifndef K1
#define K1 'K'
#endif
#ifndef K2
#define K2 0
#endif
#ifndef P0
#define P0 0
#endif
#ifndef P1
#define P1 0
#endif
#ifndef P2
#define P2 0
#endif
#ifndef TF
#define TF '2'
#endif
#define HNAME 4			/* header name / linkname: < HNAME+1 bytes */
#define SLEN 8			/* payload strings: < SLEN bytes */

static const unsigned char kind[4] = { K0, K1, K2, 0 };
static const unsigned int keys[4] = { P0, P1, P2, 0 };

enum { F_SIZE, F_UID, F_GID, F_MAJ, F_MIN, F_MTIME, F_MODE, F_CHK, F_N };
static sqfs_u64 g_val[NREC + 1][F_N];	/* numeric fields of header i */
static bool g_fail[NREC + 1][F_N];
static const char *g_hdr;		/* the caller's header buffer */
static int g_step;			/* headers delivered so far */
static int g_other_reads, g_payloads, g_stream_failed;
static unsigned int g_chk;
static char g_hname[HNAME + 1], g_hlink[HNAME + 1];
static bool g_hprefix;
/* payloads as delivered: [record][0 = name/path, 1 = link/linkpath] */
static char g_str[NREC + 1][2][SLEN];
static sqfs_u64 g_pax_size[NREC + 1], g_pax_uid[NREC + 1], g_pax_gid[NREC + 1];
static sqfs_s64 g_pax_mtime[NREC + 1];
static sqfs_istream_t g_strm;

static const char *env_get_filename(sqfs_istream_t *strm)
{
	(void)strm;
	return "stdin";
}

void sqfs_perror(const char *file, const char *action, int error_code)
{
	(void)file; (void)action; (void)error_code;
}

void sqfs_xattr_list_free(sqfs_xattr_t *list)
{
	VERIF_ASSERT(list == NULL, "C04.hdr.ext_env.no_xattr");
}

/* ------------------------------------------------------- archive stream */
sqfs_s32 sqfs_istream_read(sqfs_istream_t *strm, void *data, size_t size)
{
	tar_header_t *h = data;
	int r, rec;

	VERIF_ASSERT(strm == &g_strm && VERIF_W_OK(data, size),
		     "C04.hdr.ext_env.stream");
	if (size != sizeof(tar_header_t) || g_step > NREC) {
		/* read_header itself reads headers only, and no header after
		 * the member's */
		++g_other_reads;
		return -1;
	}

	/* g_step counts header read ATTEMPTS: it is advanced before the
	 * nondeterministic outcome so that it stays a constant on every
	 * path (a failed attempt ends read_header anyway) */
	rec = g_step;
	++g_step;
	g_hdr = data;

	r = verif_nd_int("read.ret");
	if (r != (int)sizeof(tar_header_t)) {
		/* error or end of archive at this point */
		VERIF_ASSUME(r < (int)sizeof(tar_header_t));
		g_stream_failed = 1;
		return r;
	}

	/* every byte of the header is arbitrary: under CBMC the caller's
	 * uninitialised buffer already is; the fields that are read as bytes
	 * (the numeric fields go through read_number's contract) are put on
	 * the tape for the native replay */
#ifdef VERIF_REPLAY
	memset(data, 0, sizeof(tar_header_t));
#endif
	verif_nd_bytes(h->name, HNAME, "hdr.name");
	verif_nd_bytes(h->linkname, HNAME, "hdr.linkname");
	verif_nd_bytes(h->magic, sizeof(h->magic), "hdr.magic");
	verif_nd_bytes(h->version, sizeof(h->version), "hdr.version");
	h->tail.posix.prefix[0] = (char)verif_nd_u8("hdr.prefix0");
	h->typeflag = (rec < NREC) ? (char)kind[rec] : (char)TF;
	/* the name fields of the fixed header are short strings here (their
	 * full-width decoding is C04.hdr.name / C04.hdr.link) */
	h->name[HNAME] = '\0';
	h->linkname[HNAME] = '\0';
	if (rec == NREC) {
		memcpy(g_hname, h->name, HNAME + 1);
		memcpy(g_hlink, h->linkname, HNAME + 1);
		g_hprefix = h->tail.posix.prefix[0] != '\0';
	}
	return r;
}

int sqfs_istream_skip(sqfs_istream_t *strm, sqfs_u64 size)
{
	sqfs_u64 want;

	VERIF_ASSERT(strm == &g_strm, "C04.hdr.ext_env.stream");
	/* only a global PAX record is skipped by read_header itself */
	VERIF_ASSERT(g_step >= 1 && g_step <= NREC &&
		     kind[g_step - 1] == TAR_TYPE_PAX_GLOBAL,
		     "C04.hdr.ext_size_field");
	want = g_val[g_step - 1][F_SIZE];
	want = (want + 511) & ~(sqfs_u64)511;
	VERIF_ASSERT(size == want, "C04.hdr.ext_size_field");
	++g_payloads;
	return verif_nd_bool("skip.fail") ? -1 : 0;
}

/* ------------------------------------------------------- number fields */
int read_number(const char *str, int digits, sqfs_u64 *out)
{
	const tar_header_t *h = (const tar_header_t *)g_hdr;
	int f = -1;

	VERIF_ASSERT(g_step >= 1, "C04.hdr.ext_env.number");
	if (str == h->size && digits == 12) f = F_SIZE;
	if (str == h->uid && digits == 8) f = F_UID;
	if (str == h->gid && digits == 8) f = F_GID;
	if (str == h->devmajor && digits == 8) f = F_MAJ;
	if (str == h->devminor && digits == 8) f = F_MIN;
	if (str == h->mtime && digits == 12) f = F_MTIME;
	if (str == h->mode && digits == 8) f = F_MODE;
	if (str == h->chksum && digits == 8) f = F_CHK;
	VERIF_ASSERT(f >= 0, "C04.hdr.ext_env.number");
	if (f < 0)
		return -1;
	if (g_fail[g_step - 1][f])
		return -1;
	*out = g_val[g_step - 1][f];
	return 0;
}

unsigned int tar_compute_checksum(const tar_header_t *hdr)
{
	VERIF_ASSERT((const char *)hdr == g_hdr, "C04.hdr.ext_env.chksum");
	return g_chk;
}

bool is_memory_zero(const void *blob, size_t size)
{
	/* every scripted header has a non-zero type flag */
	VERIF_ASSERT(blob == (const void *)g_hdr && size == 512 &&
		     ((const char *)blob)[156] != 0, "C04.hdr.ext_env.zero");
	return false;
}

/* ----------------------------------------------------- record payloads */
static char *payload_string(int rec, int which)
{
	char *p = malloc(SLEN);

	if (p == NULL)
		return NULL;
	verif_nd_bytes(p, SLEN - 1, "payload");
	p[SLEN - 1] = '\0';
	memcpy(g_str[rec][which], p, SLEN);
	return p;
}

char *record_to_memory(sqfs_istream_t *fp, size_t size)
{
	int rec = g_step - 1;

	VERIF_ASSERT(fp == &g_strm && rec >= 0 && rec < NREC &&
		     (kind[rec] == TAR_TYPE_GNU_PATH ||
		      kind[rec] == TAR_TYPE_GNU_SLINK),
		     "C04.hdr.ext_env.stream");
	VERIF_ASSERT(size == g_val[rec][F_SIZE] && size >= 1 &&
		     size <= 65536, "C04.hdr.ext_size_field");
	++g_payloads;
	if (verif_nd_bool("rtm.fail"))
		return NULL;
	return payload_string(rec, kind[rec] == TAR_TYPE_GNU_SLINK);
}

int read_pax_header(sqfs_istream_t *fp, sqfs_u64 entsize,
		    unsigned int *set_by_pax, tar_header_decoded_t *out)
{
	int rec = g_step - 1;
	char *s;

	VERIF_ASSERT(fp == &g_strm && rec >= 0 && rec < NREC &&
		     kind[rec] == TAR_TYPE_PAX, "C04.hdr.ext_env.stream");
	VERIF_ASSERT(entsize == g_val[rec][F_SIZE] && entsize >= 1 &&
		     entsize <= 65536, "C04.hdr.ext_size_field");
	++g_payloads;

	if (keys[rec] & PAX_NAME) {
		s = payload_string(rec, 0);
		if (s == NULL)
			return -1;
		free(out->name);
		out->name = s;
	}
	if (keys[rec] & PAX_SLINK_TARGET) {
		s = payload_string(rec, 1);
		if (s == NULL)
			return -1;
		free(out->link_target);
		out->link_target = s;
	}
	if (keys[rec] & PAX_SIZE)
		out->record_size = g_pax_size[rec];
	if (keys[rec] & PAX_UID)
		out->uid = g_pax_uid[rec];
	if (keys[rec] & PAX_GID)
		out->gid = g_pax_gid[rec];
	if (keys[rec] & PAX_MTIME)
		out->mtime = g_pax_mtime[rec];
	*set_by_pax |= keys[rec];
	return verif_nd_bool("pax.fail") ? -1 : 0;
}

sparse_map_t *read_gnu_old_sparse(sqfs_istream_t *fp, tar_header_t *hdr)
{
	(void)fp; (void)hdr;
	VERIF_ASSERT(0, "C04.hdr.ext_env.no_sparse");
	return NULL;
}

sparse_map_t *read_gnu_new_sparse(sqfs_istream_t *fp,
				  tar_header_decoded_t *out)
{
	(void)fp; (void)out;
	VERIF_ASSERT(0, "C04.hdr.ext_env.no_sparse");
	return NULL;
}

/* ------------------------------------------------------------- the spec */
/* index of the record that supplies the attribute, -1 = fixed header */
static int spec_string_src(int which)
{
	int i, src = -1;

	for (i = 0; i < NREC; ++i) {
		if (kind[i] == (which ? TAR_TYPE_GNU_SLINK : TAR_TYPE_GNU_PATH))
			src = i;
		if (kind[i] == TAR_TYPE_PAX &&
		    (keys[i] & (which ? PAX_SLINK_TARGET : PAX_NAME)))
			src = i;
	}
	return src;
}

static int spec_num_src(unsigned int key)
{
	int i, src = -1;

	for (i = 0; i < NREC; ++i) {
		if (kind[i] == TAR_TYPE_PAX && (keys[i] & key))
			src = i;
	}
	return src;
}

static bool str_eq(const char *got, const char *want, size_t max)
{
	size_t i;

	for (i = 0; i < max; ++i) {
		if (got[i] != want[i])
			return false;
		if (want[i] == '\0')
			return true;
	}
	return false;
}

void harness(void)
{
	tar_header_decoded_t out;
	int ret, i, f, src;

	g_strm.get_filename = env_get_filename;
	for (i = 0; i <= NREC; ++i) {
		for (f = 0; f < F_N; ++f) {
			g_val[i][f] = verif_nd_u64("field.value");
			g_fail[i][f] = verif_nd_bool("field.fail");
		}
		g_pax_size[i] = verif_nd_u64("pax.size");
		g_pax_uid[i] = verif_nd_u64("pax.uid");
		g_pax_gid[i] = verif_nd_u64("pax.gid");
		g_pax_mtime[i] = verif_nd_i64("pax.mtime");
		/* a 'g' record of nearly 2^64 bytes cannot be padded */
		if (kind[i] == TAR_TYPE_PAX_GLOBAL)
			VERIF_ASSUME(g_val[i][F_SIZE] <= 0x7fffffffffffffffULL);
	}
	g_chk = verif_nd_u32("chksum");
	verif_nd_bytes(&out, sizeof(out), "stale");

	ret = read_header(&g_strm, &out);

	VERIF_ASSERT(g_other_reads == 0, "C04.hdr.ext_reads");
	if (ret != 0) {
		VERIF_COVER(ret < 0 && g_step == NREC + 1);
		VERIF_COVER(ret > 0);
		return;
	}

	VERIF_ASSERT(g_step == NREC + 1 && g_payloads == NREC &&
		     !g_stream_failed, "C04.hdr.ext_reads");
	VERIF_COVER(1);

	/* ---- name ---- */
	src = spec_string_src(0);
	VERIF_ASSERT(out.name != NULL, "C04.hdr.ext_records_accumulate.name");
	if (out.name != NULL) {
		if (src >= 0) {
			VERIF_ASSERT(str_eq(out.name, g_str[src][0], SLEN),
				     "C04.hdr.ext_records_accumulate.name");
		} else if (!g_hprefix) {
			VERIF_ASSERT(str_eq(out.name, g_hname, HNAME + 1),
				     "C04.hdr.ext_records_accumulate.name");
		}
	}

	/* ---- link target ---- */
	src = spec_string_src(1);
	if (TF == TAR_TYPE_LINK || TF == TAR_TYPE_SLINK) {
		VERIF_ASSERT(out.link_target != NULL,
			     "C04.hdr.ext_records_accumulate.link");
		if (out.link_target != NULL) {
			if (src >= 0)
				VERIF_ASSERT(str_eq(out.link_target,
						    g_str[src][1], SLEN),
					     "C04.hdr.ext_records_accumulate.link");
			else
				VERIF_ASSERT(str_eq(out.link_target, g_hlink,
						    HNAME + 1),
					     "C04.hdr.ext_records_accumulate.link");
		}
		VERIF_ASSERT(out.is_hard_link == (TF == TAR_TYPE_LINK),
			     "C04.hdr.ext_records_accumulate.link");
	}

	/* ---- numbers ---- */
	src = spec_num_src(PAX_SIZE);
	VERIF_ASSERT(out.record_size ==
		     (src >= 0 ? g_pax_size[src] : g_val[NREC][F_SIZE]),
		     "C04.hdr.ext_records_accumulate.numbers");
	src = spec_num_src(PAX_UID);
	VERIF_ASSERT(out.uid == (src >= 0 ? g_pax_uid[src] : g_val[NREC][F_UID]),
		     "C04.hdr.ext_records_accumulate.numbers");
	src = spec_num_src(PAX_GID);
	VERIF_ASSERT(out.gid == (src >= 0 ? g_pax_gid[src] : g_val[NREC][F_GID]),
		     "C04.hdr.ext_records_accumulate.numbers");
	src = spec_num_src(PAX_MTIME);
	VERIF_ASSERT(out.mtime == (src >= 0 ? g_pax_mtime[src] :
				   (sqfs_s64)g_val[NREC][F_MTIME]),
		     "C04.hdr.ext_records_accumulate.numbers");
	/* no sparse map in these cases: the logical size is the record size */
	VERIF_ASSERT(out.actual_size == out.record_size && out.sparse == NULL,
		     "C04.hdr.ext_records_accumulate.numbers");

	clear_header(&out);
}
