# Round-2 extension (worker w18): the command line parser of sqfs2tar.
FUNCTIONS = ["process_args (bin/sqfs2tar/src/options.c)"]
TRUSTED = [
    "w18_s2t_opts: getopt_long / exit / strdup / free contracts of harness/C06/w18_optenv.h; strlist_append "
    "(appends a copy or fails and leaves the list alone) and strlist_cleanup (frees every element) as contracts; "
    "canonicalize_name contract (refuses, or rewrites in place, never longer, possibly to the empty string); "
    "xfrm_compressor_id_from_name: -1 or a valid id, a function of the word",
]
ASSUMPTIONS = [
    "w18_s2t_opts: bounded: at most 3 options per command line (every option at every position), words of at most "
    "3 bytes (arbitrary bytes); what the tool prints is not looked at",
]

HARNESSES = [
    dict(name="w18_s2t_opts", file="w18_s2t_opts.c",
         include_dirs=["bin/sqfs2tar/src"],
         label="bounded(options<=3, words<=3 bytes)", timeout=900,
         cases=[dict(id="n%d" % n, defines={"NOPT": n}, unwind=7, tier="quick")
                for n in range(0, 4)]),
    dict(name="w18_s2t_table", file="../C06/w18_opt_table.c", include_dirs=["bin/sqfs2tar/src"],
         label="proved", timeout=300, unwind=70, native=False,
         cases=[dict(id="all", defines={"TOOL": 4}, tier="quick")]),
]
