/* C04.hl.filter: the hard-link filter (lib/sqfs/src/io/dir_hl.c) `next` /
 * `read_link` over a source iterator that delivers NENT entries with fully
 * symbolic (dev, inode, mode, flags, one-byte name), then end of directory.
 * Bounded: NENT <= 3. rbtree_insert / rbtree_lookup are their contracts over
 * a ghost table (keyed by the tree's own compare function, insertion may
 * fail); every allocation may fail.
 *
 *  C04.hl.filter   entry i comes out as a link iff it is not a directory and
 *     an earlier non-directory entry that was itself passed through unchanged
 *     (and was not already flagged as a hard link by the source) has the same
 *     (dev, inode); the link target is the name of the FIRST such entry;
 *     mode = S_IFLNK|0777, flag HARD_LINK set, size = strlen(target) and
 *     read_link returns a copy of the target. With pairwise distinct
 *     (dev, inode) nothing is turned into a link. Other fields are untouched.
 *  C04.hl.sticky   a source error / an allocation failure ends the iteration
 *     with that error for good and *out == NULL
 */
#include "verif.h"
#include "lib/sqfs/src/io/dir_hl.c"

#ifndef NENT
#define NENT 2
#endif

typedef struct {
	sqfs_dir_entry_t e;
	char name[2];
} ent_box_t;

typedef struct {
	rbtree_node_t n;
	inumtree_key_t key;
	char *val;
} node_box_t;

static node_box_t g_nodes[NENT];
static int g_nnodes;
static int g_src_calls;
static sqfs_u64 g_dev[NENT], g_ino[NENT];
static sqfs_u16 g_mode[NENT], g_flags[NENT];
static char g_name[NENT];

int rbtree_insert(rbtree_t *tree, const void *key, const void *value)
{
	node_box_t *b;

	VERIF_ASSERT(tree->key_size == sizeof(inumtree_key_t) &&
		     tree->value_size == sizeof(char *) && g_nnodes < NENT,
		     "C04.hl.tree_pre");
	if (verif_nd_bool("insert.fail"))
		return SQFS_ERROR_ALLOC;
	b = &g_nodes[g_nnodes++];
	b->n.value_offset = sizeof(inumtree_key_t);
	b->key = *(const inumtree_key_t *)key;
	b->val = *(char *const *)value;
	return 0;
}

rbtree_node_t *rbtree_lookup(const rbtree_t *tree, const void *key)
{
	int i;

	for (i = 0; i < NENT && i < g_nnodes; ++i) {
		if (tree->key_compare(tree->key_context, key,
				      &g_nodes[i].key) == 0)
			return &g_nodes[i].n;
	}
	return NULL;
}

int rbtree_init(rbtree_t *tree, size_t keysize, size_t valuesize,
		int (*key_compare)(const void *, const void *, const void *))
{
	(void)tree; (void)keysize; (void)valuesize; (void)key_compare;
	return 0;
}
void rbtree_cleanup(rbtree_t *tree) { (void)tree; }
void sqfs_free(void *ptr) { free(ptr); }

static int env_next(sqfs_dir_iterator_t *it, sqfs_dir_entry_t **out)
{
	ent_box_t *b;
	int i = g_src_calls++;

	(void)it;
	*out = NULL;
	if (i >= NENT)
		return 1;
	if (verif_nd_bool("src.fail"))
		return SQFS_ERROR_IO;
	b = calloc(1, sizeof(*b));
	if (b == NULL)
		return SQFS_ERROR_ALLOC;
	b->e.dev = g_dev[i];
	b->e.inode = g_ino[i];
	b->e.mode = g_mode[i];
	b->e.flags = g_flags[i];
	b->e.size = 77;
	b->e.uid = 1000 + (sqfs_u64)i;
	b->e.name[0] = g_name[i];
	*out = &b->e;
	return 0;
}

static int env_read_link(sqfs_dir_iterator_t *it, char **out)
{
	(void)it;
	*out = NULL;
	return SQFS_ERROR_NO_ENTRY;
}

void harness(void)
{
	static hl_iterator_t it;
	static sqfs_dir_iterator_t src;
	bool stored[NENT];
	sqfs_dir_entry_t *ent;
	char *link;
	int i, j, first, ret, ret2;

	src.next = env_next;
	src.read_link = env_read_link;
	it.src = &src;
	it.inumtree.key_size = sizeof(inumtree_key_t);
	it.inumtree.value_size = sizeof(char *);
	it.inumtree.key_compare = compare_inum;
	for (i = 0; i < NENT; ++i) {
		g_dev[i] = verif_nd_u64("dev");
		g_ino[i] = verif_nd_u64("ino");
		g_mode[i] = verif_nd_u16("mode");
		g_flags[i] = verif_nd_u16("flags");
		g_name[i] = (char)('a' + i);
		stored[i] = false;
	}

	for (i = 0; i < NENT; ++i) {
		ent = (sqfs_dir_entry_t *)&it;	/* stale */
		ret = next((sqfs_dir_iterator_t *)&it, &ent);
		if (ret != 0) {
			VERIF_ASSERT(ent == NULL && it.state == ret,
				     "C04.hl.sticky");
			ret2 = next((sqfs_dir_iterator_t *)&it, &ent);
			VERIF_ASSERT(ret2 == ret && ent == NULL,
				     "C04.hl.sticky");
			VERIF_COVER(ret == SQFS_ERROR_ALLOC);
			for (j = 0; j < NENT && j < g_nnodes; ++j)
				free(g_nodes[j].val);
			return;
		}
		/* specification: first earlier stored entry with this key */
		first = -1;
		if (!S_ISDIR(g_mode[i])) {
			for (j = i - 1; j >= 0; --j) {
				if (stored[j] && g_dev[j] == g_dev[i] &&
				    g_ino[j] == g_ino[i])
					first = j;
			}
		}
		VERIF_ASSERT(ent != NULL && ent->name[0] == g_name[i] &&
			     ent->dev == g_dev[i] && ent->inode == g_ino[i] &&
			     ent->uid == 1000 + (sqfs_u64)i, "C04.hl.filter");
		if (first >= 0) {
			VERIF_ASSERT(ent->mode == (SQFS_INODE_MODE_LNK | 0777) &&
				     ent->flags == (g_flags[i] |
				      SQFS_DIR_ENTRY_FLAG_HARD_LINK) &&
				     ent->size == 1, "C04.hl.filter");
			link = NULL;
			ret = read_link((sqfs_dir_iterator_t *)&it, &link);
			VERIF_ASSERT(ret == SQFS_ERROR_ALLOC ||
				     (ret == 0 && link != NULL &&
				      link[0] == g_name[first] &&
				      link[1] == '\0'), "C04.hl.filter");
			free(link);
			VERIF_COVER(i == NENT - 1 && first == 0);
		} else {
			VERIF_ASSERT(ent->mode == g_mode[i] &&
				     ent->flags == g_flags[i] &&
				     ent->size == 77, "C04.hl.filter");
			VERIF_ASSERT(it.link_target == NULL, "C04.hl.filter");
			stored[i] = !S_ISDIR(g_mode[i]) &&
				!(g_flags[i] & SQFS_DIR_ENTRY_FLAG_HARD_LINK);
		}
		free(ent);
	}
	VERIF_COVER(g_nnodes == NENT);
	VERIF_COVER(g_nnodes == 1);
	ret = next((sqfs_dir_iterator_t *)&it, &ent);
	VERIF_ASSERT(ret == 1 && ent == NULL, "C04.hl.sticky");
	for (i = 0; i < NENT && i < g_nnodes; ++i)
		free(g_nodes[i].val);
}
