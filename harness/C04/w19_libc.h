/* libc functions CBMC 6.11 ships no body for; the models are their
 * definitions (C standard / POSIX). Include after the real translation
 * unit. */
#ifndef C04_W19_LIBC_H
#define C04_W19_LIBC_H
#include <stdlib.h>
#include <string.h>
#ifndef VERIF_REPLAY
size_t strnlen(const char *s, size_t n)
{
	size_t i = 0;

	while (i < n && s[i] != '\0')
		++i;
	return i;
}

char *strndup(const char *s, size_t n)
{
	size_t l = strnlen(s, n);
	char *p = malloc(l + 1);

	if (p == NULL)
		return NULL;
	memcpy(p, s, l);
	p[l] = '\0';
	return p;
}
#endif
#include "C07/sysmacros_model.h"
#endif
