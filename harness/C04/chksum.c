/* C04: header checksum - tar_compute_checksum (checksum.c), update_checksum
 * (write_header.c), is_checksum_valid (read_header.c) - on fully symbolic
 * 512-byte headers; loops over the constant header size unwound completely.
 *
 * PART 0  C04.chksum.field_independent   the checksum equals a specification
 *            sum that never looks at the chksum field (counts it as eight
 *            blanks) - so storing the checksum does not change it
 * PART 1  C04.chksum.update   update_checksum formats exactly
 *            tar_compute_checksum(hdr) with "%06o"; that value is < 8^6, so
 *            six digits are produced and the terminators NUL, ' ' land in
 *            chksum[6], chksum[7]; nothing else of the header changes
 * PART 2  C04.chksum.valid_iff   is_checksum_valid(h) <=> the chksum field
 *            parses (read_number, 8 digits) to tar_compute_checksum(h)
 *            (both callees are their contracts here)
 * The octal digits themselves are libc's (sprintf has no body in CBMC): that
 * is_checksum_valid(update_checksum(h)) holds follows from these three plus
 * "sprintf %06o writes the octal numeral", which is NOT checked here.
 */
#include "verif.h"
#ifndef PART
#define PART 0
#endif

#if PART == 0
#include "lib/tar/src/checksum.c"
#elif PART == 1
#include "lib/tar/src/write_header.c"
#include "sprintf_model.h"
static const tar_header_t *g_h;
static unsigned int g_sum;
/* contract proved in C07 harness `checksum` (range) and in PART 0 (value) */
unsigned int tar_compute_checksum(const tar_header_t *hdr)
{
	VERIF_ASSERT(hdr == g_h, "C04.chksum.update");
	return g_sum;
}
#include "C07/sysmacros_model.h"
int padd_file(sqfs_ostream_t *fp, sqfs_u64 size)
{
	(void)fp; (void)size;
	return 0;
}
#else
#include "lib/tar/src/read_header.c"
#include "C07/sysmacros_model.h"
static const tar_header_t *g_h;
static unsigned int g_sum;
static sqfs_u64 g_parsed;
static bool g_parse_fail;
unsigned int tar_compute_checksum(const tar_header_t *hdr)
{
	VERIF_ASSERT(hdr == g_h, "C04.chksum.valid_iff");
	return g_sum;
}
int read_number(const char *str, int digits, sqfs_u64 *out)
{
	VERIF_ASSERT(str == g_h->chksum && digits == 8, "C04.chksum.valid_iff");
	if (g_parse_fail)
		return -1;
	*out = g_parsed;
	return 0;
}
sqfs_s32 sqfs_istream_read(sqfs_istream_t *s, void *d, size_t n)
{ (void)s; (void)d; (void)n; return -1; }
int sqfs_istream_skip(sqfs_istream_t *s, sqfs_u64 n)
{ (void)s; (void)n; return -1; }
bool is_memory_zero(const void *b, size_t n) { (void)b; (void)n; return false; }
char *record_to_memory(sqfs_istream_t *fp, size_t size)
{ (void)fp; (void)size; return NULL; }
int read_pax_header(sqfs_istream_t *fp, sqfs_u64 entsize,
		    unsigned int *set_by_pax, tar_header_decoded_t *out)
{ (void)fp; (void)entsize; (void)set_by_pax; (void)out; return -1; }
sparse_map_t *read_gnu_old_sparse(sqfs_istream_t *fp, tar_header_t *hdr)
{ (void)fp; (void)hdr; return NULL; }
sparse_map_t *read_gnu_new_sparse(sqfs_istream_t *fp,
				  tar_header_decoded_t *out)
{ (void)fp; (void)out; return NULL; }
void clear_header(tar_header_decoded_t *hdr) { (void)hdr; }
void free_sparse_list(sparse_map_t *sparse) { (void)sparse; }
void sqfs_perror(const char *file, const char *action, int error_code)
{ (void)file; (void)action; (void)error_code; }
#endif

void harness(void)
{
	tar_header_t a;
#if PART == 0
	const unsigned char *p = (const unsigned char *)&a;
	unsigned int sa, spec = 0;
	size_t i;

	verif_nd_bytes(&a, sizeof(a), "hdr");
	/* the specification visibly never looks at bytes 148..155 */
	for (i = 0; i < sizeof(a); ++i)
		spec += (i >= 148 && i < 156) ? (unsigned int)' ' : p[i];
	sa = tar_compute_checksum(&a);
	VERIF_ASSERT(sizeof(a) == 512 && (const char *)p + 148 == a.chksum &&
		     sizeof(a.chksum) == 8, "C04.chksum.field_independent");
	VERIF_ASSERT(sa == spec, "C04.chksum.field_independent");
	VERIF_COVER(sa == 9000);
#elif PART == 1
	tar_header_t b;
	size_t i;

	verif_nd_bytes(&a, sizeof(a), "hdr");
	b = a;
	g_h = &a;
	g_sum = verif_nd_u32("sum");
	VERIF_ASSUME(g_sum <= 504u * 255u + 8u * 32u);	/* C07.chksum.range */
	update_checksum(&a);
	VERIF_ASSERT(g_sp_n == 1 && g_sp_kind[0] == SP_CHK &&
		     g_sp_val[0] == g_sum && g_sum < 01000000 &&
		     g_sp_len[0] == 6, "C04.chksum.update");
	VERIF_ASSERT(a.chksum[6] == '\0' && a.chksum[7] == ' ',
		     "C04.chksum.update");
	for (i = 0; i < 6; ++i)
		VERIF_ASSERT(a.chksum[i] == g_sp_out0[i], "C04.chksum.update");
	for (i = 0; i < sizeof(a); ++i) {
		if (i < 148 || i >= 156)
			VERIF_ASSERT(((char *)&a)[i] == ((char *)&b)[i],
				     "C04.chksum.update");
	}
	VERIF_COVER(g_sum == 9000);
#else
	bool valid;

	g_h = &a;
	g_sum = verif_nd_u32("sum");
	g_parsed = verif_nd_u64("parsed");
	g_parse_fail = verif_nd_bool("parse_fail");
	valid = is_checksum_valid(&a);
	VERIF_ASSERT(valid == (!g_parse_fail && g_parsed == g_sum),
		     "C04.chksum.valid_iff");
	VERIF_COVER(valid);
	VERIF_COVER(!valid && !g_parse_fail);
#endif
}
