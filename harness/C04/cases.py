PROPERTY = "C04"
LEVEL = "proof"
FUNCTIONS = []
TRUSTED = []
ASSUMPTIONS = []
EXPLANATION = ""

CT = {"__NO_CTYPE": None}

def _num(part, name):
    return [dict(id="%s_w%d" % (name, d), defines={"PART": part, "D": d, "__NO_CTYPE": None},
                 unwind=23, tier="quick") for d in (8, 12)]

HARNESSES = [
    dict(name="num", file="num.c", label="proved", defines=CT, timeout=900,
         nochecks=["--conversion-check"], fp={"*": "env_never"},
         cases=_num(0, "binary_roundtrip") + _num(1, "encoding_choice") +
               _num(2, "octal_value") + _num(3, "binary_value")),
    dict(name="chksum", file="chksum.c", label="proved", defines=CT, timeout=400, unwind=513, weight=6,
         nochecks=["--conversion-check"], fp={"*": "env_never"},
         # PART 0 (checksum == spec sum that skips the chksum field) is kept in chksum.c but not
         # registered: the equivalence of two 512-term adder chains did not finish (minisat 400 s,
         # cadical 200 s)
         cases=[dict(id="update", defines={"PART": 1, "__NO_CTYPE": None}, tier="quick",
                     unwindset=["sp_ndigits.0:23", "sp_digits.0:23"]),
                dict(id="valid_iff", defines={"PART": 2, "__NO_CTYPE": None}, tier="quick", unwind=3)]),
    dict(name="hdr_fields", file="hdr_fields.c", label="proved", defines=CT, timeout=400, unwind=513, weight=6,
         malloc_fail=True, nochecks=["--conversion-check"], fp={"*": "env_never"},
         cases=[dict(id="hdr512", tier="quick")]),
    dict(name="mtime_fstree", file="mtime_fstree.c", label="proved", defines=CT, timeout=400, unwind=6,
         pre_instrument_flags=["--replace-calls", "fstree_get_node_by_path:stub_get_node_by_path"],
         malloc_fail=True, fp={"*": "env_never"},
         cases=[dict(id="overwrite", defines={"PART": 0, "__NO_CTYPE": None}, tier="quick"),
                dict(id="create", defines={"PART": 1, "__NO_CTYPE": None}, tier="quick")]),
    dict(name="mtime_tarball", file="mtime_tarball.c", label="bounded(entries <= 1)", defines=CT, timeout=400,
         include_dirs=["bin/tar2sqfs/src"], unwind=4, malloc_fail=True, flags=["--memory-leak-check"],
         pre_instrument_flags=["--replace-calls", "set_root_attribs:stub_set_root_attribs",
                               "--replace-calls", "create_node_and_repack_data:stub_create_node"],
         fp={"next": "env_next", "read_link": "env_read_link", "*": "env_never"},
         cases=[dict(id="one_entry", tier="quick")]),
    dict(name="sparse", file="sparse.c", label="bounded(sparse map entries <= 3)", defines=CT, timeout=900, unwind=6,
         fp={"get_buffered_data": "env_get_buffered_data", "advance_buffer": "env_advance_buffer",
             "destroy": "it_destroy", "*": "env_never"},
         cases=[dict(id="region_n%d" % n, defines={"PART": 0, "NSPARSE": n, "__NO_CTYPE": None},
                     tier="quick") for n in (0, 1, 2, 3)] +
               [dict(id="accounting_n%d" % n, defines={"PART": 1, "NSPARSE": n, "__NO_CTYPE": None},
                     solver="cadical", tier="quick") for n in (0, 1)] +
               [dict(id="accounting_n2", defines={"PART": 1, "NSPARSE": 2, "__NO_CTYPE": None},
                     solver="cadical", tier="thorough", timeout=2400)]),
    dict(name="hl_filter", file="hl_filter.c", label="bounded(entries <= 3)", defines=CT, timeout=900,
         malloc_fail=True, flags=["--memory-leak-check"], unwind=5,
         fp={"next:next": "env_next", "read_link:read_link": "env_read_link", "key_compare": "compare_inum",
             "*": "env_never"},
         cases=[dict(id="n2", defines={"NENT": 2, "__NO_CTYPE": None}, tier="quick"),
                dict(id="n3", defines={"NENT": 3, "__NO_CTYPE": None}, tier="quick")]),
    dict(name="write_long", file="write_long.c", label="bounded(name/target lengths 5,99,100,130,600)", defines=CT,
         timeout=900, unwind=620, nochecks=["--conversion-check"],
         unwindset=["sp_ndigits.0:23", "sp_digits.0:23", "is_prefix.0:10"],
         fp={"append": "env_append", "*": "env_never"},
         cases=[dict(id="n%d_t%d" % (n, t), defines={"NLEN": n, "TLEN": t, "__NO_CTYPE": None}, tier="quick")
                for n, t in ((5, 0), (99, 0), (100, 0), (130, 0), (5, 99), (5, 100), (130, 130))] +
               [dict(id="n600_t0", defines={"NLEN": 600, "TLEN": 0, "__NO_CTYPE": None}, tier="thorough"),
                dict(id="n512_t0", defines={"NLEN": 512, "TLEN": 0, "__NO_CTYPE": None}, tier="thorough")]),
]
