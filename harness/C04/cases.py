PROPERTY = "C04"
LEVEL = "proof"
FUNCTIONS = []
TRUSTED = []
ASSUMPTIONS = []
EXPLANATION = ""

CT = {"__NO_CTYPE": None}

def _num(part, name):
    return [dict(id="%s_w%d" % (name, d), defines={"PART": part, "D": d, "__NO_CTYPE": None},
                 unwind=23, tier="quick") for d in (8, 12)]

HARNESSES = [
    dict(name="num", file="num.c", label="proved", defines=CT, timeout=900,
         nochecks=["--conversion-check"], fp={"*": "env_never"},
         cases=_num(0, "binary_roundtrip") + _num(1, "encoding_choice") +
               _num(2, "octal_value") + _num(3, "binary_value")),
    dict(name="chksum", file="chksum.c", label="proved", defines=CT, timeout=400, unwind=513, weight=6,
         nochecks=["--conversion-check"], fp={"*": "env_never"},
         cases=[dict(id="field_independent", defines={"PART": 0, "__NO_CTYPE": None}, tier="quick"),
                dict(id="update", defines={"PART": 1, "__NO_CTYPE": None}, tier="quick",
                     unwindset=["sp_ndigits.0:23", "sp_digits.0:23"]),
                dict(id="valid_iff", defines={"PART": 2, "__NO_CTYPE": None}, tier="quick", unwind=3)]),
    dict(name="hdr_fields", file="hdr_fields.c", label="proved", defines=CT, timeout=400, unwind=513, weight=6,
         malloc_fail=True, nochecks=["--conversion-check"], fp={"*": "env_never"},
         cases=[dict(id="hdr512", tier="quick")]),
]
