PROPERTY = "C04"
LEVEL = "proof"
FUNCTIONS = [
    "write_binary", "write_number", "write_number_signed", "read_number",
    "read_octal", "read_binary", "update_checksum", "is_checksum_valid",
    "decode_header", "fstree_add_generic", "mknode", "clamp_timestamp",
    "child_by_name", "process_tarball (mtime path)", "is_sparse_region",
    "strm_get_buffered_data", "strm_advance_buffer",
    "next / read_link / detect_hard_link / store_hard_link (dir_hl.c)",
    "write_tar_header", "write_header", "write_ext_header", "padd_file",
]
TRUSTED = [
    "sprintf contract (sprintf_model.h): output LENGTH and literal characters as the C standard defines them for the formats of write_header.c; every digit is an arbitrary character of its alphabet - no obligation depends on a digit",
    "CBMC library models of memcpy/memset/strlen/strcmp/strncpy/strdup/calloc/free; ctype.h via -D__NO_CTYPE (CBMC function models)",
    "glibc gnu_dev_major/minor/makedev encoding (harness model)",
    "rbtree_insert / rbtree_lookup contract (dir_hl): a finite map keyed by the tree's own compare function; insertion may fail",
    "contracts of the archive stream (error, EOF, or a window of any size >= 1), of the source directory iterator, of sqfs_ostream_t.append (any result), of fstree_get_node_by_path (returns the parent), of canonicalize_name, tar_compute_checksum (value proved in C07)",
]
ASSUMPTIONS = [
    "not decided: that GNU tar / Python accept the output, the byte-exact tar->sqfs->tar fixpoint across two tool runs, PAX record text and every octal/decimal digit produced by sprintf",
    "C04.chksum: update_checksum formats exactly the computed sum (< 8^6, six digits) and is_checksum_valid accepts iff the field parses to the computed sum; that tar_compute_checksum ignores the chksum field is visible in checksum.c (second loop adds blanks) but the mechanical equivalence proof (two 512-term adder chains) did not finish and is not registered",
    "8-byte base-256 fields hold 63 bits and must not start with 0xff: the round trip is claimed for v < 2^63 - 2^56 there (12-byte fields: all 64-bit values, negative values via two's complement)",
    "bounded: sparse maps <= 3 entries (accounting <= 1 quick / 2 thorough), hard-link filter <= 3 entries, process_tarball one entry, write_tar_header for the enumerated name/target lengths; C04.sparse.accounting assumes a well-formed map (sorted, disjoint, inside the file) - for hostile maps record_size may wrap (memory safety of that case is C07.strm.*)",
    "--conversion-check is off where the flagged conversions are intended narrowing (makedev, (unsigned long)value for %lo) - value fidelity of those fields is stated as named obligations instead",
    "C04.root_becomes (prefix strip / link retarget strings) is not covered",
]
EXPLANATION = ("encode/decode pairs of the tar dialect are verified as inverse or against independent spec functions "
               "on full 64-bit domains (number codec, header field rules, mtime clamp); list/stream logic (sparse "
               "regions, hard-link filter, long-name records) against spec functions on bounded shapes")

CT = {"__NO_CTYPE": None}

def _num(part, name):
    return [dict(id="%s_w%d" % (name, d), defines={"PART": part, "D": d, "__NO_CTYPE": None},
                 unwind=23, tier="quick") for d in (8, 12)]

HARNESSES = [
    dict(name="num", file="num.c", label="proved", defines=CT, timeout=900,
         nochecks=["--conversion-check"], fp={"*": "env_never"},
         cases=_num(0, "binary_roundtrip") + _num(1, "encoding_choice") +
               _num(2, "octal_value") + _num(3, "binary_value")),
    dict(name="chksum", file="chksum.c", label="proved", defines=CT, timeout=400, unwind=513, weight=6,
         nochecks=["--conversion-check"], fp={"*": "env_never"},
         # PART 0 (checksum == spec sum that skips the chksum field) is kept in chksum.c but not
         # registered: the equivalence of two 512-term adder chains did not finish (minisat 400 s,
         # cadical 200 s)
         cases=[dict(id="update", defines={"PART": 1, "__NO_CTYPE": None}, tier="quick",
                     unwindset=["sp_ndigits.0:23", "sp_digits.0:23"]),
                dict(id="valid_iff", defines={"PART": 2, "__NO_CTYPE": None}, tier="quick", unwind=3)]),
    dict(name="hdr_fields", file="hdr_fields.c", label="proved", defines=CT, timeout=400, unwind=513, weight=6,
         malloc_fail=True, nochecks=["--conversion-check"], fp={"*": "env_never"},
         cases=[dict(id="hdr512", tier="quick")]),
    dict(name="mtime_fstree", file="mtime_fstree.c", label="proved", defines=CT, timeout=400, unwind=6,
         pre_instrument_flags=["--replace-calls", "fstree_get_node_by_path:stub_get_node_by_path"],
         malloc_fail=True, fp={"*": "env_never"},
         cases=[dict(id="overwrite", defines={"PART": 0, "__NO_CTYPE": None}, tier="quick"),
                dict(id="create", defines={"PART": 1, "__NO_CTYPE": None}, tier="quick")]),
    dict(name="mtime_tarball", file="mtime_tarball.c", label="bounded(entries <= 1)", defines=CT, timeout=400,
         include_dirs=["bin/tar2sqfs/src"], unwind=4, malloc_fail=True, flags=["--memory-leak-check"],
         pre_instrument_flags=["--replace-calls", "set_root_attribs:stub_set_root_attribs",
                               "--replace-calls", "create_node_and_repack_data:stub_create_node"],
         fp={"next": "env_next", "read_link": "env_read_link", "*": "env_never"},
         cases=[dict(id="one_entry", tier="quick")]),
    dict(name="sparse", file="sparse.c", label="bounded(sparse map entries <= 3)", defines=CT, timeout=900, unwind=6,
         fp={"get_buffered_data": "env_get_buffered_data", "advance_buffer": "env_advance_buffer",
             "destroy": "it_destroy", "*": "env_never"},
         cases=[dict(id="region_n%d" % n, defines={"PART": 0, "NSPARSE": n, "__NO_CTYPE": None},
                     tier="quick") for n in (0, 1, 2, 3)] +
               [dict(id="accounting_n%d" % n, defines={"PART": 1, "NSPARSE": n, "__NO_CTYPE": None},
                     solver="cadical", tier="quick") for n in (0, 1)] +
               [dict(id="accounting_n2", defines={"PART": 1, "NSPARSE": 2, "__NO_CTYPE": None},
                     solver="cadical", tier="thorough", timeout=2400)]),
    dict(name="hl_filter", file="hl_filter.c", label="bounded(entries <= 3)", defines=CT, timeout=900,
         malloc_fail=True, flags=["--memory-leak-check"], unwind=5,
         fp={"next:next": "env_next", "read_link:read_link": "env_read_link", "key_compare": "compare_inum",
             "*": "env_never"},
         cases=[dict(id="n2", defines={"NENT": 2, "__NO_CTYPE": None}, tier="quick"),
                dict(id="n3", defines={"NENT": 3, "__NO_CTYPE": None}, tier="quick")]),
    dict(name="write_long", file="write_long.c", label="bounded(name/target lengths 5,99,100,130,600)", defines=CT,
         timeout=900, unwind=620, nochecks=["--conversion-check"],
         unwindset=["sp_ndigits.0:23", "sp_digits.0:23", "is_prefix.0:10"],
         fp={"append": "env_append", "*": "env_never"},
         cases=[dict(id="n%d_t%d" % (n, t), defines={"NLEN": n, "TLEN": t, "__NO_CTYPE": None}, tier="quick")
                for n, t in ((5, 0), (99, 0), (100, 0), (130, 0), (5, 99), (5, 100), (130, 130))] +
               [dict(id="n600_t0", defines={"NLEN": 600, "TLEN": 0, "__NO_CTYPE": None}, tier="thorough"),
                dict(id="n512_t0", defines={"NLEN": 512, "TLEN": 0, "__NO_CTYPE": None}, tier="thorough")]),
]
