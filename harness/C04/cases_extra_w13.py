# w13: sqfs2tar direction - the tar-compat iterator (bin/sqfs2tar/src/iterator.c)
FUNCTIONS = ["next (sqfs2tar iterator.c)", "keep_entry (path component filter)", "create_root_entry",
             "read_link / open_file_ro / read_xattr (sqfs2tar iterator.c)"]
TRUSTED = [
    "contract of the recursive source iterator under the sqfs2tar iterator (harness/C04/w13_s2t_next.c): entries are single heap blocks of sizeof(entry) + strlen(name) + 1 bytes whose names are canonical relative paths; any error / end-of-list at any call",
    "sqfs_xattr_list_copy / sqfs_xattr_list_free contracts (copy may fail)",
    "CBMC library models of strlen / strncmp / memcpy / memmove / realloc on the short names",
]
ASSUMPTIONS = [
    "w13_s2t_next (registered runs): next() without --subdir and without --root-becomes, <= 2 source entries, names of 1 or 3 bytes over {a, b, /}: entry passed through unchanged (fields, name, trailing '/' of directories), error / end-of-list sticky, no leak. The runs WITH --subdir (prefix strip) or --root-becomes (prefix add, root entry: -DPART=1, C04.s2t.root_entry) exist in the harness file but exhaust the 14 GB memory cap / give no verdict in 295 s (memmove at a symbolic offset + realloc on a heap block) and are NOT registered: the emitted NAME under --subdir / --root-becomes is therefore not verified; the FILTER under --subdir is (w13_s2t_keep, keep_entry alone against a path component specification, arbitrary byte strings <= 4 bytes)",
    "the trailing '/' sqfs2tar gives directory names is accepted, not demanded (tar convention, not in the manual); with a kept prefix the leading directories of a selected sub directory are part of the archive (reading of 'keep it as prefix')",
    "tar_compat_iterator_create (reader set-up glue) and write_entry / main of sqfs2tar.c are not covered here (main: C13 main_sqfs2tar)",
]

def _next_cases():
    out = []
    # only the runs without --subdir are registered: every NSUB >= 1 case hit the
    # 14 GB memory cap after ~110 s (the harness file supports them: -DNSUB=1/2)
    opts = [(0, 0, 0, 1)]   # with --root-becomes (RB=1): no verdict in 295 s (realloc + memmove)
    for nsub, keep, rb, sl0 in opts:
        for l0, l1 in ((3, 3), (1, 3)):
            quick = True
            out.append(dict(id="sub%d_keep%d_rb%d_sl%d_n%d%d" % (nsub, keep, rb, sl0, l0, l1),
                            defines={"PART": 0, "NSUB": nsub, "KEEP": keep, "RB": rb, "SL0": sl0,
                                     "L0": l0, "L1": l1, "__NO_CTYPE": None},
                            tier="quick" if quick else "thorough"))
    return out

_UW = ["next.0:4", "keep_entry.0:4", "strlen.0:9", "strncmp.0:6", "nd_path.0:6", "sp_len.0:6",
       "sp_inside.0:6", "sp_selected.0:4", "sp_leads_to_selected.0:4", "sp_name.0:6",
       "harness.0:4", "harness.1:4", "harness.2:10", "setup.0:4", "pr_init.0:13",
       "pr_known.0:13", "pr_known.1:50", "pr_forget.0:13"]
_FP = {"next": "env_src_next", "ignore_subdir": "env_src_ignore_subdir",
       "read_link": "env_src_read_link", "open_file_ro": "env_src_open_file_ro",
       "read_xattr": "env_src_read_xattr", "destroy": "env_never_destroy"}

HARNESSES = [
    dict(name="w13_s2t_keep", file="w13_s2t_next.c", timeout=400,
         label="bounded(names and sub directory strings <= 4 bytes, sub directories <= 2)",
         include_dirs=["bin/sqfs2tar/src"],
         unwindset=[u for u in _UW if not u.startswith("harness.")] +
                   ["harness.0:6", "harness.1:6", "harness.2:6", "harness.3:6"], fp=_FP,
         cases=[dict(id="nsub%d" % n, defines={"PART": 2, "NSUB": n, "KEEP": 1 if n > 1 else 0,
                                               "__NO_CTYPE": None}, tier="quick")
                for n in (0, 1, 2)]),
    # next() with one --subdir that becomes the root (-DPART=0 -DNSRC=1 -DNSUB=1): hits
    # the 14 GB memory cap after ~200 s (prefix strip memmove with a symbolic offset
    # on a heap block followed by realloc) - not registered
    dict(name="w13_s2t_next", file="w13_s2t_next.c", timeout=400, malloc_fail=True,
         label="bounded(source entries <= 2, names <= 3 bytes, no --subdir / --root-becomes)",
         include_dirs=["bin/sqfs2tar/src"], flags=["--memory-leak-check"], unwindset=_UW, fp=_FP,
         cases=_next_cases()),
    # the --root-becomes root entry (-DPART=1, obligations C04.s2t.root_entry) is in the
    # harness file but not registered: no verdict in 295 s
]
