/* C04.mtime.clamp (library side): fstree_add_generic / mknode
 * (lib/fstree/src/fstree.c) deliver clamp(mtime, 0, 2^32-1) into the tree
 * node for EVERY 64-bit mtime - never a truncated value - on both paths:
 *   PART 0  the entry names an implicitly created directory, which is made
 *           explicit (fields overwritten in place)
 *   PART 1  the entry creates a new node (mknode)
 * Path names are concrete (shape), every value is symbolic.
 * fstree_get_node_by_path (same translation unit) is redirected to its
 * contract: returns the parent directory of the last component.
 *
 *  C04.mtime.clamp    node->mod_time == (mtime < 0 ? 0 : mtime > 0xFFFFFFFF ?
 *                     0xFFFFFFFF : mtime)
 *  C04.mtime.fields   mode is the entry's mode; the node is the one named
 */
#include "verif.h"
#include "lib/fstree/src/fstree.c"

#ifndef PART
#define PART 0
#endif

typedef struct {
	tree_node_t n;
	char name[4];
} node_box_t;

static node_box_t g_root, g_child;
static fstree_t g_fs;

typedef struct {
	sqfs_dir_entry_t e;
	char name[4];
} ent_box_t;

tree_node_t *stub_get_node_by_path(fstree_t *fs, tree_node_t *root,
				   const char *path, bool create_implicitly,
				   bool stop_at_parent)
{
	VERIF_ASSERT(fs == &g_fs && root == &g_root.n && path != NULL &&
		     create_implicitly && stop_at_parent, "C04.mtime.lookup_pre");
	return &g_root.n;
}

int canonicalize_name(char *filename)
{
	(void)filename;
	return 0;
}

void harness(void)
{
	static ent_box_t ent;
	sqfs_s64 mtime = verif_nd_i64("mtime");
	sqfs_u32 want;
	tree_node_t *n;

	memset(&g_root, 0, sizeof(g_root));
	g_root.n.mode = S_IFDIR | 0755;
	g_root.n.name = (char *)g_root.n.payload;
	g_fs.root = &g_root.n;
#if PART == 0
	memset(&g_child, 0, sizeof(g_child));
	g_child.n.mode = S_IFDIR | 0755;
	g_child.n.flags = FLAG_DIR_CREATED_IMPLICITLY;
	g_child.n.name = (char *)g_child.n.payload;
	g_child.name[0] = 'd';
	g_child.n.parent = &g_root.n;
	g_child.n.mod_time = verif_nd_u32("old_mtime");
	g_root.n.data.children = &g_child.n;
#endif
	memset(&ent, 0, sizeof(ent));
	ent.e.name[0] = 'd';
	ent.e.mode = S_IFDIR | (verif_nd_u16("perm") & 07777);
	ent.e.uid = verif_nd_u32("uid");
	ent.e.gid = verif_nd_u32("gid");
	ent.e.mtime = mtime;

	n = fstree_add_generic(&g_fs, &ent.e, NULL);

	want = mtime < 0 ? 0 : (mtime > 0xFFFFFFFFLL ? 0xFFFFFFFFU :
				(sqfs_u32)mtime);
	if (n != NULL) {
#if PART == 0
		VERIF_ASSERT(n == &g_child.n &&
			     !(n->flags & FLAG_DIR_CREATED_IMPLICITLY),
			     "C04.mtime.fields");
#else
		VERIF_ASSERT(n != &g_root.n && n->name[0] == 'd' &&
			     n->name[1] == '\0', "C04.mtime.fields");
#endif
		VERIF_ASSERT(n->mode == ent.e.mode && n->uid == ent.e.uid &&
			     n->gid == ent.e.gid, "C04.mtime.fields");
		VERIF_ASSERT(n->mod_time == want, "C04.mtime.clamp");
		VERIF_COVER(mtime < 0);
		VERIF_COVER(mtime > 0x100000000LL);
		VERIF_COVER(mtime == 12345);
	}
#if PART == 1
	VERIF_COVER(n == NULL);
	free(n);
#endif
}
