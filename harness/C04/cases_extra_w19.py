# C04 (worker w19, round 2): functional contracts of the tar READER that the
# C04 set did not state (two planted slips were missed):
#  (A) read_header: extension records (GNU L/K, PAX x, PAX g) accumulate on the
#      member that follows them                        -> w19_ext_records.c
#  (B) read_gnu_new_sparse: the GNU 1.0 map consumes exactly k blocks of the
#      member's data area and out->record_size goes down by exactly 512*k;
#      decoded list == spec decode of the text          -> w19_new_sparse.c
#  (C) it_next skips exactly the 512-aligned rest of the previous member;
#      old GNU sparse extension headers: one 512-byte record each, chain ends
#      with isextended == 0; PAX numbers keep 64 bits    -> w19_iter_skip.c,
#      w19_old_sparse.c, w19_pax_numbers.c

CT = {"__NO_CTYPE": None}

L, K, X, G = 76, 75, 120, 103          # 'L' 'K' 'x' 'g'
T_FILE, T_LINK, T_SLINK = 48, 49, 50   # '0' '1' '2'
P_SIZE, P_UID, P_GID, P_NAME, P_LINK, P_MTIME = 0x1, 0x2, 0x4, 0x20, 0x40, 0x100
P_NUMS = P_SIZE | P_UID | P_GID | P_MTIME
P_ALL = P_NUMS | P_NAME | P_LINK


def _ext(cid, recs, tf=T_SLINK, tier="quick"):
    d = {"NREC": len(recs), "TF": tf, "__NO_CTYPE": None}
    for i, r in enumerate(recs):
        kind, keys = r if isinstance(r, tuple) else (r, 0)
        d["K%d" % i] = kind
        d["P%d" % i] = keys
    return dict(id=cid, defines=d, tier=tier)


_EXT_CASES = [
    _ext("none", []),
    _ext("none_file", [], tf=T_FILE),
    _ext("L", [L]), _ext("K", [K]), _ext("g", [G]),
    _ext("xall", [(X, P_ALL)]), _ext("xpath", [(X, P_NAME)]), _ext("xlink", [(X, P_LINK)]),
    _ext("xnums", [(X, P_NUMS)]), _ext("xuid_mtime", [(X, P_UID | P_MTIME)], tf=T_FILE),
    # the order GNU tar writes (K first) and the order Go's archive/tar writes (L first)
    _ext("K_L", [K, L]), _ext("L_K", [L, K]),
    _ext("K_L_hard", [K, L], tf=T_LINK), _ext("L_K_hard", [L, K], tf=T_LINK),
    _ext("L_L", [L, L]), _ext("K_K", [K, K]),
    _ext("xall_L", [(X, P_ALL), L]), _ext("xall_K", [(X, P_ALL), K]),
    _ext("xnums_L", [(X, P_NUMS), L]), _ext("xnums_K", [(X, P_NUMS), K]),
    _ext("xpath_K", [(X, P_NAME), K]), _ext("xlink_L", [(X, P_LINK), L]),
    _ext("L_xall", [L, (X, P_ALL)]), _ext("K_xall", [K, (X, P_ALL)]),
    _ext("g_L", [G, L]), _ext("L_g", [L, G]), _ext("g_xall", [G, (X, P_ALL)]), _ext("K_g", [K, G]),
    _ext("xnums_L_K", [(X, P_NUMS), L, K]), _ext("xnums_K_L", [(X, P_NUMS), K, L], tf=T_LINK),
    _ext("xall_K_L", [(X, P_ALL), K, L]), _ext("K_L_xall", [K, L, (X, P_ALL)]),
    _ext("L_g_K", [L, G, K], tf=T_LINK), _ext("g_K_L", [G, K, L]),
]
# A PAX record BEHIND a GNU long name / long link record of the same member:
# the reference readers (GNU tar, libarchive, Python tarfile) keep the long
# name; see proposed_known_findings_w19.json
_EXT_MIXED = [
    _ext("L_xnums", [L, (X, P_NUMS)]), _ext("K_xnums", [K, (X, P_NUMS)]),
    _ext("L_xlink", [L, (X, P_LINK)]), _ext("K_xpath", [K, (X, P_NAME)]),
    _ext("L_K_xnums", [L, K, (X, P_NUMS)], tf=T_LINK), _ext("L_xnums_K", [L, (X, P_NUMS), K]),
]

HARNESSES = [
    dict(name="w19_ext_records", file="w19_ext_records.c",
         label="bounded(extension records per member <= 3, kinds/key sets enumerated, payload strings < 8 bytes)",
         defines=CT, timeout=600, unwind=513, nochecks=["--conversion-check"],
         flags=["--memory-leak-check"], fp={"get_filename": "env_get_filename", "*": "env_never"},
         cases=_EXT_CASES + _EXT_MIXED),
]

def _ns(lw, nent, nblk, tier="quick"):
    return dict(id="lw%d_b%d" % (lw, nblk), defines={"LW": lw, "NENT": nent, "NBLK": nblk, "__NO_CTYPE": None},
                tier=tier)

HARNESSES += [
    dict(name="w19_new_sparse", file="w19_new_sparse.c",
         label="bounded(map blocks <= 3, line layouts 16/20 bytes; numbers symbolic)",
         defines=CT, timeout=600, unwind=70, flags=["--memory-leak-check"], native=False,
         pre_instrument_flags=["--replace-calls", "decode:stub_decode"],
         fp={"get_filename": "env_get_filename", "*": "env_never"},
         cases=[_ns(20, 2, 1), _ns(20, 13, 2), _ns(20, 26, 3),
                _ns(16, 15, 1), _ns(16, 16, 2), _ns(16, 32, 3)]),
]

HARNESSES += [
    dict(name="w19_decode_line", file="w19_decode_line.c",
         label="bounded(digits per line <= 7 quick / 10 thorough)", defines=CT, timeout=600, unwind=22,
         nochecks=["--conversion-check"], fp={"*": "env_never"},
         cases=[dict(id="d%d" % n, defines={"ND": n, "__NO_CTYPE": None}, tier="quick") for n in (1, 4, 7)] +
               [dict(id="d10", defines={"ND": 10, "__NO_CTYPE": None}, tier="thorough")]),
]

HARNESSES += [
    dict(name="w19_old_sparse", file="w19_old_sparse.c",
         label="bounded(extension headers <= 2)", defines=CT, timeout=600, unwind=100,
         nochecks=["--conversion-check"], flags=["--memory-leak-check"], native=False,
         fp={"get_filename": "env_get_filename", "*": "env_never"},
         cases=[dict(id="ext%d" % n, defines={"EXT": n, "__NO_CTYPE": None}, tier="quick") for n in (0, 1)] +
               [dict(id="ext2", defines={"EXT": 2, "__NO_CTYPE": None}, tier="thorough", timeout=1800)]),
]

# (C) obligations that exist under C07 and state C04 contracts as well: run them here too
# (it_next skips exactly record_size + padding before the next header: C07.it_next.skip;
#  unbounded record_size accounting of the GNU 1.0 map reader: C07.sparse_new.record_size)
import os as _os, sys as _sys
_sys.path.insert(0, _os.path.join(_os.path.dirname(_os.path.abspath(__file__)), "..", "..", "tools"))
from borrow import borrow as _borrow
HARNESSES += _borrow(__file__, "C07", ["iter_next", "new_sparse"], prefix="w19_c07_")

FUNCTIONS = ["read_header (extension-record accumulation, through the public entry point only)",
             "read_gnu_new_sparse (record_size accounting, list vs. text)", "decode (whole lines)",
             "read_gnu_old_sparse (extension header chain)", "it_next, read_gnu_new_sparse (borrowed C07 harnesses)"]
TRUSTED = ["w19_ext_records: contracts of record_to_memory (C12.record.*), read_pax_header (C07 pax_loop / w15), read_number (C04.num.*), tar_compute_checksum, is_memory_zero as stubs",
           "w19_new_sparse: decode() through its contract instantiated on the case's text layout (checked for whole lines <= 7/10 digits by w19_decode_line and in C07 decode_spec/decode_safety); calloc contract",
           "w19_old_sparse: read_number contract (value per field), calloc contract"]
ASSUMPTIONS = ["w19_ext_records: two PAX x records in front of one member are not in the case list (GNU tar: the last record wins as a whole, libarchive: per key - the format does not say); header name/linkname fields are short strings here (full width: C04.hdr.name/link)",
               "w19_new_sparse: real decode() on 15/19-digit lines did not finish (mul-overflow chains; > 600 s), hence the modular split"]
