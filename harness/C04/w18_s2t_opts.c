/* C04 / C13 (w18): the real process_args() of bin/sqfs2tar/src/options.c;
 * getopt_long, exit, strdup/free, strlist_append/strlist_cleanup,
 * canonicalize_name, the stream compressor name lookup and the printers are
 * contract stubs (C06/w18_optenv.h). NOPT options (concrete count), all values
 * symbolic. Model (s2_model) written from sqfs2tar.1.
 *
 *   C04.s2t_opts.subdirs       subdirs holds, in command line order, one copy
 *        per --subdir, each accepted by canonicalize_name and unchanged since
 *   C18.funnel.s2t_opts.refuse no return after canonicalize_name refused a
 *        word (or emptied a root)
 *   C04.s2t_opts.root_becomes  NULL without -r; "." for the special values "."
 *        and "./" (not canonicalised); otherwise the copy of the last -r word,
 *        accepted by canonicalize_name and not empty
 *   C04.s2t_opts.keep_as_dir   keep_as_dir <=> -k given or more than one -d
 *   C04.s2t_opts.flags_exact   no_xattr <=> -X, no_links <=> -L, dont_skip <=> -s
 *   C04.s2t_opts.compressor    compressor is the id the name lookup gave for
 *        the last -c (0 = none without -c); an unknown name never gets through
 *   C04.s2t_opts.filename      filename is the only non-option word
 *   C04.s2t_opts.must_exit / help_status / failure_status / exit_justified
 *   C13.s2t_opts.alloc_failstop  a failed allocation (list element, root copy)
 *        ends the tool unsuccessfully
 *   C13.s2t_opts.no_leak       at EVERY exit all blocks are released and the
 *        list is cleaned up; on return the live blocks are exactly
 *        root_becomes and the list elements
 */
#include "bin/sqfs2tar/src/sqfs2tar.h"

#ifndef NOPT
#define NOPT 2
#endif

static bool s2_has_arg(int c)
{
	return c == 'c' || c == 'd' || c == 'r';
}

static bool s2_is_opt(int c)
{
	return s2_has_arg(c) || c == 'k' || c == 's' || c == 'X' || c == 'L' ||
	       c == 'h' || c == 'V' || c == '?';
}

#define W18_IS_OPT(c) s2_is_opt(c)
#define W18_HAS_ARG(c) s2_has_arg(c)
#include "C06/w18_optenv.h"

/* ---------------------------------------------------------- strlist stubs */
static char *g_list_store[4];
static unsigned g_list_cleanups;
static bool g_alloc_failed_now;

int strlist_append(strlist_t *list, const char *str)
{
	char *p;

	VERIF_ASSERT(list == &subdirs && str != NULL && list->count <= 3 &&
		     (list->count == 0 || list->strings == g_list_store),
		     "w18.env.strlist_append.pre");
	p = w18_strdup(str);
	if (p == NULL)
		return -1;
	list->strings = g_list_store;
	list->capacity = 4;
	list->strings[list->count] = p;
	list->count += 1;
	return 0;
}

void strlist_cleanup(strlist_t *list)
{
	size_t i;

	VERIF_ASSERT(list == &subdirs && list->count <= 4,
		     "w18.env.strlist_cleanup.pre");
	g_list_cleanups += 1;
	for (i = 0; i < 4; ++i) {
		if (i < list->count)
			w18_free(list->strings[i]);
	}
	list->strings = NULL;
	list->count = 0;
	list->capacity = 0;
}

/* ------------------------------------------------- canonicalize_name stub */
static int g_cn_calls[5], g_cn_ret[5];
static bool g_cn_empty[5];
static char g_cn_out[5][W18_BUFSZ];
static bool g_cn_refused;

int canonicalize_name(char *filename)
{
	int i, s, n;

	VERIF_ASSERT(filename != NULL, "C18.funnel.canon.pre_nonnull");
	s = w18_pool_index(filename);
	VERIF_ASSERT(s >= 1 && s <= NOPT && g_pool_live[s] &&
		     (g_optc[s - 1] == 'r' || g_optc[s - 1] == 'd'),
		     "C18.funnel.s2t_opts.canon_arg");
	if (s < 1 || s > NOPT)
		return -1;
	g_cn_calls[s] += 1;
	if (verif_nd_bool("canon.refuses")) {
		g_cn_ret[s] = -1;
		g_cn_refused = true;
		return -1;
	}
	g_cn_ret[s] = 0;
	n = verif_nd_u8("canon.len");
	VERIF_ASSUME(n <= W18_ARGLEN);
	for (i = 0; i < W18_BUFSZ; ++i) {
		uint8_t b = i < n ? verif_nd_u8("canon.out") : 0;

		VERIF_ASSUME(i >= n || b != 0);
		w18_put(&filename[i], b);
		w18_put(&g_cn_out[s][i], b);
	}
	g_cn_empty[s] = n == 0;
	return 0;
}

/* stream compressor lookup: a function of the word */
static bool g_xc_ok[3];
static int g_xc_id[3];

int xfrm_compressor_id_from_name(const char *name)
{
	int i;

	for (i = 0; i < 3; ++i) {
		if (name == g_argtab[i])
			return g_xc_ok[i] ? g_xc_id[i] : -1;
	}
	VERIF_ASSERT(0, "w18.env.xfrm_id.pre");
	return -1;
}

const char *xfrm_compressor_name_from_id(int id) { (void)id; return NULL; }

#include "bin/sqfs2tar/src/options.c"

/* ------------------------------------------- model, from sqfs2tar.1 only */
static int m_stop, m_r, m_c, m_nd;
static int m_d[3];
static bool m_k, m_s, m_X, m_L;

static void s2_model(int n)
{
	int k;

	m_stop = m_r = m_c = -1;
	m_nd = 0;
	m_d[0] = m_d[1] = m_d[2] = -1;
	m_k = m_s = m_X = m_L = false;

	for (k = 0; k < n; ++k) {
		switch (g_optc[k]) {
		case 'c': m_c = k; break;
		case 'r': m_r = k; break;
		case 'd': m_d[m_nd] = k; m_nd += 1; break;
		case 'k': m_k = true; break;
		case 's': m_s = true; break;
		case 'X': m_X = true; break;
		case 'L': m_L = true; break;
		default:
			if (m_stop < 0)
				m_stop = k;
			break;
		}
	}
}

static bool s2_is_dot(const char *w)
{
	return w[0] == '.' && (w[1] == '\0' || (w[1] == '/' && w[2] == '\0'));
}

static void s2_check_released(void)
{
	int i;

	for (i = 0; i < W18_NSLOT; ++i)
		VERIF_ASSERT(!g_pool_live[i], "C13.s2t_opts.no_leak");
	VERIF_ASSERT(subdirs.count == 0 && subdirs.strings == NULL,
		     "C13.s2t_opts.no_leak");
}

static void w18_on_exit(int status)
{
	int k = g_pos - 1, i;

	s2_check_released();

	if (g_pos == 0) {
		VERIF_ASSERT(0, "C04.s2t_opts.exit_justified");
	} else if (g_pos <= NOPT) {
		int c = g_optc[k];

		if (c == 'h' || c == 'V') {
			VERIF_ASSERT(status == EXIT_SUCCESS, "C04.s2t_opts.help_status");
#if NOPT >= 1
			VERIF_COVER(status == EXIT_SUCCESS);
#endif
		} else {
			VERIF_ASSERT(status != EXIT_SUCCESS, "C04.s2t_opts.failure_status");
			VERIF_ASSERT(c == '?' ||
				     (c == 'c' && (!g_xc_ok[k])) ||
				     ((c == 'r' || c == 'd') && g_pool_failed[k + 1]) ||
				     (c == 'r' && g_cn_calls[k + 1] >= 1 &&
				      (g_cn_ret[k + 1] != 0 || g_cn_empty[k + 1])),
				     "C04.s2t_opts.exit_justified");
#if NOPT >= 1
			VERIF_COVER(c == 'd' && g_pool_failed[k + 1]);
			VERIF_COVER(c == 'r' && g_cn_refused);
			VERIF_COVER(c == 'c');
#endif
#if NOPT >= 2
			VERIF_COVER(c == 'd' && g_pool_failed[k + 1] && g_optc[0] == 'd' && k == 1);
#endif
		}
	} else {
		bool refused = false;

		s2_model(NOPT);
		for (i = 0; i < 3; ++i) {
			if (i < m_nd && g_cn_calls[m_d[i] + 1] >= 1 &&
			    g_cn_ret[m_d[i] + 1] != 0)
				refused = true;
		}
		VERIF_ASSERT(status != EXIT_SUCCESS, "C04.s2t_opts.failure_status");
		VERIF_ASSERT(refused || g_optind_final != g_argc - 1,
			     "C04.s2t_opts.exit_justified");
		VERIF_COVER(status != EXIT_SUCCESS);
#if NOPT >= 1
		VERIF_COVER(refused);
#endif
	}
}

void harness(void)
{
	bool live_ok[5];
	int k, i;

	w18_env_init();
	w18_args_symbolic();
	for (i = 0; i < 5; ++i) {
		g_cn_calls[i] = 0;
		g_cn_ret[i] = 0;
		g_cn_empty[i] = false;
		live_ok[i] = false;
	}
	for (i = 0; i < 3; ++i) {
		g_xc_ok[i] = verif_nd_bool("xfrm.known");
		g_xc_id[i] = verif_nd_int("xfrm.id");
		VERIF_ASSUME(g_xc_id[i] >= XFRM_COMPRESSOR_MIN &&
			     g_xc_id[i] <= XFRM_COMPRESSOR_MAX);
	}
	for (i = 0; i < 4; ++i)
		g_list_store[i] = NULL;
	g_cn_refused = false;
	g_list_cleanups = 0;
	/* the tool's globals: a fresh process */
	dont_skip = keep_as_dir = no_xattr = no_links = false;
	root_becomes = NULL;
	subdirs.strings = NULL;
	subdirs.count = 0;
	subdirs.capacity = 0;
	compressor = 0;
	filename = NULL;

	W18_RUN(process_args(g_argc, g_argv));
	if (g_exited)
		return;

	s2_model(NOPT);

	VERIF_ASSERT(m_stop < 0 && g_optind_final == g_argc - 1,
		     "C04.s2t_opts.must_exit");
	VERIF_ASSERT(!g_cn_refused, "C18.funnel.s2t_opts.refuse");
	VERIF_ASSERT(g_alloc_faults == 0, "C13.s2t_opts.alloc_failstop");

	/* sub directories */
	VERIF_ASSERT(subdirs.count == (size_t)m_nd, "C04.s2t_opts.subdirs");
	for (i = 0; i < 3; ++i) {
		if (i < m_nd && subdirs.count == (size_t)m_nd) {
			int s = m_d[i] + 1;

			VERIF_ASSERT(subdirs.strings[i] == g_pool[s] &&
				     g_pool_live[s] &&
				     g_pool_src[s] == g_argtab[m_d[i]] &&
				     g_cn_calls[s] == 1 && g_cn_ret[s] == 0 &&
				     w18_streq(g_pool[s], g_cn_out[s]),
				     "C04.s2t_opts.subdirs");
			live_ok[s] = true;
		}
	}

	/* root */
	if (m_r < 0) {
		VERIF_ASSERT(root_becomes == NULL, "C04.s2t_opts.root_becomes");
	}
	for (k = 0; k < NOPT; ++k) {
		if (k != m_r)
			continue;
		VERIF_ASSERT(root_becomes == g_pool[k + 1] && g_pool_live[k + 1] &&
			     g_pool_src[k + 1] == g_argtab[k],
			     "C04.s2t_opts.root_becomes");
		live_ok[k + 1] = true;
		if (s2_is_dot(g_argtab[k])) {
			VERIF_ASSERT(g_cn_calls[k + 1] == 0 &&
				     g_pool[k + 1][0] == '.' && g_pool[k + 1][1] == '\0',
				     "C04.s2t_opts.root_becomes");
		} else {
			VERIF_ASSERT(g_cn_calls[k + 1] == 1 && g_cn_ret[k + 1] == 0 &&
				     !g_cn_empty[k + 1] &&
				     w18_streq(g_pool[k + 1], g_cn_out[k + 1]),
				     "C04.s2t_opts.root_becomes");
		}
	}
	for (i = 0; i < W18_NSLOT; ++i)
		VERIF_ASSERT(!g_pool_live[i] || live_ok[i], "C13.s2t_opts.no_leak");

	VERIF_ASSERT(keep_as_dir == (m_k || m_nd > 1), "C04.s2t_opts.keep_as_dir");
	VERIF_ASSERT(no_xattr == m_X && no_links == m_L && dont_skip == m_s,
		     "C04.s2t_opts.flags_exact");
	if (m_c >= 0) {
		VERIF_ASSERT(g_xc_ok[m_c] && compressor == g_xc_id[m_c],
			     "C04.s2t_opts.compressor");
	} else {
		VERIF_ASSERT(compressor == 0, "C04.s2t_opts.compressor");
	}
	for (k = 0; k < NOPT; ++k) {
		if (g_optc[k] == 'c')
			VERIF_ASSERT(g_xc_ok[k], "C04.s2t_opts.compressor");
	}
	VERIF_ASSERT(filename != NULL && filename == g_argv[g_optind_final],
		     "C04.s2t_opts.filename");

	VERIF_COVER(true);
#if NOPT >= 1
	VERIF_COVER(m_nd == 1 && !keep_as_dir);
	VERIF_COVER(m_r >= 0 && s2_is_dot(g_argtab[m_r]));
	VERIF_COVER(m_r >= 0 && !s2_is_dot(g_argtab[m_r]));
	VERIF_COVER(m_c >= 0);
#endif
#if NOPT >= 2
	VERIF_COVER(m_nd == 2);
	VERIF_COVER(m_nd == 1 && m_k);
	VERIF_COVER(m_r == 1 && g_optc[0] == 'r');
#endif
#if NOPT >= 3
	VERIF_COVER(m_nd == 3);
	VERIF_COVER(m_nd == 2 && m_r == 1);
#endif
}
