/* C18: is_filename_sane (non-Windows branch), every NUL-terminated string
 * shorter than SANE_MAX bytes (symbolic size and contents). The scan loop is
 * closed by a loop contract (contracts/loops.tbl); the two strcmp() calls
 * against the literals "." and ".." use CBMC's library model unwound 4 times,
 * which is complete (the literal ends after at most 3 bytes; the unwinding
 * assertion proves it).
 *   in_bounds / terminates             pointer checks, decreases clause
 *   C18.sane.scan_no_slash (invariant) every position the scan has passed
 *                                      holds no '/', for a ghost witness index
 *   C18.sane.reject_dot / reject_dotdot
 * The full "accept <=> ..." equivalence is the bounded harness sane_iff.c.
 */
#include <stdlib.h>
#include "verif.h"
size_t g_sane_L;         /* ghost: index of a NUL byte */
size_t g_sane_w;         /* ghost: witness position */
const char *g_sane_base; /* ghost: start of the string */
#include "lib/util/src/filename_sane.c"

#ifndef SANE_MAX
#define SANE_MAX 4096
#endif

void harness(void)
{
	size_t n = verif_nd_size("n");
	char *p;
	bool os = verif_nd_bool("os"), ret;

	VERIF_ASSUME(n >= 1 && n <= SANE_MAX);
	p = malloc(n);
	VERIF_ASSUME(p != NULL);
	g_sane_L = verif_nd_size("L");
	VERIF_ASSUME(g_sane_L < n && p[g_sane_L] == 0);
	g_sane_w = verif_nd_size("w");
	VERIF_ASSUME(g_sane_w < g_sane_L);
	g_sane_base = p;

	ret = is_filename_sane(p, os);

	if (p[0] == '.' && p[1 <= g_sane_L ? 1 : 0] == 0)
		VERIF_ASSERT(!ret, "C18.sane.reject_dot");
	if (g_sane_L >= 2 && p[0] == '.' && p[1] == '.' && p[2] == 0)
		VERIF_ASSERT(!ret, "C18.sane.reject_dotdot");
	if (p[0] == '/')
		VERIF_ASSERT(!ret, "C18.sane.reject_leading_slash");
	VERIF_COVER(ret);
	VERIF_COVER(!ret);
	VERIF_COVER(ret && g_sane_L > 4 && p[0] != 0 && p[1] != 0 && p[2] != 0);
}
