/* C18 (bounded stand-in): is_filename_sane on every byte string of length
 * LEN (embedded NULs give the shorter ones), both values of the flag:
 *   C18.sane.iff   true <=> name != "." && name != ".." && no '/' in name
 */
#include "verif.h"
size_t g_sane_L, g_sane_w;
const char *g_sane_base;
#include "lib/util/src/filename_sane.c"

#ifndef LEN
#define LEN 4
#endif

void harness(void)
{
	char s[LEN + 1];
	size_t i;
	bool has_slash = false, os = verif_nd_bool("os"), ret, want;
	size_t len = LEN;

	verif_nd_bytes(s, LEN, "s");
	s[LEN] = 0;
	for (i = 0; i < LEN; ++i) {
		if (s[i] == 0) {
			len = i;
			break;
		}
		if (s[i] == '/')
			has_slash = true;
	}
	want = !has_slash &&
	       !(len == 1 && s[0] == '.') &&
	       !(len == 2 && s[0] == '.' && s[1] == '.');
	ret = is_filename_sane(s, os);
	VERIF_ASSERT(ret == want, "C18.sane.iff");
	VERIF_COVER(ret);
	VERIF_COVER(!ret && has_slash);
	VERIF_COVER(!ret && !has_slash);
}
