/* C18 (call-site clause: "command line paths ... are funnelled through these
 * functions"): bin/rdsquashfs/src/options.c get_path(), which every path
 * option (-l -c -x -s -u) of rdsquashfs goes through. Callees are contract
 * stubs; exit() does not return.
 *   C18.funnel.rd_getpath.canon   a path is only returned if
 *        canonicalize_name() was called on the returned string and accepted
 *        it; refusal ends the process with a failure status
 * loop-free, full domain -> proved.
 */
#include <stdlib.h>
#include <string.h>
#include <stdio.h>
#include "verif.h"

static char g_buf[8];
static char *g_cn_arg;
static int g_cn_calls, g_cn_ret;
static int g_exit_called, g_exit_status;
static int g_freed_after_refusal;

int canonicalize_name(char *filename)
{
	VERIF_ASSERT(filename != NULL, "C18.funnel.canon.pre_nonnull");
	g_cn_arg = filename;
	g_cn_calls += 1;
	g_cn_ret = verif_nd_bool("canon_refuses") ? -1 : 0;
	return g_cn_ret;
}

#ifndef VERIF_REPLAY
char *strdup(const char *s)
{
	(void)s;
	if (verif_nd_bool("strdup_fails"))
		return NULL;
	return g_buf;
}

void free(void *p)
{
	if (p == g_buf && g_cn_calls > 0 && g_cn_ret != 0)
		g_freed_after_refusal = 1;
}

void exit(int status)
{
	g_exit_called = 1;
	g_exit_status = status;
	VERIF_ASSERT(status != 0, "C18.funnel.rd_getpath.failure_status");
	VERIF_COVER(g_cn_calls == 1 && g_cn_ret != 0);
	VERIF_ASSUME(0);
}

void perror(const char *s) { (void)s; }
int fprintf(FILE *stream, const char *format, ...) { (void)stream; (void)format; return 0; }
#endif

#include "bin/rdsquashfs/src/options.c"

void harness(void)
{
	char arg[4];
	char *r;

	verif_nd_bytes(arg, 3, "arg");
	arg[3] = 0;
	r = get_path(NULL, arg);

	/* reached only if exit() was not called */
	VERIF_ASSERT(r != NULL && g_cn_calls == 1 && g_cn_ret == 0 && g_cn_arg == r,
		     "C18.funnel.rd_getpath.canon");
	VERIF_COVER(r != NULL);
}
