/* C18 (call-site clause: "archive member names ... are funnelled through
 * these functions"): lib/tar/src/iterator.c it_next() with its callees
 * replaced by contract stubs.
 *   C18.funnel.tar_next.name_canon   an entry is only handed out (return 0,
 *        *out != NULL) if, after the LAST header was read, canonicalize_name()
 *        was called on that header's name and accepted it, and the entry is
 *        created from that same string
 *   C18.funnel.tar_next.refuse       if canonicalize_name() refuses, it_next
 *        reports SQFS_ERROR_CORRUPTED, hands out nothing, and stays failed
 * bounded stand-in: at most MAX_HDR headers per call (skipped records /
 * excluded directories cause retries).
 */
#include <stdlib.h>
#include <string.h>
#include "verif.h"

#ifndef MAX_HDR
#define MAX_HDR 3
#endif

#include "xfrm/compress.h"
#include "tar/format.h"
#include "tar/tar.h"
#include "sqfs/error.h"
#include "sqfs/io.h"
#include "util/util.h"
#include "compat.h"
#include "sqfs/dir_entry.h"

static char g_names[MAX_HDR][8];
static int g_hdr_calls;          /* read_header calls so far */
static int g_hdr_seq, g_canon_seq, g_create_seq, g_seq;
static char *g_cn_arg;
static int g_cn_ret;
static const char *g_create_arg;
static sqfs_dir_entry_t g_entry;

int sqfs_istream_skip(sqfs_istream_t *strm, sqfs_u64 size)
{
	(void)strm; (void)size;
	return verif_nd_bool("skip_fails") ? SQFS_ERROR_IO : 0;
}

void clear_header(tar_header_decoded_t *hdr)
{
	memset(hdr, 0, sizeof(*hdr));
}

int read_header(sqfs_istream_t *fp, tar_header_decoded_t *out)
{
	(void)fp;
	if (verif_nd_bool("hdr_fails"))
		return verif_nd_bool("hdr_eof") ? 1 : SQFS_ERROR_IO;
	VERIF_ASSUME(g_hdr_calls < MAX_HDR);
	out->name = g_names[g_hdr_calls];
	out->mode = verif_nd_u16("mode");
	out->record_size = verif_nd_u64("record_size");
	out->actual_size = verif_nd_u64("actual_size");
	out->unknown_record = verif_nd_bool("unknown");
	out->is_hard_link = verif_nd_bool("hardlink");
	out->mtime = verif_nd_i64("mtime");
	g_hdr_calls += 1;
	g_hdr_seq = ++g_seq;
	return 0;
}

int canonicalize_name(char *filename)
{
	VERIF_ASSERT(filename != NULL, "C18.funnel.canon.pre_nonnull");
	g_cn_arg = filename;
	g_canon_seq = ++g_seq;
	g_cn_ret = verif_nd_bool("canon_refuses") ? -1 : 0;
	return g_cn_ret;
}

int fnmatch(const char *pattern, const char *string, int flags)
{
	(void)pattern; (void)string; (void)flags;
	return verif_nd_bool("excluded") ? 0 : 1;
}

sqfs_dir_entry_t *sqfs_dir_entry_create(const char *name, sqfs_u16 mode,
					sqfs_u16 flags)
{
	g_create_arg = name;
	g_create_seq = ++g_seq;
	if (verif_nd_bool("create_fails"))
		return NULL;
	g_entry.mode = mode;
	g_entry.flags = flags;
	return &g_entry;
}

#include "lib/tar/src/iterator.c"

void harness(void)
{
	static tar_iterator_t tar;
	static char *excl[1] = { "x" };
	sqfs_dir_entry_t *out = (sqfs_dir_entry_t *)&tar; /* poison */
	int ret, ret2;

	tar.locked = false;
	tar.state = 0;
	tar.record_size = verif_nd_u64("rs");
	tar.padding = verif_nd_size("pad");
	tar.excludedirs = excl;
	tar.num_excludedirs = verif_nd_bool("have_excl") ? 1 : 0;

	ret = it_next((sqfs_dir_iterator_t *)&tar, &out);

	VERIF_COVER(ret == 0 && g_hdr_calls == 2);
	VERIF_COVER(ret == SQFS_ERROR_CORRUPTED);
	if (ret == 0) {
		VERIF_ASSERT(out != NULL &&
			     g_hdr_seq < g_canon_seq && g_canon_seq < g_create_seq &&
			     g_cn_ret == 0 &&
			     g_cn_arg == g_names[g_hdr_calls - 1] &&
			     g_create_arg == g_cn_arg,
			     "C18.funnel.tar_next.name_canon");
	}
	if (g_canon_seq > g_hdr_seq && g_cn_ret != 0) {
		VERIF_ASSERT(ret == SQFS_ERROR_CORRUPTED && out == NULL &&
			     tar.state == SQFS_ERROR_CORRUPTED,
			     "C18.funnel.tar_next.refuse");
		ret2 = it_next((sqfs_dir_iterator_t *)&tar, &out);
		VERIF_ASSERT(ret2 == SQFS_ERROR_CORRUPTED && out == NULL,
			     "C18.funnel.tar_next.refuse_sticky");
	}
}
