/* C18: canonicalize_name / normalize_slashes, every string shorter than
 * CANON_MAX bytes (symbolic buffer size, symbolic contents), all five loops
 * closed by the loop contracts of contracts/loops.tbl - no unwinding.
 *
 *  requires  filename points to n bytes, filename[L] == 0 for a ghost L < n
 *  ensures   C18.canon.status_domain   return value is 0 or -1
 *            C18.canon.never_grows     filename[L] == 0 still: the result is
 *                                      NUL-terminated inside the original
 *                                      extent, so strlen never grows
 *            in_bounds                 (CBMC pointer checks on every access)
 *            terminates                (decreases clause of every loop)
 */
#include <stdlib.h>
#include "canonicalize_name.h"
#include "lib/util/src/canonicalize_name.c"

void harness(void)
{
	size_t n = verif_nd_size("n");
	char *p;
	int ret;

	VERIF_ASSUME(n >= 1 && n <= CANON_MAX);
	p = malloc(n);
	VERIF_ASSUME(p != NULL);
	g_canon_L = verif_nd_size("L");
	VERIF_ASSUME(g_canon_L < n);
	VERIF_ASSUME(p[g_canon_L] == 0);

	ret = canonicalize_name(p);

	VERIF_ASSERT(ret == 0 || ret == -1, "C18.canon.status_domain");
	VERIF_ASSERT(p[g_canon_L] == 0, "C18.canon.never_grows");
	VERIF_COVER(ret == 0);
	VERIF_COVER(ret == -1);
	VERIF_COVER(ret == 0 && g_canon_L > 3 && p[0] != 0);
}
