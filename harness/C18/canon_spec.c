/* C18 (bounded stand-in, never counted as proved): every byte string of
 * length exactly LEN (full alphabet, fully symbolic - embedded NULs give the
 * shorter lengths too) against the independent spec of spec/canon_spec.h.
 *   C18.canon.fails_iff_dotdot   ret == -1  <=>  some component is ".."
 *   C18.canon.output_eq_spec     on success the string equals the spec's
 *   C18.canon.clean              ... and is clean
 *   C18.canon.idempotent         a second call succeeds and changes nothing
 */
#include <string.h>
#include "verif.h"
#include "canon_spec.h"
size_t g_canon_L;
#include "lib/util/src/canonicalize_name.c"

#ifndef LEN
#define LEN 4
#endif

void harness(void)
{
	char in[LEN + 1], buf[LEN + 1], want[LEN + 1], again[LEN + 1];
	int ret, sret, ret2;
	size_t i;
	int eq = 1, eq2 = 1;

	verif_nd_bytes(in, LEN, "in");
	in[LEN] = '\0';
	for (i = 0; i <= LEN; ++i)
		buf[i] = in[i];

	sret = spec_canon(in, want);
	ret = canonicalize_name(buf);

	VERIF_ASSERT((ret == -1) == (sret == -1), "C18.canon.fails_iff_dotdot");
	VERIF_ASSERT(ret == 0 || ret == -1, "C18.canon.status_domain");
	VERIF_COVER(ret == 0);
	VERIF_COVER(ret == -1);
	if (ret == 0) {
		for (i = 0; i <= LEN; ++i) {
			if (buf[i] != want[i])
				eq = 0;
			if (want[i] == '\0')
				break;
		}
		VERIF_ASSERT(eq, "C18.canon.output_eq_spec");
		VERIF_ASSERT(spec_is_clean(buf), "C18.canon.clean");

		for (i = 0; i <= LEN; ++i)
			again[i] = buf[i];
		ret2 = canonicalize_name(again);
		for (i = 0; i <= LEN; ++i) {
			if (again[i] != buf[i])
				eq2 = 0;
			if (buf[i] == '\0')
				break;
		}
		VERIF_ASSERT(ret2 == 0 && eq2, "C18.canon.idempotent");
		VERIF_COVER(buf[0] != '\0' && buf[0] != in[0]);
	}
}
