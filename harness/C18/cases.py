PROPERTY = "C18"
LEVEL = "proof"
FUNCTIONS = ["canonicalize_name", "normalize_slashes", "is_filename_sane", "mknode (call site: hard-link target)", "it_next (call site: tar member name)", "get_path of rdsquashfs (call site: command line paths)", "handle_line of gensquashfs (call site: pack file paths)"]
TRUSTED = ["CBMC library model of strcmp (used by is_filename_sane)",
           "malloc never returns overlapping objects (CBMC memory model)"]
ASSUMPTIONS = [
    "strings shorter than 4096 bytes (thorough tier; 256 bytes in the quick tier) for the unbounded-loop proofs; the buffer size is symbolic below that cap",
    "the equivalence of canonicalize_name with the independent spec (fails iff '..', output equals spec, clean, idempotent) is a bounded stand-in: all byte strings up to the stated length, not counted as proved",
    "is_filename_sane 'true <=> not ., not .., no /' (sane_iff_unb) is discharged through the scan loop's contract for every string of length <= 255 (quick) / <= 4095 (thorough) in a fixed-size object; 'first NUL' is a quantifier over that constant range expanded by the SAT back end; sane_iff (len<=12 by unwinding) is kept as an independent bounded cross-check",
    "function contract of canonicalize_name is enforced by the harness (assume/assert), not by --dfcc: dfcc plus nested pointer loop contracts does not terminate in symex (tool limit)",
    "call sites that funnel names through these functions are covered by C06/C07 obligations, not here",
    "Windows branch of is_filename_sane is preprocessed away",
]
EXPLANATION = ("loop contracts on the five loops of canonicalize_name.c and the scan loop of "
               "filename_sane.c give safety/termination/no-growth for all lengths; the functional "
               "equivalence of canonicalize_name with a spec function is bounded symbolic execution; the "
               "is_filename_sane equivalence is proved through the loop contract (sane_iff_unb)")

def _lens(lo, hi, tier):
    return [dict(id="len%d" % n, defines={"LEN": n}, tier=tier, unwind=n + 3)
            for n in range(lo, hi + 1)]

HARNESSES = [
    dict(name="canon_safety", file="canon_safety.c",
         loops=["normalize_slashes", "canonicalize_name"],
         label="proved", timeout=1500, weight=10,
         cases=[dict(id="max256", defines={"CANON_MAX": 256}, tier="quick"),
                dict(id="max4096", defines={"CANON_MAX": 4096}, tier="thorough")]),
    dict(name="sane_safety", file="sane.c", loops=["is_filename_sane"],
         label="proved", timeout=900, unwindset=["strcmp.0:4"],
         cases=[dict(id="max4096", defines={"SANE_MAX": 4096}, tier="quick")]),
    dict(name="canon_spec", file="canon_spec.c", label="bounded(len<=7)",
         timeout=3000,
         cases=_lens(2, 7, "quick") +
               [dict(id="len%d" % n, defines={"LEN": n}, tier="thorough",
                     unwind=n + 3, label="bounded(len<=10)") for n in range(8, 11)]),
    dict(name="funnel_mknode", file="funnel_mknode.c",
         label="bounded(name length 2, target length 4)", unwind=8, timeout=300,
         cases=[dict(id="n2e4", defines={"NAME_LEN": 2, "EXTRA_LEN": 4}, tier="quick")]),
    dict(name="funnel_tar_next", file="funnel_tar_next.c",
         label="bounded(headers per call <= 3)", unwind=5, timeout=300,
         nochecks=["--conversion-check"],
         cases=[dict(id="hdr3", defines={"MAX_HDR": 3}, tier="quick")]),
    dict(name="funnel_rd_getpath", file="funnel_rd_getpath.c", label="proved",
         timeout=300, native=False, include_dirs=["bin/rdsquashfs/src"]),
    dict(name="funnel_packfile", file="funnel_packfile.c",
         label="bounded(path length 3)", unwind=12, timeout=300,
         include_dirs=["bin/gensquashfs/src"], nochecks=["--conversion-check"],
         fp={"callback": ["add_generic", "add_device", "add_file"],
             "get_filename": None},   # in fstree_from_file_stream, not reachable from the harness
         cases=[dict(id=k, defines={"KEYWORD": '"%s"' % k, "PATH_LEN": 3}, tier="quick")
                for k in ("dir", "slink", "link", "nod", "pipe", "sock", "file", "glob")]),
    dict(name="sane_iff_unb", file="sane_iff_unb.c", loops=["is_filename_sane"],
         label="proved", timeout=900, unwindset=["strcmp.0:4"],
         cases=[dict(id="n255", defines={"SANE_N": 255}, tier="quick"),
                dict(id="n4095", defines={"SANE_N": 4095}, tier="thorough")]),
    dict(name="sane_iff", file="sane_iff.c", label="bounded(len<=12)",
         timeout=900,
         cases=[dict(id="len%d" % n, defines={"LEN": n}, tier="quick", unwind=n + 3)
                for n in (1, 2, 3, 6, 12)]),
]
