/* C18: is_filename_sane (non-Windows branch) against the property text for
 * EVERY NUL-terminated string of length <= SANE_N (full byte alphabet, both
 * values of the flag); the scan loop is closed by its loop contract
 * (contracts/loops.tbl), nothing is unwound except strcmp() against the
 * literals "." and ".." (complete at 4, unwinding assertion on).
 * g_sane_L is the index of the FIRST NUL: stated with a quantifier over the
 * constant range [0,SANE_N), which the SAT back end expands.
 *   C18.sane.unb.rejects_slash   a '/' at any (witness) index before the
 *                                terminator => false
 *   C18.sane.unb.rejects_dot / rejects_dotdot
 *   C18.sane.unb.accepts_clean   no '/' before the terminator, not "." and
 *                                not ".." => true
 * The four together are "true <=> name not in {".",".."} and no '/' in name".
 */
#include "verif.h"
size_t g_sane_L, g_sane_w;
const char *g_sane_base;
#include "lib/util/src/filename_sane.c"

#ifndef SANE_N
#define SANE_N 4095
#endif

static char s[SANE_N + 1];

void harness(void)
{
	bool os = verif_nd_bool("os"), noslash = verif_nd_bool("noslash");
	bool ret, dot, dotdot;
	size_t F = verif_nd_size("F"), w = verif_nd_size("w");

	VERIF_ASSUME(F <= SANE_N);
	verif_nd_bytes(s, SANE_N, "s"); /* every byte symbolic, on the tape */
#ifdef VERIF_REPLAY
	{
		size_t k;
		for (k = 0; k < F; ++k) {
			VERIF_ASSUME(s[k] != 0);
			if (noslash)
				VERIF_ASSUME(s[k] != '/');
		}
	}
#else
	__CPROVER_assume(__CPROVER_forall { size_t k; (k < SANE_N) ==>
			 (k < F ==> s[k] != 0) });
	if (noslash)
		__CPROVER_assume(__CPROVER_forall { size_t k; (k < SANE_N) ==>
				 (k < F ==> s[k] != '/') });
#endif
	s[F] = 0;
	g_sane_base = s;
	g_sane_L = F;
	g_sane_w = w;
	VERIF_ASSUME(w < F || (F == 0 && w == 0));

	dot = (F == 1 && s[0] == '.');
	dotdot = (F == 2 && s[0] == '.' && s[1] == '.');

	ret = is_filename_sane(s, os);

	if (F > 0 && s[w] == '/')
		VERIF_ASSERT(!ret, "C18.sane.unb.rejects_slash");
	if (dot)
		VERIF_ASSERT(!ret, "C18.sane.unb.rejects_dot");
	if (dotdot)
		VERIF_ASSERT(!ret, "C18.sane.unb.rejects_dotdot");
	if (noslash && !dot && !dotdot)
		VERIF_ASSERT(ret, "C18.sane.unb.accepts_clean");
	VERIF_COVER(ret && F > 8);
	VERIF_COVER(!ret && F > 8 && w > 3 && s[w] == '/');
	VERIF_COVER(!ret && dot);
	VERIF_COVER(!ret && dotdot);
	VERIF_COVER(ret && F == 0);
}
