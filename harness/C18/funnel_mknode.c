/* C18 (call-site clause "all tools funnel ... link targets through these
 * functions"): lib/fstree/src/fstree.c mknode() with canonicalize_name()
 * replaced by its contract stub (records the argument, may refuse).
 *   C18.funnel.mknode.hardlink_canon    a hard-link node is only created
 *        after canonicalize_name() was called, exactly once, on the very
 *        string that is stored as the link target, and accepted it
 *   C18.funnel.mknode.hardlink_refuse   if canonicalize_name() refuses the
 *        target, no node is created (NULL) and the parent is untouched
 * bounded stand-in: name length NAME_LEN, target length EXTRA_LEN (concrete
 * lengths, symbolic bytes); the obligation is about control flow.
 */
#include <stdlib.h>
#include <string.h>
#include "verif.h"

#ifndef NAME_LEN
#define NAME_LEN 2
#endif
#ifndef EXTRA_LEN
#define EXTRA_LEN 4
#endif

static char *g_cn_arg;
static int g_cn_calls;
static int g_cn_ret;

int canonicalize_name(char *filename)
{
	VERIF_ASSERT(filename != NULL, "C18.funnel.canon.pre_nonnull");
	g_cn_arg = filename;
	g_cn_calls += 1;
	g_cn_ret = verif_nd_bool("canon_refuses") ? -1 : 0;
	return g_cn_ret;
}

#include "lib/fstree/src/fstree.c"

void harness(void)
{
	static fstree_t fs;
	static tree_node_t parent;
	sqfs_dir_entry_t ent;
	char name[NAME_LEN + 1];
	char extra[EXTRA_LEN + 1];
	tree_node_t *n;
	size_t i;
	sqfs_u32 old_links;

	memset(&ent, 0, sizeof(ent));
	/* ids above 32 bit are C01's concern (C01.mknode.faithful), not this
	 * harness's: keep them in range here */
	ent.uid = verif_nd_u32("uid");
	ent.gid = verif_nd_u32("gid");
	ent.mode = verif_nd_u16("mode");
	ent.mtime = verif_nd_i64("mtime");
	ent.flags = verif_nd_u16("flags");
	ent.rdev = verif_nd_u64("rdev");

	for (i = 0; i < NAME_LEN; ++i) {
		uint8_t b = verif_nd_u8("name");
		VERIF_ASSUME(b != 0);
		memcpy(&name[i], &b, 1);
	}
	name[NAME_LEN] = 0;
	for (i = 0; i < EXTRA_LEN; ++i) {
		uint8_t b = verif_nd_u8("extra");
		VERIF_ASSUME(b != 0);
		memcpy(&extra[i], &b, 1);
	}
	extra[EXTRA_LEN] = 0;

	parent.mode = S_IFDIR | 0755;
	parent.link_count = verif_nd_u32("plinks");
	parent.data.children = NULL;
	old_links = parent.link_count;
	fs.root = &parent;
	fs.links_unresolved = NULL;

	n = mknode(&fs, &parent, name, NAME_LEN, extra, &ent);

	if (ent.flags & SQFS_DIR_ENTRY_FLAG_HARD_LINK) {
		VERIF_COVER(n != NULL);
		VERIF_COVER(n == NULL && g_cn_calls == 1 && g_cn_ret != 0);
		if (n != NULL) {
			VERIF_ASSERT(g_cn_calls == 1 && g_cn_ret == 0 &&
				     (n->flags & FLAG_LINK_IS_HARD) &&
				     g_cn_arg == n->data.target,
				     "C18.funnel.mknode.hardlink_canon");
		}
		if (g_cn_calls >= 1 && g_cn_ret != 0) {
			VERIF_ASSERT(n == NULL && parent.data.children == NULL &&
				     parent.link_count == old_links &&
				     fs.links_unresolved == NULL,
				     "C18.funnel.mknode.hardlink_refuse");
		}
		VERIF_ASSERT(g_cn_calls <= 1, "C18.funnel.mknode.hardlink_called_at_most_once");
	} else {
		VERIF_COVER(n != NULL);
	}
}
