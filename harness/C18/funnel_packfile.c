/* C18 (call-site clause): bin/gensquashfs/src/fstree_from_file.c
 * handle_line() - every path of a pack-file line (all nine keywords; the
 * keyword is a concrete -D case split covering the whole table plus "glob")
 * with its callees replaced by contract stubs.
 *   C18.funnel.packfile.path_canon  an entry reaches fstree_add_generic() /
 *        glob_files() only with a name that is byte-for-byte the string
 *        canonicalize_name() was called on (exactly once) and accepted
 *   C18.funnel.packfile.refuse      if canonicalize_name() refuses, the line
 *        is rejected (-1) and nothing is added
 * bounded stand-in: path of exactly PATH_LEN bytes (symbolic bytes).
 */
#include <stdlib.h>
#include <string.h>
#include <stdio.h>
#include <stddef.h>
#include "verif.h"

#ifndef PATH_LEN
#define PATH_LEN 3
#endif
#ifndef KEYWORD
#define KEYWORD "dir"
#endif

#include "bin/gensquashfs/src/mkfs.h"

static char *g_cn_arg;
static int g_cn_calls, g_cn_ret;
static int g_sink_calls;
static char g_path[PATH_LEN + 1];

static struct { sqfs_dir_entry_t e; char name[PATH_LEN + 1]; } g_ent;

int canonicalize_name(char *filename)
{
	VERIF_ASSERT(filename != NULL, "C18.funnel.canon.pre_nonnull");
	g_cn_arg = filename;
	g_cn_calls += 1;
	g_cn_ret = verif_nd_bool("canon_refuses") ? -1 : 0;
	return g_cn_ret;
}

static void sink(const sqfs_dir_entry_t *ent)
{
	size_t i;
	int same = 1;

	g_sink_calls += 1;
	for (i = 0; i <= PATH_LEN; ++i) {
		if (ent->name[i] != g_path[i])
			same = 0;
	}
	VERIF_ASSERT(g_cn_calls == 1 && g_cn_ret == 0 && g_cn_arg == g_path && same,
		     "C18.funnel.packfile.path_canon");
}

tree_node_t *fstree_add_generic(fstree_t *fs, const sqfs_dir_entry_t *ent,
				const char *extra)
{
	static tree_node_t node;
	(void)fs; (void)extra;
	sink(ent);
	return verif_nd_bool("add_fails") ? NULL : &node;
}

int glob_files(fstree_t *fs, const char *filename, size_t line_num,
	       const sqfs_dir_entry_t *ent, const char *basepath,
	       unsigned int glob_flags, split_line_t *extra)
{
	(void)fs; (void)filename; (void)line_num; (void)basepath;
	(void)glob_flags; (void)extra;
	sink(ent);
	return verif_nd_bool("glob_fails") ? -1 : 0;
}

int parse_uint_oct(const char *in, size_t len, size_t *diff,
		   sqfs_u64 vmin, sqfs_u64 vmax, sqfs_u64 *out)
{
	(void)in; (void)len; (void)diff;
	if (verif_nd_bool("oct_fails"))
		return -1;
	*out = verif_nd_u64("oct");
	VERIF_ASSUME(*out >= vmin && *out <= vmax);
	return 0;
}

int parse_uint(const char *in, size_t len, size_t *diff,
	       sqfs_u64 vmin, sqfs_u64 vmax, sqfs_u64 *out)
{
	(void)in; (void)len; (void)diff;
	if (verif_nd_bool("uint_fails"))
		return -1;
	*out = verif_nd_u64("uint");
	VERIF_ASSUME(*out >= vmin && *out <= vmax);
	return 0;
}

void split_line_remove_front(split_line_t *sep, size_t count)
{
	size_t i;
	VERIF_ASSERT(count <= sep->count, "C18.funnel.packfile.remove_front_pre");
	for (i = count; i < sep->count; ++i)
		sep->args[i - count] = sep->args[i];
	sep->count -= count;
}

void *alloc_flex(size_t base_size, size_t item_size, size_t nmemb)
{
	VERIF_ASSERT(base_size == sizeof(sqfs_dir_entry_t) && item_size == 1 &&
		     nmemb <= PATH_LEN + 1, "C18.funnel.packfile.alloc_size");
	if (verif_nd_bool("alloc_fails"))
		return NULL;
	memset(&g_ent, 0, sizeof(g_ent));
	return &g_ent;
}

#ifndef VERIF_REPLAY
void free(void *p) { (void)p; }
int fprintf(FILE *stream, const char *format, ...) { (void)stream; (void)format; return 0; }
int fputs(const char *s, FILE *stream) { (void)s; (void)stream; return 0; }
char *strerror(int e) { (void)e; return "err"; }
/* glibc makedev(): assumed pure function of its arguments */
unsigned long gnu_dev_makedev(unsigned int ma, unsigned int mi)
{
	return ((unsigned long)ma << 8) | mi;
}
#endif

#include "bin/gensquashfs/src/fstree_from_file.c"

void harness(void)
{
	static struct { split_line_t l; char *args[8]; } line;
	static fstree_t fs;
	static options_t opt;
	static char kw[] = KEYWORD;
	static char a2[] = "0644", a3[] = "0", a4[] = "0", a5[] = "c", a6[] = "1", a7[] = "2";
	size_t i;
	int ret;

	for (i = 0; i < PATH_LEN; ++i) {
		uint8_t b = verif_nd_u8("path");
		VERIF_ASSUME(b != 0);
		memcpy(&g_path[i], &b, 1);
	}
	g_path[PATH_LEN] = 0;

	line.l.count = verif_nd_size("count");
	VERIF_ASSUME(line.l.count <= 8);
	line.l.args[0] = kw;
	line.l.args[1] = g_path;
	line.l.args[2] = a2;
	line.l.args[3] = a3;
	line.l.args[4] = a4;
	line.l.args[5] = a5;
	line.l.args[6] = a6;
	line.l.args[7] = a7;
	opt.dirscan_flags = verif_nd_u32("dirscan_flags");
	opt.force_uid_value = verif_nd_u32("fuid");
	opt.force_gid_value = verif_nd_u32("fgid");
	opt.packdir = NULL;
	fs.defaults.mtime = verif_nd_u32("mtime");

	ret = handle_line(&fs, "f", 1, &line.l, &opt);

	VERIF_COVER(g_sink_calls == 1);
	VERIF_COVER(ret == -1 && g_cn_calls == 1 && g_cn_ret != 0);
	if (g_cn_calls >= 1 && g_cn_ret != 0)
		VERIF_ASSERT(ret == -1 && g_sink_calls == 0,
			     "C18.funnel.packfile.refuse");
	VERIF_ASSERT(g_sink_calls <= 1, "C18.funnel.packfile.one_sink");
}
