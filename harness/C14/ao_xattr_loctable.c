/* C14.append_only.xattr_location_table (proved): write_location_table() in
 * xattr_writer_flush.c issues the only two direct write_at calls of the xattr
 * writer (everything else goes through the metadata writer, see
 * ao_write_block). Precondition = what sqfs_xattr_writer_flush established on
 * the line before the call: super->xattr_id_table_start == current file size.
 * For every block count / location count: the header goes to the end of the
 * file and the location list directly behind it; nothing already written is
 * touched, nothing is truncated.
 *   C14.xattr_loctable.start_inside   success => xattr_id_table_start >= size
 *                                     at entry and < size at return
 * Loop-free.
 */
#define C14_SITE "xattr_location_table"
#include <stdlib.h>
#include "C14/c14_env.h"
#include "lib/sqfs/src/xattr/xattr_writer_flush.c"

#ifndef LOC_MAX
#define LOC_MAX ((size_t)1 << 32)
#endif

void harness(void)
{
	static sqfs_xattr_writer_t xwr;
	static sqfs_super_t super;
	sqfs_u64 size0 = verif_nd_u64("fsize"), kv_start = verif_nd_u64("kv_start");
	size_t loc_count = verif_nd_size("loc_count");
	sqfs_u64 *locations;
	int ret;

	VERIF_ASSUME(size0 >= C14_SUPER_SZ && size0 <= C14_FILE_MAX);
	c14_file_init(size0);
	xwr.num_blocks = verif_nd_size("num_blocks");
	/* the number of distinct xattr sets fits the 32 bit on-disk field (it is
	 * the inode's 32 bit xattr index + 1 at most); not enforced by
	 * xattr_writer_record.c, unreachable below ~160 GiB of xattr data - a
	 * C03 matter, stated as an assumption here */
	VERIF_ASSUME(xwr.num_blocks <= 0xFFFFFFFFUL);
	VERIF_ASSUME(loc_count <= LOC_MAX);
	locations = malloc(loc_count * sizeof(*locations));
	VERIF_ASSUME(locations != NULL);
	super.xattr_id_table_start = size0;

	ret = write_location_table(&xwr, kv_start, &g_file, &super,
				   locations, loc_count);

	VERIF_ASSERT(g_ntrunc == 0 && g_nwrite >= 1 && g_nwrite <= 2,
		     "C14.xattr_loctable.two_appends");
	if (ret == 0)
		VERIF_ASSERT(super.xattr_id_table_start == size0 &&
			     g_fsize == size0 + sizeof(sqfs_xattr_id_table_t) +
					loc_count * sizeof(sqfs_u64) &&
			     super.xattr_id_table_start < g_fsize,
			     "C14.xattr_loctable.start_inside");
	VERIF_COVER(ret == 0 && loc_count == 0);
	VERIF_COVER(ret == 0 && loc_count == 3);
	VERIF_COVER(ret != 0 && g_nwrite == 1);
	VERIF_COVER(ret != 0 && g_nwrite == 2);
}
