/* C14.finish.super_last (proved): sqfs_writer_finish() with every stage
 * replaced by its contract and a ghost sequence counter.
 *
 * Stage contract (block processor finish, serialize_fstree, fragment table,
 * export table, ID table, xattr writer): may append any number of bytes to
 * the output file (never shrinks it, never writes the superblock - that is
 * what the ao_* harnesses prove about the real stage code), may fail; on
 * success records its table start(s) in the in-memory superblock as a
 * position inside what it appended, or the "absent" sentinel.
 *
 * Real code: sqfs_writer_finish, padd_sqfs, print_statistics (finish.c),
 * sqfs_super_write (write_super.c). Loop-free.
 *
 * Obligations, all checked AT the write_at(0, 96 bytes) event of the final
 * superblock (C14_SUPER_WRITE_HOOK) or at the end:
 *   C14.finish.super_last          every enabled stage has run and returned
 *                                  success before the superblock write; no
 *                                  stage runs afterwards
 *   C14.finish.no_super_on_failure any stage failure => no superblock write
 *                                  at all, and the function reports failure
 *   C14.finish.bytes_used          the bytes_used field written = ghost file
 *                                  size at that moment
 *   C14.finish.tables_inside       every table start written is the sentinel
 *                                  or lies in [sizeof(super), bytes_used)
 *   C14.finish.id_count_from_stage the id_count written is the one the ID
 *                                  table stage produced (non-zero)
 *   C14.finish.super_once          success => exactly one superblock write
 *   C14.append_only.writer_finish  the only later write (padding) starts at
 *                                  >= bytes_used (file contract)
 *   C14.finish.padding_is_zero     and consists of zero bytes (witness byte)
 *   C14.finish.padding_lt_devblk   less than one device block of padding
 *                                  ("final size is a multiple of devblksize"
 *                                  is C03.finish.layout: a symbolic 64 bit
 *                                  remainder identity, not attempted here)
 */
#define C14_SITE "writer_finish"
#define C14_SUPER_WRITE_HOOK c14_final_super
#include <stdlib.h>
#include <string.h>
#include "verif.h"
static int c14_final_super(const void *buf);
#include "C14/c14_env.h"
#include "C14/c14_libc.h"
#ifdef C13_CHECKS
#include "C13/c13_alloc.h"
#endif
#include "simple_writer.h"
#include "common.h"

#define ABSENT 0xFFFFFFFFFFFFFFFFULL

enum {
	ST_DATA = 1, ST_TREE = 2, ST_FRAG = 4, ST_EXPORT = 8, ST_IDS = 16,
	ST_XATTR = 32,
};

static unsigned g_stage_ok;	/* stages that returned success */
static bool g_stage_failed;	/* some stage returned failure */
static unsigned g_stage_seq;	/* g_seq of the last stage event */
static unsigned g_super_writes;	/* write_at(0, 96) events */
static unsigned g_super_seq;
static bool g_super_fail;
static sqfs_super_t g_disk;	/* bytes 0..95 as last written */
static sqfs_u16 g_id_count;	/* what the ID stage put into the super */
static const sqfs_writer_cfg_t *g_cfg;
static sqfs_writer_t g_wr;

/* ---- the final superblock write --------------------------------------- */
static bool c14_inside(sqfs_u64 start, sqfs_u64 bytes_used)
{
	return start == ABSENT || (start >= C14_SUPER_SZ && start < bytes_used);
}

static int c14_final_super(const void *buf)
{
	unsigned want = ST_DATA | ST_TREE | ST_FRAG | ST_IDS;
	const sqfs_super_t *s = buf;

	if (g_cfg->exportable)
		want |= ST_EXPORT;
	if (!g_cfg->no_xattr)
		want |= ST_XATTR;

	g_super_writes += 1;
	g_super_seq = g_seq;
	VERIF_ASSERT(!g_stage_failed, "C14.finish.no_super_on_failure");
	VERIF_ASSERT(g_stage_ok == want && g_super_writes == 1,
		     "C14.finish.super_last");
	/* x86-64 little endian: htole is the identity, compare host values */
	VERIF_ASSERT(s->bytes_used == g_fsize, "C14.finish.bytes_used");
	VERIF_ASSERT(c14_inside(s->id_table_start, s->bytes_used) &&
		     c14_inside(s->xattr_id_table_start, s->bytes_used) &&
		     c14_inside(s->inode_table_start, s->bytes_used) &&
		     c14_inside(s->directory_table_start, s->bytes_used) &&
		     c14_inside(s->fragment_table_start, s->bytes_used) &&
		     c14_inside(s->export_table_start, s->bytes_used) &&
		     s->id_table_start != ABSENT &&
		     s->inode_table_start != ABSENT &&
		     s->directory_table_start != ABSENT,
		     "C14.finish.tables_inside");
	VERIF_ASSERT(s->id_count == g_id_count && s->id_count != 0,
		     "C14.finish.id_count_from_stage");
	if (verif_nd_bool("super_write.fail")) {
		g_fault = true;
		g_super_fail = true;
		return c14_error_code("super_write.err");
	}
	g_disk = *s;
	return 0;
}

/* ---- stage contracts ---------------------------------------------------- */
static sqfs_u64 stage_enter(unsigned id)
{
	g_seq += 1;
	g_stage_seq = g_seq;
	/* no stage may run once the final superblock is out */
	VERIF_ASSERT(g_super_writes == 0, "C14.finish.super_last");
	VERIF_ASSERT(!(g_stage_ok & id), "C14.finish.stage_once");
	return g_fsize;
}

/* appends any number of bytes (also when it fails half way); a stage that
 * has to write something but cannot append a single byte fails; returns
 * false when the stage fails. Keeps g_fsize <= C14_FILE_MAX. */
static bool stage_body(unsigned id, const char *tag, bool must_grow)
{
	sqfs_u64 grow = verif_nd_u64(tag);
	bool fail = verif_nd_bool(tag);

	if (grow > C14_FILE_MAX - g_fsize)
		grow = 0;
	if (must_grow && grow == 0)
		fail = true;
	g_fsize += grow;
	if (fail) {
		g_fault = true;
		g_stage_failed = true;
		return false;
	}
	g_stage_ok |= id;
	return true;
}

/* a position inside [lo, g_fsize) */
static sqfs_u64 stage_pos(sqfs_u64 lo, const char *tag)
{
	sqfs_u64 p = verif_nd_u64(tag);

	return (p >= lo && p < g_fsize) ? p : lo;
}

int sqfs_block_processor_finish(sqfs_block_processor_t *proc)
{
	(void)proc;
	stage_enter(ST_DATA);
	if (!stage_body(ST_DATA, "data", false))
		return c14_error_code("data.err");
	return 0;
}

int sqfs_serialize_fstree(const char *filename, sqfs_writer_t *wr)
{
	sqfs_u64 lo = stage_enter(ST_TREE);

	(void)filename;
	VERIF_ASSERT(wr == &g_wr, "C14.finish.stage_args");
	wr->super.inode_table_start = lo;	/* as the real code: before any I/O */
	if (!stage_body(ST_TREE, "tree", true)) {
		g_diag += 1;	/* prints "storing filesystem tree" itself */
		return -1;
	}
	wr->super.root_inode_ref = verif_nd_u64("root_ref");
	/* recorded after the inode table went out; the directory table itself
	 * may be empty (root without entries), so the start may equal the size
	 * at the end of this stage - it is the ID table stage (never empty,
	 * C14.write_table.start_inside) that puts bytes behind it */
	wr->super.directory_table_start = verif_nd_bool("dir_empty") ?
		g_fsize : stage_pos(lo, "dir_start");
	return 0;
}

int sqfs_frag_table_write(sqfs_frag_table_t *tbl, sqfs_file_t *file,
			  sqfs_super_t *super, sqfs_compressor_t *cmp)
{
	sqfs_u64 lo = stage_enter(ST_FRAG);
	bool empty = verif_nd_bool("frag.empty");

	(void)tbl; (void)cmp;
	VERIF_ASSERT(file == &g_file && super == &g_wr.super, "C14.finish.stage_args");
	if (empty) {
		g_stage_ok |= ST_FRAG;
		super->fragment_table_start = ABSENT;
		return 0;
	}
	if (!stage_body(ST_FRAG, "frag", true))
		return c14_error_code("frag.err");
	super->fragment_table_start = stage_pos(lo, "frag_start");
	super->fragment_entry_count = verif_nd_u32("frag_count");
	return 0;
}

int sqfs_dir_writer_write_export_table(sqfs_dir_writer_t *writer,
				       sqfs_file_t *file,
				       sqfs_compressor_t *cmp,
				       sqfs_u32 root_inode_num,
				       sqfs_u64 root_inode_ref,
				       sqfs_super_t *super)
{
	sqfs_u64 lo = stage_enter(ST_EXPORT);

	(void)writer; (void)cmp; (void)root_inode_num; (void)root_inode_ref;
	VERIF_ASSERT(file == &g_file && super == &g_wr.super, "C14.finish.stage_args");
	if (!stage_body(ST_EXPORT, "export", true))
		return c14_error_code("export.err");
	super->export_table_start = stage_pos(lo, "export_start");
	super->flags |= SQFS_FLAG_EXPORTABLE;
	return 0;
}

int sqfs_id_table_write(sqfs_id_table_t *tbl, sqfs_file_t *file,
			sqfs_super_t *super, sqfs_compressor_t *cmp)
{
	sqfs_u64 lo = stage_enter(ST_IDS);

	(void)tbl; (void)cmp;
	VERIF_ASSERT(file == &g_file && super == &g_wr.super, "C14.finish.stage_args");
	/* the real function stores id_count/id_table_start even when it fails */
	g_id_count = verif_nd_u16("id_count");
	if (g_id_count == 0)
		g_id_count = 1;
	super->id_count = g_id_count;
	if (!stage_body(ST_IDS, "ids", true)) {
		super->id_table_start = verif_nd_u64("ids.garbage");
		return c14_error_code("ids.err");
	}
	super->id_table_start = stage_pos(lo, "id_start");
	return 0;
}

int sqfs_xattr_writer_flush(const sqfs_xattr_writer_t *xwr, sqfs_file_t *file,
			    sqfs_super_t *super, sqfs_compressor_t *cmp)
{
	sqfs_u64 lo = stage_enter(ST_XATTR);
	bool empty = verif_nd_bool("xattr.empty");

	(void)xwr; (void)cmp;
	VERIF_ASSERT(file == &g_file && super == &g_wr.super, "C14.finish.stage_args");
	if (empty) {
		g_stage_ok |= ST_XATTR;
		super->xattr_id_table_start = ABSENT;
		super->flags |= SQFS_FLAG_NO_XATTRS;
		return 0;
	}
	if (!stage_body(ST_XATTR, "xattr", true))
		return c14_error_code("xattr.err");
	super->xattr_id_table_start = stage_pos(lo, "xattr_start");
	super->flags &= ~SQFS_FLAG_NO_XATTRS;
	return 0;
}

/* ---- statistics printing: pure readers --------------------------------- */
static sqfs_block_processor_stats_t g_stats;

const sqfs_block_processor_stats_t
*sqfs_block_processor_get_stats(const sqfs_block_processor_t *proc)
{
	(void)proc;
	return &g_stats;
}

sqfs_u64 c14_get_block_count(const sqfs_block_writer_t *wr)
{
	(void)wr;
	return verif_nd_u64("block_count");
}

void print_size(sqfs_u64 size, char *buffer, bool round_to_int)
{
	(void)size; (void)round_to_int;
	buffer[0] = '\0';
}

void fstree_collect_stats(const fstree_t *fs, fstree_stats_t *out)
{
	(void)fs;
	memset(out, 0, sizeof(*out));
}

#include "lib/sqfs/src/write_super.c"
#include "lib/common/src/writer/finish.c"

#ifndef DEVBLK_MAX
#define DEVBLK_MAX ((size_t)1 << 32)
#endif

void harness(void)
{
	static sqfs_writer_cfg_t cfg;
	static tree_node_t root;
	static sqfs_block_writer_t blkwr;
	sqfs_u64 size0 = verif_nd_u64("fsize");
	int ret;

	VERIF_ASSUME(size0 >= C14_SUPER_SZ && size0 <= C14_FILE_MAX);
	c14_file_init(size0);
	g_stage_ok = 0;
	g_stage_failed = false;
	g_super_writes = 0;
	g_super_fail = false;
	g_id_count = 0;
	g_diag = 0;

	cfg.filename = "out.sqfs";
	cfg.exportable = verif_nd_bool("exportable");
	cfg.no_xattr = verif_nd_bool("no_xattr");
	cfg.quiet = verif_nd_bool("quiet");
	cfg.devblksize = verif_nd_size("devblksize");
	/* option parsers refuse < 1024; only "non-zero" is needed here */
	VERIF_ASSUME(cfg.devblksize >= 1 && cfg.devblksize <= DEVBLK_MAX);
	g_cfg = &cfg;

	/* writer state as sqfs_writer_init left it: provisional superblock
	 * (all table starts absent, id_count 0), everything else arbitrary */
	memset(&g_wr, 0, sizeof(g_wr));
	g_wr.filename = cfg.filename;
	g_wr.outfile = &g_file;
	g_wr.blkwr = &blkwr;
	blkwr.get_block_count = c14_get_block_count;
	g_wr.fs.root = &root;
	g_wr.fs.unique_inode_count = verif_nd_size("inode_count");
	/* inode numbers are 32 bit (fstree_post_process); the narrowing store
	 * into super.inode_count is a C03 matter */
	VERIF_ASSUME(g_wr.fs.unique_inode_count <= 0xFFFFFFFFUL);
	root.inode_num = verif_nd_u32("root.inode_num");
	root.inode_ref = verif_nd_u64("root.inode_ref");
	g_wr.super.magic = SQFS_MAGIC;
	g_wr.super.flags = verif_nd_u16("super.flags");
	g_wr.super.block_size = verif_nd_u32("super.block_size");
	g_wr.super.bytes_used = C14_SUPER_SZ;
	g_wr.super.id_table_start = ABSENT;
	g_wr.super.xattr_id_table_start = ABSENT;
	g_wr.super.inode_table_start = ABSENT;
	g_wr.super.directory_table_start = ABSENT;
	g_wr.super.fragment_table_start = ABSENT;
	g_wr.super.export_table_start = ABSENT;
	g_stats.input_bytes_read = verif_nd_u64("stats.in");

	ret = sqfs_writer_finish(&g_wr, &cfg);

	VERIF_ASSERT(g_ntrunc == 0 && g_fsize >= size0, "C14.finish.no_shrink");
	if (g_stage_failed)
		VERIF_ASSERT(ret != 0 && g_super_writes == 0 && g_nwrite == 0,
			     "C14.finish.no_super_on_failure");
	if (ret == 0) {
		VERIF_ASSERT(g_super_writes == 1 && !g_super_fail &&
			     g_super_seq > g_stage_seq,
			     "C14.finish.super_once");
		VERIF_ASSERT(g_nwrite <= 1 &&
			     (g_nwrite == 0 || (g_w_seq > g_super_seq &&
						g_w_off >= g_disk.bytes_used)),
			     "C14.finish.only_padding_after_super");
		VERIF_ASSERT(g_nwrite == 0 || g_w_k >= g_w_len || g_w_witness == 0,
			     "C14.finish.padding_is_zero");
		VERIF_ASSERT(g_fsize - g_disk.bytes_used < cfg.devblksize,
			     "C14.finish.padding_lt_devblk");
	}
	if (g_super_writes)
		VERIF_ASSERT(g_super_writes == 1, "C14.finish.super_once");
#ifdef C13_CHECKS
	/* ---- C13: fail-stop ------------------------------------------------ */
	VERIF_ASSERT(!g_fault || ret != 0, "C13.finish.propagates");
	VERIF_ASSERT(ret == 0 || g_diag >= 1, "C13.finish.diagnostic");
	VERIF_ASSERT(ret == 0 || g_fault, "C13.finish.fails_only_on_fault");
	VERIF_COVER(ret != 0 && g_alloc_faults == 1 && !g_stage_failed && !g_super_fail);
#endif
	VERIF_COVER(ret == 0 && g_nwrite == 1 && cfg.exportable && !cfg.no_xattr);
	VERIF_COVER(ret == 0 && g_nwrite == 0 && !cfg.exportable && cfg.no_xattr);
	VERIF_COVER(ret == 0 && !cfg.quiet);
	VERIF_COVER(ret != 0 && g_stage_failed && (g_stage_ok & ST_IDS));
	VERIF_COVER(ret != 0 && g_stage_failed && g_stage_ok == 0);
	VERIF_COVER(ret != 0 && g_super_fail);
	VERIF_COVER(ret != 0 && g_super_writes == 1 && !g_super_fail && g_nwrite == 1);
}
