/* C14.super_write.torn_prefix_unreadable (proved): stdio_write_at() loops over
 * pwrite(), so the 96 byte write of the FINAL superblock can in principle be
 * split into several system calls, and a kill may fall between them. For
 * every provisional superblock P (= sqfs_super_write(sqfs_super_init(..))),
 * every final superblock F with bytes_used <= C14_FILE_MAX, and every cut
 * position k < 56 (everything up to, but not including, a complete
 * id_table_start field): the file content "first k bytes of F, then P" is
 * rejected by the real sqfs_super_read, or else by the entry test of the
 * real sqfs_id_table_read (the first thing every reader does next), without
 * reading anything but the superblock.
 * k >= 56 is not covered by these two functions alone (ASSUMPTIONS).
 * Loops: block_log loops (constants of the code), byte mixing loop (96).
 */
#include <stdlib.h>
#include <string.h>
#include "verif.h"
#include "sqfs/predef.h"
#include "sqfs/io.h"
#include "sqfs/error.h"

static unsigned g_reads, g_table_reads;
static sqfs_u8 g_img[sizeof(sqfs_u64) * 12];

#include "lib/sqfs/src/super.c"
#include "lib/sqfs/src/write_super.c"
#include "lib/sqfs/src/read_super.c"
#include "lib/sqfs/src/id_table.c"

static sqfs_u8 g_capture[sizeof(sqfs_super_t)];

int ts_write_at(sqfs_file_t *f, sqfs_u64 off, const void *buf, size_t n)
{
	(void)f;
	VERIF_ASSERT(off == 0 && n == sizeof(sqfs_super_t), "C14.super_write.whole_super_at_0");
	memcpy(g_capture, buf, sizeof(g_capture));
	return 0;
}

int ts_read_at(sqfs_file_t *f, sqfs_u64 off, void *buf, size_t n)
{
	(void)f;
	g_reads += 1;
	VERIF_ASSERT(off == 0 && n == sizeof(sqfs_super_t), "C14.super_read.reads_only_super");
	memcpy(buf, g_img, sizeof(sqfs_super_t));
	return 0;
}

int sqfs_read_table(sqfs_file_t *file, sqfs_compressor_t *cmp,
		    size_t table_size, sqfs_u64 location, sqfs_u64 lower_limit,
		    sqfs_u64 upper_limit, void **out)
{
	(void)file; (void)cmp; (void)table_size; (void)location;
	(void)lower_limit; (void)upper_limit;
	g_table_reads += 1;
	*out = NULL;
	return SQFS_ERROR_IO;
}

void array_cleanup(array_t *array) { (void)array; }
int array_init(array_t *array, size_t size, size_t capacity)
{ (void)array; (void)size; (void)capacity; return 0; }
int array_init_copy(array_t *array, const array_t *src)
{ (void)array; (void)src; return 0; }
int array_append(array_t *array, const void *data)
{ (void)array; (void)data; return 0; }
void id_destroy_stub(sqfs_object_t *o) { (void)o; }
sqfs_object_t *id_copy_stub(const sqfs_object_t *o) { (void)o; return NULL; }

void harness(void)
{
	static sqfs_id_table_t tbl;
	static sqfs_file_t file;
	sqfs_super_t prov, fin, out;
	sqfs_u8 pbytes[sizeof(sqfs_super_t)], fbytes[sizeof(sqfs_super_t)];
	size_t k = verif_nd_size("cut"), i;
	int ret;

	g_reads = 0;
	g_table_reads = 0;
	file.write_at = ts_write_at;
	file.read_at = ts_read_at;

	ret = sqfs_super_init(&prov, verif_nd_size("block_size"),
			      verif_nd_u32("mtime"),
			      (SQFS_COMPRESSOR)verif_nd_int("comp"));
	if (ret != 0)
		return;
	ret = sqfs_super_write(&prov, &file);
	memcpy(pbytes, g_capture, sizeof(pbytes));

	fin = prov;	/* finish only updates these fields */
	fin.inode_count = verif_nd_u32("inode_count");
	fin.fragment_entry_count = verif_nd_u32("frag_count");
	fin.flags = verif_nd_u16("flags");
	fin.id_count = verif_nd_u16("id_count");
	fin.root_inode_ref = verif_nd_u64("root");
	fin.bytes_used = verif_nd_u64("bytes_used");
	fin.id_table_start = verif_nd_u64("id_start");
	fin.xattr_id_table_start = verif_nd_u64("xattr_start");
	fin.inode_table_start = verif_nd_u64("inode_start");
	fin.directory_table_start = verif_nd_u64("dir_start");
	fin.fragment_table_start = verif_nd_u64("frag_start");
	fin.export_table_start = verif_nd_u64("export_start");
	/* C14.finish.bytes_used + file contract */
	VERIF_ASSUME(fin.bytes_used >= sizeof(sqfs_super_t) &&
		     fin.bytes_used <= ((sqfs_u64)1 << 62));
	ret = sqfs_super_write(&fin, &file);
	memcpy(fbytes, g_capture, sizeof(fbytes));

	VERIF_ASSUME(k < 56);
	for (i = 0; i < sizeof(sqfs_super_t); ++i)
		g_img[i] = (i < k) ? fbytes[i] : pbytes[i];
	VERIF_COVER(k == 55 && fin.id_count == 7);
	VERIF_COVER(k == 30 && fin.id_count == 7);
	VERIF_COVER(k == 0);

	ret = sqfs_super_read(&out, &file);
	if (ret == 0) {
		VERIF_COVER(true);
		ret = sqfs_id_table_read(&tbl, &file, &out, NULL);
	}
	VERIF_ASSERT(ret != 0 && g_reads == 1 && g_table_reads == 0,
		     "C14.super_write.torn_prefix_unreadable");
}
