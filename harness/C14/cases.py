PROPERTY = "C14"
LEVEL = "proof"
FUNCTIONS = ["sqfs_super_init", "sqfs_super_write", "sqfs_super_read"]
TRUSTED = []
ASSUMPTIONS = []
EXPLANATION = ""

_FP_FILE = {"write_at": "c14_write_at", "get_size": "c14_get_size",
            "truncate": "c14_truncate"}

HARNESSES = [
    dict(name="init_unreadable", file="init_unreadable.c", label="proved",
         fp={"write_at": "iu_write_at", "read_at": "iu_read_at"},
         unwind=22, timeout=300,
         cases=[dict(id="all", tier="quick")]),
    dict(name="ao_write_block", file="ao_write_block.c", label="proved",
         fp=dict(_FP_FILE, do_block="c14_do_block", destroy="c14_obj_destroy"),
         timeout=300, cases=[dict(id="all", tier="quick")]),
    dict(name="ao_write_table", file="ao_write_table.c", label="proved",
         loops=["sqfs_write_table"],
         fp=dict(_FP_FILE, destroy="mw_destroy"),
         timeout=600, cases=[dict(id="all", tier="quick")]),
]
