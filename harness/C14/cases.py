PROPERTY = "C14"
LEVEL = "proof"
FUNCTIONS = ["sqfs_super_init", "sqfs_super_write", "sqfs_super_read"]
TRUSTED = []
ASSUMPTIONS = []
EXPLANATION = ""

_FP_FILE = {"write_at": "c14_write_at", "get_size": "c14_get_size",
            "truncate": "c14_truncate", "read_at": "c14_read_at"}

HARNESSES = [
    dict(name="init_unreadable", file="init_unreadable.c", label="proved",
         fp={"write_at": "iu_write_at", "read_at": "iu_read_at"},
         unwind=22, timeout=300,
         cases=[dict(id="all", tier="quick")]),
    dict(name="finish", file="finish.c", label="proved",
         fp=dict(_FP_FILE, get_block_count="c14_get_block_count"),
         timeout=600, cases=[dict(id="all", tier="quick")]),
    dict(name="ao_write_block", file="ao_write_block.c", label="proved",
         fp=dict(_FP_FILE, do_block="c14_do_block", destroy="c14_obj_destroy"),
         timeout=300, cases=[dict(id="all", tier="quick")]),
    dict(name="ao_write_table", file="ao_write_table.c", label="proved",
         loops=["sqfs_write_table"],
         fp=dict(_FP_FILE, destroy="mw_destroy"),
         timeout=600, cases=[dict(id="all", tier="quick")]),
    dict(name="ao_write_options", file="ao_write_options.c", label="proved",
         fp=dict(_FP_FILE, **{"*": "c14_comp_create"}),
         timeout=300, cases=[dict(id="all", tier="quick")]),
    dict(name="ao_xattr_loctable", file="ao_xattr_loctable.c", label="proved",
         fp=dict(_FP_FILE, destroy="c14_obj_destroy"),
         timeout=300, cases=[dict(id="all", tier="quick")]),
    dict(name="xattr_flush", file="xattr_flush.c", label="proved",
         mode="dfcc", replace=["write_kv_pairs", "write_id_table", "alloc_location_table"],
         loops=["sqfs_xattr_writer_flush"], native=False,
         # cbmc --cover cannot see __CPROVER_cover calls after --dfcc (they get
         # a write-set argument); reachability of the branches is demonstrated
         # by the self-test mutants instead
         cover=False,
         must_have=["C14.append_only.xattr_flush", "C14.xattr_flush.start_inside",
                    "C14.xattr_flush.empty_is_absent"],
         fp=dict(_FP_FILE, destroy="mw_destroy"),
         timeout=600, cases=[dict(id="all", tier="quick")]),
    dict(name="ao_block_writer", file="ao_block_writer.c", label="proved",
         loops=["deduplicate_blocks"],
         fp=dict(_FP_FILE, destroy="c14_obj_destroy"),
         timeout=600, cases=[dict(id="all", tier="quick")]),
]
