PROPERTY = "C14"
LEVEL = "proof"
FUNCTIONS = [
    "sqfs_super_init", "sqfs_super_write", "sqfs_super_read",
    "sqfs_id_table_read (entry test)",
    "stdio_write_at", "sqfs_native_file_open", "sqfs_file_open", "sqfs_file_open_handle",
    "sqfs_writer_init", "sqfs_writer_finish", "padd_sqfs", "print_statistics",
    "write_block (meta_writer.c)", "sqfs_write_table",
    "write_data_block", "deduplicate_blocks", "store_block_location",
    "sqfs_generic_write_options",
    "write_location_table", "sqfs_xattr_writer_flush",
]
TRUSTED = [
    "sqfs_file_t contract (harness/C14/c14_env.h) used by the writer-side harnesses: get_size returns the tracked size; write_at fails or writes all n bytes and sets size to max(size, off+n) - this clause is PROVED for the real stdio_write_at against the pwrite contract (file_write_at, file_write_at_bmc); it fails when off+n > 2^62; truncate fails or sets the size (stdio_truncate: lseek+ftruncate, trusted); read_at never changes the file",
    "kernel semantics of open(2): O_CREAT|O_TRUNC discards old contents atomically with the call, O_CREAT|O_EXCL never returns an existing file; pwrite returns a count in [-1, n]. That the packers' open carries exactly these flags and that no later truncate is issued is PROVED (open_flags, open_handle); hence the tracked size is 0 when sqfs_writer_init gets the file",
    "one write_at(0, 96 bytes) is one crash-atomic step, except for cut positions k < 56 which are proved unreadable (torn_super)",
    "metadata writer as seen by table writers (append/flush): appends whole blocks at the end of the file via write_block (proved in ao_write_block) or fails",
    "compressor do_block contract (DESIGN section 3); compressor write_options hook = sqfs_generic_write_options or 'return 0'",
    "constructors called by sqfs_writer_init (block writer, fragment table, block processor, ID table, xattr writer, metadata writers, dir writer, compressors, fstree) allocate and take references only; they do not write to the output file (harness/C14/writer_env.h)",
    "stage contracts of sqfs_writer_finish (harness/C14/finish.c): block processor finish, sqfs_serialize_fstree, fragment/export/ID table writers, xattr flush append to the file or fail and record table starts inside what they appended - the write sites of their real code are the ao_* / xattr_flush harnesses",
    "array_append contract in ao_block_writer (capacity available: stores the element; or fails)",
    "check_file_range_equal only reads",
    "static helpers write_kv_pairs / write_id_table / alloc_location_table of xattr_writer_flush.c replaced by contracts (append-only or fail); their bodies reach the file only through the metadata writer",
    "CBMC models of malloc/calloc/free/memset/memcpy; stdio output (fputs/fputc/printf/perror) has no effect on the file",
]
ASSUMPTIONS = [
    "crash model = process kill between two output-file system calls; kernel write-back ordering / fsync are outside (no fsync is issued by the packers)",
    "a cut of the final 96 byte superblock write at k >= 56 bytes (possible only if pwrite returns short on a 96 byte write at offset 0) is not covered: the ID table start is final there and rejection would depend on the other table readers",
    "tracked file size and recorded block offsets <= 2^62 (off_t); table sizes <= 2^40 bytes, block list <= 2^20 entries, xattr location list <= 2^32 entries in the loop-contract harnesses (symbolic below the cap)",
    "number of xattr sets and of inodes fit their 32 bit on-disk fields, num_jobs/max_backlog fit 32 bit, devblksize in [1, 2^32] (narrowing conversions are C03 matters, excluded by requires)",
    "'final size is a multiple of devblksize' (C03.finish.layout) is not claimed here",
    "the block processor, serialize_fstree, dir writer and id/frag table front ends are covered through the write sites they funnel into (write_block, sqfs_write_table, write_data_block); that they issue no other write_at/truncate is a syntactic fact of the tree (grep, see EXPLANATION), not a proof obligation here; the C13 harnesses of those functions run against the same file contract, so a direct write added there is checked against C14.append_only.* in the C13 run",
    "cleanup.c (unlink on failure) is C13.cleanup.unlinks",
]
EXPLANATION = ("three lemmas: (1) the provisional superblock written by sqfs_writer_init is rejected by "
               "sqfs_super_read for all arguments and stays so whatever is appended (init_unreadable, "
               "writer_init, idtable_entry, torn_super); (2) every write_at/truncate call site in the writer "
               "path (meta_writer.c write_block, write_table.c, block_writer.c, comp/compressor.c, "
               "xattr_writer_flush.c, finish.c padd_sqfs - the complete list of `grep write_at|truncate` "
               "outside lib/sqfs/src/io and write_super.c) appends at the current end of file >= 96 and "
               "never truncates below 96, checked by the file contract at the call site; (3) in "
               "sqfs_writer_finish the superblock write happens once, after all stages succeeded, with "
               "bytes_used = file size and all table starts inside, and only zero padding follows. "
               "Every prefix of the output write log therefore has the provisional superblock at 0..95 "
               "or is the complete image.")

_FP_FILE = {"write_at": "c14_write_at", "get_size": "c14_get_size",
            "truncate": "c14_truncate", "read_at": "c14_read_at"}

HARNESSES = [
    dict(name="init_unreadable", file="init_unreadable.c", label="proved",
         fp={"write_at": "iu_write_at", "read_at": "iu_read_at"},
         unwind=22, timeout=900,
         cases=[dict(id="all", tier="quick")]),
    dict(name="file_write_at", file="file_write_at.c", label="proved",
         loops=["stdio_write_at"], loop_tables=["C12"], solver="cadical",
         timeout=900, cases=[dict(id="all", tier="quick")]),
    dict(name="file_write_at_bmc", file="file_write_at.c",
         label="bounded(n <= 3, EINTR <= 2)", defines={"C14_BMC": 1}, unwind=7,
         solver="cadical",
         timeout=900, cases=[dict(id="n3", tier="quick")]),
    dict(name="open_flags", file="open_flags.c", label="proved", timeout=900,
         nochecks=["--conversion-check"],   # "flags & ~ALL_FLAGS": int mask to unsigned
         cases=[dict(id="native_open", tier="quick")]),
    dict(name="open_handle", file="open_flags.c", label="proved", timeout=900,
         defines={"C14_OPEN_HANDLE_ONLY": 1},
         fp={"get_size": "stdio_get_size", "destroy": "stdio_destroy", "copy": "stdio_copy"},
         unwindset=["strlen.0:9", "memcpy.0:9"],
         cases=[dict(id="file_open", tier="quick")]),
    dict(name="idtable_entry", file="idtable_entry.c", label="proved",
         fp={"destroy": "id_destroy_stub", "copy": "id_copy_stub"},
         unwind=22, timeout=900, cases=[dict(id="all", tier="quick")]),
    dict(name="torn_super", file="torn_super.c", label="proved",
         fp={"destroy": "id_destroy_stub", "copy": "id_copy_stub",
             "write_at": "ts_write_at", "read_at": "ts_read_at"},
         unwind=98, timeout=600, cases=[dict(id="all", tier="quick")]),
    dict(name="writer_init", file="writer_init.c", label="proved",
         fp={"write_at": "c14_write_at", "read_at": "rd_read_at",
             "write_options": "c14_write_options",
             "destroy": ["c14_comp_destroy", "c14_outfile_destroy"]},
         unwind=22, timeout=600, cases=[dict(id="all", tier="quick")]),
    dict(name="finish", file="finish.c", label="proved",
         fp=dict(_FP_FILE, get_block_count="c14_get_block_count"),
         timeout=600, cases=[dict(id="all", tier="quick")]),
    dict(name="ao_write_block", file="ao_write_block.c", label="proved",
         fp=dict(_FP_FILE, do_block="c14_do_block", destroy="c14_obj_destroy"),
         timeout=900, cases=[dict(id="all", tier="quick")]),
    dict(name="ao_write_table", file="ao_write_table.c", label="proved",
         loops=["sqfs_write_table"],
         fp=dict(_FP_FILE, destroy="mw_destroy"),
         timeout=600, cases=[dict(id="all", tier="quick")]),
    dict(name="ao_write_options", file="ao_write_options.c", label="proved",
         fp=dict(_FP_FILE, **{"*": "c14_comp_create"}),
         timeout=900, cases=[dict(id="all", tier="quick")]),
    dict(name="ao_xattr_loctable", file="ao_xattr_loctable.c", label="proved",
         fp=dict(_FP_FILE, destroy="c14_obj_destroy"),
         timeout=900, cases=[dict(id="all", tier="quick")]),
    dict(name="xattr_flush", file="xattr_flush.c", label="proved",
         mode="dfcc", replace=["write_kv_pairs", "write_id_table", "alloc_location_table"],
         loops=["sqfs_xattr_writer_flush"], native=False,
         must_have=["C14.append_only.xattr_flush", "C14.xattr_flush.start_inside",
                    "C14.xattr_flush.empty_is_absent"],
         fp=dict(_FP_FILE, destroy="mw_destroy"),
         timeout=600, cases=[dict(id="all", tier="quick")]),
    dict(name="ao_block_writer", file="ao_block_writer.c", label="proved",
         loops=["deduplicate_blocks"],
         fp=dict(_FP_FILE, destroy="c14_obj_destroy"),
         timeout=600, cases=[dict(id="all", tier="quick")]),
]
