/* C14.open.truncate_atomic / C14.open.excl (proved): the packers' output is
 * opened through sqfs_file_open() = sqfs_native_file_open() (unix.c) +
 * sqfs_file_open_handle() (file.c). The C14 file contract assumes "the file
 * is empty when the writer gets it"; this harness discharges what the code
 * contributes to that: old contents must be gone ATOMICALLY with the open()
 * system call - a separate, later truncate would leave a window in which a
 * killed packer leaves the previous, complete image (of another input) behind,
 * which every reader accepts.
 *   C14.open.truncate_atomic  OVERWRITE (not read-only) => the open() call
 *                             itself carries O_CREAT|O_TRUNC (and O_RDWR)
 *   C14.open.excl             neither OVERWRITE nor read-only => the open()
 *                             call carries O_CREAT|O_EXCL: an existing file is
 *                             never reused
 *   C14.open.one_syscall      exactly one open() per call; unknown flag bits
 *                             are refused without any system call
 *   C14.open.no_late_truncate sqfs_file_open_handle issues no seek/truncate
 *                             on the handle it adopts, and the tracked size
 *                             is the size the OS reports (so get_size() is 0
 *                             for the fresh/truncated file)
 *   C14.open.error_reported   a failing step => *out == NULL, ret != 0, the
 *                             descriptor is closed
 * Real code: unix.c sqfs_native_file_open; file.c sqfs_file_open,
 * sqfs_file_open_handle. File name is a fixed short string (its bytes are
 * irrelevant here). Loop-free (strlen/memcpy on a 7 byte literal).
 */
#include <stdlib.h>
#include <string.h>
#include <fcntl.h>
#include "verif.h"

static unsigned g_opens, g_closes, g_seeks, g_dups;
static int g_open_flags;
static bool g_open_failed, g_step_failed;
static unsigned long long g_os_size;

#ifndef C14_OPEN_HANDLE_ONLY
/* ------------------------------------------------ unix.c: the system call */
#define open c14_open_stub
static int c14_open_stub(const char *path, int flags, int mode)
{
	(void)path; (void)mode;
	g_opens += 1;
	g_open_flags = flags;
	if (verif_nd_bool("open.fail")) {
		g_open_failed = true;
		return -1;
	}
	return 5;
}
#include "lib/sqfs/src/io/unix.c"
#undef open

/* not reachable from sqfs_native_file_open */
int dup(int fd) { (void)fd; return -1; }
int close(int fd) { (void)fd; return 0; }
off_t lseek(int fd, off_t o, int w) { (void)fd; (void)o; (void)w; return -1; }
int ftruncate(int fd, off_t l) { (void)fd; (void)l; return -1; }
int fstat(int fd, struct stat *st) { (void)fd; (void)st; return -1; }

void harness(void)
{
	sqfs_u32 flags = verif_nd_u32("flags");
	sqfs_file_handle_t fd = 77;
	int ret;

	g_opens = 0;
	g_open_failed = false;
	ret = sqfs_native_file_open(&fd, "out.img", flags);

	if (flags & ~(sqfs_u32)SQFS_FILE_OPEN_ALL_FLAGS) {
		VERIF_ASSERT(ret != 0 && g_opens == 0, "C14.open.one_syscall");
		VERIF_COVER(true);
		return;
	}
	VERIF_ASSERT(g_opens == 1, "C14.open.one_syscall");
	if (!(flags & SQFS_FILE_OPEN_READ_ONLY)) {
		if (flags & SQFS_FILE_OPEN_OVERWRITE) {
			VERIF_ASSERT((g_open_flags & (O_CREAT | O_TRUNC)) == (O_CREAT | O_TRUNC) &&
				     (g_open_flags & O_ACCMODE) == O_RDWR,
				     "C14.open.truncate_atomic");
			VERIF_COVER(ret == 0);
		} else {
			VERIF_ASSERT((g_open_flags & (O_CREAT | O_EXCL)) == (O_CREAT | O_EXCL) &&
				     (g_open_flags & O_ACCMODE) == O_RDWR,
				     "C14.open.excl");
			VERIF_COVER(ret == 0);
		}
	}
	VERIF_ASSERT((ret != 0) == g_open_failed && (ret != 0 || fd == 5),
		     "C14.open.error_reported");
	VERIF_COVER(ret != 0);
}
#else
/* ------------------------------------------- file.c: adopting the handle */
#include "sqfs/io.h"
#include "sqfs/error.h"

int sqfs_native_file_open(sqfs_file_handle_t *out, const char *filename,
			  sqfs_u32 flags)
{
	(void)filename; (void)flags;
	g_opens += 1;
	if (verif_nd_bool("open.fail")) {
		g_open_failed = true;
		*out = -1;
		return SQFS_ERROR_IO;
	}
	*out = 5;
	return 0;
}

void sqfs_native_file_close(sqfs_file_handle_t fd)
{
	(void)fd;
	g_closes += 1;
}

int sqfs_native_file_duplicate(sqfs_file_handle_t in, sqfs_file_handle_t *out)
{
	(void)in;
	g_dups += 1;
	if (verif_nd_bool("dup.fail")) {
		g_step_failed = true;
		*out = -1;
		return SQFS_ERROR_IO;
	}
	*out = 6;
	return 0;
}

int sqfs_native_file_seek(sqfs_file_handle_t fd, sqfs_s64 offset, sqfs_u32 flags)
{
	(void)fd; (void)offset; (void)flags;
	g_seeks += 1;
	return 0;
}

int sqfs_native_file_get_size(sqfs_file_handle_t hnd, sqfs_u64 *out)
{
	(void)hnd;
	if (verif_nd_bool("get_size.fail")) {
		g_step_failed = true;
		return SQFS_ERROR_IO;
	}
	*out = g_os_size;
	return 0;
}

ssize_t pread(int fd, void *b, size_t n, off_t o) { (void)fd; (void)b; (void)n; (void)o; return -1; }
ssize_t pwrite(int fd, const void *b, size_t n, off_t o) { (void)fd; (void)b; (void)n; (void)o; return -1; }

#include "lib/sqfs/src/io/file.c"

void harness(void)
{
	sqfs_u32 flags = verif_nd_u32("flags");
	sqfs_file_t *f = (sqfs_file_t *)&g_opens;	/* any non-NULL garbage */
	int ret;

	g_opens = g_closes = g_seeks = g_dups = 0;
	g_open_failed = g_step_failed = false;
	g_os_size = verif_nd_u64("os_size");
	VERIF_ASSUME(!(flags & ~(sqfs_u32)SQFS_FILE_OPEN_ALL_FLAGS));

	ret = sqfs_file_open(&f, "out.img", flags);

	VERIF_ASSERT(g_opens == 1, "C14.open.one_syscall");
	VERIF_ASSERT(g_seeks == 0, "C14.open.no_late_truncate");
	if (ret == 0) {
		VERIF_ASSERT(f != NULL && f->get_size(f) == g_os_size &&
			     !g_open_failed && !g_step_failed,
			     "C14.open.no_late_truncate");
		VERIF_COVER(g_os_size == 0);
		free(f);
	} else {
		VERIF_ASSERT(f == NULL &&
			     (g_open_failed || g_step_failed || ret == SQFS_ERROR_ALLOC) &&
			     (g_open_failed || g_closes >= 1),
			     "C14.open.error_reported");
		VERIF_COVER(g_open_failed);
		VERIF_COVER(g_step_failed && g_dups == 1);
	}
}
#endif
