/*
 * c14_env.h - environment contract of the output file (sqfs_file_t) for the
 * C14 / C13 harnesses: ghost tracked size, ghost sequence counter, write log,
 * fault flag. DESIGN section 3, row "write_at / truncate / get_size".
 *
 * The contract (TRUSTED, stated once here):
 *   get_size()          returns the tracked size g_fsize.
 *   write_at(off,buf,n) requires r_ok(buf,n). Either fails (any negative
 *                       code; tracked size unchanged, g_fault set; always
 *                       when off+n would exceed C14_FILE_MAX) or returns
 *                       0 and the tracked size becomes max(size, off+n) -
 *                       exactly what stdio_write_at() in lib/sqfs/src/io/file.c
 *                       does with file->size.
 *   truncate(sz)        either fails (negative, size unchanged, g_fault set)
 *                       or returns 0 and the tracked size becomes sz.
 *   read_at             fails or delivers arbitrary bytes; no effect on the file.
 *
 * The C14 call-site obligations are asserted *by the contract*, so they are
 * checked at every call the function under test issues:
 *   C14.append_only.<SITE>          write_at offset >= current tracked size
 *                                   and >= sizeof(sqfs_super_t): bytes 0..95
 *                                   and everything already written are never
 *                                   touched again
 *   C14.truncate_keeps_super.<SITE> truncate size >= sizeof(sqfs_super_t)
 * A harness that legitimately writes the superblock defines
 * C14_SUPER_WRITE_HOOK(buf) - a write_at(0, buf, 96) is then routed there
 * instead of being an append_only violation.
 *
 * The harness defines C14_SITE (string literal) before including this file.
 */
#ifndef C14_ENV_H
#define C14_ENV_H

#include "verif.h"
#include "sqfs/predef.h"
#include "sqfs/io.h"
#include "sqfs/super.h"
#include "sqfs/error.h"

#ifndef C14_SITE
#error "define C14_SITE before including c14_env.h"
#endif

#define C14_SUPER_SZ ((sqfs_u64)sizeof(sqfs_super_t))
/* the OS refuses to grow a file beyond this (EFBIG; off_t is 63 bit) */
#define C14_FILE_MAX ((sqfs_u64)1 << 62)

static sqfs_u64 g_fsize;	/* tracked size of the output file */
static unsigned g_seq;		/* sequence counter over environment events */
static unsigned g_nwrite;	/* successful or failed write_at calls below */
static unsigned g_ntrunc;
static bool g_fault;		/* an environment call reported failure */
static sqfs_u64 g_w_off;	/* last data write: offset, length, sequence */
static size_t g_w_len;
static unsigned g_w_seq;
static sqfs_u64 g_t_size;	/* last truncate: requested size */
static sqfs_u8 g_w_witness;	/* byte g_w_k of the last data write */
static size_t g_w_k;		/* witness index, chosen by the harness */

static int c14_error_code(const char *tag)
{
	int e = verif_nd_int(tag);

	return e < 0 ? e : SQFS_ERROR_IO;
}

int c14_write_at(sqfs_file_t *f, sqfs_u64 off, const void *buf,
			size_t n)
{
	(void)f;
	g_seq += 1;
	VERIF_ASSERT(VERIF_R_OK(buf, n), "C14.env.write_at.buffer_readable");
#ifdef C14_SUPER_WRITE_HOOK
	if (off == 0 && n == sizeof(sqfs_super_t))
		return C14_SUPER_WRITE_HOOK(buf);
#endif
	VERIF_ASSERT(off >= g_fsize && off >= C14_SUPER_SZ,
		     "C14.append_only." C14_SITE);
	g_nwrite += 1;
	g_w_off = off;
	g_w_len = n;
	g_w_seq = g_seq;
#ifndef C14_NO_WITNESS
	if (g_w_k < n)
		g_w_witness = ((const sqfs_u8 *)buf)[g_w_k];
#endif

	if (verif_nd_bool("write_at.fail") || off > C14_FILE_MAX ||
	    n > C14_FILE_MAX - off) {
		g_fault = true;
		return c14_error_code("write_at.err");
	}
	if (off + n >= g_fsize)
		g_fsize = off + n;
	return 0;
}

int c14_truncate(sqfs_file_t *f, sqfs_u64 sz)
{
	(void)f;
	g_seq += 1;
#ifdef C14_TRUNC_WITNESS_GUARD
	/* witness form (DESIGN 2.4): the harness assumed the representation
	 * invariant for ONE arbitrary index; the obligation is checked for the
	 * executions in which that index is the one used here - the solver
	 * quantifies over the index, so every execution is covered */
	VERIF_ASSERT(!(C14_TRUNC_WITNESS_GUARD) || sz >= C14_SUPER_SZ,
		     "C14.truncate_keeps_super." C14_SITE);
#else
	VERIF_ASSERT(sz >= C14_SUPER_SZ, "C14.truncate_keeps_super." C14_SITE);
#endif
	g_ntrunc += 1;
	g_t_size = sz;
	if (verif_nd_bool("truncate.fail")) {
		g_fault = true;
		return c14_error_code("truncate.err");
	}
	g_fsize = sz;
	return 0;
}

/* read_at: requires w_ok(buf,n); fails, or fills buf with arbitrary bytes
 * (one witness byte is given a value; the rest is whatever it was - the
 * over-approximation of DESIGN 2.4). Never changes the file. */
int c14_read_at(sqfs_file_t *f, sqfs_u64 off, void *buf, size_t n)
{
	size_t k = verif_nd_size("read_at.k");

	(void)f; (void)off;
	VERIF_ASSERT(VERIF_W_OK(buf, n), "C14.env.read_at.buffer_writable");
	if (verif_nd_bool("read_at.fail")) {
		g_fault = true;
		return c14_error_code("read_at.err");
	}
	if (k < n)
		((sqfs_u8 *)buf)[k] = verif_nd_u8("read_at.byte");
	return 0;
}

sqfs_u64 c14_get_size(const sqfs_file_t *f)
{
	(void)f;
	return g_fsize;
}

void c14_file_destroy(sqfs_object_t *obj);
static unsigned g_file_destroyed;
static unsigned g_file_destroy_seq;

void c14_file_destroy(sqfs_object_t *obj)
{
	(void)obj;
	g_seq += 1;
	g_file_destroyed += 1;
	g_file_destroy_seq = g_seq;
}

static sqfs_file_t g_file;
static unsigned g_obj_destroyed;

static void c14_file_object_init(sqfs_u64 size)
{
	g_file.base.refcount = 1;
	g_file.base.destroy = c14_file_destroy;
	g_file.base.copy = NULL;
	g_file.read_at = c14_read_at;
	g_file.write_at = c14_write_at;
	g_file.get_size = c14_get_size;
	g_file.truncate = c14_truncate;
	g_file.get_filename = NULL;
	g_fsize = size;
}

/* ghost state is initialised explicitly: goto-instrument's contract passes
 * make statics nondeterministic */
static void c14_ghost_init(void)
{
	g_seq = 0;
	g_nwrite = 0;
	g_ntrunc = 0;
	g_fault = false;
	g_w_off = 0;
	g_w_len = 0;
	g_w_seq = 0;
	g_w_witness = 0;
	g_t_size = 0;
	g_file_destroyed = 0;
	g_file_destroy_seq = 0;
	g_obj_destroyed = 0;
	g_w_k = verif_nd_size("w_k");
}

/* file object in an arbitrary state of the append phase: a provisional
 * superblock is in place, i.e. tracked size >= sizeof(super) */
static void c14_file_init(sqfs_u64 size)
{
	c14_ghost_init();
	c14_file_object_init(size);
}

/* ---- compressor contract (DESIGN section 3): any r <= outsize, negative =
 * error; compress mode: r < size or r == 0; writes only out[0..r) ---------- */
#include "sqfs/compressor.h"

sqfs_s32 c14_do_block(sqfs_compressor_t *cmp, const sqfs_u8 *in,
			     sqfs_u32 size, sqfs_u8 *out, sqfs_u32 outsize)
{
	sqfs_s32 r = verif_nd_int("do_block.ret");
	size_t k = verif_nd_size("do_block.k");

	(void)cmp;
	VERIF_ASSERT(VERIF_R_OK(in, size) && VERIF_W_OK(out, outsize),
		     "C14.env.do_block.buffers");
	if (r < 0) {
		g_fault = true;
		return r;
	}
	if (r > 0 && ((sqfs_u32)r >= size || (sqfs_u32)r > outsize))
		r = 0;
#ifndef C14_NO_WITNESS
	if (k < (size_t)r)
		out[k] = verif_nd_u8("do_block.byte");
#endif
	return r;
}

/* generic destroy hook for objects the harness owns */
void c14_obj_destroy(sqfs_object_t *obj)
{
	(void)obj;
	g_obj_destroyed += 1;
}

#endif /* C14_ENV_H */
