/* C14.append_only.write_data_block / C14.truncate_keeps_super.write_data_block
 * (proved, loop contracts): the data block writer (block_writer.c:
 * write_data_block + deduplicate_blocks) is the only code that writes file
 * data and the only code that ever truncates the output.
 *
 * State: an ARBITRARY block writer satisfying its representation invariant
 *   wf: file_start <= blocks.used < capacity, and every recorded block
 *       offset is a file position >= sizeof(sqfs_super_t) (and <= the
 *       largest file size the OS contract allows, C14_FILE_MAX)
 * (any history of earlier calls), an arbitrary file of the append phase,
 * arbitrary (size, checksum, flags). Obligations:
 *   C14.append_only.write_data_block        the data write_at goes to the
 *                                           current end of the file
 *   C14.truncate_keeps_super.write_data_block  the deduplication truncate
 *                                           never cuts into bytes 0..95
 *   C14.blkwr.records_ge_super              every location recorded in the
 *                                           block list is >= sizeof(super)
 *                                           (asserted by the array_append
 *                                           contract) and the list only
 *                                           shrinks otherwise => wf is
 *                                           re-established (inductive step)
 *   C14.blkwr.location_ge_super             the location handed back to the
 *                                           block processor (it ends up in
 *                                           inodes / the fragment table) is
 *                                           never inside the superblock
 * "every recorded offset >= 96" is assumed for one arbitrary witness index
 * g_blk_w and the truncate obligation is checked for the executions where the
 * entry that determines the truncate size is that index (DESIGN 2.4).
 * The three loops of deduplicate_blocks carry loop contracts
 * (contracts/loops/C14.tbl); the block list has a symbolic length.
 */
#define C14_SITE "write_data_block"
#define C14_TRUNC_WITNESS_GUARD c14_trunc_guard()
#include <stdlib.h>
#include <string.h>
#include <stdbool.h>
static bool c14_trunc_guard(void);
static size_t g_blk_w;
static unsigned g_cmp_calls;
#include "C14/c14_env.h"
#include "lib/sqfs/src/block_writer.c"

static struct {
	block_writer_default_t wr;
	sqfs_u8 scratch[SCRATCH_SIZE];
} g_wr;

static bool c14_trunc_guard(void)
{
	return g_wr.wr.blocks.used >= 1 && g_wr.wr.blocks.used - 1 == g_blk_w;
}

#ifndef BLK_MAX
#define BLK_MAX ((size_t)1 << 20)
#endif

int check_file_range_equal(sqfs_file_t *file, void *scratch,
			   size_t scratch_size, sqfs_u64 loc_a,
			   sqfs_u64 loc_b, sqfs_u64 size)
{
	int r = verif_nd_int("cmp.ret");

	(void)loc_a; (void)loc_b; (void)size;
	VERIF_ASSERT(file == &g_file && VERIF_W_OK(scratch, scratch_size),
		     "C14.env.file_cmp.pre");
	g_cmp_calls += 1;	/* reads only: no effect on the file */
	if (r < 0)
		g_fault = true;
	return r;
}

int array_append(array_t *array, const void *data)
{
	const blk_info_t *info = data;

	VERIF_ASSERT(array == &g_wr.wr.blocks && array->used < array->count,
		     "C14.env.array_append.pre");
	VERIF_ASSERT(info->offset >= C14_SUPER_SZ && info->offset <= C14_FILE_MAX,
		     "C14.blkwr.records_ge_super");
	if (verif_nd_bool("array_append.fail")) {
		g_fault = true;
		return SQFS_ERROR_ALLOC;
	}
	((blk_info_t *)array->data)[array->used] = *info;
	array->used += 1;
	return 0;
}

void harness(void)
{
	size_t cap = verif_nd_size("cap"), used0, start0;
	sqfs_u64 size0 = verif_nd_u64("fsize"), location = 0;
	sqfs_u32 size = verif_nd_u32("size"), chk = verif_nd_u32("chk");
	sqfs_u32 flags = verif_nd_u32("flags");
	sqfs_u8 *payload;
	blk_info_t *arr;
	int ret;

	VERIF_ASSUME(size0 >= C14_SUPER_SZ && size0 <= C14_FILE_MAX);
	c14_file_init(size0);
	g_cmp_calls = 0;

	VERIF_ASSUME(cap >= 1 && cap <= BLK_MAX);
	arr = malloc(cap * sizeof(*arr));
	VERIF_ASSUME(arr != NULL);
	memset(&g_wr.wr, 0, sizeof(g_wr.wr));
	g_wr.wr.file = &g_file;
	g_wr.wr.blocks.size = sizeof(blk_info_t);
	g_wr.wr.blocks.count = cap;
	g_wr.wr.blocks.data = arr;
	used0 = verif_nd_size("used");
	start0 = verif_nd_size("file_start");
	VERIF_ASSUME(used0 < cap && start0 <= used0);
	g_wr.wr.blocks.used = used0;
	g_wr.wr.file_start = start0;
	g_wr.wr.flags = verif_nd_u32("wr_flags");
	/* wf, witness form */
	g_blk_w = verif_nd_size("w");
	VERIF_ASSUME(g_blk_w >= used0 ||
		     (arr[g_blk_w].offset >= C14_SUPER_SZ &&
		      arr[g_blk_w].offset <= C14_FILE_MAX));
	/* payload: only its address is passed on; the write_at contract checks
	 * readability of the full extent */
	payload = malloc(size);
	VERIF_ASSUME(payload != NULL);

	ret = write_data_block((sqfs_block_writer_t *)&g_wr.wr, NULL, size, chk,
			       flags, payload, &location);

	VERIF_ASSERT(g_wr.wr.blocks.used <= used0 + 1 &&
		     g_wr.wr.file_start <= g_wr.wr.blocks.used,
		     "C14.blkwr.wf_kept");
	VERIF_ASSERT(g_nwrite <= 1 && g_ntrunc <= 1, "C14.blkwr.one_write_one_truncate");
	if (ret == 0 && !(flags & SQFS_BLK_LAST_BLOCK))
		VERIF_ASSERT(location >= C14_SUPER_SZ, "C14.blkwr.location_ge_super");
	VERIF_COVER(ret == 0 && g_nwrite == 1 && g_ntrunc == 0);
	VERIF_COVER(ret == 0 && g_ntrunc == 1 && g_blk_w == g_wr.wr.blocks.used - 1);
	VERIF_COVER(ret == 0 && g_ntrunc == 1 && g_cmp_calls == 2);
	VERIF_COVER(ret != 0 && g_ntrunc == 1);
	VERIF_COVER(ret == 0 && (flags & SQFS_BLK_LAST_BLOCK) && g_ntrunc == 0 && used0 > 3);
}
