/* C14.file.write_at_complete (proved with the loop contract of
 * contracts/loops/C12.tbl; plus a plain bounded run that does not depend on
 * the loop's shape): discharges the clause of the C14 file contract
 * (c14_env.h) "write_at returns 0 => all n bytes went out, in order, at
 * off..off+n, and the tracked size became max(size, off+n); otherwise the
 * tracked size is unchanged" on the REAL stdio_write_at (lib/sqfs/src/io/file.c,
 * POSIX branch). pwrite() is its contract: any count 1..n, 0, or -1 with any
 * errno, at every call (all short-transfer / EINTR sequences). Without this
 * clause a final superblock could be committed although data it refers to
 * was never written.
 *   C14.file.write_at_complete   ret == 0 <=> the accepted counts sum to n and
 *                                no call failed hard or returned 0
 *   C14.file.write_at_in_order   the k-th pwrite is (fd, buf+done, n-done,
 *                                off+done): each file byte off+k is written
 *                                once, from buf[k] (witness offset)
 *   C14.file.write_at_size       ret == 0 => size' = max(size, off+n);
 *                                ret != 0 => size' = size
 * The harness mirrors harness/C12/write_at.c (same ghost names, so the C12
 * loop row applies); C14_BMC selects the bounded variant (n <= 3, at most 2
 * EINTRs, no loop contract).
 */
#include <stdlib.h>
#include "C12/c12_env.h"

int g_fd;
const char *g_buf0;
size_t g_n0;
uint64_t g_off0;
size_t g_done;
bool g_hard;
bool g_zero;
uint64_t g_woff;
uint8_t g_wval;
unsigned g_wcount;
uint64_t g_fuel;
unsigned g_calls;

#include "lib/sqfs/src/io/file.c"

ssize_t pwrite(int fd, const void *buf, size_t n, off_t off)
{
	ssize_t r;

	VERIF_ASSERT(fd == g_fd && (const char *)buf == g_buf0 + g_done &&
		     n == g_n0 - g_done && off >= 0 &&
		     (uint64_t)off == g_off0 + g_done && !g_hard && !g_zero &&
		     VERIF_R_OK(buf, n),
		     "C14.file.write_at_in_order");
	if (g_calls < 3)
		g_calls++;

	r = c12_any_outcome(n, "pwrite.ret");
	if (r < 0) {
		g_errno = verif_nd_int("pwrite.errno");
		if (g_errno == EINTR) {
			VERIF_ASSUME(g_fuel > 0);
			g_fuel--;
		} else {
			g_hard = true;
		}
	} else if (r == 0) {
		g_zero = true;
	} else {
		if (g_woff >= (uint64_t)off && g_woff - (uint64_t)off < (uint64_t)r) {
			g_wval = ((const uint8_t *)buf)[g_woff - (uint64_t)off];
			if (g_wcount < 2)
				g_wcount++;
		}
		g_done += (size_t)r;
	}
	return r;
}

#ifdef C14_BMC
#define WR_MAX 3
#define FUEL_MAX 2
#else
#define WR_MAX 0x7fffffffffffULL
#define FUEL_MAX UINT64_MAX
#endif

void harness(void)
{
	static struct { sqfs_file_stdio_t f; char name[8]; } w;
	size_t n = verif_nd_size("n");
	uint64_t off = verif_nd_u64("off");
	uint64_t size0 = verif_nd_u64("file.size");
	uint8_t *buf;
	uint8_t b_w = 0;
	int ret;

	VERIF_ASSUME(n <= WR_MAX);
	VERIF_ASSUME(off <= (uint64_t)INT64_MAX - n);
	buf = malloc(n);
	VERIF_ASSUME(buf != NULL);

	w.f.fd = verif_nd_int("fd");
	w.f.size = size0;
	w.f.readonly = false;
	g_fd = w.f.fd;
	g_buf0 = (const char *)buf;
	g_n0 = n;
	g_off0 = off;
	g_done = 0;
	g_hard = g_zero = false;
	g_calls = 0;
	g_woff = verif_nd_u64("woff");
	g_wval = 0;
	g_wcount = 0;
	g_fuel = verif_nd_u64("fuel");
	VERIF_ASSUME(g_fuel <= FUEL_MAX);
	if (g_woff >= off && g_woff - off < n) {
		b_w = verif_nd_u8("buf[w]");
		buf[g_woff - off] = b_w;
	}

	ret = stdio_write_at((sqfs_file_t *)&w.f, off, buf, n);

	VERIF_ASSERT((ret == 0) == (g_done == n && !g_hard && !g_zero),
		     "C14.file.write_at_complete");
	if (g_woff >= off && g_woff - off < n) {
		if (ret == 0)
			VERIF_ASSERT(g_wcount == 1 && g_wval == b_w,
				     "C14.file.write_at_in_order");
	} else {
		VERIF_ASSERT(g_wcount == 0, "C14.file.write_at_in_order");
	}
	if (ret == 0)
		VERIF_ASSERT(w.f.size == (size0 > off + n ? size0 : off + n),
			     "C14.file.write_at_size");
	else
		VERIF_ASSERT(w.f.size == size0, "C14.file.write_at_size");

	VERIF_COVER(ret == 0 && n >= 3 && g_calls >= 3);
	VERIF_COVER(ret == 0 && g_woff >= off && g_woff - off < n);
	VERIF_COVER(ret == 0 && w.f.size > size0);
	VERIF_COVER(ret == SQFS_ERROR_IO && g_done > 0);
	VERIF_COVER(ret == SQFS_ERROR_OUT_OF_BOUNDS && g_done > 0);
}
