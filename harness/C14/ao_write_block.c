/* C14.append_only.write_block (proved): write_block() in meta_writer.c is the
 * only place where the metadata writer touches the output file
 * (sqfs_meta_writer_flush and sqfs_meta_write_write_to_file go through it).
 * For every block content and every file state of the append phase
 * (tracked size >= sizeof(super)) its single write_at is issued at the
 * current end of the file, with a length that stays inside the block buffer.
 * Loop-free.
 */
#define C14_SITE "write_block"
#include "C14/c14_env.h"
#include "lib/sqfs/src/meta_writer.c"

void harness(void)
{
	static meta_block_t blk;
	sqfs_u64 size0 = verif_nd_u64("fsize");
	int ret;

	VERIF_ASSUME(size0 >= C14_SUPER_SZ && size0 <= C14_FILE_MAX);
	c14_file_init(size0);
	blk.next = NULL;
	blk.data[0] = verif_nd_u8("hdr0");
	blk.data[1] = verif_nd_u8("hdr1");
	/* representation invariant of a queued block (established by
	 * sqfs_meta_writer_flush): stored length <= SQFS_META_BLOCK_SIZE */
	VERIF_ASSUME((((unsigned)blk.data[1] << 8 | blk.data[0]) & 0x7FFF) <=
		     SQFS_META_BLOCK_SIZE);

	ret = write_block(&g_file, &blk);

	VERIF_ASSERT(g_nwrite == 1 && g_ntrunc == 0 && g_w_off == size0,
		     "C14.write_block.one_write_at_end");
	VERIF_ASSERT(g_w_len == ((((size_t)blk.data[1] << 8) | blk.data[0]) & 0x7FFF) + 2,
		     "C14.write_block.len_from_header");
	VERIF_COVER(ret == 0 && g_w_len == SQFS_META_BLOCK_SIZE + 2);
	VERIF_COVER(ret != 0);
}
