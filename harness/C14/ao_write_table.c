/* C14.append_only.write_table (proved, loop contract): sqfs_write_table() is
 * the writer of the fragment, export and ID tables (and the callers hand its
 * *start to the superblock). Against the append-only contract of the metadata
 * writer (append/flush may add any number of bytes at the end of the file, or
 * fail) and for every table size:
 *   C14.append_only.write_table     its own write_at (the location list) is
 *                                   issued at the current end of the file
 *   C14.truncate_keeps_super.*      (no truncate at all)
 *   C14.write_table.start_inside    success and a non-empty table => *start is
 *                                   >= the size at entry (>= sizeof(super)) and
 *                                   strictly below the size at return, so a
 *                                   superblock that records it together with
 *                                   bytes_used = final size is consistent
 *   C14.write_table.no_shrink       the file never shrinks
 * The "while (table_size > 0)" loop is closed by the loop contract in
 * contracts/loops/C14.tbl (block index stays inside the location array for
 * every table size).
 */
#define C14_SITE "write_table"
#include <stdlib.h>
#include "C14/c14_env.h"
#include "sqfs/meta_writer.h"
#include "sqfs/block.h"
#include "util/util.h"

/* ---- contract of the metadata writer as seen by a table writer ---------- */
struct sqfs_meta_writer_t {
	sqfs_object_t base;
};
static struct sqfs_meta_writer_t g_mw;
static unsigned g_mw_live;

static void mw_env_append_bytes(const char *tag)
{
	sqfs_u64 grow = verif_nd_u64(tag);

	/* zero or more whole blocks appended at the end (write_block contract) */
	if (g_fsize <= C14_FILE_MAX && grow <= C14_FILE_MAX - g_fsize)
		g_fsize += grow;
}

void mw_destroy(sqfs_object_t *obj)
{
	(void)obj;
	g_mw_live -= 1;
}

sqfs_meta_writer_t *sqfs_meta_writer_create(sqfs_file_t *file,
					    sqfs_compressor_t *cmp,
					    sqfs_u32 flags)
{
	(void)cmp; (void)flags;
	VERIF_ASSERT(file == &g_file, "C14.write_table.writer_on_output_file");
	if (verif_nd_bool("mw_create.fail")) {
		g_fault = true;
		return NULL;
	}
	g_mw.base.refcount = 1;
	g_mw.base.destroy = mw_destroy;
	g_mw_live += 1;
	return &g_mw;
}

int sqfs_meta_writer_append(sqfs_meta_writer_t *m, const void *data,
			    size_t size)
{
	VERIF_ASSERT(m == &g_mw && size <= SQFS_META_BLOCK_SIZE,
		     "C14.write_table.append_pre");
	(void)data;
	mw_env_append_bytes("mw_append.grow");
	if (verif_nd_bool("mw_append.fail")) {
		g_fault = true;
		return c14_error_code("mw_append.err");
	}
	return 0;
}

int sqfs_meta_writer_flush(sqfs_meta_writer_t *m)
{
	VERIF_ASSERT(m == &g_mw, "C14.write_table.flush_pre");
	mw_env_append_bytes("mw_flush.grow");
	if (verif_nd_bool("mw_flush.fail")) {
		g_fault = true;
		return c14_error_code("mw_flush.err");
	}
	return 0;
}

void *alloc_array(size_t item_size, size_t nmemb)
{
	size_t size;

	if (SZ_MUL_OV(nmemb, item_size, &size) || verif_nd_bool("alloc.fail")) {
		g_fault = true;
		return NULL;
	}
	{
		void *p = calloc(1, size);

		if (p == NULL)
			g_fault = true;
		return p;
	}
}

#include "lib/sqfs/src/write_table.c"

#ifndef TABLE_MAX
#define TABLE_MAX ((size_t)1 << 40)
#endif

void harness(void)
{
	size_t table_size = verif_nd_size("table_size");
	sqfs_u64 size0 = verif_nd_u64("fsize"), start = 0;
	sqfs_u8 *table;
	int ret;

	VERIF_ASSUME(size0 >= C14_SUPER_SZ && size0 <= C14_FILE_MAX);
	VERIF_ASSUME(table_size <= TABLE_MAX);
	c14_file_init(size0);
	g_mw_live = 0;
	table = malloc(table_size);
	VERIF_ASSUME(table != NULL);

	ret = sqfs_write_table(&g_file, NULL, table, table_size, &start);

	VERIF_ASSERT(g_ntrunc == 0 && g_fsize >= size0,
		     "C14.write_table.no_shrink");
	if (ret == 0) {
		VERIF_ASSERT(start >= size0 && start <= g_fsize &&
			     (table_size == 0 || start < g_fsize),
			     "C14.write_table.start_inside");
		VERIF_ASSERT(g_nwrite == 1 && g_w_off == start,
			     "C14.write_table.one_write_at_start");
	}
	VERIF_ASSERT(g_mw_live == 0, "C14.write_table.writer_released");
#ifdef C13_CHECKS
	VERIF_ASSERT(!g_fault || ret != 0, "C13.write_table.propagates");
	VERIF_ASSERT(ret == 0 || g_fault, "C13.write_table.fails_only_on_fault");
#endif
	VERIF_COVER(ret == 0 && table_size == 0);
	VERIF_COVER(ret == 0 && table_size == 3 * SQFS_META_BLOCK_SIZE + 5);
	VERIF_COVER(ret == 0 && table_size == TABLE_MAX);
	VERIF_COVER(ret != 0 && g_nwrite == 1);
	VERIF_COVER(ret != 0 && g_nwrite == 0);
}
