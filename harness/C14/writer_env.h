/*
 * writer_env.h - contracts of everything lib/common/src/writer/{init,cleanup}.c
 * call, for the C14 and C13 harnesses of sqfs_writer_init / sqfs_writer_cleanup.
 * Requires c14_env.h (file contract, ghost state) and c14_libc.h before it.
 *
 * Every "create" contract: returns failure/NULL (sets g_fault) or a live
 * object with refcount 1 whose destroy hook is the contract's; it takes the
 * references the real constructor takes (sqfs_grab) and its destroy hook drops
 * them again. None of them writes to the output file - for the real
 * constructors this is visible from their bodies (they only allocate and
 * sqfs_grab), and any write they did issue would be caught in the ao_*
 * harnesses' frame conditions of the code that owns the file.
 *
 * Object bookkeeping is by index; reference drops inside destroy hooks are
 * written out per level (no recursion through sqfs_drop).
 */
#ifndef WRITER_ENV_H
#define WRITER_ENV_H

#ifndef WENV
#define WENV "C14"	/* property prefix of the env precondition names */
#endif

#include "simple_writer.h"
#include "compress_cli.h"
#include "common.h"

enum {
	OB_CMP, OB_UNCMP, OB_BLKWR, OB_FRAGTBL, OB_DATA, OB_IDTBL, OB_XWR,
	OB_IM, OB_DM, OB_DIRWR, OB_N
};

/* storage for the objects; opaque library types get a definition here */
struct sqfs_frag_table_t { sqfs_object_t base; };
struct sqfs_id_table_t { sqfs_object_t base; };
struct sqfs_xattr_writer_t { sqfs_object_t base; };
struct sqfs_meta_writer_t { sqfs_object_t base; };
struct sqfs_dir_writer_t { sqfs_object_t base; };
struct sqfs_block_processor_t { sqfs_object_t base; };

static sqfs_compressor_t g_o_cmp, g_o_uncmp;
static sqfs_block_writer_t g_o_blkwr;
static struct sqfs_frag_table_t g_o_fragtbl;
static struct sqfs_block_processor_t g_o_data;
static struct sqfs_id_table_t g_o_idtbl;
static struct sqfs_xattr_writer_t g_o_xwr;
static struct sqfs_meta_writer_t g_o_im, g_o_dm;
static struct sqfs_dir_writer_t g_o_dirwr;

static bool g_ob_live[OB_N];
static unsigned g_ob_created[OB_N];
static unsigned g_ob_destroyed[OB_N];
static unsigned g_ob_destroy_seq[OB_N];
static bool g_file_open;	/* sqfs_file_open succeeded, object not yet destroyed */
static unsigned g_file_opened;
static bool g_file_created;	/* a file of the output name was created / truncated by this run */
static int g_native_fd_open;	/* native handles opened and not yet closed / owned */
static bool g_fs_live;		/* fstree_init succeeded, not yet cleaned up */
static unsigned g_fs_cleanups;
static unsigned g_use_after_destroy;

static sqfs_object_t *ob_ptr(int idx)
{
	switch (idx) {
	case OB_CMP: return (sqfs_object_t *)&g_o_cmp;
	case OB_UNCMP: return (sqfs_object_t *)&g_o_uncmp;
	case OB_BLKWR: return (sqfs_object_t *)&g_o_blkwr;
	case OB_FRAGTBL: return (sqfs_object_t *)&g_o_fragtbl;
	case OB_DATA: return (sqfs_object_t *)&g_o_data;
	case OB_IDTBL: return (sqfs_object_t *)&g_o_idtbl;
	case OB_XWR: return (sqfs_object_t *)&g_o_xwr;
	case OB_IM: return (sqfs_object_t *)&g_o_im;
	case OB_DM: return (sqfs_object_t *)&g_o_dm;
	default: return (sqfs_object_t *)&g_o_dirwr;
	}
}

static int ob_index(const sqfs_object_t *o)
{
	int i;

	for (i = 0; i < OB_N; ++i) {
		if (o == ob_ptr(i))
			return i;
	}
	return OB_N;
}

void c14_comp_destroy(sqfs_object_t *obj);

static void ob_mark_destroyed(int idx)
{
	g_seq += 1;
	if (!g_ob_live[idx])
		g_use_after_destroy += 1;
	g_ob_live[idx] = false;
	g_ob_destroyed[idx] += 1;
	g_ob_destroy_seq[idx] = g_seq;
}

static void drop_file_ref(void)
{
	if (!g_file_open) {
		g_use_after_destroy += 1;
		return;
	}
	if (g_file.base.refcount <= 1) {
		g_file_open = false;
		c14_file_destroy(&g_file.base);
	} else {
		g_file.base.refcount -= 1;
	}
}

/* objects without references of their own */
static void drop_l0(int idx)
{
	sqfs_object_t *o = ob_ptr(idx);

	if (!g_ob_live[idx]) {
		g_use_after_destroy += 1;
		return;
	}
	if (o->refcount <= 1)
		ob_mark_destroyed(idx);
	else
		o->refcount -= 1;
}

static void l1_release_refs(int idx)
{
	if (idx == OB_BLKWR) {
		drop_file_ref();
	} else {	/* OB_IM, OB_DM */
		drop_l0(OB_CMP);
		drop_file_ref();
	}
}

/* block writer, metadata writers: hold leaf references only */
static void drop_l1(int idx)
{
	sqfs_object_t *o = ob_ptr(idx);

	if (!g_ob_live[idx]) {
		g_use_after_destroy += 1;
		return;
	}
	if (o->refcount <= 1) {
		ob_mark_destroyed(idx);
		l1_release_refs(idx);
	} else {
		o->refcount -= 1;
	}
}

/* destroy hook of every component object */
void c14_comp_destroy(sqfs_object_t *obj)
{
	int idx = ob_index(obj);

	VERIF_ASSERT(idx < OB_N, WENV ".env.destroy.known_object");
	if (idx >= OB_N)
		return;
	ob_mark_destroyed(idx);
	switch (idx) {
	case OB_BLKWR:
	case OB_IM:
	case OB_DM:
		l1_release_refs(idx);
		break;
	case OB_DATA:
		drop_l0(OB_FRAGTBL);
		drop_l1(OB_BLKWR);
		drop_file_ref();
		drop_l0(OB_UNCMP);
		break;
	case OB_DIRWR:
		drop_l1(OB_DM);
		break;
	default:
		break;
	}
}

/* destroy hook of the output file object (sqfs_drop on the last reference) */
void c14_outfile_destroy(sqfs_object_t *obj)
{
	(void)obj;
	if (!g_file_open)
		g_use_after_destroy += 1;
	g_file_open = false;
	c14_file_destroy(obj);
}

static void *ob_create(int idx, const char *tag)
{
	sqfs_object_t *o = ob_ptr(idx);

	g_seq += 1;
	if (verif_nd_bool(tag)) {
		g_fault = true;
		return NULL;
	}
	o->refcount = 1;
	o->destroy = c14_comp_destroy;
	o->copy = NULL;
	g_ob_live[idx] = true;
	g_ob_created[idx] += 1;
	return o;
}

static void grab_file(sqfs_file_t *file)
{
	VERIF_ASSERT(file == &g_file && g_file_open, WENV ".env.create.file_is_open_output");
	g_file.base.refcount += 1;
}

static void grab_ob(int idx, const void *p)
{
	VERIF_ASSERT(p == (const void *)ob_ptr(idx) && g_ob_live[idx],
		     WENV ".env.create.live_component");
	ob_ptr(idx)->refcount += 1;
}

static void writer_env_init(void)
{
	int i;

	for (i = 0; i < OB_N; ++i) {
		g_ob_live[i] = false;
		g_ob_created[i] = 0;
		g_ob_destroyed[i] = 0;
		g_ob_destroy_seq[i] = 0;
	}
	g_file_open = false;
	g_file_opened = 0;
	g_file_created = false;
	g_native_fd_open = 0;
	g_fs_live = false;
	g_fs_cleanups = 0;
	g_use_after_destroy = 0;
	g_diag = 0;
}

/* ---- the callees of sqfs_writer_init ------------------------------------ */

int compressor_cfg_init_options(sqfs_compressor_config_t *cfg,
				SQFS_COMPRESSOR id, size_t block_size,
				char *options)
{
	(void)options;
	memset(cfg, 0, sizeof(*cfg));
	if (verif_nd_bool("comp_cfg.fail")) {
		g_fault = true;
		g_diag += 1;	/* prints its own message (comp_opt.c) */
		return -1;
	}
	cfg->id = id;
	/* compressor specific flags only; never the UNCOMPRESS direction bit
	 * (comp_opt.c builds the flags from the option keywords) */
	cfg->flags = verif_nd_u16("comp_cfg.flags") & 0x7FFFu;
	VERIF_ASSERT(SQFS_COMP_FLAG_UNCOMPRESS == 0x8000, WENV ".env.comp_cfg.flag_layout");
	cfg->block_size = (sqfs_u32)(block_size & 0xFFFFFFFFUL);
	return 0;
}

/* The output file on disk as a ghost: g_file_created = a file of the given
 * name was created (O_EXCL) or truncated (O_TRUNC) by this run - the contract
 * proved for unix.c / file.c in open_flags.c. sqfs_file_open() = native open +
 * sqfs_file_open_handle(); it has THREE outcomes: the open(2) fails (nothing
 * of ours on disk: e.g. the file exists and -f was not given), the file is
 * created but the object cannot be set up (allocation failure, fstat/dup
 * failure in sqfs_file_open_handle: an EMPTY FILE OF OURS IS LEFT), success. */

static int wenv_open_object(sqfs_file_t **out)
{
	if (verif_nd_bool("file_open_handle.fail")) {
		g_fault = true;
		*out = NULL;
		return c14_error_code("file_open_handle.err");
	}
	c14_file_object_init(0);
	g_file.base.destroy = c14_outfile_destroy;
	g_file_open = true;
	g_file_opened += 1;
	*out = &g_file;
	return 0;
}

int sqfs_file_open(sqfs_file_t **out, const char *filename, sqfs_u32 flags)
{
	(void)filename; (void)flags;
	g_seq += 1;
	VERIF_ASSERT(!g_file_open && !g_file_created, WENV ".env.file_open.once");
	if (verif_nd_bool("file_open.fail")) {
		g_fault = true;
		*out = NULL;
		return c14_error_code("file_open.err");
	}
	g_file_created = true;
	return wenv_open_object(out);	/* closes the handle itself on failure */
}

int sqfs_native_file_open(sqfs_file_handle_t *out, const char *filename,
			  sqfs_u32 flags)
{
	(void)filename; (void)flags;
	g_seq += 1;
	VERIF_ASSERT(!g_file_open && !g_file_created, WENV ".env.file_open.once");
	if (verif_nd_bool("file_open.fail")) {
		g_fault = true;
		*out = -1;
		return c14_error_code("file_open.err");
	}
	g_file_created = true;
	g_native_fd_open += 1;
	*out = 5;
	return 0;
}

/* file.c: takes ownership of the handle on success only */
int sqfs_file_open_handle(sqfs_file_t **out, const char *filename,
			  sqfs_file_handle_t fd, sqfs_u32 flags)
{
	int ret;

	(void)filename; (void)flags;
	g_seq += 1;
	VERIF_ASSERT(fd == 5 && g_native_fd_open == 1 && !g_file_open,
		     WENV ".env.file_open_handle.pre");
	ret = wenv_open_object(out);
	if (ret == 0)
		g_native_fd_open -= 1;
	return ret;
}

void sqfs_native_file_close(sqfs_file_handle_t fd)
{
	VERIF_ASSERT(fd == 5 && g_native_fd_open == 1, WENV ".env.native_close.open_handle");
	g_native_fd_open -= 1;
}

int parse_fstree_defaults(fstree_defaults_t *out, char *str)
{
	(void)str;
	if (verif_nd_bool("fs_defaults.fail")) {
		g_fault = true;
		g_diag += 1;	/* prints its own message (fstree_cli.c) */
		return -1;
	}
	out->uid = verif_nd_u32("fsd.uid");
	out->gid = verif_nd_u32("fsd.gid");
	out->mtime = verif_nd_u32("fsd.mtime");
	out->mode = verif_nd_u16("fsd.mode");
	return 0;
}

int fstree_init(fstree_t *fs, const fstree_defaults_t *defaults)
{
	memset(fs, 0, sizeof(*fs));
	if (verif_nd_bool("fstree_init.fail")) {
		g_fault = true;
		g_diag += 1;	/* "On error, an error message is written to stderr" */
		return -1;
	}
	fs->defaults = *defaults;
	g_fs_live = true;
	return 0;
}

void fstree_cleanup(fstree_t *fs)
{
	(void)fs;
	g_seq += 1;
	if (!g_fs_live)
		g_use_after_destroy += 1;
	g_fs_live = false;
	g_fs_cleanups += 1;
}

int c14_write_options(sqfs_compressor_t *cmp, sqfs_file_t *file);

int sqfs_compressor_create(const sqfs_compressor_config_t *cfg,
			   sqfs_compressor_t **out)
{
	int idx = (cfg->flags & SQFS_COMP_FLAG_UNCOMPRESS) ? OB_UNCMP : OB_CMP;
	sqfs_compressor_t *c = ob_create(idx, "compressor_create.fail");

	*out = c;
	if (c == NULL)
		return c14_error_code("compressor_create.err");
	c->get_configuration = NULL;
	c->write_options = c14_write_options;
	c->read_options = NULL;
	c->do_block = c14_do_block;
	return 0;
}

/* contract of every compressor's write_options hook: the body is
 * sqfs_generic_write_options (ao_write_options.c) or "return 0" */
int c14_write_options(sqfs_compressor_t *cmp, sqfs_file_t *file)
{
	sqfs_u64 n = verif_nd_u8("write_options.len");

	g_seq += 1;
	VERIF_ASSERT(cmp == &g_o_cmp && g_ob_live[OB_CMP] && file == &g_file &&
		     g_file_open, WENV ".env.write_options.pre");
	/* precondition of ao_write_options.c */
	VERIF_ASSERT(g_fsize == C14_SUPER_SZ,
		     "C14.init.options_directly_after_super");
	if (verif_nd_bool("write_options.none"))
		return 0;
	g_nwrite += 1;
	g_w_off = C14_SUPER_SZ;
	g_w_seq = g_seq;
	if (verif_nd_bool("write_options.fail")) {
		g_fault = true;
		return c14_error_code("write_options.err");
	}
	n = 2 + (n % 62);
	if (g_fsize == C14_SUPER_SZ)
		g_fsize += n;
	return (int)n;
}

sqfs_block_writer_t *sqfs_block_writer_create(sqfs_file_t *file, sqfs_u32 flags)
{
	sqfs_block_writer_t *w;

	(void)flags;
	w = ob_create(OB_BLKWR, "block_writer_create.fail");
	if (w != NULL)
		grab_file(file);
	return w;
}

sqfs_frag_table_t *sqfs_frag_table_create(sqfs_u32 flags)
{
	(void)flags;
	return ob_create(OB_FRAGTBL, "frag_table_create.fail");
}

int sqfs_block_processor_create_ex(const sqfs_block_processor_desc_t *desc,
				   sqfs_block_processor_t **out)
{
	sqfs_block_processor_t *p;

	VERIF_ASSERT(desc->size == sizeof(*desc), WENV ".env.block_processor_create.pre");
	p = ob_create(OB_DATA, "block_processor_create.fail");
	if (p == NULL) {
		/* the real function leaves *out untouched on failure */
		return c14_error_code("block_processor_create.err");
	}
	grab_ob(OB_FRAGTBL, desc->tbl);
	grab_ob(OB_BLKWR, desc->wr);
	grab_file(desc->file);
	grab_ob(OB_UNCMP, desc->uncmp);
	VERIF_ASSERT(desc->cmp == &g_o_cmp && g_ob_live[OB_CMP],
		     WENV ".env.create.live_component");
	*out = p;
	return 0;
}

sqfs_id_table_t *sqfs_id_table_create(sqfs_u32 flags)
{
	(void)flags;
	return ob_create(OB_IDTBL, "id_table_create.fail");
}

sqfs_xattr_writer_t *sqfs_xattr_writer_create(sqfs_u32 flags)
{
	(void)flags;
	return ob_create(OB_XWR, "xattr_writer_create.fail");
}

sqfs_meta_writer_t *sqfs_meta_writer_create(sqfs_file_t *file,
					    sqfs_compressor_t *cmp,
					    sqfs_u32 flags)
{
	int idx = (flags & SQFS_META_WRITER_KEEP_IN_MEMORY) ? OB_DM : OB_IM;
	sqfs_meta_writer_t *m = ob_create(idx, "meta_writer_create.fail");

	if (m != NULL) {
		grab_ob(OB_CMP, cmp);
		grab_file(file);
	}
	return m;
}

sqfs_dir_writer_t *sqfs_dir_writer_create(sqfs_meta_writer_t *dm,
					  sqfs_u32 flags)
{
	sqfs_dir_writer_t *d;

	(void)flags;
	d = ob_create(OB_DIRWR, "dir_writer_create.fail");
	if (d != NULL)
		grab_ob(OB_DM, dm);
	return d;
}

#endif /* WRITER_ENV_H */
