/*
 * c14_libc.h - diagnostics output of the writer code (stdio), as contracts:
 * no effect on anything the proofs talk about. DESIGN section 3 row
 * "printf-family formatting": text is never part of a claim.
 */
#ifndef C14_LIBC_H
#define C14_LIBC_H
#include <stdio.h>

static unsigned g_diag;		/* diagnostics emitted (perror & friends) */

int fputs(const char *s, FILE *f)
{
	(void)s;
	if (f == stderr)
		g_diag += 1;
	return 0;
}

int fputc(int c, FILE *f)
{
	(void)f;
	return c;
}

void perror(const char *s)
{
	(void)s;
	g_diag += 1;
}

void sqfs_perror(const char *file, const char *action, int error_code)
{
	(void)file; (void)action; (void)error_code;
	g_diag += 1;
}

#endif
