/* C14.init.unreadable (proved, full domain, the lemma that carries the
 * property for every crash point before the final superblock write):
 *
 *   for ALL (block_size, mtime, compressor): if sqfs_super_init() accepts the
 *   arguments, the 96 bytes that sqfs_super_write() hands to write_at(0, ..)
 *   are REJECTED by sqfs_super_read() - and sqfs_super_read() looks at nothing
 *   but those 96 bytes (one read_at(0, 96)), so the verdict cannot change
 *   whatever is appended behind them.
 *
 * Real code: super.c, write_super.c, read_super.c (all three verbatim). The
 * file is the contract below: write_at stores the bytes (typed copy, no byte
 * array), read_at returns exactly those bytes or fails.
 * Loops: super.c "for (i = block_size; i != 1; i >>= 1)" and read_super.c
 * "for (i = 0; i < block_log; ++i)" are bounded by the code's own constants
 * (block_size <= 2^20, block_log <= 20): unwound 22 with unwinding assertions.
 *
 * Further obligations:
 *   C14.super_write.whole_super_at_0  the only write is write_at(0, 96 bytes)
 *   C14.super_read.reads_only_super   the only read is read_at(0, 96 bytes)
 *   C14.super_read.short_file_rejected a failing read_at (empty / short file:
 *                                     the state between open and the first
 *                                     write) is reported as an error
 */
#include <string.h>
#include "verif.h"
#include "lib/sqfs/src/super.c"
#include "lib/sqfs/src/write_super.c"
#include "lib/sqfs/src/read_super.c"

static sqfs_super_t g_disk;	/* bytes 0..95 of the output file */
static bool g_disk_valid;
static unsigned g_nwrite, g_nread;

static int iu_write_at(sqfs_file_t *f, sqfs_u64 off, const void *buf, size_t n)
{
	(void)f;
	g_nwrite += 1;
	VERIF_ASSERT(off == 0 && n == sizeof(sqfs_super_t) && VERIF_R_OK(buf, n),
		     "C14.super_write.whole_super_at_0");
	if (verif_nd_bool("write_at.fail")) {
		int e = verif_nd_int("write_at.err");
		return e < 0 ? e : SQFS_ERROR_IO;
	}
	g_disk = *(const sqfs_super_t *)buf;
	g_disk_valid = true;
	return 0;
}

static int iu_read_at(sqfs_file_t *f, sqfs_u64 off, void *buf, size_t n)
{
	(void)f;
	g_nread += 1;
	VERIF_ASSERT(off == 0 && n == sizeof(sqfs_super_t) && VERIF_W_OK(buf, n),
		     "C14.super_read.reads_only_super");
	if (!g_disk_valid || verif_nd_bool("read_at.fail")) {
		/* nothing there yet (file shorter than a superblock), or I/O error */
		int e = verif_nd_int("read_at.err");
		return e < 0 ? e : SQFS_ERROR_OUT_OF_BOUNDS;
	}
	*(sqfs_super_t *)buf = g_disk;
	return 0;
}

void harness(void)
{
	size_t block_size = verif_nd_size("block_size");
	sqfs_u32 mtime = verif_nd_u32("mtime");
	int comp = verif_nd_int("compressor");
	sqfs_super_t super, out;
	sqfs_file_t file;
	int ri, rw, rr;

	memset(&file, 0, sizeof(file));
	file.write_at = iu_write_at;
	file.read_at = iu_read_at;

	/* a reader pointed at the freshly created, still empty file */
	rr = sqfs_super_read(&out, &file);
	VERIF_ASSERT(rr != 0, "C14.super_read.short_file_rejected");

	ri = sqfs_super_init(&super, block_size, mtime, (SQFS_COMPRESSOR)comp);
	if (ri != 0) {
		VERIF_COVER(block_size == 3);
		VERIF_COVER(block_size == 2048);
		VERIF_COVER(block_size == 2097152);
		return;
	}
	VERIF_COVER(block_size == 4096);
	VERIF_COVER(block_size == 1048576);
	VERIF_COVER(comp == SQFS_COMP_ZSTD);
	VERIF_COVER(comp == 77);

	rw = sqfs_super_write(&super, &file);
	VERIF_ASSERT(g_nwrite == 1, "C14.super_write.whole_super_at_0");
	if (rw != 0) {
		VERIF_COVER(true);
		return;
	}
	VERIF_ASSERT(g_disk_valid, "C14.super_write.whole_super_at_0");

	rr = sqfs_super_read(&out, &file);
	VERIF_ASSERT(rr != 0, "C14.init.unreadable");
	VERIF_ASSERT(g_nread == 2, "C14.super_read.reads_only_super");
	VERIF_COVER(rr == SQFS_ERROR_CORRUPTED);
}
