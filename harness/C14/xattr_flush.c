/* C14.append_only.xattr_flush (proved; dfcc contracts on the static helpers +
 * loop contract): sqfs_xattr_writer_flush() as a whole. Its helpers
 * write_kv_pairs / write_id_table (they only talk to the metadata writer, see
 * ao_write_block) and alloc_location_table are REPLACED by their contracts
 * (--replace-call-with-contract): "may append any number of bytes to the file
 * or fail; never write below the current end, never truncate". The two direct
 * write_at calls of write_location_table are checked by the file contract:
 *   C14.append_only.xattr_flush       both go to the then-current end of file
 *   C14.xattr_flush.start_inside      success with xattrs present =>
 *                                     kv data, id table and location table lie
 *                                     in [size at entry, size at return) and
 *                                     super->xattr_id_table_start is where the
 *                                     location table header was written
 *   C14.xattr_flush.empty_is_absent   no xattrs => sentinel start, no I/O
 * The byte-swap loop over the location list carries a loop contract.
 */
#define C14_SITE "xattr_flush"
#include <stdlib.h>
#include "C14/c14_env.h"
#include "lib/sqfs/src/xattr/xattr_writer.h"

#ifndef LOC_MAX
#define LOC_MAX ((size_t)1 << 32)
#endif

static sqfs_u64 g_loc_count;	/* ghost: what alloc_location_table returned */

static int write_kv_pairs(const sqfs_xattr_writer_t *xwr,
			  sqfs_meta_writer_t *mw)
__CPROVER_requires(g_fsize <= C14_FILE_MAX)
__CPROVER_assigns(g_fsize, g_fault)
__CPROVER_ensures(g_fsize >= __CPROVER_old(g_fsize) && g_fsize <= C14_FILE_MAX)
__CPROVER_ensures(__CPROVER_return_value == 0 || g_fault)
__CPROVER_ensures(__CPROVER_return_value != 0 || g_fault == __CPROVER_old(g_fault))
;

static int write_id_table(const sqfs_xattr_writer_t *xwr,
			  sqfs_meta_writer_t *mw, sqfs_u64 *locations)
__CPROVER_requires(g_fsize <= C14_FILE_MAX)
__CPROVER_requires(g_loc_count >= 1 && __CPROVER_is_fresh(locations, g_loc_count * sizeof(sqfs_u64)))
__CPROVER_assigns(g_fsize, g_fault, __CPROVER_object_whole(locations))
__CPROVER_ensures(g_fsize >= __CPROVER_old(g_fsize) && g_fsize <= C14_FILE_MAX)
__CPROVER_ensures(__CPROVER_return_value == 0 || g_fault)
__CPROVER_ensures(__CPROVER_return_value != 0 || g_fault == __CPROVER_old(g_fault))
;

static int alloc_location_table(const sqfs_xattr_writer_t *xwr,
				sqfs_u64 **tbl_out, size_t *szout)
__CPROVER_assigns(*tbl_out, *szout, g_fault, g_loc_count)
__CPROVER_ensures(__CPROVER_return_value == 0 || g_fault)
__CPROVER_ensures(__CPROVER_return_value != 0 || g_fault == __CPROVER_old(g_fault))
__CPROVER_ensures(__CPROVER_return_value == 0 ||
		  *tbl_out == __CPROVER_old(*tbl_out))
__CPROVER_ensures(__CPROVER_return_value != 0 ||
		  (*szout >= 1 && *szout <= LOC_MAX && g_loc_count == *szout &&
		   __CPROVER_is_fresh(*tbl_out, *szout * sizeof(sqfs_u64))))
;

#include "lib/sqfs/src/xattr/xattr_writer_flush.c"

/* ---- metadata writer object as seen by the flush function --------------- */
struct sqfs_meta_writer_t {
	sqfs_object_t base;
};
static struct sqfs_meta_writer_t g_mw;
static unsigned g_mw_live;

void mw_destroy(sqfs_object_t *obj)
{
	(void)obj;
	g_mw_live -= 1;
}

sqfs_meta_writer_t *sqfs_meta_writer_create(sqfs_file_t *file,
					    sqfs_compressor_t *cmp,
					    sqfs_u32 flags)
{
	(void)cmp; (void)flags;
	VERIF_ASSERT(file == &g_file, "C14.xattr_flush.writer_on_output_file");
	if (verif_nd_bool("mw_create.fail")) {
		g_fault = true;
		return NULL;
	}
	g_mw.base.refcount = 1;
	g_mw.base.destroy = mw_destroy;
	g_mw_live += 1;
	return &g_mw;
}

void sqfs_meta_writer_reset(sqfs_meta_writer_t *m)
{
	(void)m;
}

void harness(void)
{
	static sqfs_xattr_writer_t xwr;
	static sqfs_super_t super;
	sqfs_u64 size0 = verif_nd_u64("fsize");
	sqfs_u16 flags0 = verif_nd_u16("super.flags");
	int ret;

	VERIF_ASSUME(size0 >= C14_SUPER_SZ && size0 <= C14_FILE_MAX);
	c14_file_init(size0);
	g_mw_live = 0;
	g_loc_count = 0;
	xwr.kv_pairs.used = verif_nd_size("kv_used");
	xwr.num_blocks = verif_nd_size("num_blocks");
	VERIF_ASSUME(xwr.num_blocks <= 0xFFFFFFFFUL);	/* see ao_xattr_loctable.c */
	super.flags = flags0;
	super.xattr_id_table_start = verif_nd_u64("super.xattr_start");

	ret = sqfs_xattr_writer_flush(&xwr, &g_file, &super, NULL);

	VERIF_ASSERT(g_ntrunc == 0 && g_fsize >= size0, "C14.xattr_flush.no_shrink");
	VERIF_ASSERT(g_mw_live == 0, "C14.xattr_flush.writer_released");
#ifdef C13_CHECKS
	VERIF_ASSERT(!g_fault || ret != 0, "C13.xattr_flush.propagates");
	VERIF_ASSERT(ret == 0 || g_fault, "C13.xattr_flush.fails_only_on_fault");
#endif
	if (xwr.kv_pairs.used == 0 || xwr.num_blocks == 0) {
		VERIF_ASSERT(ret == 0 && g_nwrite == 0 && g_fsize == size0 &&
			     super.xattr_id_table_start == 0xFFFFFFFFFFFFFFFFUL &&
			     (super.flags & SQFS_FLAG_NO_XATTRS),
			     "C14.xattr_flush.empty_is_absent");
		VERIF_COVER(true);
	} else if (ret == 0) {
		VERIF_ASSERT(g_nwrite == 2 &&
			     super.xattr_id_table_start >= size0 &&
			     super.xattr_id_table_start < g_fsize &&
			     g_w_off == super.xattr_id_table_start +
					sizeof(sqfs_xattr_id_table_t),
			     "C14.xattr_flush.start_inside");
		VERIF_COVER(g_loc_count == 1);
		VERIF_COVER(g_loc_count == 5);
	} else {
		VERIF_COVER(g_nwrite == 0);
		VERIF_COVER(g_nwrite == 2);
	}
}
