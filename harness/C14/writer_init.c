/* C14 obligations on sqfs_writer_init (proved): the real init.c, super.c,
 * write_super.c, read_super.c; every other callee is its contract
 * (writer_env.h). For every configuration and every combination of callee
 * failures:
 *   C14.init.provisional_first     the first thing ever written to the freshly
 *                                  created (empty) output file is the
 *                                  96 byte superblock at offset 0, before any
 *                                  component that can write to the file exists
 *   C14.init.unreadable            whatever was written at offset 0 during
 *                                  init is rejected by the real
 *                                  sqfs_super_read (integration of the lemma
 *                                  in init_unreadable.c)
 *   C14.init.options_directly_after_super  the compressor option block is
 *                                  written while the file holds exactly the
 *                                  superblock (precondition of
 *                                  ao_write_options.c)
 *   C14.append_only.writer_init    nothing else is written / truncated
 *   C14.init.success_has_provisional  ret == 0 => the provisional superblock
 *                                  is on disk, file size >= 96 (precondition of
 *                                  every append-phase harness)
 *   C14.init.tables_absent         ret == 0 => the in-memory superblock that
 *                                  sqfs_writer_finish will complete has all six
 *                                  table starts = "absent" and id_count = 0
 *                                  (precondition of finish.c)
 * Loops: the block_log loops of super.c / read_super.c, bounded by the code's
 * constants (unwind 22, unwinding assertions).
 */
#define C14_SITE "writer_init"
#define C14_SUPER_WRITE_HOOK c14_init_super
#include <stdlib.h>
#include <string.h>
#include "verif.h"
static int c14_init_super(const void *buf);
#include "C14/c14_env.h"
#include "C14/c14_libc.h"
#include "C14/writer_env.h"

#define ABSENT 0xFFFFFFFFFFFFFFFFULL

static sqfs_super_t g_disk;
static bool g_disk_valid;
static unsigned g_super_writes;
static unsigned g_components_at_super;

static int c14_init_super(const void *buf)
{
	int i;

	g_super_writes += 1;
	g_components_at_super = 0;
	for (i = OB_BLKWR; i < OB_N; ++i)
		g_components_at_super += g_ob_created[i];
	VERIF_ASSERT(g_super_writes == 1 && g_file_open && g_fsize == 0 &&
		     g_nwrite == 0 && g_ntrunc == 0 && g_components_at_super == 0,
		     "C14.init.provisional_first");
	if (verif_nd_bool("super_write.fail")) {
		g_fault = true;
		return c14_error_code("super_write.err");
	}
	g_disk = *(const sqfs_super_t *)buf;
	g_disk_valid = true;
	g_fsize = C14_SUPER_SZ;
	return 0;
}

/* a reader looking at the file as init left it */
static int rd_read_at(sqfs_file_t *f, sqfs_u64 off, void *buf, size_t n)
{
	(void)f;
	VERIF_ASSERT(off == 0 && n == sizeof(sqfs_super_t),
		     "C14.super_read.reads_only_super");
	if (!g_disk_valid)
		return SQFS_ERROR_OUT_OF_BOUNDS;
	*(sqfs_super_t *)buf = g_disk;
	return 0;
}

#ifdef C13_CHECKS
static unsigned g_unlinks, g_unlink_seq;

int unlink(const char *path)
{
	(void)path;
	g_seq += 1;
	g_unlinks += 1;
	g_unlink_seq = g_seq;
	return verif_nd_bool("unlink.fail") ? -1 : 0;
}
#endif

#include "lib/sqfs/src/super.c"
#include "lib/sqfs/src/write_super.c"
#include "lib/sqfs/src/read_super.c"
#include "lib/common/src/writer/init.c"

void harness(void)
{
	static sqfs_writer_cfg_t cfg;
	static sqfs_writer_t wr;
	static sqfs_file_t rdfile;
	sqfs_super_t out;
	int ret, rr, i;

	c14_ghost_init();
#ifdef C13_CHECKS
	g_unlinks = 0;
	g_unlink_seq = 0;
#endif
	writer_env_init();
	g_disk_valid = false;
	g_super_writes = 0;
	g_components_at_super = 0;
	g_fsize = 0;

	cfg.filename = "out.sqfs";
	cfg.fs_defaults = NULL;
	cfg.comp_extra = NULL;
	cfg.block_size = verif_nd_size("block_size");
	cfg.devblksize = verif_nd_size("devblksize");
	cfg.max_backlog = verif_nd_size("max_backlog");
	cfg.num_jobs = verif_nd_size("num_jobs");
	cfg.outmode = verif_nd_int("outmode");
	cfg.comp_id = (SQFS_COMPRESSOR)verif_nd_int("comp_id");
	cfg.exportable = verif_nd_bool("exportable");
	cfg.no_xattr = verif_nd_bool("no_xattr");
	cfg.quiet = verif_nd_bool("quiet");
	/* narrowing stores into 32 bit descriptor fields (num_workers,
	 * max_backlog, open flags): values come from the option parsers; the
	 * narrowing itself is not a C14/C13 matter */
	VERIF_ASSUME(cfg.num_jobs <= 0xFFFFFFFFUL && cfg.max_backlog <= 0xFFFFFFFFUL &&
		     cfg.outmode >= 0);
	/* callers zero-fill the writer when they ask for no_xattr (tar2sqfs);
	 * gensquashfs never sets no_xattr */
	memset(&wr, 0, sizeof(wr));

	ret = sqfs_writer_init(&wr, &cfg);

	VERIF_ASSERT(g_ntrunc == 0 && g_super_writes <= 1,
		     "C14.init.provisional_first");
	memset(&rdfile, 0, sizeof(rdfile));
	rdfile.read_at = rd_read_at;
	rr = sqfs_super_read(&out, &rdfile);
	VERIF_ASSERT(rr != 0, "C14.init.unreadable");
	if (ret == 0) {
		VERIF_ASSERT(g_disk_valid && g_file_open && g_fsize >= C14_SUPER_SZ &&
			     wr.outfile == &g_file,
			     "C14.init.success_has_provisional");
		VERIF_ASSERT(wr.super.id_table_start == ABSENT &&
			     wr.super.xattr_id_table_start == ABSENT &&
			     wr.super.inode_table_start == ABSENT &&
			     wr.super.directory_table_start == ABSENT &&
			     wr.super.fragment_table_start == ABSENT &&
			     wr.super.export_table_start == ABSENT &&
			     wr.super.id_count == 0 &&
			     wr.super.bytes_used == C14_SUPER_SZ,
			     "C14.init.tables_absent");
	}
#ifdef C13_CHECKS
	/* ---- C13: fail-stop ------------------------------------------------ */
	VERIF_ASSERT(!g_fault || ret != 0, "C13.init.propagates");
	VERIF_ASSERT(g_use_after_destroy == 0, "C13.init.no_crash");
	if (ret != 0) {
		VERIF_ASSERT(g_diag >= 1, "C13.init.diagnostic");
		for (i = 0; i < OB_N; ++i) {
			VERIF_ASSERT(g_ob_destroyed[i] == g_ob_created[i] &&
				     !g_ob_live[i], "C13.init.releases_all");
		}
		VERIF_ASSERT(!g_file_open && g_file_destroyed == g_file_opened &&
			     !g_fs_live, "C13.init.releases_all");
		/* the packers' main() return EXIT_FAILURE without calling
		 * sqfs_writer_cleanup when init fails: whatever init created on
		 * disk has to be removed by init itself */
		if (g_file_created)
			VERIF_ASSERT(g_unlinks == 1 &&
				     (!g_file_opened ||
				      g_unlink_seq > g_file_destroy_seq),
				     "C13.init.failure_removes_output");
		else
			VERIF_ASSERT(g_unlinks == 0,
				     "C13.init.failure_keeps_foreign_file");
		VERIF_ASSERT(g_native_fd_open == 0, "C13.init.releases_all");
	} else {
		VERIF_ASSERT(g_unlinks == 0 && g_file_open && g_fs_live &&
			     g_file_destroyed == 0, "C13.init.success_keeps_output");
		for (i = 0; i < OB_N; ++i) {
			VERIF_ASSERT(g_ob_destroyed[i] == 0 &&
				     g_ob_live[i] == (i != OB_XWR || !cfg.no_xattr),
				     "C13.init.success_keeps_output");
		}
	}
#endif
	VERIF_COVER(ret == 0 && g_fsize == C14_SUPER_SZ);
	VERIF_COVER(ret == 0 && g_fsize > C14_SUPER_SZ && !cfg.no_xattr);
	VERIF_COVER(ret != 0 && g_disk_valid && g_ob_created[OB_DM] == 1);
	VERIF_COVER(ret != 0 && !g_disk_valid && g_super_writes == 1);
	VERIF_COVER(ret != 0 && g_file_opened == 0 && !g_file_created);
	VERIF_COVER(ret != 0 && g_file_opened == 0 && g_file_created);
	VERIF_COVER(ret != 0 && cfg.block_size == 3 && g_file_opened == 1);
}
