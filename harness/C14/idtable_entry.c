/* C14.id_table_read.rejects_provisional (proved): second line of defence
 * behind sqfs_super_read. The first table every reader loads is the ID
 * table (sqfs_id_table_read is called by rdsquashfs, sqfs2tar, sqfsdiff
 * right after the superblock). Its entry test refuses - without a single
 * read from the file, without touching the table object -
 *   (a) the superblock sqfs_super_init() produces, for all arguments, and
 *   (b) ANY superblock with id_count == 0 or id_table_start >= bytes_used,
 * in particular every mixture of a provisional and a final superblock in
 * which the ID table start has not reached its final value yet (a final
 * superblock whose 96 byte write was cut short before offset 56: id_count,
 * bytes_used final, id_table_start still 0xFFFF... or partly so - any value
 * with a 0xFF top byte is >= bytes_used <= C14_FILE_MAX).
 * Real code: sqfs_id_table_read (id_table.c), sqfs_super_init (super.c).
 * Loops: super.c block_log loop (unwind 22); the byte-swap loop of
 * sqfs_id_table_read is behind the entry test and must be unreachable here.
 */
#include <stdlib.h>
#include <string.h>
#include "verif.h"
#include "sqfs/predef.h"
#include "sqfs/io.h"
#include "sqfs/error.h"

static unsigned g_reads, g_cleanups;

#include "lib/sqfs/src/super.c"
#include "lib/sqfs/src/id_table.c"

int sqfs_read_table(sqfs_file_t *file, sqfs_compressor_t *cmp,
		    size_t table_size, sqfs_u64 location, sqfs_u64 lower_limit,
		    sqfs_u64 upper_limit, void **out)
{
	(void)file; (void)cmp; (void)table_size; (void)location;
	(void)lower_limit; (void)upper_limit;
	g_reads += 1;
	*out = NULL;
	return SQFS_ERROR_IO;
}

void array_cleanup(array_t *array)
{
	(void)array;
	g_cleanups += 1;
}

int array_init(array_t *array, size_t size, size_t capacity)
{
	(void)array; (void)size; (void)capacity;
	return 0;
}

int array_init_copy(array_t *array, const array_t *src)
{
	(void)array; (void)src;
	return 0;
}

int array_append(array_t *array, const void *data)
{
	(void)array; (void)data;
	return 0;
}

void id_destroy_stub(sqfs_object_t *o)
{
	(void)o;
}

sqfs_object_t *id_copy_stub(const sqfs_object_t *o)
{
	(void)o;
	return NULL;
}

void harness(void)
{
	static sqfs_id_table_t tbl;
	sqfs_super_t super;
	size_t used0 = verif_nd_size("tbl.used");
	int ret;

	g_reads = 0;
	g_cleanups = 0;
	tbl.ids.used = used0;

	if (verif_nd_bool("from_init")) {
		/* (a) the provisional superblock itself */
		ret = sqfs_super_init(&super, verif_nd_size("block_size"),
				      verif_nd_u32("mtime"),
				      (SQFS_COMPRESSOR)verif_nd_int("comp"));
		if (ret != 0)
			return;
		VERIF_COVER(true);
	} else {
		/* (b) anything whose ID table start is not below bytes_used */
		super.magic = SQFS_MAGIC;
		super.inode_count = verif_nd_u32("inode_count");
		super.modification_time = verif_nd_u32("mtime");
		super.block_size = verif_nd_u32("block_size");
		super.fragment_entry_count = verif_nd_u32("frag_count");
		super.compression_id = verif_nd_u16("comp");
		super.block_log = verif_nd_u16("block_log");
		super.flags = verif_nd_u16("flags");
		super.id_count = verif_nd_u16("id_count");
		super.version_major = SQFS_VERSION_MAJOR;
		super.version_minor = SQFS_VERSION_MINOR;
		super.root_inode_ref = verif_nd_u64("root");
		super.bytes_used = verif_nd_u64("bytes_used");
		super.id_table_start = verif_nd_u64("id_start");
		super.xattr_id_table_start = verif_nd_u64("xattr_start");
		super.inode_table_start = verif_nd_u64("inode_start");
		super.directory_table_start = verif_nd_u64("dir_start");
		super.fragment_table_start = verif_nd_u64("frag_start");
		super.export_table_start = verif_nd_u64("export_start");
		VERIF_ASSUME(super.id_count == 0 ||
			     super.id_table_start >= super.bytes_used);
		VERIF_COVER(super.id_count != 0 &&
			    super.id_table_start == 0xFFFFFFFFFFFFFFFFULL);
		VERIF_COVER(super.id_count != 0 &&
			    super.id_table_start == super.bytes_used);
		VERIF_COVER(super.id_count == 0 && super.id_table_start < super.bytes_used);
	}

	ret = sqfs_id_table_read(&tbl, NULL, &super, NULL);

	VERIF_ASSERT(ret == SQFS_ERROR_CORRUPTED && g_reads == 0 &&
		     g_cleanups == 0 && tbl.ids.used == used0,
		     "C14.id_table_read.rejects_provisional");
}
