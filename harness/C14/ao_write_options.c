/* C14.append_only.write_options (proved): sqfs_generic_write_options() - the
 * body of every compressor's write_options hook - writes the option block at
 * the fixed offset sizeof(sqfs_super_t). For every option size and content:
 * called in the state sqfs_writer_init calls it in (only the provisional
 * superblock is in the file: tracked size == sizeof(super), obligation
 * C14.init.options_directly_after_super in writer_init.c), its single
 * write_at starts exactly behind the superblock and overwrites nothing.
 *   C14.write_options.ret_is_length  ret > 0 => ret bytes were appended
 *                                    (the caller sets the COMPRESSOR_OPTIONS
 *                                    flag only in that case)
 * Loop-free (memcpy of <= 61 option bytes into a 64 byte buffer).
 */
#define C14_SITE "write_options"
#include "C14/c14_env.h"
#include "lib/sqfs/src/comp/compressor.c"

/* sqfs_compressor_create's table call is not reachable from this harness;
 * the call site still needs a target */
int c14_comp_create(const sqfs_compressor_config_t *cfg,
		    sqfs_compressor_t **out)
{
	(void)cfg;
	*out = NULL;
	g_fault = true;
	return SQFS_ERROR_UNSUPPORTED;
}

void harness(void)
{
	sqfs_u8 opt[64];
	size_t size = verif_nd_size("opt_size");
	int ret;

	c14_file_init(C14_SUPER_SZ);
	verif_nd_bytes(opt, sizeof(opt), "opt");
	VERIF_ASSUME(size <= sizeof(opt));

	ret = sqfs_generic_write_options(&g_file, opt, size);

	VERIF_ASSERT(g_ntrunc == 0 && g_nwrite <= 1, "C14.write_options.one_write");
	if (ret > 0)
		VERIF_ASSERT(g_nwrite == 1 && g_w_off == C14_SUPER_SZ &&
			     g_fsize == C14_SUPER_SZ + (sqfs_u64)ret,
			     "C14.write_options.ret_is_length");
	if (ret <= 0)
		VERIF_ASSERT(g_fsize == C14_SUPER_SZ, "C14.write_options.fail_no_growth");
	VERIF_COVER(ret == 2 + 61);
	VERIF_COVER(ret == SQFS_ERROR_INTERNAL && g_nwrite == 0);
	VERIF_COVER(ret < 0 && g_nwrite == 1);
}
