/* C03.ids / C01.ids: sqfs_id_table_id_to_index (lib/sqfs/src/id_table.c)
 * from an arbitrary table state (0 <= used <= 65535 ids of arbitrary value:
 * the representation invariant under which the count fits the super block
 * field), every id.
 * The scan loop is closed by a loop contract (contracts/loops/C03.tbl);
 * array_append is replaced by its contract (append in place or fail).
 *
 *  <P>.ids.index_valid   success => *out < used' and ids[*out] == id
 *                        (the index resolves in bounds to the id asked for)
 *  <P>.ids.first_match   an id already present is found at its first
 *                        position, the table is unchanged
 *  <P>.ids.append_new    an id not present is appended at index used
 *  <P>.ids.table_bound   used' <= 65536 (loop/representation invariant)
 *  <P>.ids.count_fits    success => used' <= 65535: the number of ids fits
 *                        the 16 bit id_count field of the super block
 *  <P>.ids.refuse        (-DIDS_REFUSE, C01) the id that would be the 65536th is refused with
 *                        SQFS_ERROR_OVERFLOW and the table is unchanged
 */
#include <stdlib.h>
#include "verif.h"
#ifndef P
#define P "C03"
#endif
size_t g_id_w;
uint32_t g_id_wval;
#ifdef VERIF_REPLAY
#define __CPROVER_loop_invariant(...)
#define __CPROVER_decreases(...)
#endif
#include "lib/sqfs/src/id_table.c"

#ifndef CAP
#define CAP 65537
#endif

static unsigned g_app_calls;
static bool g_app_failed;

int array_append(array_t *array, const void *data)
{
	VERIF_ASSERT(array != NULL && array->size == sizeof(sqfs_u32) &&
		     array->used < array->count &&
		     VERIF_R_OK(data, sizeof(sqfs_u32)),
		     P ".ids.env.array_append_pre");
	g_app_calls += 1;
	if (verif_nd_bool("append_fails")) {
		g_app_failed = true;
		return SQFS_ERROR_ALLOC;
	}
	((sqfs_u32 *)array->data)[array->used] = *(const sqfs_u32 *)data;
	array->used += 1;
	return 0;
}

int array_init(array_t *a, size_t s, size_t c) { (void)a; (void)s; (void)c; return SQFS_ERROR_ALLOC; }
int array_init_copy(array_t *a, const array_t *s) { (void)a; (void)s; return SQFS_ERROR_ALLOC; }
void array_cleanup(array_t *a) { (void)a; }
int sqfs_read_table(sqfs_file_t *f, sqfs_compressor_t *c, size_t n, sqfs_u64 l,
		    sqfs_u64 lo, sqfs_u64 up, void **out)
{ (void)f; (void)c; (void)n; (void)l; (void)lo; (void)up; (void)out; return SQFS_ERROR_IO; }
int sqfs_write_table(sqfs_file_t *f, sqfs_compressor_t *c, const void *d,
		     size_t n, sqfs_u64 *start)
{ (void)f; (void)c; (void)d; (void)n; (void)start; return SQFS_ERROR_IO; }

void harness(void)
{
	sqfs_u32 ids[CAP];	/* arbitrary contents */
	sqfs_id_table_t tbl;
	sqfs_u32 id = verif_nd_u32("id");
	sqfs_u16 out = verif_nd_u16("out0"), out0 = out;
	size_t used0;
	int ret;

	/* --apply-loop-contracts leaves every global nondet: set the ghosts */
	g_app_calls = 0;
	g_app_failed = false;
	tbl.base.refcount = 1;
	tbl.ids.size = sizeof(sqfs_u32);
	tbl.ids.count = CAP;
	tbl.ids.data = ids;
	tbl.ids.used = verif_nd_size("used");
	/* the representation invariant that makes the count fit 16 bit; the
	 * function must preserve it (count_fits) */
	VERIF_ASSUME(tbl.ids.used <= 0xFFFF);
	used0 = tbl.ids.used;
#ifdef VERIF_REPLAY
	{ size_t k; for (k = 0; k < CAP; ++k) ids[k] = id ^ (sqfs_u32)(k + 1); }
#endif
	g_id_w = verif_nd_size("w");
	VERIF_ASSUME(g_id_w < CAP);
	g_id_wval = ids[g_id_w];

	ret = sqfs_id_table_id_to_index(&tbl, id, &out);

	VERIF_ASSERT(tbl.ids.used <= 0x10000, P ".ids.table_bound");
	VERIF_ASSERT(ids[g_id_w] == g_id_wval || (g_id_w == used0 && ret == 0),
		     P ".ids.entries_kept");
	if (ret == 0) {
		VERIF_ASSERT((size_t)out < tbl.ids.used && ids[out] == id,
			     P ".ids.index_valid");
		if (g_app_calls == 0) {
			VERIF_ASSERT(tbl.ids.used == used0 &&
				     (g_id_w < out ? ids[g_id_w] != id : 1),
				     P ".ids.first_match");
			VERIF_COVER(out > 2);
		} else {
			VERIF_ASSERT(g_app_calls == 1 && out == used0 &&
				     tbl.ids.used == used0 + 1 &&
				     (g_id_w < used0 ? ids[g_id_w] != id : 1),
				     P ".ids.append_new");
			VERIF_COVER(used0 == 0);
			VERIF_COVER(used0 == 0xFFFE);
		}
		VERIF_ASSERT(tbl.ids.used <= 0xFFFF, P ".ids.count_fits");
	} else {
		VERIF_ASSERT(tbl.ids.used == used0, P ".ids.failure_keeps_table");
		VERIF_ASSERT(ret == SQFS_ERROR_OVERFLOW ||
			     (ret == SQFS_ERROR_ALLOC && g_app_failed),
			     P ".ids.status_domain");
#ifdef IDS_EXPECT_REFUSAL
		VERIF_COVER(ret == SQFS_ERROR_OVERFLOW);
#endif
		VERIF_COVER(ret == SQFS_ERROR_ALLOC);
	}
#ifdef IDS_REFUSE
	/* an id not in a table of 65535 entries cannot be represented */
	if (used0 == 0xFFFF && g_app_calls + (ret == SQFS_ERROR_OVERFLOW) > 0)
		VERIF_ASSERT(ret == SQFS_ERROR_OVERFLOW && g_app_calls == 0 &&
			     out == out0, P ".ids.refuse");
#endif
}
