/* C03.dir.header_matches: sqfs_dir_writer_end + add_header
 * (lib/sqfs/src/dir_writer.c) on an entry list of NENT nodes split into runs
 * of R0, R1, R2 entries (-D, concrete shape: all 7 compositions of 1..3
 * entries are enumerated; every field value symbolic, name lengths L0,L1,L2
 * in 1..4 (-D, concrete), arbitrary name bytes, arbitrary writer position).
 * get_conseq_entry_count is replaced (goto-instrument --replace-calls) by its
 * contract, proved in dir_run.c: it is called with the current block offset
 * and the first entry not yet written and returns the run length; the
 * entries of one run share the inode block and have deltas within +-32767
 * (assumed on the list here, guaranteed there). With the real function left
 * in, the run structure is symbolic and neither symex nor SAT finish. The meta
 * writer is its contract: the appended bytes are captured (<= 64 bytes) and
 * the position advances, crossing into a new block at 8192. The captured
 * listing is then decoded by an independent reader written from
 * doc/format.adoc. bounded: entries <= 3, names <= 4 bytes.
 *
 *  C03.dir.header_matches.decodes    the listing is a sequence of complete
 *                                    runs (header + count entries), count in
 *                                    1..256, and is exactly dir_size bytes
 *  C03.dir.header_matches.entries    decoding yields the list entries in
 *                                    order: inode number = header number +
 *                                    s16 delta, reference = header block <<
 *                                    16 | offset, basic type, name length
 *                                    and name bytes
 *  C03.dir.header_matches.index      one index record per header: byte
 *                                    offset of the header in the listing,
 *                                    metadata block it starts in, first entry
 * requires: 1 <= name_len <= 65536 (C03.dir.add_entry.name_fits), inode
 * references below 2^48 (32 bit block start field), types 1..7.
 */
#include <stdlib.h>
#include <string.h>
#include "verif.h"
#include "sqfs/predef.h"

struct sqfs_meta_writer_t { sqfs_object_t base; int opaque; };
#include "lib/sqfs/src/dir_writer.c"

#ifndef R0
#define R0 1
#define R1 1
#define R2 0
#endif
#define NENT (R0 + R1 + R2)
static const size_t g_runs[4] = { R0, R1, R2, 0 };
#ifndef L0
#define L0 1
#define L1 3
#define L2 4
#endif
static const size_t g_lens[3] = { L0, L1, L2 };
static unsigned g_run_calls;
static size_t g_ents_done;
#define NAMEMAX 4
#define CAP 64

typedef struct { sqfs_dir_entry_t e; char name[NAMEMAX]; } node_t;
static node_t n0, n1, n2;
static node_t *const g_nodes[3] = { &n0, &n1, &n2 };
static index_ent_t g_idx[3];

static struct sqfs_meta_writer_t g_dm;
static sqfs_dir_writer_t g_w;
static sqfs_u8 g_cap[CAP];
static size_t g_cap_n;
static sqfs_u64 g_blk;
static size_t g_off;
static unsigned g_faults, g_idx_allocs;
/* position of the writer when byte k of the listing was appended */
static sqfs_u64 g_blk_at[CAP + 1];

int sqfs_meta_writer_append(sqfs_meta_writer_t *m, const void *data,
			    size_t size)
{
	size_t i;

	VERIF_ASSERT(m == &g_dm && VERIF_R_OK(data, size) &&
		     g_cap_n + size <= CAP, "C03.dir.env.append_pre");
	if (verif_nd_bool("append_fails")) {
		g_faults += 1;
		return SQFS_ERROR_IO;
	}
	g_blk_at[g_cap_n] = g_blk;	/* block the first byte goes to */
	for (i = 0; i < 12; ++i) {
		if (i < size)
			g_cap[g_cap_n++] = ((const sqfs_u8 *)data)[i];
	}
	g_off += size;
	if (g_off >= SQFS_META_BLOCK_SIZE) {
		/* a block was completed and emitted (3..8194 bytes on disk) */
		g_off -= SQFS_META_BLOCK_SIZE;
		g_blk += 3u + (verif_nd_u16("block_bytes") & 8191u);
	}
	return 0;
}

void sqfs_meta_writer_get_position(const sqfs_meta_writer_t *m,
				   sqfs_u64 *block_start, sqfs_u32 *offset)
{
	VERIF_ASSERT(m == &g_dm, "C03.dir.env.get_position_pre");
	*block_start = g_blk;
	*offset = (sqfs_u32)g_off;
}

size_t stub_conseq(sqfs_u32 offset, sqfs_dir_entry_t *head)
{
	size_t c;

	VERIF_ASSERT(g_run_calls < 3 && g_ents_done < NENT &&
		     head == &g_nodes[g_ents_done]->e && offset == g_off,
		     "C03.dir.header_matches.run_query");
	c = g_runs[g_run_calls++];
	g_ents_done += c;
	return c;
}

void *calloc(size_t n, size_t sz)
{
	VERIF_ASSERT(n == 1 && sz == sizeof(index_ent_t), "C03.dir.env.calloc_pre");
	if (g_idx_allocs >= 3 || verif_nd_bool("calloc_fails")) {
		g_faults += 1;
		return NULL;
	}
	g_idx[g_idx_allocs].next = NULL;
	g_idx[g_idx_allocs].ent = NULL;
	g_idx[g_idx_allocs].block = 0;
	g_idx[g_idx_allocs].index = 0;
	return &g_idx[g_idx_allocs++];
}

void *alloc_flex(size_t b, size_t i, size_t n) { (void)b; (void)i; (void)n; return NULL; }
int array_set_capacity(array_t *a, size_t c) { (void)a; (void)c; return SQFS_ERROR_ALLOC; }
int array_init(array_t *a, size_t s, size_t c) { (void)a; (void)s; (void)c; return SQFS_ERROR_ALLOC; }
void array_cleanup(array_t *a) { (void)a; }
int sqfs_write_table(sqfs_file_t *f, sqfs_compressor_t *c, const void *d, size_t n, sqfs_u64 *s)
{ (void)f; (void)c; (void)d; (void)n; (void)s; return SQFS_ERROR_IO; }

static sqfs_u32 rd32(size_t p) { return g_cap[p] | (g_cap[p + 1] << 8) | (g_cap[p + 2] << 16) | ((sqfs_u32)g_cap[p + 3] << 24); }
static sqfs_u16 rd16(size_t p) { return (sqfs_u16)(g_cap[p] | (g_cap[p + 1] << 8)); }

void harness(void)
{
	size_t i, k, pos, ent, run, left;
	sqfs_u32 h_count = 0, h_block = 0, h_inum = 0;
	sqfs_u64 blk0;
	index_ent_t *ix;
	bool ok = true, names = true;
	int ret;

	for (i = 0; i < NENT; ++i) {
		node_t *n = g_nodes[i];
		n->e.next = i + 1 < NENT ? &g_nodes[i + 1]->e : NULL;
		n->e.inode_ref = verif_nd_u64("ref");
		VERIF_ASSUME(n->e.inode_ref < ((sqfs_u64)1 << 48));
		n->e.inode_num = verif_nd_u32("num");
		n->e.type = verif_nd_u16("type");
		VERIF_ASSUME(n->e.type >= 1 && n->e.type <= 7);
		n->e.name_len = g_lens[i];	/* concrete: keeps positions concrete */
		for (k = 0; k < NAMEMAX; ++k)
			n->name[k] = (char)verif_nd_u8("name");
	}
	/* contract of get_conseq_entry_count (dir_run.c) for each run */
	for (i = 0, k = 0; k < 3; ++k) {
		size_t first = i, j;
		for (j = 0; j < 3; ++j) {
			if (j < g_runs[k]) {
				sqfs_u32 d = g_nodes[i]->e.inode_num -
					g_nodes[first]->e.inode_num;
				VERIF_ASSUME((g_nodes[i]->e.inode_ref >> 16) ==
					     (g_nodes[first]->e.inode_ref >> 16));
				VERIF_ASSUME(d <= 32767 || d >= 0xFFFF8001u);
				i += 1;
			}
		}
	}
	g_w.base.refcount = 1;
	g_w.dm = &g_dm;
	g_w.list = &n0.e;
	g_w.list_end = &g_nodes[NENT - 1]->e;
	g_w.ent_count = NENT;
	g_w.dir_size = 0;
	g_blk = blk0 = verif_nd_u64("blk");
	VERIF_ASSUME(g_blk < ((sqfs_u64)1 << 40));
	g_off = verif_nd_u16("off") % SQFS_META_BLOCK_SIZE;
	g_w.dir_ref = (g_blk << 16) | g_off;

	ret = sqfs_dir_writer_end(&g_w);

	VERIF_ASSERT((ret == 0) == (g_faults == 0), "C03.dir.header_matches.status");
	if (ret != 0) {
		VERIF_COVER(1);
		return;
	}

	VERIF_ASSERT(g_w.dir_size == g_cap_n, "C03.dir.header_matches.decodes");

	/* independent decoder (doc/format.adoc, "Directory Table") */
	pos = 0; ent = 0; left = 0; run = 0; ix = g_w.idx;
	for (k = 0; k < 2 * NENT; ++k) {
		if (pos >= g_cap_n)
			break;
		if (left == 0) {
			if (pos + 12 > g_cap_n) { ok = false; break; }
			h_count = rd32(pos); h_block = rd32(pos + 4);
			h_inum = rd32(pos + 8);
			if (h_count > 255) { ok = false; break; }
			VERIF_ASSERT(ix != NULL && ix->index == pos &&
				     ix->block == g_blk_at[pos] &&
				     ent < NENT && ix->ent == &g_nodes[ent]->e,
				     "C03.dir.header_matches.index");
			ix = ix->next;
			left = (size_t)h_count + 1;
			pos += 12;
			run += 1;
		} else {
			sqfs_u16 off, type, size;
			sqfs_s16 diff;
			node_t *n;

			if (pos + 8 > g_cap_n || ent >= NENT) { ok = false; break; }
			off = rd16(pos); diff = (sqfs_s16)rd16(pos + 2);
			type = rd16(pos + 4); size = rd16(pos + 6);
			if (pos + 8 + (size_t)size + 1 > g_cap_n) { ok = false; break; }
			n = g_nodes[ent];
			VERIF_ASSERT(h_inum + (sqfs_u32)(sqfs_s32)diff == n->e.inode_num &&
				     (((sqfs_u64)h_block << 16) | off) == n->e.inode_ref &&
				     type == n->e.type &&
				     (size_t)size + 1 == n->e.name_len,
				     "C03.dir.header_matches.entries");
			for (i = 0; i < NAMEMAX; ++i)
				if (i <= size && g_cap[pos + 8 + i] != (sqfs_u8)n->name[i])
					names = false;
			pos += 8 + (size_t)size + 1;
			left -= 1;
			ent += 1;
		}
	}
	VERIF_ASSERT(ok && left == 0 && pos == g_cap_n && ent == NENT &&
		     ix == NULL, "C03.dir.header_matches.decodes");
	VERIF_ASSERT(names, "C03.dir.header_matches.entries");
	VERIF_ASSERT(run == g_run_calls && g_ents_done == NENT,
		     "C03.dir.header_matches.decodes");
	VERIF_COVER(g_blk != blk0);
	VERIF_COVER(g_blk == blk0);
#if R0 > 1
	VERIF_COVER(n1.e.inode_num < n0.e.inode_num);
#endif
}
