/* C03.export.table: add_export_table_entry and
 * sqfs_dir_writer_write_export_table (lib/sqfs/src/dir_writer.c), loop-free,
 * every inode number / reference, every table state (used <= count, arbitrary
 * contents). array_set_capacity, memset and sqfs_write_table are contracts.
 *
 *  C03.export.table.slot      the reference of inode n is stored at slot
 *                             n - 1; the table then covers at least n slots
 *  C03.export.table.gap       slots between the old end and n - 1 are set to
 *                             the "no inode" pattern (0xFF bytes)
 *  C03.export.table.kept      every other slot keeps its value (witness)
 *  C03.export.table.written   write: root entry added first, then one table
 *                             of 8 * used bytes from the slot array;
 *                             export_table_start = its start, EXPORTABLE set
 *  C03.export.table.refused   inode number 0 or a failed enlargement: error,
 *                             nothing stored; no export table: no-op
 */
#include <stdlib.h>
#include <string.h>
#include "verif.h"
#include "sqfs/predef.h"

static unsigned g_set_calls, g_cap_calls, g_wt_calls, g_faults;
static const void *g_set_dst, *g_wt_data;
static size_t g_set_n, g_cap_arg, g_wt_size, g_w;
static int g_set_c;
static sqfs_u64 g_wval, g_wt_start;

void *memset(void *dst, int c, size_t n)
{
	VERIF_ASSERT(VERIF_W_OK(dst, n), "C03.export.env.memset_dst_writable");
	g_set_calls += 1;
	g_set_dst = dst;
	g_set_c = c;
	g_set_n = n;
	return dst;
}

struct sqfs_meta_writer_t { sqfs_object_t base; int opaque; };
#include "lib/sqfs/src/dir_writer.c"

static sqfs_dir_writer_t g_wr;
static sqfs_file_t g_file;
static sqfs_compressor_t g_cmp;

int array_set_capacity(array_t *array, size_t capacity)
{
	sqfs_u64 *nw;
	size_t newcount;

	VERIF_ASSERT(array == &g_wr.export_tbl && array->size == sizeof(sqfs_u64),
		     "C03.export.env.set_capacity_pre");
	g_cap_calls += 1;
	g_cap_arg = capacity;
	if (capacity <= array->count)
		return 0;
	if (verif_nd_bool("realloc_fails")) {
		g_faults += 1;
		return SQFS_ERROR_ALLOC;
	}
	/* realloc: new buffer of at least capacity slots, old slots kept
	 * (witness slot g_w) */
	newcount = verif_nd_size("newcount");
	VERIF_ASSUME(newcount >= capacity && newcount <= ((size_t)1 << 33));
	nw = malloc(newcount * sizeof(sqfs_u64));
	VERIF_ASSUME(nw != NULL);
	if (g_w < array->used)
		nw[g_w] = ((sqfs_u64 *)array->data)[g_w];
	array->data = nw;
	array->count = newcount;
	return 0;
}

int sqfs_write_table(sqfs_file_t *file, sqfs_compressor_t *cmp,
		     const void *data, size_t table_size, sqfs_u64 *start)
{
	VERIF_ASSERT(file == &g_file && cmp == &g_cmp && start != NULL &&
		     VERIF_R_OK(data, table_size), "C03.export.env.write_table_pre");
	g_wt_calls += 1;
	g_wt_data = data;
	g_wt_size = table_size;
	if (verif_nd_bool("write_table_fails")) {
		g_faults += 1;
		return SQFS_ERROR_IO;
	}
	g_wt_start = verif_nd_u64("table_start");
	*start = g_wt_start;
	return 0;
}

void *alloc_flex(size_t b, size_t i, size_t n) { (void)b; (void)i; (void)n; return NULL; }
int array_init(array_t *a, size_t s, size_t c) { (void)a; (void)s; (void)c; return SQFS_ERROR_ALLOC; }
void array_cleanup(array_t *a) { (void)a; }
int sqfs_meta_writer_append(sqfs_meta_writer_t *m, const void *d, size_t n) { (void)m; (void)d; (void)n; return SQFS_ERROR_IO; }
void sqfs_meta_writer_get_position(const sqfs_meta_writer_t *m, sqfs_u64 *b, sqfs_u32 *o) { (void)m; *b = 0; *o = 0; }

#ifndef OP_WRITE
#define OP_WRITE 0
#endif

void harness(void)
{
	sqfs_u32 inum = verif_nd_u32("inum");
	sqfs_u64 iref = verif_nd_u64("iref"), *tbl, *now;
	size_t used0, count0;
	bool enabled = verif_nd_bool("enabled");
	sqfs_super_t super;
	sqfs_u16 flags0;
	sqfs_u64 start0;
	int ret;

	g_w = verif_nd_size("w");
	count0 = verif_nd_size("count");
	VERIF_ASSUME(count0 >= 1 && count0 <= ((size_t)1 << 33));
	tbl = malloc(count0 * sizeof(sqfs_u64));	/* arbitrary contents */
	VERIF_ASSUME(tbl != NULL);
	used0 = verif_nd_size("used");
	VERIF_ASSUME(used0 <= count0);
	g_wr.base.refcount = 1;
	g_wr.export_tbl.size = sizeof(sqfs_u64);
	g_wr.export_tbl.count = enabled ? count0 : 0;
	g_wr.export_tbl.used = enabled ? used0 : 0;
	g_wr.export_tbl.data = enabled ? tbl : NULL;
	if (enabled && g_w < used0)
		g_wval = tbl[g_w];
	super.flags = flags0 = verif_nd_u16("flags");
	super.export_table_start = start0 = verif_nd_u64("start0");

#if OP_WRITE
	ret = sqfs_dir_writer_write_export_table(&g_wr, &g_file, &g_cmp, inum,
						 iref, &super);
#else
	ret = add_export_table_entry(&g_wr, inum, iref);
#endif
	now = (sqfs_u64 *)g_wr.export_tbl.data;

	if (!enabled) {
		VERIF_ASSERT(ret == 0 && g_cap_calls == 0 && g_wt_calls == 0 &&
			     now == NULL && super.flags == flags0 &&
			     super.export_table_start == start0,
			     "C03.export.table.refused");
		VERIF_COVER(1);
		return;
	}
	if (inum == 0 || (g_cap_calls == 1 && g_faults > 0 && g_wt_calls == 0)) {
		VERIF_ASSERT(ret < 0 && g_wr.export_tbl.used == used0 &&
			     now == tbl && g_set_calls == 0 && g_wt_calls == 0 &&
			     super.flags == flags0 &&
			     super.export_table_start == start0 &&
			     (g_w < used0 ? tbl[g_w] == g_wval : 1),
			     "C03.export.table.refused");
		VERIF_COVER(inum == 0);
		VERIF_COVER(inum != 0);
		return;
	}
	/* the entry was stored */
	VERIF_ASSERT(g_cap_calls == 1 && g_cap_arg == inum &&
		     g_wr.export_tbl.count >= inum &&
		     g_wr.export_tbl.used >= inum &&
		     g_wr.export_tbl.used == (used0 > inum ? used0 : inum) &&
		     now[inum - 1] == iref, "C03.export.table.slot");
	if (inum > used0)
		VERIF_ASSERT(g_set_calls == 1 && g_set_dst == (void *)(now + used0) &&
			     g_set_c == 0xFF &&
			     g_set_n == (inum - used0) * sizeof(sqfs_u64),
			     "C03.export.table.gap");
	else
		VERIF_ASSERT(g_set_calls == 0, "C03.export.table.gap");
	if (g_w < used0 && g_w != (size_t)inum - 1)
		VERIF_ASSERT(now[g_w] == g_wval, "C03.export.table.kept");
#if OP_WRITE
	VERIF_ASSERT(g_wt_calls == 1 && g_wt_data == (const void *)now &&
		     g_wt_size == sizeof(sqfs_u64) * g_wr.export_tbl.used &&
		     (ret == 0) == (g_faults == 0),
		     "C03.export.table.written");
	if (ret == 0)
		VERIF_ASSERT(super.export_table_start == g_wt_start &&
			     super.flags == (flags0 | SQFS_FLAG_EXPORTABLE),
			     "C03.export.table.written");
	else
		VERIF_ASSERT(super.export_table_start == start0 &&
			     super.flags == flags0, "C03.export.table.written");
	VERIF_COVER(ret != 0);
#else
	VERIF_ASSERT(ret == 0, "C03.export.table.slot");
#endif
	VERIF_COVER(ret == 0 && inum > used0 + 1 && now != tbl);
	VERIF_COVER(ret == 0 && inum < used0);
	VERIF_COVER(ret == 0 && inum == used0 + 1 && now == tbl);
}
