/* C03.dir.add_entry: sqfs_dir_writer_add_entry (lib/sqfs/src/dir_writer.c),
 * loop-free, every name length (strlen is the libc contract: returns the
 * length g_name_len of the ghost name, any size_t), every inode number /
 * reference / mode, writer with an empty or a non-empty entry list, export
 * table off (see export_tbl.c). alloc_flex and memcpy are contracts.
 *
 *  C03.dir.add_entry.name_fits   success => 1 <= name_len <= 65536, i.e. the
 *                                on-disk field size = name_len - 1 is exact
 *                                (a longer name must be refused)
 *  C03.dir.add_entry.fields      the new tail entry carries inode number,
 *                                reference, the basic inode type of the mode
 *                                and the name (copied with its full length);
 *                                entry count + 1; list linkage intact
 *  C03.dir.add_entry.refused     unsupported mode, empty or over-long name,
 *                                inode number 0 or allocation failure: error,
 *                                writer unchanged; nothing else is refused
 */
#include <stdlib.h>
#include <string.h>
#include "verif.h"
#include "sqfs/predef.h"

static size_t g_name_len;
static char g_name_first;
static unsigned g_strlen_calls, g_alloc_calls, g_cpy_calls;
static size_t g_alloc_nmemb, g_cpy_n;
static const void *g_cpy_dst, *g_cpy_src;

size_t strlen(const char *s)
{
	VERIF_ASSERT(s == &g_name_first, "C03.dir.env.strlen_pre");
	g_strlen_calls += 1;
	return g_name_len;
}

void *memcpy(void *dst, const void *src, size_t n)
{
	/* payload copy: bounds against the ghost sizes */
	g_cpy_calls += 1;
	g_cpy_dst = dst;
	g_cpy_src = src;
	g_cpy_n = n;
	VERIF_ASSERT(src == (const void *)&g_name_first && n <= g_name_len,
		     "C03.dir.env.memcpy_src_readable");
	VERIF_ASSERT(n <= g_alloc_nmemb, "C03.dir.env.memcpy_dst_writable");
	return dst;
}

#include "lib/sqfs/src/dir_writer.c"

static struct { sqfs_dir_entry_t e; char name[8]; } g_new, g_tail;
static struct sqfs_meta_writer_t { sqfs_object_t base; } g_dm;
static sqfs_dir_writer_t g_w;

void *alloc_flex(size_t base_size, size_t item_size, size_t nmemb)
{
	VERIF_ASSERT(base_size == sizeof(sqfs_dir_entry_t) && item_size == 1,
		     "C03.dir.env.alloc_pre");
	g_alloc_calls += 1;
	g_alloc_nmemb = nmemb;
	if (verif_nd_bool("alloc_fails"))
		return NULL;
	/* calloc semantics */
	g_new.e.next = NULL;
	g_new.e.inode_ref = 0;
	g_new.e.inode_num = 0;
	g_new.e.type = 0;
	g_new.e.name_len = 0;
	return &g_new.e;
}

int array_set_capacity(array_t *a, size_t c) { (void)a; (void)c; return SQFS_ERROR_ALLOC; }
int array_init(array_t *a, size_t s, size_t c) { (void)a; (void)s; (void)c; return SQFS_ERROR_ALLOC; }
void array_cleanup(array_t *a) { (void)a; }
int sqfs_meta_writer_append(sqfs_meta_writer_t *m, const void *d, size_t n) { (void)m; (void)d; (void)n; return SQFS_ERROR_IO; }
void sqfs_meta_writer_get_position(const sqfs_meta_writer_t *m, sqfs_u64 *b, sqfs_u32 *o) { (void)m; *b = 0; *o = 0; }
int sqfs_write_table(sqfs_file_t *f, sqfs_compressor_t *c, const void *d, size_t n, sqfs_u64 *s)
{ (void)f; (void)c; (void)d; (void)n; (void)s; return SQFS_ERROR_IO; }

static int basic_type_of(sqfs_u16 mode)
{
	switch (mode & 0170000) {
	case 0140000: return SQFS_INODE_SOCKET;
	case 0010000: return SQFS_INODE_FIFO;
	case 0120000: return SQFS_INODE_SLINK;
	case 0060000: return SQFS_INODE_BDEV;
	case 0020000: return SQFS_INODE_CDEV;
	case 0040000: return SQFS_INODE_DIR;
	case 0100000: return SQFS_INODE_FILE;
	default: return -1;
	}
}

void harness(void)
{
	sqfs_u32 inode_num = verif_nd_u32("inode_num");
	sqfs_u64 inode_ref = verif_nd_u64("inode_ref");
	sqfs_u16 mode = verif_nd_u16("mode");
	bool had_tail = verif_nd_bool("had_tail");
	size_t count0, dir_size0;
	int ret;

	g_name_len = verif_nd_size("name_len");
	*(sqfs_u8 *)&g_name_first = verif_nd_u8("name0");
	VERIF_ASSUME((g_name_len == 0) == (g_name_first == '\0'));
	g_w.base.refcount = 1;
	g_w.dm = &g_dm;
	g_w.export_tbl.data = NULL;
	if (had_tail) {
		g_tail.e.next = NULL;
		g_w.list = &g_tail.e;	/* any longer list ends in a tail */
		g_w.list_end = &g_tail.e;
	}
	g_w.ent_count = count0 = verif_nd_size("ent_count");
	VERIF_ASSUME(count0 < ((size_t)1 << 40));
	g_w.dir_size = dir_size0 = verif_nd_size("dir_size");
	g_w.dir_ref = verif_nd_u64("dir_ref");

	ret = sqfs_dir_writer_add_entry(&g_w, &g_name_first, inode_num,
					inode_ref, mode);

	if (ret == 0) {
		VERIF_ASSERT(g_new.e.name_len >= 1 && g_new.e.name_len <= 65536 &&
			     (sqfs_u16)(g_new.e.name_len - 1) + (size_t)1 ==
			     g_new.e.name_len, "C03.dir.add_entry.name_fits");
		VERIF_ASSERT(g_w.list_end == &g_new.e && g_new.e.next == NULL &&
			     (had_tail ? (g_w.list == &g_tail.e &&
					  g_tail.e.next == &g_new.e)
				       : g_w.list == &g_new.e) &&
			     g_w.ent_count == count0 + 1 &&
			     g_w.dir_size == dir_size0 &&
			     g_new.e.inode_num == inode_num && inode_num >= 1 &&
			     g_new.e.inode_ref == inode_ref &&
			     g_new.e.type == basic_type_of(mode) &&
			     g_new.e.name_len == g_name_len &&
			     g_alloc_calls == 1 && g_alloc_nmemb == g_name_len &&
			     g_cpy_calls == 1 && g_cpy_dst == g_new.e.name &&
			     g_cpy_n == g_name_len,
			     "C03.dir.add_entry.fields");
		VERIF_COVER(had_tail && g_new.e.type == SQFS_INODE_SLINK);
		VERIF_COVER(!had_tail && g_name_len == 256);
		VERIF_COVER(g_name_len == 65536);
	} else {
		VERIF_ASSERT(ret < 0 && g_w.ent_count == count0 &&
			     g_w.list_end == (had_tail ? &g_tail.e : NULL) &&
			     g_tail.e.next == NULL &&
			     (basic_type_of(mode) < 0 || g_name_len == 0 ||
			      g_name_len > 65536 || inode_num == 0 ||
			      g_alloc_calls == 1),
			     "C03.dir.add_entry.refused");
		VERIF_COVER(ret == SQFS_ERROR_UNSUPPORTED);
		VERIF_COVER(ret == SQFS_ERROR_ARG_INVALID && inode_num == 0);
		VERIF_COVER(ret == SQFS_ERROR_ALLOC);
	}
	if (basic_type_of(mode) < 0 || g_name_len == 0 || inode_num == 0)
		VERIF_ASSERT(ret != 0, "C03.dir.add_entry.refused");
}
