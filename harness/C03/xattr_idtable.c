/* C03.xattr.idtable: alloc_location_table + write_id_table
 * (lib/sqfs/src/xattr/xattr_writer_flush.c) as sqfs_xattr_writer_flush chains
 * them, for a writer with exactly NSETS distinct key-value sets (-DNSETS: the
 * list length is concrete, every field of every set is symbolic). The meta
 * writer is replaced by its contract (16 byte records, a block is emitted -
 * and the position moves on by any 3..8194 bytes - whenever 8192 bytes are
 * buffered; -DGROW, concrete). bounded: list loop unwound NSETS times.
 *
 *  C03.xattr.idtable.in_bounds   only locations[0 .. count) is written, count
 *                                as computed by alloc_location_table
 *  C03.xattr.idtable.entries     the k-th record is (start_ref, count, size)
 *                                of the k-th set (checked at every call)
 *  C03.xattr.idtable.locations   locations[0] = 0 and locations[j] = start of
 *                                the j-th metadata block of the id table
 *                                (witness j); one location per block
 *  C03.xattr.idtable.status      success unless the meta writer failed
 * requires: per-set pair count and byte size fit 32 bit.
 */
#include <stdlib.h>
#include <string.h>
#include "verif.h"
#include "sqfs/predef.h"

struct sqfs_meta_writer_t { sqfs_object_t base; int opaque; };

#include "lib/sqfs/src/xattr/xattr_writer_flush.c"

#ifndef NSETS
#define NSETS 512
#endif
#define NBLK (NSETS / 512 + 2)
#ifndef GROW
#define GROW 8194
#endif

static struct sqfs_meta_writer_t g_mw;
static sqfs_xattr_writer_t g_xwr;
#include "C03/xattr_kv_nodes.h"
#define g_kv(i) (*g_kvp[i])

static size_t g_off;		/* bytes buffered in the current block */
static sqfs_u64 g_blk;		/* start of the current block */
static unsigned g_nblk;		/* blocks started so far (incl. current) */
static sqfs_u64 g_blk_start[NBLK + 1];
static size_t g_apps;
static unsigned g_faults, g_flushes;
static size_t g_alloc_n;
static sqfs_u64 *g_alloc_buf;
#define SENTINEL 0xA5A5A5A55A5A5A5AULL

void *alloc_array(size_t item_size, size_t nmemb)
{
	VERIF_ASSERT(item_size == sizeof(sqfs_u64) && nmemb <= NSETS,
		     "C03.xattr.env.alloc_pre");
	g_alloc_n = nmemb;
	if (verif_nd_bool("alloc_fails"))
		return NULL;
	/* one guard slot behind the list: must never be touched */
	g_alloc_buf = malloc(sizeof(sqfs_u64) * (nmemb + 1));
	VERIF_ASSUME(g_alloc_buf != NULL);
	g_alloc_buf[nmemb] = SENTINEL;
	return g_alloc_buf;
}

int sqfs_meta_writer_append(sqfs_meta_writer_t *m, const void *data,
			    size_t size)
{
	sqfs_u64 grow;

	VERIF_ASSERT(m == &g_mw && size == sizeof(sqfs_xattr_id_t) &&
		     VERIF_R_OK(data, size), "C03.xattr.env.append_pre");
	/* the call number is concrete: compare the record with its set here */
	VERIF_ASSERT(g_apps < NSETS &&
		     ((const sqfs_xattr_id_t *)data)->xattr ==
		     g_kv(g_apps).start_ref &&
		     ((const sqfs_xattr_id_t *)data)->count == g_kv(g_apps).count &&
		     ((const sqfs_xattr_id_t *)data)->size ==
		     g_kv(g_apps).size_bytes, "C03.xattr.idtable.entries");
	g_apps += 1;
	/* failure only at the first record (one early exit; a possible failure
	 * at each of the NSETS calls makes symex quadratic) - propagation of
	 * meta writer errors is C13's subject */
	if (g_apps == 1 && verif_nd_bool("append_fails")) {
		g_faults += 1;
		return SQFS_ERROR_IO;
	}
	g_off += size;
	if (g_off == SQFS_META_BLOCK_SIZE) {
		/* on-disk size of the emitted block: a concrete case parameter
		 * (3..8194); with a symbolic size the index i of the code
		 * becomes symbolic and symex does not finish for 512 sets */
		grow = GROW;
		g_blk += grow;
		g_off = 0;
		if (g_nblk <= NBLK)
			g_blk_start[g_nblk] = g_blk;
		g_nblk += 1;
	}
	return 0;
}

void sqfs_meta_writer_get_position(const sqfs_meta_writer_t *m,
				   sqfs_u64 *block_start, sqfs_u32 *offset)
{
	VERIF_ASSERT(m == &g_mw, "C03.xattr.env.get_position_pre");
	*block_start = g_blk;
	*offset = (sqfs_u32)g_off;
}

int sqfs_meta_writer_flush(sqfs_meta_writer_t *m)
{
	VERIF_ASSERT(m == &g_mw, "C03.xattr.env.flush_pre");
	g_flushes += 1;
	if (verif_nd_bool("flush_fails")) {
		g_faults += 1;
		return SQFS_ERROR_IO;
	}
	return 0;
}

/* not reachable from the two functions under test */
sqfs_meta_writer_t *sqfs_meta_writer_create(sqfs_file_t *f, sqfs_compressor_t *c, sqfs_u32 fl)
{ (void)f; (void)c; (void)fl; return NULL; }
void sqfs_meta_writer_reset(sqfs_meta_writer_t *m) { (void)m; }
const char *str_table_get_string(const str_table_t *t, size_t i) { (void)t; (void)i; return NULL; }
size_t str_table_get_ref_count(const str_table_t *t, size_t i) { (void)t; (void)i; return 0; }
int sqfs_get_xattr_prefix_id(const char *key) { (void)key; return -1; }

void harness(void)
{
	sqfs_u64 *locations = NULL;
	size_t count = 0, i, j;
	int ret;

	j = verif_nd_size("j");
	for (i = 0; i < NSETS; ++i) {
		g_kv(i).next = i + 1 < NSETS ? g_kvp[i + 1] : NULL;
		g_kv(i).start = verif_nd_size("start");
		g_kv(i).count = verif_nd_u32("count");
		g_kv(i).start_ref = verif_nd_u64("start_ref");
		g_kv(i).size_bytes = verif_nd_u32("size_bytes");
	}
	g_xwr.kv_block_first = g_kvp[0];
	g_xwr.kv_block_last = g_kvp[NSETS - 1];
	g_xwr.num_blocks = NSETS;
	g_blk_start[0] = 0;
	g_nblk = 1;

	ret = alloc_location_table(&g_xwr, &locations, &count);
	if (ret != 0) {
		VERIF_ASSERT(ret == SQFS_ERROR_ALLOC, "C03.xattr.idtable.status");
		VERIF_COVER(1);
		return;
	}
	VERIF_ASSERT(locations == g_alloc_buf && count == g_alloc_n &&
		     count == (NSETS * sizeof(sqfs_xattr_id_t) +
			       SQFS_META_BLOCK_SIZE - 1) / SQFS_META_BLOCK_SIZE,
		     "C03.xattr.idtable.count");

	ret = write_id_table(&g_xwr, &g_mw, locations);

	VERIF_ASSERT(g_alloc_buf[count] == SENTINEL,
		     "C03.xattr.idtable.in_bounds");
	VERIF_ASSERT((ret == 0) == (g_faults == 0), "C03.xattr.idtable.status");
	if (ret == 0) {
		VERIF_ASSERT(g_apps == NSETS && g_flushes == 1,
			     "C03.xattr.idtable.entries");
		VERIF_ASSERT(locations[0] == 0, "C03.xattr.idtable.locations");
		if (j < count)
			VERIF_ASSERT(locations[j] == g_blk_start[j],
				     "C03.xattr.idtable.locations");
		VERIF_COVER(j == count - 1);
	}
	VERIF_COVER(ret != 0);
}
