/* C03.ids: sqfs_id_table_write (lib/sqfs/src/id_table.c) for every table of
 * 0..65535 ids (the bound is ids_index's obligation C03.ids.count_fits; the
 * callee invariant is assumed here and checked there), every id value.
 * The two byte-order loops are closed by loop contracts
 * (contracts/loops/C03.tbl); sqfs_write_table is replaced by its contract
 * (write_table.c harness): returns the start of the location list or fails.
 *
 *  C03.ids.count_exact     super->id_count == number of ids, no truncation
 *  C03.ids.table_bytes     exactly one table of 4 * count bytes is written,
 *                          from the id array, entry w in little-endian
 *  C03.ids.start_recorded  success => super->id_table_start is the start
 *                          reported by sqfs_write_table
 *  C03.ids.restored        the in-memory ids are unchanged afterwards
 *  C03.ids.write_frame     no other super block field is touched
 */
#include <stdlib.h>
#include "verif.h"
size_t g_id_w;
uint32_t g_id_wval;
#ifdef VERIF_REPLAY
#define __CPROVER_loop_invariant(...)
#define __CPROVER_decreases(...)
#endif
#include "lib/sqfs/src/id_table.c"

#define CAP 65537

static sqfs_file_t g_file;
static sqfs_compressor_t g_cmp;
unsigned g_wt_calls;
const void *g_wt_data;
size_t g_wt_size;
sqfs_u64 g_wt_start;
int g_wt_ret;
sqfs_u32 g_wt_wval;

int sqfs_write_table(sqfs_file_t *file, sqfs_compressor_t *cmp,
		     const void *data, size_t table_size, sqfs_u64 *start)
{
	VERIF_ASSERT(file == &g_file && cmp == &g_cmp && start != NULL &&
		     VERIF_R_OK(data, table_size),
		     "C03.ids.env.write_table_pre");
	g_wt_calls += 1;
	g_wt_data = data;
	g_wt_size = table_size;
	if (g_id_w < table_size / sizeof(sqfs_u32))
		g_wt_wval = ((const sqfs_u32 *)data)[g_id_w];
	g_wt_ret = 0;
	if (verif_nd_bool("write_table_fails")) {
		g_wt_ret = verif_nd_int("write_table_err");
		VERIF_ASSUME(g_wt_ret < 0);
		/* *start is left alone on the early error paths */
		return g_wt_ret;
	}
	g_wt_start = verif_nd_u64("table_start");
	*start = g_wt_start;
	return 0;
}

int array_append(array_t *a, const void *d) { (void)a; (void)d; return SQFS_ERROR_ALLOC; }
int array_init(array_t *a, size_t s, size_t c) { (void)a; (void)s; (void)c; return SQFS_ERROR_ALLOC; }
int array_init_copy(array_t *a, const array_t *s) { (void)a; (void)s; return SQFS_ERROR_ALLOC; }
void array_cleanup(array_t *a) { (void)a; }
int sqfs_read_table(sqfs_file_t *f, sqfs_compressor_t *c, size_t n, sqfs_u64 l,
		    sqfs_u64 lo, sqfs_u64 up, void **out)
{ (void)f; (void)c; (void)n; (void)l; (void)lo; (void)up; (void)out; return SQFS_ERROR_IO; }

void harness(void)
{
	sqfs_u32 ids[CAP];	/* arbitrary contents */
	sqfs_id_table_t tbl;
	sqfs_super_t super, super0;
	size_t used0;
	int ret;

	g_wt_calls = 0;
	g_wt_ret = 0;
	g_wt_wval = 0;
	tbl.base.refcount = 1;
	tbl.ids.size = sizeof(sqfs_u32);
	tbl.ids.count = CAP;
	tbl.ids.data = ids;
	tbl.ids.used = verif_nd_size("used");
	VERIF_ASSUME(tbl.ids.used <= 0xFFFF);	/* C03.ids.count_fits */
	used0 = tbl.ids.used;
	g_id_w = verif_nd_size("w");
	VERIF_ASSUME(g_id_w < CAP);
	g_id_wval = ids[g_id_w];

	super.magic = verif_nd_u32("s0");
	super.inode_count = verif_nd_u32("s1");
	super.modification_time = verif_nd_u32("s2");
	super.block_size = verif_nd_u32("s3");
	super.fragment_entry_count = verif_nd_u32("s4");
	super.compression_id = verif_nd_u16("s5");
	super.block_log = verif_nd_u16("s6");
	super.flags = verif_nd_u16("s7");
	super.id_count = verif_nd_u16("s8");
	super.version_major = verif_nd_u16("s9");
	super.version_minor = verif_nd_u16("s10");
	super.root_inode_ref = verif_nd_u64("s11");
	super.bytes_used = verif_nd_u64("s12");
	super.id_table_start = verif_nd_u64("s13");
	super.xattr_id_table_start = verif_nd_u64("s14");
	super.inode_table_start = verif_nd_u64("s15");
	super.directory_table_start = verif_nd_u64("s16");
	super.fragment_table_start = verif_nd_u64("s17");
	super.export_table_start = verif_nd_u64("s18");
	super0 = super;

	ret = sqfs_id_table_write(&tbl, &g_file, &super, &g_cmp);

	VERIF_ASSERT((size_t)super.id_count == used0, "C03.ids.count_exact");
	VERIF_ASSERT(g_wt_calls == 1 && g_wt_data == (const void *)ids &&
		     g_wt_size == sizeof(sqfs_u32) * used0 &&
		     (g_id_w < used0 ? g_wt_wval == g_id_wval : 1),
		     "C03.ids.table_bytes");
	VERIF_ASSERT(ret == g_wt_ret, "C03.ids.status");
	if (ret == 0)
		VERIF_ASSERT(super.id_table_start == g_wt_start,
			     "C03.ids.start_recorded");
	VERIF_ASSERT(tbl.ids.used == used0 && tbl.ids.data == (void *)ids &&
		     (g_id_w < used0 ? ids[g_id_w] == g_id_wval : 1),
		     "C03.ids.restored");
	super.id_count = super0.id_count;
	super.id_table_start = super0.id_table_start;
	VERIF_ASSERT(super.magic == super0.magic &&
		     super.inode_count == super0.inode_count &&
		     super.modification_time == super0.modification_time &&
		     super.block_size == super0.block_size &&
		     super.fragment_entry_count == super0.fragment_entry_count &&
		     super.compression_id == super0.compression_id &&
		     super.block_log == super0.block_log &&
		     super.flags == super0.flags &&
		     super.version_major == super0.version_major &&
		     super.version_minor == super0.version_minor &&
		     super.root_inode_ref == super0.root_inode_ref &&
		     super.bytes_used == super0.bytes_used &&
		     super.xattr_id_table_start == super0.xattr_id_table_start &&
		     super.inode_table_start == super0.inode_table_start &&
		     super.directory_table_start == super0.directory_table_start &&
		     super.fragment_table_start == super0.fragment_table_start &&
		     super.export_table_start == super0.export_table_start,
		     "C03.ids.write_frame");
	VERIF_COVER(ret == 0 && used0 == 0xFFFF && g_id_w == 0xFFFE);
	VERIF_COVER(ret == 0 && used0 == 1);
	VERIF_COVER(ret != 0);
}
