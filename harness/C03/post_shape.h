/* shape macros of post_dense.c: defaults for unused slots and the tables */
#ifndef K0
#define K0 'F'
#endif
#ifndef P0
#define P0 0
#endif
#ifndef T0
#define T0 0
#endif
#ifndef K1
#define K1 'F'
#endif
#ifndef P1
#define P1 0
#endif
#ifndef T1
#define T1 0
#endif
#ifndef K2
#define K2 'F'
#endif
#ifndef P2
#define P2 0
#endif
#ifndef T2
#define T2 0
#endif
#ifndef K3
#define K3 'F'
#endif
#ifndef P3
#define P3 0
#endif
#ifndef T3
#define T3 0
#endif
#ifndef K4
#define K4 'F'
#endif
#ifndef P4
#define P4 0
#endif
#ifndef T4
#define T4 0
#endif
#ifndef K5
#define K5 'F'
#endif
#ifndef P5
#define P5 0
#endif
#ifndef T5
#define T5 0
#endif
#ifndef K6
#define K6 'F'
#endif
#ifndef P6
#define P6 0
#endif
#ifndef T6
#define T6 0
#endif
#define K(i) K##i
#define P(i) P##i
#define T(i) T##i
#define PARENTS { P0, P1, P2, P3, P4, P5, P6 }
#define KINDS { K0, K1, K2, K3, K4, K5, K6 }
#define TARGETS { T0, T1, T2, T3, T4, T5, T6 }

static tn_t t0, t1, t2, t3, t4, t5, t6;
