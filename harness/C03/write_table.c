/* C03.table: sqfs_write_table (lib/sqfs/src/write_table.c), every table size
 * up to 2^40 bytes (symbolic), loop closed by a loop contract
 * (contracts/loops/C03.tbl). Environment: alloc_array (may fail), the meta
 * writer (create/append/flush replaced by their contracts: append accepts the
 * bytes and may emit blocks, i.e. the ghost file grows by any amount, or
 * fails), file get_size/write_at.
 *
 *  C03.table.chunks        the table is handed to the meta writer in
 *                          consecutive chunks of min(8192, rest) bytes, in
 *                          order, without gap or overlap
 *  C03.table.block_count   exactly ceil(size / 8192) locations are recorded,
 *                          none outside the allocated list
 *  C03.table.locations     location k = file size when block k began
 *                          (witness k), stored little-endian
 *  C03.table.list_written  after the final flush the list (8 * count bytes)
 *                          is written at the end of the file and *start is
 *                          that offset
 *  C03.table.error         any environment failure is returned, *start is
 *                          not reported as success
 *  C03.table.writer_dropped the meta writer is released on every path
 */
#include <stdlib.h>
#include "verif.h"
#include "sqfs/predef.h"

struct sqfs_meta_writer_t { sqfs_object_t base; int opaque; };

size_t g_tb_total, g_tb_w, g_tb_apps;
const void *g_tb_data0;
sqfs_u64 g_fsize, g_tb_loc_w;
unsigned g_tb_faults;
_Bool g_tb_chunk_ok;
#ifdef VERIF_REPLAY
#define __CPROVER_loop_invariant(...)
#define __CPROVER_decreases(...)
#endif
#include "lib/sqfs/src/write_table.c"

static sqfs_file_t g_file;
static sqfs_compressor_t g_cmp;
static struct sqfs_meta_writer_t g_mw;
unsigned g_creates, g_drops, g_flushes, g_wr_calls, g_allocs;
sqfs_u64 g_wr_off, g_size_after_flush, g_wr_loc_w;
size_t g_wr_n, g_alloc_n;
const void *g_wr_buf;
void *g_alloc_buf;

static int nd_err(const char *tag)
{
	int e = verif_nd_int(tag);
	VERIF_ASSUME(e < 0);
	g_tb_faults += 1;
	return e;
}

void *alloc_array(size_t item_size, size_t nmemb)
{
	VERIF_ASSERT(item_size == sizeof(sqfs_u64) && nmemb <= ((size_t)1 << 40),
		     "C03.table.env.alloc_pre");
	g_allocs += 1;
	g_alloc_n = nmemb;
	if (verif_nd_bool("alloc_fails")) {
		g_tb_faults += 1;
		return NULL;
	}
	g_alloc_buf = malloc(item_size * nmemb);
	VERIF_ASSUME(g_alloc_buf != NULL);
	return g_alloc_buf;
}

void *alloc_flex(size_t b, size_t i, size_t n) { (void)b; (void)i; (void)n; return NULL; }

sqfs_meta_writer_t *sqfs_meta_writer_create(sqfs_file_t *file,
					    sqfs_compressor_t *cmp,
					    sqfs_u32 flags)
{
	VERIF_ASSERT(file == &g_file && cmp == &g_cmp && flags == 0,
		     "C03.table.env.create_pre");
	if (verif_nd_bool("create_fails")) {
		g_tb_faults += 1;
		return NULL;
	}
	g_creates += 1;
	g_mw.base.refcount = 1;
	return &g_mw;
}

int sqfs_meta_writer_append(sqfs_meta_writer_t *m, const void *data,
			    size_t size)
{
	size_t done = g_tb_apps * SQFS_META_BLOCK_SIZE;
	sqfs_u64 grow;

	VERIF_ASSERT(m == &g_mw && g_drops == 0 && VERIF_R_OK(data, size),
		     "C03.table.env.append_pre");
	/* chunk k starts at data0 + 8192 k and has min(8192, rest) bytes */
	if (!(VERIF_SAME_OBJECT(data, g_tb_data0) &&
	      VERIF_POINTER_OFFSET(data) ==
	      VERIF_POINTER_OFFSET(g_tb_data0) + done &&
	      done < g_tb_total &&
	      size == (g_tb_total - done < SQFS_META_BLOCK_SIZE ?
		       g_tb_total - done : SQFS_META_BLOCK_SIZE)))
		g_tb_chunk_ok = 0;
	VERIF_ASSERT(g_tb_chunk_ok, "C03.table.chunks");
	if (g_tb_apps == g_tb_w)
		g_tb_loc_w = g_fsize;
	g_tb_apps += 1;
	if (verif_nd_bool("append_fails"))
		return nd_err("append_err");
	/* a full block is emitted as soon as 8192 bytes are buffered */
	grow = verif_nd_u64("append_grow");
	VERIF_ASSUME(grow <= SQFS_META_BLOCK_SIZE + 2);
	VERIF_ASSUME(size < SQFS_META_BLOCK_SIZE ? grow == 0 : grow >= 3);
	g_fsize += grow;
	return 0;
}

int sqfs_meta_writer_flush(sqfs_meta_writer_t *m)
{
	sqfs_u64 grow;

	VERIF_ASSERT(m == &g_mw && g_drops == 0, "C03.table.env.flush_pre");
	g_flushes += 1;
	if (verif_nd_bool("flush_fails"))
		return nd_err("flush_err");
	grow = verif_nd_u64("flush_grow");
	VERIF_ASSUME(grow <= SQFS_META_BLOCK_SIZE + 2);
	g_fsize += grow;
	g_size_after_flush = g_fsize;
	return 0;
}

sqfs_u64 stub_get_size(const sqfs_file_t *file)
{
	VERIF_ASSERT(file == &g_file, "C03.table.env.get_size_pre");
	return g_fsize;
}

int stub_write_at(sqfs_file_t *file, sqfs_u64 offset, const void *buffer,
		  size_t size)
{
	VERIF_ASSERT(file == &g_file && VERIF_R_OK(buffer, size),
		     "C03.table.env.write_at_pre");
	g_wr_calls += 1;
	g_wr_off = offset;
	g_wr_buf = buffer;
	g_wr_n = size;
	if (g_tb_w < size / sizeof(sqfs_u64))
		g_wr_loc_w = ((const sqfs_u64 *)buffer)[g_tb_w];
	if (verif_nd_bool("write_fails"))
		return nd_err("write_err");
	if (offset + size > g_fsize)
		g_fsize = offset + size;
	return 0;
}

void stub_mw_destroy(sqfs_object_t *obj)
{
	VERIF_ASSERT(obj == &g_mw.base, "C03.table.env.destroy_pre");
	g_drops += 1;
}

#ifndef DATA_MAX
#define DATA_MAX ((size_t)1 << 40)
#endif

void harness(void)
{
	size_t size = verif_nd_size("size"), count;
	sqfs_u64 start = verif_nd_u64("start0"), start0 = start;
	char *data;
	int ret;

	g_creates = g_drops = g_flushes = g_wr_calls = g_allocs = 0;
	g_tb_apps = 0;
	g_tb_faults = 0;
	g_tb_chunk_ok = 1;
	g_tb_loc_w = 0;
	g_alloc_buf = NULL;
	g_fsize = verif_nd_u64("fsize");
	VERIF_ASSUME(g_fsize <= ((sqfs_u64)1 << 60));
	VERIF_ASSUME(size <= DATA_MAX);
	data = malloc(size);
	VERIF_ASSUME(data != NULL);
	g_tb_total = size;
	g_tb_data0 = data;
	g_tb_w = verif_nd_size("w");
	g_file.get_size = stub_get_size;
	g_file.write_at = stub_write_at;
	g_mw.base.destroy = stub_mw_destroy;
	count = size / SQFS_META_BLOCK_SIZE + (size % SQFS_META_BLOCK_SIZE != 0);

	ret = sqfs_write_table(&g_file, &g_cmp, data, size, &start);

	VERIF_ASSERT(g_allocs == 1 && g_alloc_n == count,
		     "C03.table.block_count");
	VERIF_ASSERT(g_creates == g_drops, "C03.table.writer_dropped");
	VERIF_ASSERT((ret == 0) == (g_tb_faults == 0) &&
		     (ret == 0 || ret < 0), "C03.table.error");
	if (ret == 0) {
		VERIF_ASSERT(g_tb_apps == count && g_flushes == 1,
			     "C03.table.block_count");
		VERIF_ASSERT(g_wr_calls == 1 && g_wr_off == g_size_after_flush &&
			     start == g_size_after_flush &&
			     g_wr_buf == g_alloc_buf &&
			     g_wr_n == sizeof(sqfs_u64) * count,
			     "C03.table.list_written");
		if (g_tb_w < count)
			VERIF_ASSERT(g_wr_loc_w == g_tb_loc_w,
				     "C03.table.locations");
		VERIF_COVER(count == 0);
		VERIF_COVER(count == 3 && size % SQFS_META_BLOCK_SIZE == 0);
		VERIF_COVER(count == 5 && g_tb_w == 4);
	} else {
		VERIF_COVER(g_tb_apps == 2);
		VERIF_COVER(g_flushes == 1);
		VERIF_COVER(g_creates == 0 && g_allocs == 1 && g_alloc_buf != NULL);
		VERIF_COVER(start == start0);
	}
}
