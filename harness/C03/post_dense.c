/* C03.post.dense: fstree_post_process + alloc_inode_num_dfs / map_inodes_dfs /
 * reorder_hard_links / file_list_dfs (lib/fstree/src/post_process.c) on one
 * concrete tree shape per run (-DNN, -DK<i> kind, -DP<i> parent, -DT<i> link target, enumerated
 * by cases.py: every rooted ordered tree up to the stated node count, leaves
 * being files, other non-directories, empty directories or hard links to any
 * non-directory non-link node). Owner and time stamps are symbolic. fstree_resolve_hard_links is its contract (links arrive resolved,
 * or it fails). bounded: shapes enumerated.
 *
 *  C03.post.dense.count           unique_inode_count = number of nodes that
 *                                 are not hard links
 *  C03.post.dense.numbering       inodes[j] is a node with inode_num = j + 1
 *                                 for every j < count, and every non-link
 *                                 node is inodes[its number - 1] (so the
 *                                 numbers are exactly 1..count)
 *  C03.post.dense.root_last       the root has the highest number
 *  C03.post.dense.children_first  every child, and every hard link target, of
 *                                 a directory has a smaller number than it
 *  C03.post.dense.file_list       fs->files strings every regular file
 *                                 exactly once (NULL-terminated)
 */
#include <stdlib.h>
#include <string.h>
#include <stdio.h>
#include "verif.h"
#include "lib/fstree/src/post_process.c"

#ifndef NN
#define NN 6
#define K0 'D'
#define K1 'D'
#define K2 'F'
#define K3 'F'
#define K4 'F'
#define K5 'L'
#define P1 0
#define P2 0
#define P3 1
#define P4 1
#define P5 1
#define T5 2
#endif

typedef struct { tree_node_t n; char name[4]; } tn_t;
#include "C03/post_shape.h"
static tn_t *const g_t[7] = { &t0, &t1, &t2, &t3, &t4, &t5, &t6 };
static const int g_parent[7] = PARENTS;
static const char g_kind[7] = KINDS;
static const int g_target[7] = TARGETS;
static bool g_resolve_fails;

int fstree_resolve_hard_links(fstree_t *fs)
{
	VERIF_ASSERT(fs != NULL && fs->root == &t0.n, "C03.post.env.resolve_pre");
	g_resolve_fails = verif_nd_bool("resolve_fails");
	return g_resolve_fails ? -1 : 0;
}

static void setup_node(int i, char kind, int parent, int target,
		       tree_node_t **last)
{
	tree_node_t *n = &g_t[i]->n;
	/* The union is always assigned as a whole with the member the node kind
	 * uses: cbmc folds a read of .children / .target_node only then; after a
	 * member-wise write into the zero-initialised union the pointer is an
	 * unsimplified byte_update, the walk becomes symbolic and symex hangs. */
	/* permission bits concrete: with symbolic low bits cbmc cannot fold
	 * S_ISDIR(mode) and the walk becomes symbolic (hangs) */
	sqfs_u16 perm = 0644;

	n->name = g_t[i]->name;
	n->uid = verif_nd_u32("uid");
	n->gid = verif_nd_u32("gid");
	n->mod_time = verif_nd_u32("mtime");
	n->inode_num = verif_nd_u32("stale_inum");
	n->link_count = 1;
	n->flags = 0;
	n->next = NULL;
	n->next_by_type = NULL;
	if (kind == 'D') {
		n->mode = S_IFDIR | perm;
		n->data = (__typeof__(n->data)){ .children = NULL };
	} else if (kind == 'F') {
		n->mode = S_IFREG | perm;
	} else if (kind == 'O') {
		n->mode = S_IFIFO | perm;
	} else {
		n->mode = S_IFLNK | 0777;
		n->flags = FLAG_LINK_IS_HARD;
		n->data = (__typeof__(n->data)){ .target_node = &g_t[target]->n };
	}
	if (i > 0) {
		tree_node_t *p = &g_t[parent]->n;

		n->parent = p;
		if (last[parent] == NULL)
			p->data = (__typeof__(p->data)){ .children = n };
		else
			last[parent]->next = n;
		last[parent] = n;
	} else {
		n->parent = NULL;
	}
}

/* calloc contract: NULL, or zeroed memory of n * size bytes. A static array
 * keeps the inode table a concrete object (with cbmc's heap model and
 * --pointer-check every inodes[i]->... becomes a guarded symbolic value and
 * reorder_hard_links does not finish). */
static tree_node_t *g_inodes[8];
static bool g_calloc_failed;

void *calloc(size_t n, size_t size)
{
	VERIF_ASSERT(n * size <= sizeof(g_inodes), "C03.post.env.calloc_pre");
	/* failure is a concrete case (-DCALLOC_FAILS): a nondeterministic NULL
	 * makes fs->inodes an if-then-else pointer and symex hangs again */
#ifdef CALLOC_FAILS
	g_calloc_failed = true;
	return NULL;
#else
	return g_inodes;
#endif
}

int fputs(const char *s, FILE *f) { (void)s; (void)f; return 0; }
void perror(const char *s) { (void)s; }

void harness(void)
{
	static fstree_t fs;
	tree_node_t *last[7], *it;
	size_t i, j, nreal = 0, nfiles = 0, seen;
	int ret;

#define SETUP(i) do { if ((i) < NN) setup_node(i, g_kind[i], g_parent[i], g_target[i], last); } while (0)
	for (i = 0; i < 7; ++i)
		last[i] = NULL;
	/* literal indices: cbmc must see kinds and parents as constants */
	setup_node(0, K(0), 0, 0, last);
#if NN > 1
	setup_node(1, K(1), P(1), T(1), last);
#endif
#if NN > 2
	setup_node(2, K(2), P(2), T(2), last);
#endif
#if NN > 3
	setup_node(3, K(3), P(3), T(3), last);
#endif
#if NN > 4
	setup_node(4, K(4), P(4), T(4), last);
#endif
#if NN > 5
	setup_node(5, K(5), P(5), T(5), last);
#endif
#if NN > 6
	setup_node(6, K(6), P(6), T(6), last);
#endif
	for (i = 0; i < NN; ++i) {
		if (g_kind[i] == 'F')
			nfiles++;
		if (g_kind[i] != 'L')
			nreal++;
	}
	fs.root = &t0.n;
	fs.unique_inode_count = verif_nd_size("stale_count");
	fs.inodes = NULL;
	fs.files = NULL;

	ret = fstree_post_process(&fs);

	if (ret != 0) {
		VERIF_ASSERT(g_resolve_fails || g_calloc_failed,
			     "C03.post.dense.status");
		VERIF_COVER(g_resolve_fails);
#ifdef CALLOC_FAILS
		VERIF_COVER(g_calloc_failed);
#endif
		return;
	}
	VERIF_ASSERT(fs.unique_inode_count == nreal, "C03.post.dense.count");
	for (j = 0; j < NN; ++j) {
		if (j < nreal)
			VERIF_ASSERT(fs.inodes[j] != NULL &&
				     fs.inodes[j]->inode_num == j + 1,
				     "C03.post.dense.numbering");
	}
	for (i = 0; i < NN; ++i) {
		tree_node_t *n = &g_t[i]->n;

		if (g_kind[i] == 'L')
			continue;
		VERIF_ASSERT(n->inode_num >= 1 && n->inode_num <= nreal &&
			     fs.inodes[n->inode_num - 1] == n,
			     "C03.post.dense.numbering");
		if (i > 0)
			VERIF_ASSERT(n->inode_num < n->parent->inode_num,
				     "C03.post.dense.children_first");
	}
	for (i = 0; i < NN; ++i) {
		if (g_kind[i] == 'L')
			VERIF_ASSERT(g_t[g_target[i]]->n.inode_num <
				     g_t[g_parent[i]]->n.inode_num,
				     "C03.post.dense.children_first");
	}
	VERIF_ASSERT(t0.n.inode_num == nreal, "C03.post.dense.root_last");

	seen = 0;
	it = fs.files;
	for (j = 0; j < NN; ++j) {
		if (it == NULL)
			break;
		VERIF_ASSERT(S_ISREG(it->mode), "C03.post.dense.file_list");
		seen++;
		it = it->next_by_type;
	}
	VERIF_ASSERT(it == NULL && seen == nfiles, "C03.post.dense.file_list");
	for (i = 0; i < NN; ++i) {
		if (g_kind[i] == 'F') {
			bool found = false;

			it = fs.files;
			for (j = 0; j < NN; ++j) {
				if (it == NULL)
					break;
				if (it == &g_t[i]->n)
					found = true;
				it = it->next_by_type;
			}
			VERIF_ASSERT(found, "C03.post.dense.file_list");
		}
	}
#ifdef CALLOC_FAILS
	VERIF_ASSERT(0, "C03.post.dense.status");
#else
	VERIF_COVER(ret == 0);
#endif
}
