/* C03.comp.not_larger: compress-mode do_block of the five in-tree back ends
 * (lib/sqfs/src/comp/{gzip,xz,lz4,zstd,lzma}.c), one back end per case
 * (-DCOMP_<name>), every size / outsize / option field, against the
 * documented contracts of the codec libraries (the trusted base: output
 * never exceeds the given capacity, documented status codes only).
 * Loops: gzip find_strategy and xz filter selection iterate over a flag mask
 * (compile-time constant), unwound completely.
 *
 *  C03.comp.not_larger            r >= 0 => r <= size  and r <= outsize
 *                                 (property: no stored block larger than its
 *                                 uncompressed size)
 *  C03.comp.zero_unless_smaller   r > 0 => r < size  (include/sqfs/
 *                                 compressor.h: 0 when the result is not
 *                                 smaller than the input - the clause the
 *                                 do_block environment contract relies on)
 *  C03.comp.status_domain         r < 0 => r is a SQFS_ERROR value
 *  C03.comp.lib_pre               every library call gets buffers that are
 *                                 readable / writable for the stated sizes
 */
#include <stdlib.h>
#include <string.h>
#include "verif.h"

static unsigned g_lib_calls;
#define LIB_PRE(c) VERIF_ASSERT((c), "C03.comp.lib_pre")

#if defined(COMP_gzip)
/* ------------------------------------------------------------------ zlib */
#include "lib/sqfs/src/comp/gzip.c"

static int z_status(const char *tag, int a, int b, int c, int d)
{
	unsigned s = verif_nd_u8(tag) % 4;
	return s == 0 ? a : s == 1 ? b : s == 2 ? c : d;
}

int deflateReset(z_streamp strm)
{
	LIB_PRE(strm != NULL);
	if (verif_nd_bool("reset_fails"))
		return Z_STREAM_ERROR;
	strm->total_in = 0;
	strm->total_out = 0;
	return Z_OK;
}

int deflateParams(z_streamp strm, int level, int strategy)
{
	LIB_PRE(strm != NULL);
	(void)level; (void)strategy;
	return z_status("params", Z_OK, Z_OK, Z_STREAM_ERROR, Z_BUF_ERROR);
}

int deflate(z_streamp strm, int flush)
{
	uInt k;

	LIB_PRE(strm != NULL && flush == Z_FINISH);
	LIB_PRE(VERIF_R_OK(strm->next_in, strm->avail_in));
	LIB_PRE(VERIF_W_OK(strm->next_out, strm->avail_out));
	g_lib_calls++;
	k = verif_nd_u32("deflate_out");
	VERIF_ASSUME(k <= strm->avail_out);
	/* next_out is advanced by the library as well; nobody reads it back */
	strm->avail_out -= k;
	strm->total_out += k;
	return z_status("deflate", Z_OK, Z_STREAM_END, Z_BUF_ERROR,
			Z_STREAM_ERROR);
}

int inflateReset(z_streamp strm) { (void)strm; LIB_PRE(0); return Z_STREAM_ERROR; }
int inflate(z_streamp strm, int flush) { (void)strm; (void)flush; LIB_PRE(0); return Z_STREAM_ERROR; }
int deflateEnd(z_streamp strm) { (void)strm; return Z_OK; }
int inflateEnd(z_streamp strm) { (void)strm; return Z_OK; }
int deflateInit2_(z_streamp strm, int level, int method, int windowBits,
		  int memLevel, int strategy, const char *version, int sz)
{ (void)strm; (void)level; (void)method; (void)windowBits; (void)memLevel;
  (void)strategy; (void)version; (void)sz; return Z_MEM_ERROR; }
int inflateInit_(z_streamp strm, const char *version, int sz)
{ (void)strm; (void)version; (void)sz; return Z_MEM_ERROR; }
int sqfs_generic_write_options(sqfs_file_t *f, const void *d, size_t n)
{ (void)f; (void)d; (void)n; return 0; }
int sqfs_generic_read_options(sqfs_file_t *f, void *d, size_t n)
{ (void)f; (void)d; (void)n; return SQFS_ERROR_IO; }

static gzip_compressor_t g_c;
#define DO_BLOCK gzip_do_block
static void init(void)
{
	g_c.compress = true;
	g_c.block_size = verif_nd_size("bs");
	/* option ranges as validated by gzip_compressor_create */
	g_c.opt.level = verif_nd_u32("level");
	VERIF_ASSUME(g_c.opt.level >= SQFS_GZIP_MIN_LEVEL &&
		     g_c.opt.level <= SQFS_GZIP_MAX_LEVEL);
	g_c.opt.window = verif_nd_u16("window");
	g_c.opt.strategies = verif_nd_u16("strategies");
	VERIF_ASSUME((g_c.opt.strategies & ~(unsigned)SQFS_COMP_FLAG_GZIP_ALL) == 0);
	g_c.strm.total_out = verif_nd_u64("stale_total_out");
}
#define COVER_EXTRA VERIF_COVER(g_c.opt.strategies != 0 && r > 0)

#elif defined(COMP_xz)
/* --------------------------------------------------------------- liblzma */
#include "lib/sqfs/src/comp/xz.c"

lzma_bool lzma_lzma_preset(lzma_options_lzma *options, uint32_t preset)
{
	LIB_PRE(options != NULL);
	(void)preset;
	return verif_nd_bool("preset_fails");
}

lzma_ret lzma_stream_buffer_encode(lzma_filter *filters, lzma_check check,
		const lzma_allocator *allocator, const uint8_t *in,
		size_t in_size, uint8_t *out, size_t *out_pos, size_t out_size)
{
	size_t k;
	unsigned s;

	LIB_PRE(filters != NULL && out_pos != NULL && *out_pos <= out_size);
	LIB_PRE(VERIF_R_OK(in, in_size) && VERIF_W_OK(out, out_size));
	(void)check; (void)allocator;
	g_lib_calls++;
	s = verif_nd_u8("encode_status") % 4;
	if (s == 0) {
		k = verif_nd_size("encode_out");
		VERIF_ASSUME(k <= out_size - *out_pos);
		*out_pos += k;
		return LZMA_OK;
	}
	return s == 1 ? LZMA_BUF_ERROR : s == 2 ? LZMA_MEM_ERROR :
		LZMA_OPTIONS_ERROR;
}

lzma_ret lzma_stream_buffer_decode(uint64_t *memlimit, uint32_t flags,
		const lzma_allocator *allocator, const uint8_t *in,
		size_t *in_pos, size_t in_size, uint8_t *out, size_t *out_pos,
		size_t out_size)
{ (void)memlimit; (void)flags; (void)allocator; (void)in; (void)in_pos;
  (void)in_size; (void)out; (void)out_pos; (void)out_size; LIB_PRE(0);
  return LZMA_DATA_ERROR; }
int sqfs_generic_write_options(sqfs_file_t *f, const void *d, size_t n)
{ (void)f; (void)d; (void)n; return 0; }
int sqfs_generic_read_options(sqfs_file_t *f, void *d, size_t n)
{ (void)f; (void)d; (void)n; return SQFS_ERROR_IO; }

static xz_compressor_t g_c;
#define DO_BLOCK xz_comp_block
static void init(void)
{
	g_c.block_size = verif_nd_size("bs");
	/* option ranges as validated by xz_compressor_create */
	g_c.dict_size = verif_nd_size("dict");
	VERIF_ASSUME(g_c.dict_size >= SQFS_XZ_MIN_DICT_SIZE &&
		     g_c.dict_size <= SQFS_XZ_MAX_DICT_SIZE);
	g_c.level = verif_nd_u8("level");
	g_c.lc = verif_nd_u8("lc");
	g_c.lp = verif_nd_u8("lp");
	g_c.pb = verif_nd_u8("pb");
	g_c.flags = verif_nd_u16("flags");
	VERIF_ASSUME((g_c.flags & ~(unsigned)SQFS_COMP_FLAG_XZ_ALL) == 0);
}
#define COVER_EXTRA VERIF_COVER(g_c.flags != 0 && r > 0 && g_lib_calls > 2)

#elif defined(COMP_lz4)
/* ---------------------------------------------------------------- liblz4 */
#include "lib/sqfs/src/comp/lz4.c"

static int lz4_any(const char *src, char *dst, int srcSize, int dstCapacity)
{
	int r;

	LIB_PRE(srcSize >= 0 && dstCapacity >= 0);
	LIB_PRE(VERIF_R_OK(src, (size_t)srcSize) &&
		VERIF_W_OK(dst, (size_t)dstCapacity));
	g_lib_calls++;
	/* lz4.h: number of bytes written (necessarily <= dstCapacity), or 0
	 * if compression fails */
	r = verif_nd_int("lz4_ret");
	VERIF_ASSUME(r >= 0 && r <= dstCapacity);
	return r;
}

int LZ4_compress_default(const char *src, char *dst, int srcSize,
			 int dstCapacity)
{
	return lz4_any(src, dst, srcSize, dstCapacity);
}

int LZ4_compress_HC(const char *src, char *dst, int srcSize, int dstCapacity,
		    int compressionLevel)
{
	(void)compressionLevel;
	return lz4_any(src, dst, srcSize, dstCapacity);
}

int LZ4_decompress_safe(const char *src, char *dst, int compressedSize,
			int dstCapacity)
{ (void)src; (void)dst; (void)compressedSize; (void)dstCapacity; LIB_PRE(0);
  return -1; }
int sqfs_generic_write_options(sqfs_file_t *f, const void *d, size_t n)
{ (void)f; (void)d; (void)n; return 0; }
int sqfs_generic_read_options(sqfs_file_t *f, void *d, size_t n)
{ (void)f; (void)d; (void)n; return SQFS_ERROR_IO; }

static lz4_compressor_t g_c;
#define DO_BLOCK lz4_comp_block
static void init(void)
{
	g_c.block_size = verif_nd_size("bs");
	g_c.high_compression = verif_nd_bool("hc");
}
#define COVER_EXTRA VERIF_COVER(g_c.high_compression && r > 0)

#elif defined(COMP_zstd)
/* --------------------------------------------------------------- libzstd */
#include "lib/sqfs/src/comp/zstd.c"

/* zstd.h: error codes are the top of the size_t range */
unsigned ZSTD_isError(size_t code)
{
	return code > (size_t)0 - (size_t)ZSTD_error_maxCode;
}

ZSTD_ErrorCode ZSTD_getErrorCode(size_t functionResult)
{
	if (!ZSTD_isError(functionResult))
		return (ZSTD_ErrorCode)0;
	return (ZSTD_ErrorCode)(0 - functionResult);
}

size_t ZSTD_compressCCtx(ZSTD_CCtx *cctx, void *dst, size_t dstCapacity,
			 const void *src, size_t srcSize, int compressionLevel)
{
	size_t r;

	LIB_PRE(cctx != NULL);
	LIB_PRE(VERIF_R_OK(src, srcSize) && VERIF_W_OK(dst, dstCapacity));
	(void)compressionLevel;
	g_lib_calls++;
	r = verif_nd_size("zstd_ret");
	VERIF_ASSUME(r <= dstCapacity || ZSTD_isError(r));
	return r;
}

size_t ZSTD_decompress(void *dst, size_t dstCapacity, const void *src,
		       size_t compressedSize)
{ (void)dst; (void)dstCapacity; (void)src; (void)compressedSize; LIB_PRE(0);
  return (size_t)-1; }
ZSTD_CCtx *ZSTD_createCCtx(void) { return NULL; }
size_t ZSTD_freeCCtx(ZSTD_CCtx *c) { (void)c; return 0; }
int sqfs_generic_write_options(sqfs_file_t *f, const void *d, size_t n)
{ (void)f; (void)d; (void)n; return 0; }
int sqfs_generic_read_options(sqfs_file_t *f, void *d, size_t n)
{ (void)f; (void)d; (void)n; return SQFS_ERROR_IO; }

static zstd_compressor_t g_c;
static long g_ctx_obj;
#define DO_BLOCK zstd_comp_block
static void init(void)
{
	g_c.block_size = verif_nd_size("bs");
	g_c.zctx = (ZSTD_CCtx *)&g_ctx_obj;
	g_c.level = verif_nd_int("level");
}
#define COVER_EXTRA VERIF_COVER(r == SQFS_ERROR_COMPRESSOR)

#elif defined(COMP_lzma)
/* ------------------------------------------------------- liblzma (alone) */
#include "lib/sqfs/src/comp/lzma.c"

lzma_bool lzma_lzma_preset(lzma_options_lzma *options, uint32_t preset)
{
	LIB_PRE(options != NULL);
	(void)preset;
	return verif_nd_bool("preset_fails");
}

lzma_ret lzma_alone_encoder(lzma_stream *strm, const lzma_options_lzma *opt)
{
	LIB_PRE(strm != NULL && opt != NULL);
	strm->total_in = 0;
	strm->total_out = 0;
	return verif_nd_bool("encoder_fails") ? LZMA_MEM_ERROR : LZMA_OK;
}

lzma_ret lzma_code(lzma_stream *strm, lzma_action action)
{
	size_t k;
	unsigned s;

	LIB_PRE(strm != NULL && action == LZMA_FINISH);
	LIB_PRE(VERIF_R_OK(strm->next_in, strm->avail_in));
	LIB_PRE(VERIF_W_OK(strm->next_out, strm->avail_out));
	g_lib_calls++;
	k = verif_nd_size("code_out");
	VERIF_ASSUME(k <= strm->avail_out);
	/* next_out is advanced by the library as well; nobody reads it back */
	strm->avail_out -= k;
	strm->total_out += k;
	s = verif_nd_u8("code_status") % 4;
	/* a finished .lzma stream contains at least its 13 byte header */
	if (s == 0 && strm->total_out >= 13)
		return LZMA_STREAM_END;
	return s == 1 ? LZMA_OK : s == 2 ? LZMA_MEM_ERROR : LZMA_BUF_ERROR;
}

void lzma_end(lzma_stream *strm) { LIB_PRE(strm != NULL); }
lzma_ret lzma_alone_decoder(lzma_stream *strm, uint64_t memlimit)
{ (void)strm; (void)memlimit; LIB_PRE(0); return LZMA_MEM_ERROR; }

static lzma_compressor_t g_c;
#define DO_BLOCK lzma_comp_block
static void init(void)
{
	/* block size of a SquashFS image: at most 1 MiB */
	g_c.block_size = verif_nd_size("bs");
	VERIF_ASSUME(g_c.block_size <= SQFS_MAX_BLOCK_SIZE);
	g_c.dict_size = verif_nd_size("dict");
	g_c.flags = verif_nd_u32("flags");
	VERIF_ASSUME((g_c.flags & ~(sqfs_u32)SQFS_COMP_FLAG_LZMA_ALL) == 0);
	g_c.level = verif_nd_u8("level");
	g_c.lc = verif_nd_u8("lc");
	g_c.lp = verif_nd_u8("lp");
	g_c.pb = verif_nd_u8("pb");
}
#define COVER_EXTRA VERIF_COVER((g_c.flags & SQFS_COMP_FLAG_LZMA_EXTREME) && r > 0 && g_lib_calls == 3)
#else
#error "define COMP_<backend>"
#endif

#ifndef BUFMAX
#define BUFMAX (1u << 21)
#endif

void harness(void)
{
	sqfs_u32 size = verif_nd_u32("size"), outsize = verif_nd_u32("outsize");
	size_t in_cap, out_cap;
	sqfs_u8 *in, *out;
	sqfs_s32 r;

	init();
	/* the caller's side of the contract: in readable for size, out
	 * writable for outsize; objects up to 2 MiB (block size <= 1 MiB),
	 * larger sizes only ever meet the argument checks */
	in_cap = size <= BUFMAX ? size : 0;
	out_cap = outsize <= BUFMAX ? outsize : 0;
	VERIF_ASSUME(size <= BUFMAX || size >= 0x7FFFFFFF);
	VERIF_ASSUME(outsize <= BUFMAX);
	in = malloc(in_cap);
	out = malloc(out_cap);
	VERIF_ASSUME(in != NULL && out != NULL);

	r = DO_BLOCK((sqfs_compressor_t *)&g_c, in, size, out, outsize);

	VERIF_ASSERT(r < 0 || ((sqfs_u32)r <= size && (sqfs_u32)r <= outsize),
		     "C03.comp.not_larger");
	VERIF_ASSERT(r <= 0 || (sqfs_u32)r < size,
		     "C03.comp.zero_unless_smaller");
	VERIF_ASSERT(r >= 0 || r == SQFS_ERROR_COMPRESSOR ||
		     r == SQFS_ERROR_ARG_INVALID, "C03.comp.status_domain");
	VERIF_COVER(r > 0);
	VERIF_COVER(r == 0 && g_lib_calls > 0);
	VERIF_COVER(r < 0);
	VERIF_COVER(size >= 0x7FFFFFFF);
	COVER_EXTRA;
}
