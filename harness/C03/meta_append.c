/* C03.meta.append: sqfs_meta_writer_append (lib/sqfs/src/meta_writer.c),
 * every size up to 2^40, every writer state with 0 <= offset <= 8192 (8192:
 * what a failed flush leaves behind). The copy loop is closed by a loop
 * contract (contracts/loops/C03.tbl); sqfs_meta_writer_flush is replaced by
 * its contract (goto-instrument --replace-calls; proved in meta_flush.c):
 * nothing to do for offset 0, else fails and leaves the state alone, or
 * emits one block of `offset` input bytes, offset := 0, position += 3..8194.
 *
 *  C03.meta.append.block_full    append flushes only when exactly 8192 bytes
 *                                are buffered: every metadata block but the
 *                                last of a stream decodes to 8192 bytes
 *  C03.meta.append.offset_bound  success => offset < 8192 afterwards (block
 *                                offsets in inode / directory references fit
 *                                13 bits); always offset <= 8192
 *  C03.meta.append.conserve      success => 8192 * blocks emitted + buffered
 *                                bytes = buffered before + size (no byte
 *                                lost or duplicated)
 *  C03.meta.append.in_order      every copy takes the next unconsumed source
 *                                bytes and stays inside the 8192 byte buffer
 *  C03.meta.append.error         a failed flush is returned; nothing claimed
 */
#define C03_P "C03.meta.append"
#include <stddef.h>
size_t g_ap_total, g_ap_size0, g_ap_blocks, g_ap_copied, g_ap_pos0;
const void *g_ap_data0;
unsigned g_ap_faults;
_Bool g_ap_ok;
const void *g_ap_file, *g_ap_cmp;
#define C03_NO_MEM
#include "C03/c03_env.h"
#include "lib/sqfs/src/meta_writer.c"

static sqfs_meta_writer_t g_m;

void *memcpy(void *dst, const void *src, size_t n)
{
	/* the copy of append: next source bytes into the free part of data */
	if (!(VERIF_SAME_OBJECT(src, g_ap_data0) &&
	      VERIF_POINTER_OFFSET(src) ==
	      VERIF_POINTER_OFFSET(g_ap_data0) + g_ap_copied &&
	      n >= 1 && n <= g_ap_size0 - g_ap_copied &&
	      dst == (void *)(g_m.data + g_m.offset) &&
	      g_m.offset + n <= sizeof(g_m.data)))
		g_ap_ok = 0;
	VERIF_ASSERT(g_ap_ok, "C03.meta.append.in_order");
	g_ap_copied += n;
	return dst;
}

int stub_flush(sqfs_meta_writer_t *m)
{
	size_t grow;

	VERIF_ASSERT(m == &g_m && m->offset <= sizeof(m->data),
		     "C03.meta.append.env.flush_pre");
	VERIF_ASSERT(m->offset == sizeof(m->data), "C03.meta.append.block_full");
	if (m->offset == 0)
		return 0;
	if (verif_nd_bool("flush_fails")) {
		g_ap_faults += 1;
		return SQFS_ERROR_IO;
	}
	grow = 3 + (verif_nd_u16("block_bytes") & 8191u);
	m->offset = 0;
	m->block_offset += grow;
	g_ap_blocks += 1;
	return 0;
}

void harness(void)
{
	size_t size = verif_nd_size("size"), off0, pos0;
	char *data;
	int ret;

	c03_env_init();
	g_ap_blocks = 0;
	g_ap_copied = 0;
	g_ap_faults = 0;
	g_ap_ok = 1;
	VERIF_ASSUME(size <= ((size_t)1 << 40));
	data = malloc(size);
	VERIF_ASSUME(data != NULL);
	g_m.base.refcount = 1;
	g_m.file = &g_file;
	g_m.cmp = &g_cmp;
	g_ap_file = &g_file;
	g_ap_cmp = &g_cmp;
	g_m.flags = 0;
	g_m.list = NULL;
	g_m.list_end = NULL;
	g_m.offset = off0 = verif_nd_size("offset");
	VERIF_ASSUME(off0 <= SQFS_META_BLOCK_SIZE);
	g_m.block_offset = pos0 = verif_nd_size("block_offset");
	VERIF_ASSUME(pos0 <= ((size_t)1 << 48));
	g_ap_size0 = size;
	g_ap_pos0 = pos0;
	g_ap_total = off0 + size;
	g_ap_data0 = data;

	ret = sqfs_meta_writer_append(&g_m, data, size);

	VERIF_ASSERT(g_m.offset <= SQFS_META_BLOCK_SIZE,
		     "C03.meta.append.offset_bound");
	VERIF_ASSERT((ret == 0) == (g_ap_faults == 0) && (ret == 0 || ret < 0),
		     "C03.meta.append.error");
	if (ret == 0) {
		VERIF_ASSERT(g_m.offset < SQFS_META_BLOCK_SIZE || size == 0,
			     "C03.meta.append.offset_bound");
		VERIF_ASSERT(g_ap_copied == size &&
			     g_ap_blocks * SQFS_META_BLOCK_SIZE + g_m.offset ==
			     off0 + size, "C03.meta.append.conserve");
		VERIF_ASSERT(g_m.block_offset >= pos0 + 3 * g_ap_blocks &&
			     g_m.block_offset <= pos0 + 8194 * g_ap_blocks,
			     "C03.meta.append.position");
		VERIF_COVER(g_ap_blocks == 3 && g_m.offset == 5);
		VERIF_COVER(g_ap_blocks == 1 && g_m.offset == 0 && off0 > 0);
		VERIF_COVER(size == 0 && off0 == SQFS_META_BLOCK_SIZE);
		VERIF_COVER(g_ap_blocks == 0 && size > 100);
	} else {
		VERIF_COVER(g_ap_blocks == 2);
		VERIF_COVER(g_m.offset == SQFS_META_BLOCK_SIZE);
	}
}
