/* C03.meta.block: sqfs_meta_writer_flush + write_block
 * (lib/sqfs/src/meta_writer.c), loop-free, from an arbitrary writer state
 * (0 <= offset <= 8192, any flags, any position), against the compressor
 * and file contracts of c03_env.h.
 *
 *  C03.meta.block.header      the emitted block starts with a 16 bit header
 *                             whose low 15 bits = stored length L,
 *                             1 <= L <= 8192, bit 15 set <=> stored
 *                             uncompressed
 *  C03.meta.block.not_larger  L <= number of input bytes
 *  C03.meta.block.payload     stored uncompressed => the payload is filled by
 *                             memcpy(out, input, input length), out = block+2
 *                             being the buffer offered to the compressor;
 *                             compressed => by the compressor (out = block+2)
 *  C03.meta.block.written     without KEEP_IN_MEMORY exactly one write_at of
 *                             L+2 bytes at the end of the file, starting
 *                             with that header; with it, the block is the
 *                             new tail of the in-memory list and nothing is
 *                             written
 *  C03.meta.block.appended    the write starts exactly at the end of the file
 *  C03.meta.block.position    block_offset advances by L+2, offset returns
 *                             to 0 (what inode/dir references are made of)
 *  C03.meta.block.empty       offset == 0: nothing emitted, state unchanged
 *  C03.meta.block.error       compressor/allocation failure: error returned,
 *                             nothing emitted, position unchanged
 */
#define C03_P "C03.meta"
#include "C03/c03_env.h"
#include "lib/sqfs/src/meta_writer.c"

static sqfs_meta_writer_t g_m;
static meta_block_t g_old_tail;

void harness(void)
{
	size_t off0, pos0, L;
	meta_block_t *tail0, *blk;
	sqfs_u16 hdr;
	bool keep, had_list;
	int ret;

	c03_env_init();
	g_m.base.refcount = 1;
	g_m.file = &g_file;
	g_m.cmp = &g_cmp;
	g_m.offset = verif_nd_size("offset");
	VERIF_ASSUME(g_m.offset <= SQFS_META_BLOCK_SIZE);
	g_m.block_offset = verif_nd_size("block_offset");
	VERIF_ASSUME(g_m.block_offset <= ((size_t)1 << 48));
	g_m.flags = verif_nd_u32("flags");
	VERIF_ASSUME((g_m.flags & ~(sqfs_u32)SQFS_META_WRITER_ALL_FLAGS) == 0);
	keep = (g_m.flags & SQFS_META_WRITER_KEEP_IN_MEMORY) != 0;
	had_list = verif_nd_bool("had_list");
	if (had_list) {
		g_m.list = &g_old_tail;
		g_m.list_end = &g_old_tail;
	}

	off0 = g_m.offset;
	pos0 = g_m.block_offset;
	tail0 = g_m.list_end;

	ret = sqfs_meta_writer_flush(&g_m);

	if (off0 == 0) {
		VERIF_ASSERT(ret == 0 && g_wr_calls == 0 && g_cmp_calls == 0 &&
			     g_m.block_offset == pos0 && g_m.offset == 0 &&
			     g_m.list_end == tail0, "C03.meta.block.empty");
		VERIF_COVER(1);
		return;
	}

	if (g_cmp_calls > 0)
		VERIF_ASSERT(g_cmp_calls == 1 && g_cmp_in == g_m.data &&
			     g_cmp_size == off0 &&
			     g_cmp_outsize == SQFS_META_BLOCK_SIZE,
			     "C03.meta.block.compress_call");

	if (g_cmp_calls == 0 || g_cmp_ret < 0) {
		/* allocation or compressor failure */
		VERIF_ASSERT(ret < 0 && (g_cmp_calls == 0 || ret == g_cmp_ret) &&
			     g_wr_calls == 0 && g_m.block_offset == pos0 &&
			     g_m.offset == off0 && g_m.list_end == tail0,
			     "C03.meta.block.error");
		VERIF_COVER(g_cmp_calls == 0);
		VERIF_COVER(g_cmp_calls == 1);
		return;
	}

	L = g_cmp_ret > 0 ? (size_t)g_cmp_ret : off0;

	VERIF_ASSERT(g_m.block_offset == pos0 + L + 2 && g_m.offset == 0,
		     "C03.meta.block.position");
	VERIF_ASSERT(L >= 1 && L <= SQFS_META_BLOCK_SIZE && L <= off0,
		     "C03.meta.block.not_larger");

	if (keep) {
		VERIF_ASSERT(ret == 0 && g_wr_calls == 0 &&
			     g_m.list_end != NULL && g_m.list_end != tail0 &&
			     g_m.list_end->next == NULL &&
			     (had_list ? (g_m.list == &g_old_tail &&
					  g_old_tail.next == g_m.list_end)
				       : g_m.list == g_m.list_end),
			     "C03.meta.block.written");
		blk = g_m.list_end;
		hdr = (sqfs_u16)(blk->data[0] | (blk->data[1] << 8));
		VERIF_ASSERT((hdr & 0x7FFF) == L &&
			     ((hdr & 0x8000) != 0) == (g_cmp_ret == 0),
			     "C03.meta.block.header");
		VERIF_ASSERT(g_cmp_out == blk->data + 2,
			     "C03.meta.block.payload");
		if (g_cmp_ret == 0) {
			VERIF_ASSERT(g_cpo_calls == 1 &&
				     g_cpo_src == g_m.data && g_cpo_n == off0,
				     "C03.meta.block.payload");
		}
		VERIF_COVER(g_cmp_ret == 0 && off0 == SQFS_META_BLOCK_SIZE);
		VERIF_COVER(g_cmp_ret > 0 && had_list);
	} else {
		VERIF_ASSERT(g_wr_calls == 1 && g_wr[0].n == L + 2 &&
			     g_m.list_end == tail0 &&
			     (ret == 0) == (g_faults == 0),
			     "C03.meta.block.written");
		VERIF_ASSERT(g_wr[0].n <= off0 + 2 &&
			     g_wr[0].n <= SQFS_META_BLOCK_SIZE + 2,
			     "C03.meta.block.not_larger");
		VERIF_ASSERT(g_wr[0].off == g_wr[0].size_at_call,
			     "C03.meta.block.appended");
		hdr = (sqfs_u16)(g_wr[0].b0 | (g_wr[0].b1 << 8));
		VERIF_ASSERT((hdr & 0x7FFF) == L &&
			     ((hdr & 0x8000) != 0) == (g_cmp_ret == 0),
			     "C03.meta.block.header");
		VERIF_ASSERT(g_wr[0].cmp_out_at_2, "C03.meta.block.payload");
		if (g_cmp_ret == 0)
			VERIF_ASSERT(g_cpo_calls == 1 &&
				     g_cpo_src == g_m.data && g_cpo_n == off0,
				     "C03.meta.block.payload");
		VERIF_COVER(ret == 0 && g_cmp_ret == 0);
		VERIF_COVER(ret == 0 && g_cmp_ret > 0);
		VERIF_COVER(ret != 0);
	}
}
