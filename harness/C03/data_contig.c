/* C03.data.contiguous: "data blocks of one file are contiguous" - the
 * sequence number discipline of lib/sqfs/src/block_processor/backend.c that
 * it rests on. Blocks reach the file in io_seq_num order (C02.io.order). The
 * pool hands blocks back in submission order (C09), and a file's blocks are
 * submitted back to back, followed by its tail fragment. Hence a file's data
 * blocks are contiguous on disk iff no other block takes a number while they
 * are handed back, i.e. iff
 *   (a) a data block / manual submission is numbered at hand-back with the
 *       next number,
 *   (b) a fragment block is NOT numbered at hand-back (it would land between
 *       the data blocks of whatever file is being handed back at that time),
 *   (c) a fragment block is numbered when it is enqueued, which happens only
 *       while a tail fragment is handed back, i.e. at a file boundary.
 *
 * OP_DEQUEUE: dequeue_block + store_io_block, process_completed_block and
 *   process_completed_fragment replaced by their contracts (--replace-calls);
 *   the pool hands back the blocks K0, K1 (-D kinds: 1 data, 2 manual,
 *   3 fragment block, 4 tail fragment; concrete shape, symbolic values).
 * OP_FRAGMENT: process_completed_fragment with a current fragment block that
 *   the new fragment does not fit into (size symbolic): enqueue_block contract.
 * bounded: at most 2 blocks inside the pool.
 *
 *  C03.data.contiguous.number_at_handback   (a): number = counter, counter + 1
 *  C03.data.contiguous.fragblk_keeps_number (b): number and counter unchanged
 *  C03.data.contiguous.fragblk_numbered_at_enqueue (c): when the fragment
 *        block is handed to enqueue_block it carries the number the counter
 *        had, and the counter has advanced by one
 *  C03.data.contiguous.write_in_order  a block is written exactly when its
 *        number is the next to be written
 */
#include <stdlib.h>
#include <string.h>
#include "verif.h"
#include "lib/sqfs/src/block_processor/backend.c"

#define BS 8
typedef struct { sqfs_block_t b; sqfs_u8 data[BS]; } blk_t;
typedef struct { sqfs_block_processor_t p; sqfs_u8 scratch[BS]; } proc_t;

static proc_t g_p;
static thread_pool_t g_pool;
static blk_t g_b0, g_b1, g_fragblk;
static blk_t *const g_pool_blocks[2] = { &g_b0, &g_b1 };

#ifndef K0
#define K0 1
#endif
#ifndef K1
#define K1 3
#endif
#define NPOOL ((K0 != 0) + (K1 != 0))
static const int g_kind[2] = { K0, K1 };

static unsigned g_handed, g_pcb_calls, g_pcf_calls, g_enq_calls;
static sqfs_u32 g_counter_at_handback[2], g_num_at_handback[2];
static sqfs_u32 g_enq_num, g_enq_counter;
static const sqfs_block_t *g_enq_blk;
static bool g_order_ok;

void *stub_pool_dequeue(thread_pool_t *pool)
{
	sqfs_block_t *b;

	VERIF_ASSERT(pool == &g_pool, "C03.data.env.pool_pre");
	if (g_handed >= NPOOL)
		return NULL;
	b = &g_pool_blocks[g_handed]->b;
	g_counter_at_handback[g_handed] = g_p.p.io_seq_num;
	g_num_at_handback[g_handed] = b->io_seq_num;
	g_handed += 1;
	return b;
}

int stub_pool_status(thread_pool_t *pool)
{
	VERIF_ASSERT(pool == &g_pool, "C03.data.env.pool_pre");
	return 0;
}

/* contract of process_completed_block: writes the block, releases it */
int stub_pcb(sqfs_block_processor_t *proc, sqfs_block_t *blk)
{
	VERIF_ASSERT(proc == &g_p.p && blk != NULL, "C03.data.env.pcb_pre");
	if (blk->io_seq_num + 1 != proc->io_deq_seq_num)
		g_order_ok = false;
	VERIF_ASSERT(g_order_ok, "C03.data.contiguous.write_in_order");
	g_pcb_calls += 1;
	proc->backlog -= 1;
	return 0;
}

/* contract of process_completed_fragment: consumes the fragment */
int stub_pcf(sqfs_block_processor_t *proc, sqfs_block_t *frag)
{
	VERIF_ASSERT(proc == &g_p.p && frag != NULL &&
		     (frag->flags & SQFS_BLK_IS_FRAGMENT), "C03.data.env.pcf_pre");
	g_pcf_calls += 1;
	proc->backlog -= 1;
	return 0;
}

int enqueue_block(sqfs_block_processor_t *proc, sqfs_block_t *blk)
{
	VERIF_ASSERT(proc == &g_p.p && blk != NULL, "C03.data.env.enqueue_pre");
	g_enq_calls += 1;
	g_enq_blk = blk;
	g_enq_num = blk->io_seq_num;
	g_enq_counter = proc->io_seq_num;
	return verif_nd_bool("enqueue_fails") ? SQFS_ERROR_ALLOC : 0;
}

struct hash_entry *hash_table_search_pre_hashed(struct hash_table *ht,
						sqfs_u32 hash, const void *key)
{ (void)ht; (void)hash; (void)key; return NULL; }
struct hash_entry *hash_table_insert_pre_hashed(struct hash_table *ht,
						sqfs_u32 hash, const void *key,
						void *data)
{ (void)ht; (void)hash; (void)key; (void)data; return NULL; }
int sqfs_frag_table_append(sqfs_frag_table_t *t, sqfs_u64 l, sqfs_u32 s, sqfs_u32 *i)
{ (void)t; (void)l; (void)s; if (i) *i = verif_nd_u32("frag_index"); return 0; }
int sqfs_frag_table_set(sqfs_frag_table_t *t, sqfs_u32 i, sqfs_u64 l, sqfs_u32 s)
{ (void)t; (void)i; (void)l; (void)s; return 0; }
int sqfs_inode_make_extended(sqfs_inode_generic_t *i) { (void)i; return 0; }
int sqfs_inode_set_frag_location(sqfs_inode_generic_t *i, sqfs_u32 a, sqfs_u32 b) { (void)i; (void)a; (void)b; return 0; }
int sqfs_inode_set_file_block_start(sqfs_inode_generic_t *i, sqfs_u64 l) { (void)i; (void)l; return 0; }
int stub_write_data_block(sqfs_block_writer_t *wr, void *user, sqfs_u32 size,
			  sqfs_u32 checksum, sqfs_u32 flags,
			  const sqfs_u8 *data, sqfs_u64 *location)
{ (void)wr; (void)user; (void)size; (void)checksum; (void)flags; (void)data; *location = 0; return 0; }

static void init_block(blk_t *b, int kind)
{
	b->b.next = NULL;
	b->b.inode = NULL;
	b->b.size = 1 + (verif_nd_u8("size") % BS);
	b->b.checksum = verif_nd_u32("checksum");
	b->b.index = verif_nd_u32("index");
	b->b.user = NULL;
	b->b.io_seq_num = verif_nd_u32("stale_or_given_number");
	b->b.flags = verif_nd_u32("userflags") &
		(SQFS_BLK_DONT_COMPRESS | SQFS_BLK_DONT_DEDUPLICATE |
		 SQFS_BLK_IS_COMPRESSED | SQFS_BLK_LAST_BLOCK);
	if (kind == 2)
		b->b.flags |= BLK_FLAG_MANUAL_SUBMISSION |
			(verif_nd_bool("manual_fragblk") ? SQFS_BLK_FRAGMENT_BLOCK : 0);
	else if (kind == 3)
		b->b.flags |= SQFS_BLK_FRAGMENT_BLOCK;
	else if (kind == 4)
		b->b.flags |= SQFS_BLK_IS_FRAGMENT;
}

void harness(void)
{
	sqfs_block_processor_t *proc = &g_p.p;
	sqfs_u32 seq0 = verif_nd_u32("io_seq_num"), given = 0, expect;
	unsigned i, numbered = 0;
	int ret;

	VERIF_ASSUME(seq0 <= 0xFFFFFF00u);
	g_order_ok = true;
	proc->pool = &g_pool;
	g_pool.dequeue = stub_pool_dequeue;
	g_pool.get_status = stub_pool_status;
	proc->max_block_size = BS;
	proc->io_queue = NULL;
	proc->io_seq_num = seq0;
	init_block(&g_b0, K0);
	init_block(&g_b1, K1);

#ifdef OP_FRAGMENT
	/* a tail fragment arrives and does not fit the current fragment block */
	init_block(&g_fragblk, 3);
	g_fragblk.b.size = BS;
	proc->frag_block = &g_fragblk.b;
	proc->frag_tbl = NULL;
	proc->frag_ht = NULL;
	proc->backlog = 2;
	g_b0.b.flags |= SQFS_BLK_IS_FRAGMENT | SQFS_BLK_DONT_DEDUPLICATE;
	g_b0.b.flags &= ~(sqfs_u32)SQFS_BLK_FRAGMENT_BLOCK;

	ret = process_completed_fragment(proc, &g_b0.b);

	VERIF_ASSERT(g_enq_calls == 1 && g_enq_blk == &g_fragblk.b &&
		     g_enq_num == seq0 && g_enq_counter == seq0 + 1 &&
		     proc->io_seq_num == seq0 + 1,
		     "C03.data.contiguous.fragblk_numbered_at_enqueue");
	VERIF_COVER(ret == 0 && proc->frag_block == &g_b0.b);
	VERIF_COVER(ret != 0);
#else
	/* the outstanding numbers deq0 .. seq0-1 belong to the fragment blocks
	 * inside the pool, numbered when they were enqueued */
	for (i = 0; i < 2; ++i) {
		if (g_kind[i] == 3) {
			g_pool_blocks[i]->b.io_seq_num = seq0 - 1 - given;
			given += 1;
		}
	}
	VERIF_ASSUME(seq0 >= given);
	proc->io_deq_seq_num = seq0 - given;
	proc->backlog = NPOOL + (verif_nd_bool("extra_backlog") ? 1 : 0);
	proc->frag_block = NULL;
	proc->blk_current = NULL;

	ret = dequeue_block(proc);

	expect = seq0;
	for (i = 0; i < 2; ++i) {
		if (i >= g_handed)
			continue;
		if (g_kind[i] == 1 || g_kind[i] == 2) {
			VERIF_ASSERT(g_counter_at_handback[i] == expect &&
				     g_pool_blocks[i]->b.io_seq_num == expect,
				     "C03.data.contiguous.number_at_handback");
			expect += 1;
			numbered += 1;
		} else if (g_kind[i] == 3) {
			VERIF_ASSERT(g_pool_blocks[i]->b.io_seq_num ==
				     g_num_at_handback[i] &&
				     g_counter_at_handback[i] == expect,
				     "C03.data.contiguous.fragblk_keeps_number");
		} else {
			VERIF_ASSERT(g_pool_blocks[i]->b.io_seq_num ==
				     g_num_at_handback[i],
				     "C03.data.contiguous.fragblk_keeps_number");
		}
	}
	VERIF_ASSERT(proc->io_seq_num == seq0 + numbered,
		     "C03.data.contiguous.number_at_handback");
	VERIF_ASSERT(g_order_ok && g_pcb_calls <= NPOOL,
		     "C03.data.contiguous.write_in_order");
	VERIF_COVER(ret == 0 && g_handed >= 1);
	VERIF_COVER(ret == 0 && g_pcb_calls + g_pcf_calls >= 1);
#endif
}
