/* C03.dir.run_limits: get_conseq_entry_count (lib/sqfs/src/dir_writer.c),
 * every list, every field value, every start offset.
 *
 * The loop leaves after at most SQFS_MAX_DIR_ENT (256, a compile-time
 * constant of the code) counted entries, so it is unwound 257 times with the
 * unwinding assertion on; a list of 257 typed nodes of which the first n
 * (symbolic, 0..257) are linked presents every list: the function never looks
 * past the 256th node and uses no address but for following ->next and the
 * NULL test. (A loop contract over a symbolic position in a 257-node list did
 * not finish: > 10 min / 20 GB; plain unwinding keeps every pointer concrete.)
 *
 * Configurations:
 *  DR_N = 257 (proved): count for every list; with -DDR_WIT also same_block /
 *   delta_fits for an arbitrary witness entry (about 5 min of SAT: thorough
 *   tier; the quick tier has these two in the bounded configuration).
 *  DR_N <= 33, -DDR_BLK (bounded, lists of at most DR_N nodes): additionally
 *   one_block / maximal, which compare the function's byte count with an
 *   independently accumulated one (SAT does not finish that for 257 nodes).
 *
 *  C03.dir.run_limits.count       non-empty list => 1 <= c <= 256, c <= length
 *  C03.dir.run_limits.same_block  the c entries share inode_ref >> 16
 *  C03.dir.run_limits.delta_fits  head number + (s16)delta reproduces the
 *                                 entry's inode number, delta in +-32767
 *  C03.dir.run_limits.one_block   c >= 2 => header end + entries stay inside
 *                                 one metadata block (8192 bytes)
 *  C03.dir.run_limits.maximal     the run only stops for one of the four
 *                                 reasons (end of list, 256, block, delta/size)
 * requires: 1 <= name_len <= 2^40 (no size_t wrap in the byte count).
 */
#include <stdlib.h>
#include "verif.h"
#include "lib/sqfs/src/dir_writer.c"

#ifndef DR_N
#define DR_N 257
#endif

typedef struct { sqfs_dir_entry_t e; char name[8]; } dr_node_t;
static dr_node_t nodes[DR_N];
static size_t pre[DR_N + 1];

void harness(void)
{
	sqfs_u32 offset = verif_nd_u32("offset");
	size_t n = verif_nd_size("n"), w = verif_nd_size("w");
	size_t i, c, size0;

	VERIF_ASSUME(n <= DR_N);

	size0 = ((size_t)offset + sizeof(sqfs_dir_header_t)) %
		SQFS_META_BLOCK_SIZE;
	pre[0] = size0;	/* pre[i]: bytes in the block after i entries */
	for (i = 0; i < DR_N; ++i) {
		nodes[i].e.inode_ref = verif_nd_u64("ref");
		nodes[i].e.inode_num = verif_nd_u32("num");
		nodes[i].e.type = verif_nd_u16("type");
		nodes[i].e.name_len = verif_nd_size("len");
		VERIF_ASSUME(nodes[i].e.name_len >= 1 &&
			     nodes[i].e.name_len <= ((size_t)1 << 40));
		nodes[i].e.next = (i + 1 < n) ? &nodes[i + 1 < DR_N ? i + 1 : 0].e : NULL;
		pre[i + 1] = pre[i] + (sizeof(sqfs_dir_node_t) +
				       nodes[i].e.name_len);
	}
#if DR_N > SQFS_MAX_DIR_ENT
	/* the 257th node is never followed: its next pointer is arbitrary */
	if (verif_nd_bool("more"))
		nodes[DR_N - 1].e.next = &nodes[0].e;
#endif

	c = get_conseq_entry_count(offset, n > 0 ? &nodes[0].e : NULL);

	VERIF_ASSERT(c <= SQFS_MAX_DIR_ENT && c <= 256 && c <= n &&
		     (n == 0 || c >= 1), "C03.dir.run_limits.count");
#ifdef DR_WIT
	if (w < c) {
		sqfs_u32 d = nodes[w].e.inode_num - nodes[0].e.inode_num;
		sqfs_s16 d16 = (sqfs_s16)(sqfs_u16)d;

		VERIF_ASSERT((nodes[w].e.inode_ref >> 16) ==
			     (nodes[0].e.inode_ref >> 16),
			     "C03.dir.run_limits.same_block");
		VERIF_ASSERT(nodes[0].e.inode_num + (sqfs_u32)(sqfs_s32)d16 ==
			     nodes[w].e.inode_num && d16 != -32768,
			     "C03.dir.run_limits.delta_fits");
	}
	VERIF_COVER(c >= 2 && w == c - 1 &&
		    nodes[w].e.inode_num < nodes[0].e.inode_num);
#endif
#ifdef DR_BLK
	if (c >= 2)
		VERIF_ASSERT(pre[c] <= SQFS_META_BLOCK_SIZE,
			     "C03.dir.run_limits.one_block");
	if (c < n && c < 256 && c >= 1) {
		sqfs_u32 d = nodes[c].e.inode_num - nodes[0].e.inode_num;

		VERIF_ASSERT((nodes[c].e.inode_ref >> 16) !=
			     (nodes[0].e.inode_ref >> 16) ||
			     (sqfs_s32)d > 32767 || (sqfs_s32)d < -32767 ||
			     pre[c + 1] > SQFS_META_BLOCK_SIZE,
			     "C03.dir.run_limits.maximal");
	}
	VERIF_COVER(c == 2 && n > 2 && pre[3] > SQFS_META_BLOCK_SIZE &&
		    pre[2] <= SQFS_META_BLOCK_SIZE);
#endif

#if DR_N > SQFS_MAX_DIR_ENT
	VERIF_COVER(c == 256 && n == 257);
#endif
	VERIF_COVER(c == 1 && n > 1);
	VERIF_COVER(c == 3 && n == 3);
	VERIF_COVER(c == 0);
}
