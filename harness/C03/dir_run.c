/* C03.dir.run_limits: get_conseq_entry_count (lib/sqfs/src/dir_writer.c),
 * every list (any length, the loop never looks past node 256), every field
 * value, every start offset. Loop closed by a loop contract
 * (contracts/loops/C03.tbl). The list is laid out in an index of DR_N typed
 * nodes only so that the invariant can say "it is the count-th node"; the
 * function itself only follows ->next and compares with NULL.
 *
 *  C03.dir.run_limits.count       non-empty list => 1 <= c <= 256 (c <= length)
 *  C03.dir.run_limits.same_block  the c entries share inode_ref >> 16
 *  C03.dir.run_limits.delta_fits  head number + (s16)delta reproduces the
 *                                 entry's inode number (delta in +-32767)
 *  C03.dir.run_limits.one_block   c >= 2 => header end + entries stay inside
 *                                 one metadata block (8192)
 * requires: 1 <= name_len <= 2^40 (no size_t wrap in the byte count).
 */
#include <stdlib.h>
#include "verif.h"

#ifndef DR_N
#define DR_N 257
#endif
struct sqfs_dir_entry_t;
struct sqfs_dir_entry_t *g_dr_node[DR_N + 1];
size_t g_dr_pre[DR_N + 1];
size_t g_dr_n, g_dr_w, g_dr_size0;
uint64_t g_dr_wref; /* fields of the witness node */
uint32_t g_dr_wnum;

#include "lib/sqfs/src/dir_writer.c"

typedef struct { sqfs_dir_entry_t e; char name[8]; } dr_node_t;
static dr_node_t *nodes[DR_N]; /* one typed object per list node */

void harness(void)
{
	sqfs_u32 offset = verif_nd_u32("offset");
	size_t i, c;

	g_dr_n = verif_nd_size("n");
	VERIF_ASSUME(g_dr_n <= DR_N);
	g_dr_w = verif_nd_size("w");

	g_dr_pre[0] = 0;
	for (i = 0; i < DR_N; ++i) {
		nodes[i] = malloc(sizeof(dr_node_t));
		VERIF_ASSUME(nodes[i] != NULL);
		nodes[i]->e.inode_ref = verif_nd_u64("ref");
		nodes[i]->e.inode_num = verif_nd_u32("num");
		nodes[i]->e.type = verif_nd_u16("type");
		nodes[i]->e.name_len = verif_nd_size("len");
		VERIF_ASSUME(nodes[i]->e.name_len >= 1 &&
			     nodes[i]->e.name_len <= ((size_t)1 << 40));
		g_dr_node[i] = i < g_dr_n ? &nodes[i]->e : NULL;
		if (i == g_dr_w) {
			g_dr_wref = nodes[i]->e.inode_ref;
			g_dr_wnum = nodes[i]->e.inode_num;
		}
		g_dr_pre[i + 1] = g_dr_pre[i] + sizeof(sqfs_dir_node_t) +
			nodes[i]->e.name_len;
	}
	g_dr_node[DR_N] = NULL;
	for (i = 0; i + 1 < DR_N; ++i)
		nodes[i]->e.next = g_dr_node[i + 1];
	/* node 256 is never followed: its next pointer is arbitrary */
	nodes[DR_N - 1]->e.next = verif_nd_bool("more") ? &nodes[0]->e : NULL;

	g_dr_size0 = ((size_t)offset + sizeof(sqfs_dir_header_t)) %
		SQFS_META_BLOCK_SIZE;

	c = get_conseq_entry_count(offset, g_dr_node[0]);

	VERIF_ASSERT(c <= 256 && c <= g_dr_n && (g_dr_n == 0 || c >= 1),
		     "C03.dir.run_limits.count");
	if (g_dr_w < c) {
		sqfs_u32 d = nodes[g_dr_w]->e.inode_num - nodes[0]->e.inode_num;
		sqfs_s16 d16 = (sqfs_s16)(sqfs_u16)d;

		VERIF_ASSERT((nodes[g_dr_w]->e.inode_ref >> 16) ==
			     (nodes[0]->e.inode_ref >> 16),
			     "C03.dir.run_limits.same_block");
		VERIF_ASSERT(nodes[0]->e.inode_num + (sqfs_u32)(sqfs_s32)d16 ==
			     nodes[g_dr_w]->e.inode_num && d16 != -32768,
			     "C03.dir.run_limits.delta_fits");
	}
	if (c >= 2)
		VERIF_ASSERT(g_dr_size0 + g_dr_pre[c] <= SQFS_META_BLOCK_SIZE,
			     "C03.dir.run_limits.one_block");

	VERIF_COVER(c == 256);
	VERIF_COVER(c == 1 && g_dr_n > 1);
	VERIF_COVER(c == 3 && g_dr_n == 3);
	VERIF_COVER(c == 0);
	VERIF_COVER(c >= 2 && g_dr_w == c - 1 &&
		    nodes[g_dr_w]->e.inode_num < nodes[0]->e.inode_num);
}
