/* generated: one static kv_block_desc_t per list node (a static array of
 * more than 64 structs is not field-sensitive in cbmc and makes symex
 * quadratic). Only the first NSETS objects exist. */
#if NSETS > 0
static kv_block_desc_t kvn0;
#endif
#if NSETS > 1
static kv_block_desc_t kvn1;
#endif
#if NSETS > 2
static kv_block_desc_t kvn2;
#endif
#if NSETS > 3
static kv_block_desc_t kvn3;
#endif
#if NSETS > 4
static kv_block_desc_t kvn4;
#endif
#if NSETS > 5
static kv_block_desc_t kvn5;
#endif
#if NSETS > 6
static kv_block_desc_t kvn6;
#endif
#if NSETS > 7
static kv_block_desc_t kvn7;
#endif
#if NSETS > 8
static kv_block_desc_t kvn8;
#endif
#if NSETS > 9
static kv_block_desc_t kvn9;
#endif
#if NSETS > 10
static kv_block_desc_t kvn10;
#endif
#if NSETS > 11
static kv_block_desc_t kvn11;
#endif
#if NSETS > 12
static kv_block_desc_t kvn12;
#endif
#if NSETS > 13
static kv_block_desc_t kvn13;
#endif
#if NSETS > 14
static kv_block_desc_t kvn14;
#endif
#if NSETS > 15
static kv_block_desc_t kvn15;
#endif
#if NSETS > 16
static kv_block_desc_t kvn16;
#endif
#if NSETS > 17
static kv_block_desc_t kvn17;
#endif
#if NSETS > 18
static kv_block_desc_t kvn18;
#endif
#if NSETS > 19
static kv_block_desc_t kvn19;
#endif
#if NSETS > 20
static kv_block_desc_t kvn20;
#endif
#if NSETS > 21
static kv_block_desc_t kvn21;
#endif
#if NSETS > 22
static kv_block_desc_t kvn22;
#endif
#if NSETS > 23
static kv_block_desc_t kvn23;
#endif
#if NSETS > 24
static kv_block_desc_t kvn24;
#endif
#if NSETS > 25
static kv_block_desc_t kvn25;
#endif
#if NSETS > 26
static kv_block_desc_t kvn26;
#endif
#if NSETS > 27
static kv_block_desc_t kvn27;
#endif
#if NSETS > 28
static kv_block_desc_t kvn28;
#endif
#if NSETS > 29
static kv_block_desc_t kvn29;
#endif
#if NSETS > 30
static kv_block_desc_t kvn30;
#endif
#if NSETS > 31
static kv_block_desc_t kvn31;
#endif
#if NSETS > 32
static kv_block_desc_t kvn32;
#endif
#if NSETS > 33
static kv_block_desc_t kvn33;
#endif
#if NSETS > 34
static kv_block_desc_t kvn34;
#endif
#if NSETS > 35
static kv_block_desc_t kvn35;
#endif
#if NSETS > 36
static kv_block_desc_t kvn36;
#endif
#if NSETS > 37
static kv_block_desc_t kvn37;
#endif
#if NSETS > 38
static kv_block_desc_t kvn38;
#endif
#if NSETS > 39
static kv_block_desc_t kvn39;
#endif
#if NSETS > 40
static kv_block_desc_t kvn40;
#endif
#if NSETS > 41
static kv_block_desc_t kvn41;
#endif
#if NSETS > 42
static kv_block_desc_t kvn42;
#endif
#if NSETS > 43
static kv_block_desc_t kvn43;
#endif
#if NSETS > 44
static kv_block_desc_t kvn44;
#endif
#if NSETS > 45
static kv_block_desc_t kvn45;
#endif
#if NSETS > 46
static kv_block_desc_t kvn46;
#endif
#if NSETS > 47
static kv_block_desc_t kvn47;
#endif
#if NSETS > 48
static kv_block_desc_t kvn48;
#endif
#if NSETS > 49
static kv_block_desc_t kvn49;
#endif
#if NSETS > 50
static kv_block_desc_t kvn50;
#endif
#if NSETS > 51
static kv_block_desc_t kvn51;
#endif
#if NSETS > 52
static kv_block_desc_t kvn52;
#endif
#if NSETS > 53
static kv_block_desc_t kvn53;
#endif
#if NSETS > 54
static kv_block_desc_t kvn54;
#endif
#if NSETS > 55
static kv_block_desc_t kvn55;
#endif
#if NSETS > 56
static kv_block_desc_t kvn56;
#endif
#if NSETS > 57
static kv_block_desc_t kvn57;
#endif
#if NSETS > 58
static kv_block_desc_t kvn58;
#endif
#if NSETS > 59
static kv_block_desc_t kvn59;
#endif
#if NSETS > 60
static kv_block_desc_t kvn60;
#endif
#if NSETS > 61
static kv_block_desc_t kvn61;
#endif
#if NSETS > 62
static kv_block_desc_t kvn62;
#endif
#if NSETS > 63
static kv_block_desc_t kvn63;
#endif
#if NSETS > 64
static kv_block_desc_t kvn64;
#endif
#if NSETS > 65
static kv_block_desc_t kvn65;
#endif
#if NSETS > 66
static kv_block_desc_t kvn66;
#endif
#if NSETS > 67
static kv_block_desc_t kvn67;
#endif
#if NSETS > 68
static kv_block_desc_t kvn68;
#endif
#if NSETS > 69
static kv_block_desc_t kvn69;
#endif
#if NSETS > 70
static kv_block_desc_t kvn70;
#endif
#if NSETS > 71
static kv_block_desc_t kvn71;
#endif
#if NSETS > 72
static kv_block_desc_t kvn72;
#endif
#if NSETS > 73
static kv_block_desc_t kvn73;
#endif
#if NSETS > 74
static kv_block_desc_t kvn74;
#endif
#if NSETS > 75
static kv_block_desc_t kvn75;
#endif
#if NSETS > 76
static kv_block_desc_t kvn76;
#endif
#if NSETS > 77
static kv_block_desc_t kvn77;
#endif
#if NSETS > 78
static kv_block_desc_t kvn78;
#endif
#if NSETS > 79
static kv_block_desc_t kvn79;
#endif
#if NSETS > 80
static kv_block_desc_t kvn80;
#endif
#if NSETS > 81
static kv_block_desc_t kvn81;
#endif
#if NSETS > 82
static kv_block_desc_t kvn82;
#endif
#if NSETS > 83
static kv_block_desc_t kvn83;
#endif
#if NSETS > 84
static kv_block_desc_t kvn84;
#endif
#if NSETS > 85
static kv_block_desc_t kvn85;
#endif
#if NSETS > 86
static kv_block_desc_t kvn86;
#endif
#if NSETS > 87
static kv_block_desc_t kvn87;
#endif
#if NSETS > 88
static kv_block_desc_t kvn88;
#endif
#if NSETS > 89
static kv_block_desc_t kvn89;
#endif
#if NSETS > 90
static kv_block_desc_t kvn90;
#endif
#if NSETS > 91
static kv_block_desc_t kvn91;
#endif
#if NSETS > 92
static kv_block_desc_t kvn92;
#endif
#if NSETS > 93
static kv_block_desc_t kvn93;
#endif
#if NSETS > 94
static kv_block_desc_t kvn94;
#endif
#if NSETS > 95
static kv_block_desc_t kvn95;
#endif
#if NSETS > 96
static kv_block_desc_t kvn96;
#endif
#if NSETS > 97
static kv_block_desc_t kvn97;
#endif
#if NSETS > 98
static kv_block_desc_t kvn98;
#endif
#if NSETS > 99
static kv_block_desc_t kvn99;
#endif
#if NSETS > 100
static kv_block_desc_t kvn100;
#endif
#if NSETS > 101
static kv_block_desc_t kvn101;
#endif
#if NSETS > 102
static kv_block_desc_t kvn102;
#endif
#if NSETS > 103
static kv_block_desc_t kvn103;
#endif
#if NSETS > 104
static kv_block_desc_t kvn104;
#endif
#if NSETS > 105
static kv_block_desc_t kvn105;
#endif
#if NSETS > 106
static kv_block_desc_t kvn106;
#endif
#if NSETS > 107
static kv_block_desc_t kvn107;
#endif
#if NSETS > 108
static kv_block_desc_t kvn108;
#endif
#if NSETS > 109
static kv_block_desc_t kvn109;
#endif
#if NSETS > 110
static kv_block_desc_t kvn110;
#endif
#if NSETS > 111
static kv_block_desc_t kvn111;
#endif
#if NSETS > 112
static kv_block_desc_t kvn112;
#endif
#if NSETS > 113
static kv_block_desc_t kvn113;
#endif
#if NSETS > 114
static kv_block_desc_t kvn114;
#endif
#if NSETS > 115
static kv_block_desc_t kvn115;
#endif
#if NSETS > 116
static kv_block_desc_t kvn116;
#endif
#if NSETS > 117
static kv_block_desc_t kvn117;
#endif
#if NSETS > 118
static kv_block_desc_t kvn118;
#endif
#if NSETS > 119
static kv_block_desc_t kvn119;
#endif
#if NSETS > 120
static kv_block_desc_t kvn120;
#endif
#if NSETS > 121
static kv_block_desc_t kvn121;
#endif
#if NSETS > 122
static kv_block_desc_t kvn122;
#endif
#if NSETS > 123
static kv_block_desc_t kvn123;
#endif
#if NSETS > 124
static kv_block_desc_t kvn124;
#endif
#if NSETS > 125
static kv_block_desc_t kvn125;
#endif
#if NSETS > 126
static kv_block_desc_t kvn126;
#endif
#if NSETS > 127
static kv_block_desc_t kvn127;
#endif
#if NSETS > 128
static kv_block_desc_t kvn128;
#endif
#if NSETS > 129
static kv_block_desc_t kvn129;
#endif
#if NSETS > 130
static kv_block_desc_t kvn130;
#endif
#if NSETS > 131
static kv_block_desc_t kvn131;
#endif
#if NSETS > 132
static kv_block_desc_t kvn132;
#endif
#if NSETS > 133
static kv_block_desc_t kvn133;
#endif
#if NSETS > 134
static kv_block_desc_t kvn134;
#endif
#if NSETS > 135
static kv_block_desc_t kvn135;
#endif
#if NSETS > 136
static kv_block_desc_t kvn136;
#endif
#if NSETS > 137
static kv_block_desc_t kvn137;
#endif
#if NSETS > 138
static kv_block_desc_t kvn138;
#endif
#if NSETS > 139
static kv_block_desc_t kvn139;
#endif
#if NSETS > 140
static kv_block_desc_t kvn140;
#endif
#if NSETS > 141
static kv_block_desc_t kvn141;
#endif
#if NSETS > 142
static kv_block_desc_t kvn142;
#endif
#if NSETS > 143
static kv_block_desc_t kvn143;
#endif
#if NSETS > 144
static kv_block_desc_t kvn144;
#endif
#if NSETS > 145
static kv_block_desc_t kvn145;
#endif
#if NSETS > 146
static kv_block_desc_t kvn146;
#endif
#if NSETS > 147
static kv_block_desc_t kvn147;
#endif
#if NSETS > 148
static kv_block_desc_t kvn148;
#endif
#if NSETS > 149
static kv_block_desc_t kvn149;
#endif
#if NSETS > 150
static kv_block_desc_t kvn150;
#endif
#if NSETS > 151
static kv_block_desc_t kvn151;
#endif
#if NSETS > 152
static kv_block_desc_t kvn152;
#endif
#if NSETS > 153
static kv_block_desc_t kvn153;
#endif
#if NSETS > 154
static kv_block_desc_t kvn154;
#endif
#if NSETS > 155
static kv_block_desc_t kvn155;
#endif
#if NSETS > 156
static kv_block_desc_t kvn156;
#endif
#if NSETS > 157
static kv_block_desc_t kvn157;
#endif
#if NSETS > 158
static kv_block_desc_t kvn158;
#endif
#if NSETS > 159
static kv_block_desc_t kvn159;
#endif
#if NSETS > 160
static kv_block_desc_t kvn160;
#endif
#if NSETS > 161
static kv_block_desc_t kvn161;
#endif
#if NSETS > 162
static kv_block_desc_t kvn162;
#endif
#if NSETS > 163
static kv_block_desc_t kvn163;
#endif
#if NSETS > 164
static kv_block_desc_t kvn164;
#endif
#if NSETS > 165
static kv_block_desc_t kvn165;
#endif
#if NSETS > 166
static kv_block_desc_t kvn166;
#endif
#if NSETS > 167
static kv_block_desc_t kvn167;
#endif
#if NSETS > 168
static kv_block_desc_t kvn168;
#endif
#if NSETS > 169
static kv_block_desc_t kvn169;
#endif
#if NSETS > 170
static kv_block_desc_t kvn170;
#endif
#if NSETS > 171
static kv_block_desc_t kvn171;
#endif
#if NSETS > 172
static kv_block_desc_t kvn172;
#endif
#if NSETS > 173
static kv_block_desc_t kvn173;
#endif
#if NSETS > 174
static kv_block_desc_t kvn174;
#endif
#if NSETS > 175
static kv_block_desc_t kvn175;
#endif
#if NSETS > 176
static kv_block_desc_t kvn176;
#endif
#if NSETS > 177
static kv_block_desc_t kvn177;
#endif
#if NSETS > 178
static kv_block_desc_t kvn178;
#endif
#if NSETS > 179
static kv_block_desc_t kvn179;
#endif
#if NSETS > 180
static kv_block_desc_t kvn180;
#endif
#if NSETS > 181
static kv_block_desc_t kvn181;
#endif
#if NSETS > 182
static kv_block_desc_t kvn182;
#endif
#if NSETS > 183
static kv_block_desc_t kvn183;
#endif
#if NSETS > 184
static kv_block_desc_t kvn184;
#endif
#if NSETS > 185
static kv_block_desc_t kvn185;
#endif
#if NSETS > 186
static kv_block_desc_t kvn186;
#endif
#if NSETS > 187
static kv_block_desc_t kvn187;
#endif
#if NSETS > 188
static kv_block_desc_t kvn188;
#endif
#if NSETS > 189
static kv_block_desc_t kvn189;
#endif
#if NSETS > 190
static kv_block_desc_t kvn190;
#endif
#if NSETS > 191
static kv_block_desc_t kvn191;
#endif
#if NSETS > 192
static kv_block_desc_t kvn192;
#endif
#if NSETS > 193
static kv_block_desc_t kvn193;
#endif
#if NSETS > 194
static kv_block_desc_t kvn194;
#endif
#if NSETS > 195
static kv_block_desc_t kvn195;
#endif
#if NSETS > 196
static kv_block_desc_t kvn196;
#endif
#if NSETS > 197
static kv_block_desc_t kvn197;
#endif
#if NSETS > 198
static kv_block_desc_t kvn198;
#endif
#if NSETS > 199
static kv_block_desc_t kvn199;
#endif
#if NSETS > 200
static kv_block_desc_t kvn200;
#endif
#if NSETS > 201
static kv_block_desc_t kvn201;
#endif
#if NSETS > 202
static kv_block_desc_t kvn202;
#endif
#if NSETS > 203
static kv_block_desc_t kvn203;
#endif
#if NSETS > 204
static kv_block_desc_t kvn204;
#endif
#if NSETS > 205
static kv_block_desc_t kvn205;
#endif
#if NSETS > 206
static kv_block_desc_t kvn206;
#endif
#if NSETS > 207
static kv_block_desc_t kvn207;
#endif
#if NSETS > 208
static kv_block_desc_t kvn208;
#endif
#if NSETS > 209
static kv_block_desc_t kvn209;
#endif
#if NSETS > 210
static kv_block_desc_t kvn210;
#endif
#if NSETS > 211
static kv_block_desc_t kvn211;
#endif
#if NSETS > 212
static kv_block_desc_t kvn212;
#endif
#if NSETS > 213
static kv_block_desc_t kvn213;
#endif
#if NSETS > 214
static kv_block_desc_t kvn214;
#endif
#if NSETS > 215
static kv_block_desc_t kvn215;
#endif
#if NSETS > 216
static kv_block_desc_t kvn216;
#endif
#if NSETS > 217
static kv_block_desc_t kvn217;
#endif
#if NSETS > 218
static kv_block_desc_t kvn218;
#endif
#if NSETS > 219
static kv_block_desc_t kvn219;
#endif
#if NSETS > 220
static kv_block_desc_t kvn220;
#endif
#if NSETS > 221
static kv_block_desc_t kvn221;
#endif
#if NSETS > 222
static kv_block_desc_t kvn222;
#endif
#if NSETS > 223
static kv_block_desc_t kvn223;
#endif
#if NSETS > 224
static kv_block_desc_t kvn224;
#endif
#if NSETS > 225
static kv_block_desc_t kvn225;
#endif
#if NSETS > 226
static kv_block_desc_t kvn226;
#endif
#if NSETS > 227
static kv_block_desc_t kvn227;
#endif
#if NSETS > 228
static kv_block_desc_t kvn228;
#endif
#if NSETS > 229
static kv_block_desc_t kvn229;
#endif
#if NSETS > 230
static kv_block_desc_t kvn230;
#endif
#if NSETS > 231
static kv_block_desc_t kvn231;
#endif
#if NSETS > 232
static kv_block_desc_t kvn232;
#endif
#if NSETS > 233
static kv_block_desc_t kvn233;
#endif
#if NSETS > 234
static kv_block_desc_t kvn234;
#endif
#if NSETS > 235
static kv_block_desc_t kvn235;
#endif
#if NSETS > 236
static kv_block_desc_t kvn236;
#endif
#if NSETS > 237
static kv_block_desc_t kvn237;
#endif
#if NSETS > 238
static kv_block_desc_t kvn238;
#endif
#if NSETS > 239
static kv_block_desc_t kvn239;
#endif
#if NSETS > 240
static kv_block_desc_t kvn240;
#endif
#if NSETS > 241
static kv_block_desc_t kvn241;
#endif
#if NSETS > 242
static kv_block_desc_t kvn242;
#endif
#if NSETS > 243
static kv_block_desc_t kvn243;
#endif
#if NSETS > 244
static kv_block_desc_t kvn244;
#endif
#if NSETS > 245
static kv_block_desc_t kvn245;
#endif
#if NSETS > 246
static kv_block_desc_t kvn246;
#endif
#if NSETS > 247
static kv_block_desc_t kvn247;
#endif
#if NSETS > 248
static kv_block_desc_t kvn248;
#endif
#if NSETS > 249
static kv_block_desc_t kvn249;
#endif
#if NSETS > 250
static kv_block_desc_t kvn250;
#endif
#if NSETS > 251
static kv_block_desc_t kvn251;
#endif
#if NSETS > 252
static kv_block_desc_t kvn252;
#endif
#if NSETS > 253
static kv_block_desc_t kvn253;
#endif
#if NSETS > 254
static kv_block_desc_t kvn254;
#endif
#if NSETS > 255
static kv_block_desc_t kvn255;
#endif
#if NSETS > 256
static kv_block_desc_t kvn256;
#endif
#if NSETS > 257
static kv_block_desc_t kvn257;
#endif
#if NSETS > 258
static kv_block_desc_t kvn258;
#endif
#if NSETS > 259
static kv_block_desc_t kvn259;
#endif
#if NSETS > 260
static kv_block_desc_t kvn260;
#endif
#if NSETS > 261
static kv_block_desc_t kvn261;
#endif
#if NSETS > 262
static kv_block_desc_t kvn262;
#endif
#if NSETS > 263
static kv_block_desc_t kvn263;
#endif
#if NSETS > 264
static kv_block_desc_t kvn264;
#endif
#if NSETS > 265
static kv_block_desc_t kvn265;
#endif
#if NSETS > 266
static kv_block_desc_t kvn266;
#endif
#if NSETS > 267
static kv_block_desc_t kvn267;
#endif
#if NSETS > 268
static kv_block_desc_t kvn268;
#endif
#if NSETS > 269
static kv_block_desc_t kvn269;
#endif
#if NSETS > 270
static kv_block_desc_t kvn270;
#endif
#if NSETS > 271
static kv_block_desc_t kvn271;
#endif
#if NSETS > 272
static kv_block_desc_t kvn272;
#endif
#if NSETS > 273
static kv_block_desc_t kvn273;
#endif
#if NSETS > 274
static kv_block_desc_t kvn274;
#endif
#if NSETS > 275
static kv_block_desc_t kvn275;
#endif
#if NSETS > 276
static kv_block_desc_t kvn276;
#endif
#if NSETS > 277
static kv_block_desc_t kvn277;
#endif
#if NSETS > 278
static kv_block_desc_t kvn278;
#endif
#if NSETS > 279
static kv_block_desc_t kvn279;
#endif
#if NSETS > 280
static kv_block_desc_t kvn280;
#endif
#if NSETS > 281
static kv_block_desc_t kvn281;
#endif
#if NSETS > 282
static kv_block_desc_t kvn282;
#endif
#if NSETS > 283
static kv_block_desc_t kvn283;
#endif
#if NSETS > 284
static kv_block_desc_t kvn284;
#endif
#if NSETS > 285
static kv_block_desc_t kvn285;
#endif
#if NSETS > 286
static kv_block_desc_t kvn286;
#endif
#if NSETS > 287
static kv_block_desc_t kvn287;
#endif
#if NSETS > 288
static kv_block_desc_t kvn288;
#endif
#if NSETS > 289
static kv_block_desc_t kvn289;
#endif
#if NSETS > 290
static kv_block_desc_t kvn290;
#endif
#if NSETS > 291
static kv_block_desc_t kvn291;
#endif
#if NSETS > 292
static kv_block_desc_t kvn292;
#endif
#if NSETS > 293
static kv_block_desc_t kvn293;
#endif
#if NSETS > 294
static kv_block_desc_t kvn294;
#endif
#if NSETS > 295
static kv_block_desc_t kvn295;
#endif
#if NSETS > 296
static kv_block_desc_t kvn296;
#endif
#if NSETS > 297
static kv_block_desc_t kvn297;
#endif
#if NSETS > 298
static kv_block_desc_t kvn298;
#endif
#if NSETS > 299
static kv_block_desc_t kvn299;
#endif
#if NSETS > 300
static kv_block_desc_t kvn300;
#endif
#if NSETS > 301
static kv_block_desc_t kvn301;
#endif
#if NSETS > 302
static kv_block_desc_t kvn302;
#endif
#if NSETS > 303
static kv_block_desc_t kvn303;
#endif
#if NSETS > 304
static kv_block_desc_t kvn304;
#endif
#if NSETS > 305
static kv_block_desc_t kvn305;
#endif
#if NSETS > 306
static kv_block_desc_t kvn306;
#endif
#if NSETS > 307
static kv_block_desc_t kvn307;
#endif
#if NSETS > 308
static kv_block_desc_t kvn308;
#endif
#if NSETS > 309
static kv_block_desc_t kvn309;
#endif
#if NSETS > 310
static kv_block_desc_t kvn310;
#endif
#if NSETS > 311
static kv_block_desc_t kvn311;
#endif
#if NSETS > 312
static kv_block_desc_t kvn312;
#endif
#if NSETS > 313
static kv_block_desc_t kvn313;
#endif
#if NSETS > 314
static kv_block_desc_t kvn314;
#endif
#if NSETS > 315
static kv_block_desc_t kvn315;
#endif
#if NSETS > 316
static kv_block_desc_t kvn316;
#endif
#if NSETS > 317
static kv_block_desc_t kvn317;
#endif
#if NSETS > 318
static kv_block_desc_t kvn318;
#endif
#if NSETS > 319
static kv_block_desc_t kvn319;
#endif
#if NSETS > 320
static kv_block_desc_t kvn320;
#endif
#if NSETS > 321
static kv_block_desc_t kvn321;
#endif
#if NSETS > 322
static kv_block_desc_t kvn322;
#endif
#if NSETS > 323
static kv_block_desc_t kvn323;
#endif
#if NSETS > 324
static kv_block_desc_t kvn324;
#endif
#if NSETS > 325
static kv_block_desc_t kvn325;
#endif
#if NSETS > 326
static kv_block_desc_t kvn326;
#endif
#if NSETS > 327
static kv_block_desc_t kvn327;
#endif
#if NSETS > 328
static kv_block_desc_t kvn328;
#endif
#if NSETS > 329
static kv_block_desc_t kvn329;
#endif
#if NSETS > 330
static kv_block_desc_t kvn330;
#endif
#if NSETS > 331
static kv_block_desc_t kvn331;
#endif
#if NSETS > 332
static kv_block_desc_t kvn332;
#endif
#if NSETS > 333
static kv_block_desc_t kvn333;
#endif
#if NSETS > 334
static kv_block_desc_t kvn334;
#endif
#if NSETS > 335
static kv_block_desc_t kvn335;
#endif
#if NSETS > 336
static kv_block_desc_t kvn336;
#endif
#if NSETS > 337
static kv_block_desc_t kvn337;
#endif
#if NSETS > 338
static kv_block_desc_t kvn338;
#endif
#if NSETS > 339
static kv_block_desc_t kvn339;
#endif
#if NSETS > 340
static kv_block_desc_t kvn340;
#endif
#if NSETS > 341
static kv_block_desc_t kvn341;
#endif
#if NSETS > 342
static kv_block_desc_t kvn342;
#endif
#if NSETS > 343
static kv_block_desc_t kvn343;
#endif
#if NSETS > 344
static kv_block_desc_t kvn344;
#endif
#if NSETS > 345
static kv_block_desc_t kvn345;
#endif
#if NSETS > 346
static kv_block_desc_t kvn346;
#endif
#if NSETS > 347
static kv_block_desc_t kvn347;
#endif
#if NSETS > 348
static kv_block_desc_t kvn348;
#endif
#if NSETS > 349
static kv_block_desc_t kvn349;
#endif
#if NSETS > 350
static kv_block_desc_t kvn350;
#endif
#if NSETS > 351
static kv_block_desc_t kvn351;
#endif
#if NSETS > 352
static kv_block_desc_t kvn352;
#endif
#if NSETS > 353
static kv_block_desc_t kvn353;
#endif
#if NSETS > 354
static kv_block_desc_t kvn354;
#endif
#if NSETS > 355
static kv_block_desc_t kvn355;
#endif
#if NSETS > 356
static kv_block_desc_t kvn356;
#endif
#if NSETS > 357
static kv_block_desc_t kvn357;
#endif
#if NSETS > 358
static kv_block_desc_t kvn358;
#endif
#if NSETS > 359
static kv_block_desc_t kvn359;
#endif
#if NSETS > 360
static kv_block_desc_t kvn360;
#endif
#if NSETS > 361
static kv_block_desc_t kvn361;
#endif
#if NSETS > 362
static kv_block_desc_t kvn362;
#endif
#if NSETS > 363
static kv_block_desc_t kvn363;
#endif
#if NSETS > 364
static kv_block_desc_t kvn364;
#endif
#if NSETS > 365
static kv_block_desc_t kvn365;
#endif
#if NSETS > 366
static kv_block_desc_t kvn366;
#endif
#if NSETS > 367
static kv_block_desc_t kvn367;
#endif
#if NSETS > 368
static kv_block_desc_t kvn368;
#endif
#if NSETS > 369
static kv_block_desc_t kvn369;
#endif
#if NSETS > 370
static kv_block_desc_t kvn370;
#endif
#if NSETS > 371
static kv_block_desc_t kvn371;
#endif
#if NSETS > 372
static kv_block_desc_t kvn372;
#endif
#if NSETS > 373
static kv_block_desc_t kvn373;
#endif
#if NSETS > 374
static kv_block_desc_t kvn374;
#endif
#if NSETS > 375
static kv_block_desc_t kvn375;
#endif
#if NSETS > 376
static kv_block_desc_t kvn376;
#endif
#if NSETS > 377
static kv_block_desc_t kvn377;
#endif
#if NSETS > 378
static kv_block_desc_t kvn378;
#endif
#if NSETS > 379
static kv_block_desc_t kvn379;
#endif
#if NSETS > 380
static kv_block_desc_t kvn380;
#endif
#if NSETS > 381
static kv_block_desc_t kvn381;
#endif
#if NSETS > 382
static kv_block_desc_t kvn382;
#endif
#if NSETS > 383
static kv_block_desc_t kvn383;
#endif
#if NSETS > 384
static kv_block_desc_t kvn384;
#endif
#if NSETS > 385
static kv_block_desc_t kvn385;
#endif
#if NSETS > 386
static kv_block_desc_t kvn386;
#endif
#if NSETS > 387
static kv_block_desc_t kvn387;
#endif
#if NSETS > 388
static kv_block_desc_t kvn388;
#endif
#if NSETS > 389
static kv_block_desc_t kvn389;
#endif
#if NSETS > 390
static kv_block_desc_t kvn390;
#endif
#if NSETS > 391
static kv_block_desc_t kvn391;
#endif
#if NSETS > 392
static kv_block_desc_t kvn392;
#endif
#if NSETS > 393
static kv_block_desc_t kvn393;
#endif
#if NSETS > 394
static kv_block_desc_t kvn394;
#endif
#if NSETS > 395
static kv_block_desc_t kvn395;
#endif
#if NSETS > 396
static kv_block_desc_t kvn396;
#endif
#if NSETS > 397
static kv_block_desc_t kvn397;
#endif
#if NSETS > 398
static kv_block_desc_t kvn398;
#endif
#if NSETS > 399
static kv_block_desc_t kvn399;
#endif
#if NSETS > 400
static kv_block_desc_t kvn400;
#endif
#if NSETS > 401
static kv_block_desc_t kvn401;
#endif
#if NSETS > 402
static kv_block_desc_t kvn402;
#endif
#if NSETS > 403
static kv_block_desc_t kvn403;
#endif
#if NSETS > 404
static kv_block_desc_t kvn404;
#endif
#if NSETS > 405
static kv_block_desc_t kvn405;
#endif
#if NSETS > 406
static kv_block_desc_t kvn406;
#endif
#if NSETS > 407
static kv_block_desc_t kvn407;
#endif
#if NSETS > 408
static kv_block_desc_t kvn408;
#endif
#if NSETS > 409
static kv_block_desc_t kvn409;
#endif
#if NSETS > 410
static kv_block_desc_t kvn410;
#endif
#if NSETS > 411
static kv_block_desc_t kvn411;
#endif
#if NSETS > 412
static kv_block_desc_t kvn412;
#endif
#if NSETS > 413
static kv_block_desc_t kvn413;
#endif
#if NSETS > 414
static kv_block_desc_t kvn414;
#endif
#if NSETS > 415
static kv_block_desc_t kvn415;
#endif
#if NSETS > 416
static kv_block_desc_t kvn416;
#endif
#if NSETS > 417
static kv_block_desc_t kvn417;
#endif
#if NSETS > 418
static kv_block_desc_t kvn418;
#endif
#if NSETS > 419
static kv_block_desc_t kvn419;
#endif
#if NSETS > 420
static kv_block_desc_t kvn420;
#endif
#if NSETS > 421
static kv_block_desc_t kvn421;
#endif
#if NSETS > 422
static kv_block_desc_t kvn422;
#endif
#if NSETS > 423
static kv_block_desc_t kvn423;
#endif
#if NSETS > 424
static kv_block_desc_t kvn424;
#endif
#if NSETS > 425
static kv_block_desc_t kvn425;
#endif
#if NSETS > 426
static kv_block_desc_t kvn426;
#endif
#if NSETS > 427
static kv_block_desc_t kvn427;
#endif
#if NSETS > 428
static kv_block_desc_t kvn428;
#endif
#if NSETS > 429
static kv_block_desc_t kvn429;
#endif
#if NSETS > 430
static kv_block_desc_t kvn430;
#endif
#if NSETS > 431
static kv_block_desc_t kvn431;
#endif
#if NSETS > 432
static kv_block_desc_t kvn432;
#endif
#if NSETS > 433
static kv_block_desc_t kvn433;
#endif
#if NSETS > 434
static kv_block_desc_t kvn434;
#endif
#if NSETS > 435
static kv_block_desc_t kvn435;
#endif
#if NSETS > 436
static kv_block_desc_t kvn436;
#endif
#if NSETS > 437
static kv_block_desc_t kvn437;
#endif
#if NSETS > 438
static kv_block_desc_t kvn438;
#endif
#if NSETS > 439
static kv_block_desc_t kvn439;
#endif
#if NSETS > 440
static kv_block_desc_t kvn440;
#endif
#if NSETS > 441
static kv_block_desc_t kvn441;
#endif
#if NSETS > 442
static kv_block_desc_t kvn442;
#endif
#if NSETS > 443
static kv_block_desc_t kvn443;
#endif
#if NSETS > 444
static kv_block_desc_t kvn444;
#endif
#if NSETS > 445
static kv_block_desc_t kvn445;
#endif
#if NSETS > 446
static kv_block_desc_t kvn446;
#endif
#if NSETS > 447
static kv_block_desc_t kvn447;
#endif
#if NSETS > 448
static kv_block_desc_t kvn448;
#endif
#if NSETS > 449
static kv_block_desc_t kvn449;
#endif
#if NSETS > 450
static kv_block_desc_t kvn450;
#endif
#if NSETS > 451
static kv_block_desc_t kvn451;
#endif
#if NSETS > 452
static kv_block_desc_t kvn452;
#endif
#if NSETS > 453
static kv_block_desc_t kvn453;
#endif
#if NSETS > 454
static kv_block_desc_t kvn454;
#endif
#if NSETS > 455
static kv_block_desc_t kvn455;
#endif
#if NSETS > 456
static kv_block_desc_t kvn456;
#endif
#if NSETS > 457
static kv_block_desc_t kvn457;
#endif
#if NSETS > 458
static kv_block_desc_t kvn458;
#endif
#if NSETS > 459
static kv_block_desc_t kvn459;
#endif
#if NSETS > 460
static kv_block_desc_t kvn460;
#endif
#if NSETS > 461
static kv_block_desc_t kvn461;
#endif
#if NSETS > 462
static kv_block_desc_t kvn462;
#endif
#if NSETS > 463
static kv_block_desc_t kvn463;
#endif
#if NSETS > 464
static kv_block_desc_t kvn464;
#endif
#if NSETS > 465
static kv_block_desc_t kvn465;
#endif
#if NSETS > 466
static kv_block_desc_t kvn466;
#endif
#if NSETS > 467
static kv_block_desc_t kvn467;
#endif
#if NSETS > 468
static kv_block_desc_t kvn468;
#endif
#if NSETS > 469
static kv_block_desc_t kvn469;
#endif
#if NSETS > 470
static kv_block_desc_t kvn470;
#endif
#if NSETS > 471
static kv_block_desc_t kvn471;
#endif
#if NSETS > 472
static kv_block_desc_t kvn472;
#endif
#if NSETS > 473
static kv_block_desc_t kvn473;
#endif
#if NSETS > 474
static kv_block_desc_t kvn474;
#endif
#if NSETS > 475
static kv_block_desc_t kvn475;
#endif
#if NSETS > 476
static kv_block_desc_t kvn476;
#endif
#if NSETS > 477
static kv_block_desc_t kvn477;
#endif
#if NSETS > 478
static kv_block_desc_t kvn478;
#endif
#if NSETS > 479
static kv_block_desc_t kvn479;
#endif
#if NSETS > 480
static kv_block_desc_t kvn480;
#endif
#if NSETS > 481
static kv_block_desc_t kvn481;
#endif
#if NSETS > 482
static kv_block_desc_t kvn482;
#endif
#if NSETS > 483
static kv_block_desc_t kvn483;
#endif
#if NSETS > 484
static kv_block_desc_t kvn484;
#endif
#if NSETS > 485
static kv_block_desc_t kvn485;
#endif
#if NSETS > 486
static kv_block_desc_t kvn486;
#endif
#if NSETS > 487
static kv_block_desc_t kvn487;
#endif
#if NSETS > 488
static kv_block_desc_t kvn488;
#endif
#if NSETS > 489
static kv_block_desc_t kvn489;
#endif
#if NSETS > 490
static kv_block_desc_t kvn490;
#endif
#if NSETS > 491
static kv_block_desc_t kvn491;
#endif
#if NSETS > 492
static kv_block_desc_t kvn492;
#endif
#if NSETS > 493
static kv_block_desc_t kvn493;
#endif
#if NSETS > 494
static kv_block_desc_t kvn494;
#endif
#if NSETS > 495
static kv_block_desc_t kvn495;
#endif
#if NSETS > 496
static kv_block_desc_t kvn496;
#endif
#if NSETS > 497
static kv_block_desc_t kvn497;
#endif
#if NSETS > 498
static kv_block_desc_t kvn498;
#endif
#if NSETS > 499
static kv_block_desc_t kvn499;
#endif
#if NSETS > 500
static kv_block_desc_t kvn500;
#endif
#if NSETS > 501
static kv_block_desc_t kvn501;
#endif
#if NSETS > 502
static kv_block_desc_t kvn502;
#endif
#if NSETS > 503
static kv_block_desc_t kvn503;
#endif
#if NSETS > 504
static kv_block_desc_t kvn504;
#endif
#if NSETS > 505
static kv_block_desc_t kvn505;
#endif
#if NSETS > 506
static kv_block_desc_t kvn506;
#endif
#if NSETS > 507
static kv_block_desc_t kvn507;
#endif
#if NSETS > 508
static kv_block_desc_t kvn508;
#endif
#if NSETS > 509
static kv_block_desc_t kvn509;
#endif
#if NSETS > 510
static kv_block_desc_t kvn510;
#endif
#if NSETS > 511
static kv_block_desc_t kvn511;
#endif
#if NSETS > 512
static kv_block_desc_t kvn512;
#endif
#if NSETS > 513
static kv_block_desc_t kvn513;
#endif
#if NSETS > 514
static kv_block_desc_t kvn514;
#endif
#if NSETS > 515
static kv_block_desc_t kvn515;
#endif
#if NSETS > 516
static kv_block_desc_t kvn516;
#endif
#if NSETS > 517
static kv_block_desc_t kvn517;
#endif
#if NSETS > 518
static kv_block_desc_t kvn518;
#endif
#if NSETS > 519
static kv_block_desc_t kvn519;
#endif
#if NSETS > 520
static kv_block_desc_t kvn520;
#endif
#if NSETS > 521
static kv_block_desc_t kvn521;
#endif
#if NSETS > 522
static kv_block_desc_t kvn522;
#endif
#if NSETS > 523
static kv_block_desc_t kvn523;
#endif
#if NSETS > 524
static kv_block_desc_t kvn524;
#endif
#if NSETS > 525
static kv_block_desc_t kvn525;
#endif
#if NSETS > 526
static kv_block_desc_t kvn526;
#endif
#if NSETS > 527
static kv_block_desc_t kvn527;
#endif
#if NSETS > 528
static kv_block_desc_t kvn528;
#endif
#if NSETS > 529
static kv_block_desc_t kvn529;
#endif
#if NSETS > 530
static kv_block_desc_t kvn530;
#endif
#if NSETS > 531
static kv_block_desc_t kvn531;
#endif
#if NSETS > 532
static kv_block_desc_t kvn532;
#endif
#if NSETS > 533
static kv_block_desc_t kvn533;
#endif
#if NSETS > 534
static kv_block_desc_t kvn534;
#endif
#if NSETS > 535
static kv_block_desc_t kvn535;
#endif
#if NSETS > 536
static kv_block_desc_t kvn536;
#endif
#if NSETS > 537
static kv_block_desc_t kvn537;
#endif
#if NSETS > 538
static kv_block_desc_t kvn538;
#endif
#if NSETS > 539
static kv_block_desc_t kvn539;
#endif
#if NSETS > 540
static kv_block_desc_t kvn540;
#endif
#if NSETS > 541
static kv_block_desc_t kvn541;
#endif
#if NSETS > 542
static kv_block_desc_t kvn542;
#endif
#if NSETS > 543
static kv_block_desc_t kvn543;
#endif
#if NSETS > 544
static kv_block_desc_t kvn544;
#endif
#if NSETS > 545
static kv_block_desc_t kvn545;
#endif
#if NSETS > 546
static kv_block_desc_t kvn546;
#endif
#if NSETS > 547
static kv_block_desc_t kvn547;
#endif
#if NSETS > 548
static kv_block_desc_t kvn548;
#endif
#if NSETS > 549
static kv_block_desc_t kvn549;
#endif
#if NSETS > 550
static kv_block_desc_t kvn550;
#endif
#if NSETS > 551
static kv_block_desc_t kvn551;
#endif
#if NSETS > 552
static kv_block_desc_t kvn552;
#endif
#if NSETS > 553
static kv_block_desc_t kvn553;
#endif
#if NSETS > 554
static kv_block_desc_t kvn554;
#endif
#if NSETS > 555
static kv_block_desc_t kvn555;
#endif
#if NSETS > 556
static kv_block_desc_t kvn556;
#endif
#if NSETS > 557
static kv_block_desc_t kvn557;
#endif
#if NSETS > 558
static kv_block_desc_t kvn558;
#endif
#if NSETS > 559
static kv_block_desc_t kvn559;
#endif
#if NSETS > 560
static kv_block_desc_t kvn560;
#endif
#if NSETS > 561
static kv_block_desc_t kvn561;
#endif
#if NSETS > 562
static kv_block_desc_t kvn562;
#endif
#if NSETS > 563
static kv_block_desc_t kvn563;
#endif
#if NSETS > 564
static kv_block_desc_t kvn564;
#endif
#if NSETS > 565
static kv_block_desc_t kvn565;
#endif
#if NSETS > 566
static kv_block_desc_t kvn566;
#endif
#if NSETS > 567
static kv_block_desc_t kvn567;
#endif
#if NSETS > 568
static kv_block_desc_t kvn568;
#endif
#if NSETS > 569
static kv_block_desc_t kvn569;
#endif
#if NSETS > 570
static kv_block_desc_t kvn570;
#endif
#if NSETS > 571
static kv_block_desc_t kvn571;
#endif
#if NSETS > 572
static kv_block_desc_t kvn572;
#endif
#if NSETS > 573
static kv_block_desc_t kvn573;
#endif
#if NSETS > 574
static kv_block_desc_t kvn574;
#endif
#if NSETS > 575
static kv_block_desc_t kvn575;
#endif
#if NSETS > 576
static kv_block_desc_t kvn576;
#endif
#if NSETS > 577
static kv_block_desc_t kvn577;
#endif
#if NSETS > 578
static kv_block_desc_t kvn578;
#endif
#if NSETS > 579
static kv_block_desc_t kvn579;
#endif
#if NSETS > 580
static kv_block_desc_t kvn580;
#endif
#if NSETS > 581
static kv_block_desc_t kvn581;
#endif
#if NSETS > 582
static kv_block_desc_t kvn582;
#endif
#if NSETS > 583
static kv_block_desc_t kvn583;
#endif
#if NSETS > 584
static kv_block_desc_t kvn584;
#endif
#if NSETS > 585
static kv_block_desc_t kvn585;
#endif
#if NSETS > 586
static kv_block_desc_t kvn586;
#endif
#if NSETS > 587
static kv_block_desc_t kvn587;
#endif
#if NSETS > 588
static kv_block_desc_t kvn588;
#endif
#if NSETS > 589
static kv_block_desc_t kvn589;
#endif
#if NSETS > 590
static kv_block_desc_t kvn590;
#endif
#if NSETS > 591
static kv_block_desc_t kvn591;
#endif
#if NSETS > 592
static kv_block_desc_t kvn592;
#endif
#if NSETS > 593
static kv_block_desc_t kvn593;
#endif
#if NSETS > 594
static kv_block_desc_t kvn594;
#endif
#if NSETS > 595
static kv_block_desc_t kvn595;
#endif
#if NSETS > 596
static kv_block_desc_t kvn596;
#endif
#if NSETS > 597
static kv_block_desc_t kvn597;
#endif
#if NSETS > 598
static kv_block_desc_t kvn598;
#endif
#if NSETS > 599
static kv_block_desc_t kvn599;
#endif
#if NSETS > 600
static kv_block_desc_t kvn600;
#endif
#if NSETS > 601
static kv_block_desc_t kvn601;
#endif
#if NSETS > 602
static kv_block_desc_t kvn602;
#endif
#if NSETS > 603
static kv_block_desc_t kvn603;
#endif
#if NSETS > 604
static kv_block_desc_t kvn604;
#endif
#if NSETS > 605
static kv_block_desc_t kvn605;
#endif
#if NSETS > 606
static kv_block_desc_t kvn606;
#endif
#if NSETS > 607
static kv_block_desc_t kvn607;
#endif
#if NSETS > 608
static kv_block_desc_t kvn608;
#endif
#if NSETS > 609
static kv_block_desc_t kvn609;
#endif
#if NSETS > 610
static kv_block_desc_t kvn610;
#endif
#if NSETS > 611
static kv_block_desc_t kvn611;
#endif
#if NSETS > 612
static kv_block_desc_t kvn612;
#endif
#if NSETS > 613
static kv_block_desc_t kvn613;
#endif
#if NSETS > 614
static kv_block_desc_t kvn614;
#endif
#if NSETS > 615
static kv_block_desc_t kvn615;
#endif
#if NSETS > 616
static kv_block_desc_t kvn616;
#endif
#if NSETS > 617
static kv_block_desc_t kvn617;
#endif
#if NSETS > 618
static kv_block_desc_t kvn618;
#endif
#if NSETS > 619
static kv_block_desc_t kvn619;
#endif
#if NSETS > 620
static kv_block_desc_t kvn620;
#endif
#if NSETS > 621
static kv_block_desc_t kvn621;
#endif
#if NSETS > 622
static kv_block_desc_t kvn622;
#endif
#if NSETS > 623
static kv_block_desc_t kvn623;
#endif
#if NSETS > 624
static kv_block_desc_t kvn624;
#endif
#if NSETS > 625
static kv_block_desc_t kvn625;
#endif
#if NSETS > 626
static kv_block_desc_t kvn626;
#endif
#if NSETS > 627
static kv_block_desc_t kvn627;
#endif
#if NSETS > 628
static kv_block_desc_t kvn628;
#endif
#if NSETS > 629
static kv_block_desc_t kvn629;
#endif
#if NSETS > 630
static kv_block_desc_t kvn630;
#endif
#if NSETS > 631
static kv_block_desc_t kvn631;
#endif
#if NSETS > 632
static kv_block_desc_t kvn632;
#endif
#if NSETS > 633
static kv_block_desc_t kvn633;
#endif
#if NSETS > 634
static kv_block_desc_t kvn634;
#endif
#if NSETS > 635
static kv_block_desc_t kvn635;
#endif
#if NSETS > 636
static kv_block_desc_t kvn636;
#endif
#if NSETS > 637
static kv_block_desc_t kvn637;
#endif
#if NSETS > 638
static kv_block_desc_t kvn638;
#endif
#if NSETS > 639
static kv_block_desc_t kvn639;
#endif
#if NSETS > 640
static kv_block_desc_t kvn640;
#endif
#if NSETS > 641
static kv_block_desc_t kvn641;
#endif
#if NSETS > 642
static kv_block_desc_t kvn642;
#endif
#if NSETS > 643
static kv_block_desc_t kvn643;
#endif
#if NSETS > 644
static kv_block_desc_t kvn644;
#endif
#if NSETS > 645
static kv_block_desc_t kvn645;
#endif
#if NSETS > 646
static kv_block_desc_t kvn646;
#endif
#if NSETS > 647
static kv_block_desc_t kvn647;
#endif
#if NSETS > 648
static kv_block_desc_t kvn648;
#endif
#if NSETS > 649
static kv_block_desc_t kvn649;
#endif
#if NSETS > 650
static kv_block_desc_t kvn650;
#endif
#if NSETS > 651
static kv_block_desc_t kvn651;
#endif
#if NSETS > 652
static kv_block_desc_t kvn652;
#endif
#if NSETS > 653
static kv_block_desc_t kvn653;
#endif
#if NSETS > 654
static kv_block_desc_t kvn654;
#endif
#if NSETS > 655
static kv_block_desc_t kvn655;
#endif
#if NSETS > 656
static kv_block_desc_t kvn656;
#endif
#if NSETS > 657
static kv_block_desc_t kvn657;
#endif
#if NSETS > 658
static kv_block_desc_t kvn658;
#endif
#if NSETS > 659
static kv_block_desc_t kvn659;
#endif
#if NSETS > 660
static kv_block_desc_t kvn660;
#endif
#if NSETS > 661
static kv_block_desc_t kvn661;
#endif
#if NSETS > 662
static kv_block_desc_t kvn662;
#endif
#if NSETS > 663
static kv_block_desc_t kvn663;
#endif
#if NSETS > 664
static kv_block_desc_t kvn664;
#endif
#if NSETS > 665
static kv_block_desc_t kvn665;
#endif
#if NSETS > 666
static kv_block_desc_t kvn666;
#endif
#if NSETS > 667
static kv_block_desc_t kvn667;
#endif
#if NSETS > 668
static kv_block_desc_t kvn668;
#endif
#if NSETS > 669
static kv_block_desc_t kvn669;
#endif
#if NSETS > 670
static kv_block_desc_t kvn670;
#endif
#if NSETS > 671
static kv_block_desc_t kvn671;
#endif
#if NSETS > 672
static kv_block_desc_t kvn672;
#endif
#if NSETS > 673
static kv_block_desc_t kvn673;
#endif
#if NSETS > 674
static kv_block_desc_t kvn674;
#endif
#if NSETS > 675
static kv_block_desc_t kvn675;
#endif
#if NSETS > 676
static kv_block_desc_t kvn676;
#endif
#if NSETS > 677
static kv_block_desc_t kvn677;
#endif
#if NSETS > 678
static kv_block_desc_t kvn678;
#endif
#if NSETS > 679
static kv_block_desc_t kvn679;
#endif
#if NSETS > 680
static kv_block_desc_t kvn680;
#endif
#if NSETS > 681
static kv_block_desc_t kvn681;
#endif
#if NSETS > 682
static kv_block_desc_t kvn682;
#endif
#if NSETS > 683
static kv_block_desc_t kvn683;
#endif
#if NSETS > 684
static kv_block_desc_t kvn684;
#endif
#if NSETS > 685
static kv_block_desc_t kvn685;
#endif
#if NSETS > 686
static kv_block_desc_t kvn686;
#endif
#if NSETS > 687
static kv_block_desc_t kvn687;
#endif
#if NSETS > 688
static kv_block_desc_t kvn688;
#endif
#if NSETS > 689
static kv_block_desc_t kvn689;
#endif
#if NSETS > 690
static kv_block_desc_t kvn690;
#endif
#if NSETS > 691
static kv_block_desc_t kvn691;
#endif
#if NSETS > 692
static kv_block_desc_t kvn692;
#endif
#if NSETS > 693
static kv_block_desc_t kvn693;
#endif
#if NSETS > 694
static kv_block_desc_t kvn694;
#endif
#if NSETS > 695
static kv_block_desc_t kvn695;
#endif
#if NSETS > 696
static kv_block_desc_t kvn696;
#endif
#if NSETS > 697
static kv_block_desc_t kvn697;
#endif
#if NSETS > 698
static kv_block_desc_t kvn698;
#endif
#if NSETS > 699
static kv_block_desc_t kvn699;
#endif
#if NSETS > 700
static kv_block_desc_t kvn700;
#endif
#if NSETS > 701
static kv_block_desc_t kvn701;
#endif
#if NSETS > 702
static kv_block_desc_t kvn702;
#endif
#if NSETS > 703
static kv_block_desc_t kvn703;
#endif
#if NSETS > 704
static kv_block_desc_t kvn704;
#endif
#if NSETS > 705
static kv_block_desc_t kvn705;
#endif
#if NSETS > 706
static kv_block_desc_t kvn706;
#endif
#if NSETS > 707
static kv_block_desc_t kvn707;
#endif
#if NSETS > 708
static kv_block_desc_t kvn708;
#endif
#if NSETS > 709
static kv_block_desc_t kvn709;
#endif
#if NSETS > 710
static kv_block_desc_t kvn710;
#endif
#if NSETS > 711
static kv_block_desc_t kvn711;
#endif
#if NSETS > 712
static kv_block_desc_t kvn712;
#endif
#if NSETS > 713
static kv_block_desc_t kvn713;
#endif
#if NSETS > 714
static kv_block_desc_t kvn714;
#endif
#if NSETS > 715
static kv_block_desc_t kvn715;
#endif
#if NSETS > 716
static kv_block_desc_t kvn716;
#endif
#if NSETS > 717
static kv_block_desc_t kvn717;
#endif
#if NSETS > 718
static kv_block_desc_t kvn718;
#endif
#if NSETS > 719
static kv_block_desc_t kvn719;
#endif
#if NSETS > 720
static kv_block_desc_t kvn720;
#endif
#if NSETS > 721
static kv_block_desc_t kvn721;
#endif
#if NSETS > 722
static kv_block_desc_t kvn722;
#endif
#if NSETS > 723
static kv_block_desc_t kvn723;
#endif
#if NSETS > 724
static kv_block_desc_t kvn724;
#endif
#if NSETS > 725
static kv_block_desc_t kvn725;
#endif
#if NSETS > 726
static kv_block_desc_t kvn726;
#endif
#if NSETS > 727
static kv_block_desc_t kvn727;
#endif
#if NSETS > 728
static kv_block_desc_t kvn728;
#endif
#if NSETS > 729
static kv_block_desc_t kvn729;
#endif
#if NSETS > 730
static kv_block_desc_t kvn730;
#endif
#if NSETS > 731
static kv_block_desc_t kvn731;
#endif
#if NSETS > 732
static kv_block_desc_t kvn732;
#endif
#if NSETS > 733
static kv_block_desc_t kvn733;
#endif
#if NSETS > 734
static kv_block_desc_t kvn734;
#endif
#if NSETS > 735
static kv_block_desc_t kvn735;
#endif
#if NSETS > 736
static kv_block_desc_t kvn736;
#endif
#if NSETS > 737
static kv_block_desc_t kvn737;
#endif
#if NSETS > 738
static kv_block_desc_t kvn738;
#endif
#if NSETS > 739
static kv_block_desc_t kvn739;
#endif
#if NSETS > 740
static kv_block_desc_t kvn740;
#endif
#if NSETS > 741
static kv_block_desc_t kvn741;
#endif
#if NSETS > 742
static kv_block_desc_t kvn742;
#endif
#if NSETS > 743
static kv_block_desc_t kvn743;
#endif
#if NSETS > 744
static kv_block_desc_t kvn744;
#endif
#if NSETS > 745
static kv_block_desc_t kvn745;
#endif
#if NSETS > 746
static kv_block_desc_t kvn746;
#endif
#if NSETS > 747
static kv_block_desc_t kvn747;
#endif
#if NSETS > 748
static kv_block_desc_t kvn748;
#endif
#if NSETS > 749
static kv_block_desc_t kvn749;
#endif
#if NSETS > 750
static kv_block_desc_t kvn750;
#endif
#if NSETS > 751
static kv_block_desc_t kvn751;
#endif
#if NSETS > 752
static kv_block_desc_t kvn752;
#endif
#if NSETS > 753
static kv_block_desc_t kvn753;
#endif
#if NSETS > 754
static kv_block_desc_t kvn754;
#endif
#if NSETS > 755
static kv_block_desc_t kvn755;
#endif
#if NSETS > 756
static kv_block_desc_t kvn756;
#endif
#if NSETS > 757
static kv_block_desc_t kvn757;
#endif
#if NSETS > 758
static kv_block_desc_t kvn758;
#endif
#if NSETS > 759
static kv_block_desc_t kvn759;
#endif
#if NSETS > 760
static kv_block_desc_t kvn760;
#endif
#if NSETS > 761
static kv_block_desc_t kvn761;
#endif
#if NSETS > 762
static kv_block_desc_t kvn762;
#endif
#if NSETS > 763
static kv_block_desc_t kvn763;
#endif
#if NSETS > 764
static kv_block_desc_t kvn764;
#endif
#if NSETS > 765
static kv_block_desc_t kvn765;
#endif
#if NSETS > 766
static kv_block_desc_t kvn766;
#endif
#if NSETS > 767
static kv_block_desc_t kvn767;
#endif
#if NSETS > 768
static kv_block_desc_t kvn768;
#endif
#if NSETS > 769
static kv_block_desc_t kvn769;
#endif
#if NSETS > 770
static kv_block_desc_t kvn770;
#endif
#if NSETS > 771
static kv_block_desc_t kvn771;
#endif
#if NSETS > 772
static kv_block_desc_t kvn772;
#endif
#if NSETS > 773
static kv_block_desc_t kvn773;
#endif
#if NSETS > 774
static kv_block_desc_t kvn774;
#endif
#if NSETS > 775
static kv_block_desc_t kvn775;
#endif
#if NSETS > 776
static kv_block_desc_t kvn776;
#endif
#if NSETS > 777
static kv_block_desc_t kvn777;
#endif
#if NSETS > 778
static kv_block_desc_t kvn778;
#endif
#if NSETS > 779
static kv_block_desc_t kvn779;
#endif
#if NSETS > 780
static kv_block_desc_t kvn780;
#endif
#if NSETS > 781
static kv_block_desc_t kvn781;
#endif
#if NSETS > 782
static kv_block_desc_t kvn782;
#endif
#if NSETS > 783
static kv_block_desc_t kvn783;
#endif
#if NSETS > 784
static kv_block_desc_t kvn784;
#endif
#if NSETS > 785
static kv_block_desc_t kvn785;
#endif
#if NSETS > 786
static kv_block_desc_t kvn786;
#endif
#if NSETS > 787
static kv_block_desc_t kvn787;
#endif
#if NSETS > 788
static kv_block_desc_t kvn788;
#endif
#if NSETS > 789
static kv_block_desc_t kvn789;
#endif
#if NSETS > 790
static kv_block_desc_t kvn790;
#endif
#if NSETS > 791
static kv_block_desc_t kvn791;
#endif
#if NSETS > 792
static kv_block_desc_t kvn792;
#endif
#if NSETS > 793
static kv_block_desc_t kvn793;
#endif
#if NSETS > 794
static kv_block_desc_t kvn794;
#endif
#if NSETS > 795
static kv_block_desc_t kvn795;
#endif
#if NSETS > 796
static kv_block_desc_t kvn796;
#endif
#if NSETS > 797
static kv_block_desc_t kvn797;
#endif
#if NSETS > 798
static kv_block_desc_t kvn798;
#endif
#if NSETS > 799
static kv_block_desc_t kvn799;
#endif
#if NSETS > 800
static kv_block_desc_t kvn800;
#endif
#if NSETS > 801
static kv_block_desc_t kvn801;
#endif
#if NSETS > 802
static kv_block_desc_t kvn802;
#endif
#if NSETS > 803
static kv_block_desc_t kvn803;
#endif
#if NSETS > 804
static kv_block_desc_t kvn804;
#endif
#if NSETS > 805
static kv_block_desc_t kvn805;
#endif
#if NSETS > 806
static kv_block_desc_t kvn806;
#endif
#if NSETS > 807
static kv_block_desc_t kvn807;
#endif
#if NSETS > 808
static kv_block_desc_t kvn808;
#endif
#if NSETS > 809
static kv_block_desc_t kvn809;
#endif
#if NSETS > 810
static kv_block_desc_t kvn810;
#endif
#if NSETS > 811
static kv_block_desc_t kvn811;
#endif
#if NSETS > 812
static kv_block_desc_t kvn812;
#endif
#if NSETS > 813
static kv_block_desc_t kvn813;
#endif
#if NSETS > 814
static kv_block_desc_t kvn814;
#endif
#if NSETS > 815
static kv_block_desc_t kvn815;
#endif
#if NSETS > 816
static kv_block_desc_t kvn816;
#endif
#if NSETS > 817
static kv_block_desc_t kvn817;
#endif
#if NSETS > 818
static kv_block_desc_t kvn818;
#endif
#if NSETS > 819
static kv_block_desc_t kvn819;
#endif
#if NSETS > 820
static kv_block_desc_t kvn820;
#endif
#if NSETS > 821
static kv_block_desc_t kvn821;
#endif
#if NSETS > 822
static kv_block_desc_t kvn822;
#endif
#if NSETS > 823
static kv_block_desc_t kvn823;
#endif
#if NSETS > 824
static kv_block_desc_t kvn824;
#endif
#if NSETS > 825
static kv_block_desc_t kvn825;
#endif
#if NSETS > 826
static kv_block_desc_t kvn826;
#endif
#if NSETS > 827
static kv_block_desc_t kvn827;
#endif
#if NSETS > 828
static kv_block_desc_t kvn828;
#endif
#if NSETS > 829
static kv_block_desc_t kvn829;
#endif
#if NSETS > 830
static kv_block_desc_t kvn830;
#endif
#if NSETS > 831
static kv_block_desc_t kvn831;
#endif
#if NSETS > 832
static kv_block_desc_t kvn832;
#endif
#if NSETS > 833
static kv_block_desc_t kvn833;
#endif
#if NSETS > 834
static kv_block_desc_t kvn834;
#endif
#if NSETS > 835
static kv_block_desc_t kvn835;
#endif
#if NSETS > 836
static kv_block_desc_t kvn836;
#endif
#if NSETS > 837
static kv_block_desc_t kvn837;
#endif
#if NSETS > 838
static kv_block_desc_t kvn838;
#endif
#if NSETS > 839
static kv_block_desc_t kvn839;
#endif
#if NSETS > 840
static kv_block_desc_t kvn840;
#endif
#if NSETS > 841
static kv_block_desc_t kvn841;
#endif
#if NSETS > 842
static kv_block_desc_t kvn842;
#endif
#if NSETS > 843
static kv_block_desc_t kvn843;
#endif
#if NSETS > 844
static kv_block_desc_t kvn844;
#endif
#if NSETS > 845
static kv_block_desc_t kvn845;
#endif
#if NSETS > 846
static kv_block_desc_t kvn846;
#endif
#if NSETS > 847
static kv_block_desc_t kvn847;
#endif
#if NSETS > 848
static kv_block_desc_t kvn848;
#endif
#if NSETS > 849
static kv_block_desc_t kvn849;
#endif
#if NSETS > 850
static kv_block_desc_t kvn850;
#endif
#if NSETS > 851
static kv_block_desc_t kvn851;
#endif
#if NSETS > 852
static kv_block_desc_t kvn852;
#endif
#if NSETS > 853
static kv_block_desc_t kvn853;
#endif
#if NSETS > 854
static kv_block_desc_t kvn854;
#endif
#if NSETS > 855
static kv_block_desc_t kvn855;
#endif
#if NSETS > 856
static kv_block_desc_t kvn856;
#endif
#if NSETS > 857
static kv_block_desc_t kvn857;
#endif
#if NSETS > 858
static kv_block_desc_t kvn858;
#endif
#if NSETS > 859
static kv_block_desc_t kvn859;
#endif
#if NSETS > 860
static kv_block_desc_t kvn860;
#endif
#if NSETS > 861
static kv_block_desc_t kvn861;
#endif
#if NSETS > 862
static kv_block_desc_t kvn862;
#endif
#if NSETS > 863
static kv_block_desc_t kvn863;
#endif
#if NSETS > 864
static kv_block_desc_t kvn864;
#endif
#if NSETS > 865
static kv_block_desc_t kvn865;
#endif
#if NSETS > 866
static kv_block_desc_t kvn866;
#endif
#if NSETS > 867
static kv_block_desc_t kvn867;
#endif
#if NSETS > 868
static kv_block_desc_t kvn868;
#endif
#if NSETS > 869
static kv_block_desc_t kvn869;
#endif
#if NSETS > 870
static kv_block_desc_t kvn870;
#endif
#if NSETS > 871
static kv_block_desc_t kvn871;
#endif
#if NSETS > 872
static kv_block_desc_t kvn872;
#endif
#if NSETS > 873
static kv_block_desc_t kvn873;
#endif
#if NSETS > 874
static kv_block_desc_t kvn874;
#endif
#if NSETS > 875
static kv_block_desc_t kvn875;
#endif
#if NSETS > 876
static kv_block_desc_t kvn876;
#endif
#if NSETS > 877
static kv_block_desc_t kvn877;
#endif
#if NSETS > 878
static kv_block_desc_t kvn878;
#endif
#if NSETS > 879
static kv_block_desc_t kvn879;
#endif
#if NSETS > 880
static kv_block_desc_t kvn880;
#endif
#if NSETS > 881
static kv_block_desc_t kvn881;
#endif
#if NSETS > 882
static kv_block_desc_t kvn882;
#endif
#if NSETS > 883
static kv_block_desc_t kvn883;
#endif
#if NSETS > 884
static kv_block_desc_t kvn884;
#endif
#if NSETS > 885
static kv_block_desc_t kvn885;
#endif
#if NSETS > 886
static kv_block_desc_t kvn886;
#endif
#if NSETS > 887
static kv_block_desc_t kvn887;
#endif
#if NSETS > 888
static kv_block_desc_t kvn888;
#endif
#if NSETS > 889
static kv_block_desc_t kvn889;
#endif
#if NSETS > 890
static kv_block_desc_t kvn890;
#endif
#if NSETS > 891
static kv_block_desc_t kvn891;
#endif
#if NSETS > 892
static kv_block_desc_t kvn892;
#endif
#if NSETS > 893
static kv_block_desc_t kvn893;
#endif
#if NSETS > 894
static kv_block_desc_t kvn894;
#endif
#if NSETS > 895
static kv_block_desc_t kvn895;
#endif
#if NSETS > 896
static kv_block_desc_t kvn896;
#endif
#if NSETS > 897
static kv_block_desc_t kvn897;
#endif
#if NSETS > 898
static kv_block_desc_t kvn898;
#endif
#if NSETS > 899
static kv_block_desc_t kvn899;
#endif
#if NSETS > 900
static kv_block_desc_t kvn900;
#endif
#if NSETS > 901
static kv_block_desc_t kvn901;
#endif
#if NSETS > 902
static kv_block_desc_t kvn902;
#endif
#if NSETS > 903
static kv_block_desc_t kvn903;
#endif
#if NSETS > 904
static kv_block_desc_t kvn904;
#endif
#if NSETS > 905
static kv_block_desc_t kvn905;
#endif
#if NSETS > 906
static kv_block_desc_t kvn906;
#endif
#if NSETS > 907
static kv_block_desc_t kvn907;
#endif
#if NSETS > 908
static kv_block_desc_t kvn908;
#endif
#if NSETS > 909
static kv_block_desc_t kvn909;
#endif
#if NSETS > 910
static kv_block_desc_t kvn910;
#endif
#if NSETS > 911
static kv_block_desc_t kvn911;
#endif
#if NSETS > 912
static kv_block_desc_t kvn912;
#endif
#if NSETS > 913
static kv_block_desc_t kvn913;
#endif
#if NSETS > 914
static kv_block_desc_t kvn914;
#endif
#if NSETS > 915
static kv_block_desc_t kvn915;
#endif
#if NSETS > 916
static kv_block_desc_t kvn916;
#endif
#if NSETS > 917
static kv_block_desc_t kvn917;
#endif
#if NSETS > 918
static kv_block_desc_t kvn918;
#endif
#if NSETS > 919
static kv_block_desc_t kvn919;
#endif
#if NSETS > 920
static kv_block_desc_t kvn920;
#endif
#if NSETS > 921
static kv_block_desc_t kvn921;
#endif
#if NSETS > 922
static kv_block_desc_t kvn922;
#endif
#if NSETS > 923
static kv_block_desc_t kvn923;
#endif
#if NSETS > 924
static kv_block_desc_t kvn924;
#endif
#if NSETS > 925
static kv_block_desc_t kvn925;
#endif
#if NSETS > 926
static kv_block_desc_t kvn926;
#endif
#if NSETS > 927
static kv_block_desc_t kvn927;
#endif
#if NSETS > 928
static kv_block_desc_t kvn928;
#endif
#if NSETS > 929
static kv_block_desc_t kvn929;
#endif
#if NSETS > 930
static kv_block_desc_t kvn930;
#endif
#if NSETS > 931
static kv_block_desc_t kvn931;
#endif
#if NSETS > 932
static kv_block_desc_t kvn932;
#endif
#if NSETS > 933
static kv_block_desc_t kvn933;
#endif
#if NSETS > 934
static kv_block_desc_t kvn934;
#endif
#if NSETS > 935
static kv_block_desc_t kvn935;
#endif
#if NSETS > 936
static kv_block_desc_t kvn936;
#endif
#if NSETS > 937
static kv_block_desc_t kvn937;
#endif
#if NSETS > 938
static kv_block_desc_t kvn938;
#endif
#if NSETS > 939
static kv_block_desc_t kvn939;
#endif
#if NSETS > 940
static kv_block_desc_t kvn940;
#endif
#if NSETS > 941
static kv_block_desc_t kvn941;
#endif
#if NSETS > 942
static kv_block_desc_t kvn942;
#endif
#if NSETS > 943
static kv_block_desc_t kvn943;
#endif
#if NSETS > 944
static kv_block_desc_t kvn944;
#endif
#if NSETS > 945
static kv_block_desc_t kvn945;
#endif
#if NSETS > 946
static kv_block_desc_t kvn946;
#endif
#if NSETS > 947
static kv_block_desc_t kvn947;
#endif
#if NSETS > 948
static kv_block_desc_t kvn948;
#endif
#if NSETS > 949
static kv_block_desc_t kvn949;
#endif
#if NSETS > 950
static kv_block_desc_t kvn950;
#endif
#if NSETS > 951
static kv_block_desc_t kvn951;
#endif
#if NSETS > 952
static kv_block_desc_t kvn952;
#endif
#if NSETS > 953
static kv_block_desc_t kvn953;
#endif
#if NSETS > 954
static kv_block_desc_t kvn954;
#endif
#if NSETS > 955
static kv_block_desc_t kvn955;
#endif
#if NSETS > 956
static kv_block_desc_t kvn956;
#endif
#if NSETS > 957
static kv_block_desc_t kvn957;
#endif
#if NSETS > 958
static kv_block_desc_t kvn958;
#endif
#if NSETS > 959
static kv_block_desc_t kvn959;
#endif
#if NSETS > 960
static kv_block_desc_t kvn960;
#endif
#if NSETS > 961
static kv_block_desc_t kvn961;
#endif
#if NSETS > 962
static kv_block_desc_t kvn962;
#endif
#if NSETS > 963
static kv_block_desc_t kvn963;
#endif
#if NSETS > 964
static kv_block_desc_t kvn964;
#endif
#if NSETS > 965
static kv_block_desc_t kvn965;
#endif
#if NSETS > 966
static kv_block_desc_t kvn966;
#endif
#if NSETS > 967
static kv_block_desc_t kvn967;
#endif
#if NSETS > 968
static kv_block_desc_t kvn968;
#endif
#if NSETS > 969
static kv_block_desc_t kvn969;
#endif
#if NSETS > 970
static kv_block_desc_t kvn970;
#endif
#if NSETS > 971
static kv_block_desc_t kvn971;
#endif
#if NSETS > 972
static kv_block_desc_t kvn972;
#endif
#if NSETS > 973
static kv_block_desc_t kvn973;
#endif
#if NSETS > 974
static kv_block_desc_t kvn974;
#endif
#if NSETS > 975
static kv_block_desc_t kvn975;
#endif
#if NSETS > 976
static kv_block_desc_t kvn976;
#endif
#if NSETS > 977
static kv_block_desc_t kvn977;
#endif
#if NSETS > 978
static kv_block_desc_t kvn978;
#endif
#if NSETS > 979
static kv_block_desc_t kvn979;
#endif
#if NSETS > 980
static kv_block_desc_t kvn980;
#endif
#if NSETS > 981
static kv_block_desc_t kvn981;
#endif
#if NSETS > 982
static kv_block_desc_t kvn982;
#endif
#if NSETS > 983
static kv_block_desc_t kvn983;
#endif
#if NSETS > 984
static kv_block_desc_t kvn984;
#endif
#if NSETS > 985
static kv_block_desc_t kvn985;
#endif
#if NSETS > 986
static kv_block_desc_t kvn986;
#endif
#if NSETS > 987
static kv_block_desc_t kvn987;
#endif
#if NSETS > 988
static kv_block_desc_t kvn988;
#endif
#if NSETS > 989
static kv_block_desc_t kvn989;
#endif
#if NSETS > 990
static kv_block_desc_t kvn990;
#endif
#if NSETS > 991
static kv_block_desc_t kvn991;
#endif
#if NSETS > 992
static kv_block_desc_t kvn992;
#endif
#if NSETS > 993
static kv_block_desc_t kvn993;
#endif
#if NSETS > 994
static kv_block_desc_t kvn994;
#endif
#if NSETS > 995
static kv_block_desc_t kvn995;
#endif
#if NSETS > 996
static kv_block_desc_t kvn996;
#endif
#if NSETS > 997
static kv_block_desc_t kvn997;
#endif
#if NSETS > 998
static kv_block_desc_t kvn998;
#endif
#if NSETS > 999
static kv_block_desc_t kvn999;
#endif
#if NSETS > 1000
static kv_block_desc_t kvn1000;
#endif
#if NSETS > 1001
static kv_block_desc_t kvn1001;
#endif
#if NSETS > 1002
static kv_block_desc_t kvn1002;
#endif
#if NSETS > 1003
static kv_block_desc_t kvn1003;
#endif
#if NSETS > 1004
static kv_block_desc_t kvn1004;
#endif
#if NSETS > 1005
static kv_block_desc_t kvn1005;
#endif
#if NSETS > 1006
static kv_block_desc_t kvn1006;
#endif
#if NSETS > 1007
static kv_block_desc_t kvn1007;
#endif
#if NSETS > 1008
static kv_block_desc_t kvn1008;
#endif
#if NSETS > 1009
static kv_block_desc_t kvn1009;
#endif
#if NSETS > 1010
static kv_block_desc_t kvn1010;
#endif
#if NSETS > 1011
static kv_block_desc_t kvn1011;
#endif
#if NSETS > 1012
static kv_block_desc_t kvn1012;
#endif
#if NSETS > 1013
static kv_block_desc_t kvn1013;
#endif
#if NSETS > 1014
static kv_block_desc_t kvn1014;
#endif
#if NSETS > 1015
static kv_block_desc_t kvn1015;
#endif
#if NSETS > 1016
static kv_block_desc_t kvn1016;
#endif
#if NSETS > 1017
static kv_block_desc_t kvn1017;
#endif
#if NSETS > 1018
static kv_block_desc_t kvn1018;
#endif
#if NSETS > 1019
static kv_block_desc_t kvn1019;
#endif
#if NSETS > 1020
static kv_block_desc_t kvn1020;
#endif
#if NSETS > 1021
static kv_block_desc_t kvn1021;
#endif
#if NSETS > 1022
static kv_block_desc_t kvn1022;
#endif
#if NSETS > 1023
static kv_block_desc_t kvn1023;
#endif
#if NSETS > 1024
static kv_block_desc_t kvn1024;
#endif
static kv_block_desc_t *const g_kvp[NSETS] = {
#if NSETS > 0
&kvn0,
#endif
#if NSETS > 1
&kvn1,
#endif
#if NSETS > 2
&kvn2,
#endif
#if NSETS > 3
&kvn3,
#endif
#if NSETS > 4
&kvn4,
#endif
#if NSETS > 5
&kvn5,
#endif
#if NSETS > 6
&kvn6,
#endif
#if NSETS > 7
&kvn7,
#endif
#if NSETS > 8
&kvn8,
#endif
#if NSETS > 9
&kvn9,
#endif
#if NSETS > 10
&kvn10,
#endif
#if NSETS > 11
&kvn11,
#endif
#if NSETS > 12
&kvn12,
#endif
#if NSETS > 13
&kvn13,
#endif
#if NSETS > 14
&kvn14,
#endif
#if NSETS > 15
&kvn15,
#endif
#if NSETS > 16
&kvn16,
#endif
#if NSETS > 17
&kvn17,
#endif
#if NSETS > 18
&kvn18,
#endif
#if NSETS > 19
&kvn19,
#endif
#if NSETS > 20
&kvn20,
#endif
#if NSETS > 21
&kvn21,
#endif
#if NSETS > 22
&kvn22,
#endif
#if NSETS > 23
&kvn23,
#endif
#if NSETS > 24
&kvn24,
#endif
#if NSETS > 25
&kvn25,
#endif
#if NSETS > 26
&kvn26,
#endif
#if NSETS > 27
&kvn27,
#endif
#if NSETS > 28
&kvn28,
#endif
#if NSETS > 29
&kvn29,
#endif
#if NSETS > 30
&kvn30,
#endif
#if NSETS > 31
&kvn31,
#endif
#if NSETS > 32
&kvn32,
#endif
#if NSETS > 33
&kvn33,
#endif
#if NSETS > 34
&kvn34,
#endif
#if NSETS > 35
&kvn35,
#endif
#if NSETS > 36
&kvn36,
#endif
#if NSETS > 37
&kvn37,
#endif
#if NSETS > 38
&kvn38,
#endif
#if NSETS > 39
&kvn39,
#endif
#if NSETS > 40
&kvn40,
#endif
#if NSETS > 41
&kvn41,
#endif
#if NSETS > 42
&kvn42,
#endif
#if NSETS > 43
&kvn43,
#endif
#if NSETS > 44
&kvn44,
#endif
#if NSETS > 45
&kvn45,
#endif
#if NSETS > 46
&kvn46,
#endif
#if NSETS > 47
&kvn47,
#endif
#if NSETS > 48
&kvn48,
#endif
#if NSETS > 49
&kvn49,
#endif
#if NSETS > 50
&kvn50,
#endif
#if NSETS > 51
&kvn51,
#endif
#if NSETS > 52
&kvn52,
#endif
#if NSETS > 53
&kvn53,
#endif
#if NSETS > 54
&kvn54,
#endif
#if NSETS > 55
&kvn55,
#endif
#if NSETS > 56
&kvn56,
#endif
#if NSETS > 57
&kvn57,
#endif
#if NSETS > 58
&kvn58,
#endif
#if NSETS > 59
&kvn59,
#endif
#if NSETS > 60
&kvn60,
#endif
#if NSETS > 61
&kvn61,
#endif
#if NSETS > 62
&kvn62,
#endif
#if NSETS > 63
&kvn63,
#endif
#if NSETS > 64
&kvn64,
#endif
#if NSETS > 65
&kvn65,
#endif
#if NSETS > 66
&kvn66,
#endif
#if NSETS > 67
&kvn67,
#endif
#if NSETS > 68
&kvn68,
#endif
#if NSETS > 69
&kvn69,
#endif
#if NSETS > 70
&kvn70,
#endif
#if NSETS > 71
&kvn71,
#endif
#if NSETS > 72
&kvn72,
#endif
#if NSETS > 73
&kvn73,
#endif
#if NSETS > 74
&kvn74,
#endif
#if NSETS > 75
&kvn75,
#endif
#if NSETS > 76
&kvn76,
#endif
#if NSETS > 77
&kvn77,
#endif
#if NSETS > 78
&kvn78,
#endif
#if NSETS > 79
&kvn79,
#endif
#if NSETS > 80
&kvn80,
#endif
#if NSETS > 81
&kvn81,
#endif
#if NSETS > 82
&kvn82,
#endif
#if NSETS > 83
&kvn83,
#endif
#if NSETS > 84
&kvn84,
#endif
#if NSETS > 85
&kvn85,
#endif
#if NSETS > 86
&kvn86,
#endif
#if NSETS > 87
&kvn87,
#endif
#if NSETS > 88
&kvn88,
#endif
#if NSETS > 89
&kvn89,
#endif
#if NSETS > 90
&kvn90,
#endif
#if NSETS > 91
&kvn91,
#endif
#if NSETS > 92
&kvn92,
#endif
#if NSETS > 93
&kvn93,
#endif
#if NSETS > 94
&kvn94,
#endif
#if NSETS > 95
&kvn95,
#endif
#if NSETS > 96
&kvn96,
#endif
#if NSETS > 97
&kvn97,
#endif
#if NSETS > 98
&kvn98,
#endif
#if NSETS > 99
&kvn99,
#endif
#if NSETS > 100
&kvn100,
#endif
#if NSETS > 101
&kvn101,
#endif
#if NSETS > 102
&kvn102,
#endif
#if NSETS > 103
&kvn103,
#endif
#if NSETS > 104
&kvn104,
#endif
#if NSETS > 105
&kvn105,
#endif
#if NSETS > 106
&kvn106,
#endif
#if NSETS > 107
&kvn107,
#endif
#if NSETS > 108
&kvn108,
#endif
#if NSETS > 109
&kvn109,
#endif
#if NSETS > 110
&kvn110,
#endif
#if NSETS > 111
&kvn111,
#endif
#if NSETS > 112
&kvn112,
#endif
#if NSETS > 113
&kvn113,
#endif
#if NSETS > 114
&kvn114,
#endif
#if NSETS > 115
&kvn115,
#endif
#if NSETS > 116
&kvn116,
#endif
#if NSETS > 117
&kvn117,
#endif
#if NSETS > 118
&kvn118,
#endif
#if NSETS > 119
&kvn119,
#endif
#if NSETS > 120
&kvn120,
#endif
#if NSETS > 121
&kvn121,
#endif
#if NSETS > 122
&kvn122,
#endif
#if NSETS > 123
&kvn123,
#endif
#if NSETS > 124
&kvn124,
#endif
#if NSETS > 125
&kvn125,
#endif
#if NSETS > 126
&kvn126,
#endif
#if NSETS > 127
&kvn127,
#endif
#if NSETS > 128
&kvn128,
#endif
#if NSETS > 129
&kvn129,
#endif
#if NSETS > 130
&kvn130,
#endif
#if NSETS > 131
&kvn131,
#endif
#if NSETS > 132
&kvn132,
#endif
#if NSETS > 133
&kvn133,
#endif
#if NSETS > 134
&kvn134,
#endif
#if NSETS > 135
&kvn135,
#endif
#if NSETS > 136
&kvn136,
#endif
#if NSETS > 137
&kvn137,
#endif
#if NSETS > 138
&kvn138,
#endif
#if NSETS > 139
&kvn139,
#endif
#if NSETS > 140
&kvn140,
#endif
#if NSETS > 141
&kvn141,
#endif
#if NSETS > 142
&kvn142,
#endif
#if NSETS > 143
&kvn143,
#endif
#if NSETS > 144
&kvn144,
#endif
#if NSETS > 145
&kvn145,
#endif
#if NSETS > 146
&kvn146,
#endif
#if NSETS > 147
&kvn147,
#endif
#if NSETS > 148
&kvn148,
#endif
#if NSETS > 149
&kvn149,
#endif
#if NSETS > 150
&kvn150,
#endif
#if NSETS > 151
&kvn151,
#endif
#if NSETS > 152
&kvn152,
#endif
#if NSETS > 153
&kvn153,
#endif
#if NSETS > 154
&kvn154,
#endif
#if NSETS > 155
&kvn155,
#endif
#if NSETS > 156
&kvn156,
#endif
#if NSETS > 157
&kvn157,
#endif
#if NSETS > 158
&kvn158,
#endif
#if NSETS > 159
&kvn159,
#endif
#if NSETS > 160
&kvn160,
#endif
#if NSETS > 161
&kvn161,
#endif
#if NSETS > 162
&kvn162,
#endif
#if NSETS > 163
&kvn163,
#endif
#if NSETS > 164
&kvn164,
#endif
#if NSETS > 165
&kvn165,
#endif
#if NSETS > 166
&kvn166,
#endif
#if NSETS > 167
&kvn167,
#endif
#if NSETS > 168
&kvn168,
#endif
#if NSETS > 169
&kvn169,
#endif
#if NSETS > 170
&kvn170,
#endif
#if NSETS > 171
&kvn171,
#endif
#if NSETS > 172
&kvn172,
#endif
#if NSETS > 173
&kvn173,
#endif
#if NSETS > 174
&kvn174,
#endif
#if NSETS > 175
&kvn175,
#endif
#if NSETS > 176
&kvn176,
#endif
#if NSETS > 177
&kvn177,
#endif
#if NSETS > 178
&kvn178,
#endif
#if NSETS > 179
&kvn179,
#endif
#if NSETS > 180
&kvn180,
#endif
#if NSETS > 181
&kvn181,
#endif
#if NSETS > 182
&kvn182,
#endif
#if NSETS > 183
&kvn183,
#endif
#if NSETS > 184
&kvn184,
#endif
#if NSETS > 185
&kvn185,
#endif
#if NSETS > 186
&kvn186,
#endif
#if NSETS > 187
&kvn187,
#endif
#if NSETS > 188
&kvn188,
#endif
#if NSETS > 189
&kvn189,
#endif
#if NSETS > 190
&kvn190,
#endif
#if NSETS > 191
&kvn191,
#endif
#if NSETS > 192
&kvn192,
#endif
#if NSETS > 193
&kvn193,
#endif
#if NSETS > 194
&kvn194,
#endif
#if NSETS > 195
&kvn195,
#endif
#if NSETS > 196
&kvn196,
#endif
#if NSETS > 197
&kvn197,
#endif
#if NSETS > 198
&kvn198,
#endif
#if NSETS > 199
&kvn199,
#endif
#if NSETS > 200
&kvn200,
#endif
#if NSETS > 201
&kvn201,
#endif
#if NSETS > 202
&kvn202,
#endif
#if NSETS > 203
&kvn203,
#endif
#if NSETS > 204
&kvn204,
#endif
#if NSETS > 205
&kvn205,
#endif
#if NSETS > 206
&kvn206,
#endif
#if NSETS > 207
&kvn207,
#endif
#if NSETS > 208
&kvn208,
#endif
#if NSETS > 209
&kvn209,
#endif
#if NSETS > 210
&kvn210,
#endif
#if NSETS > 211
&kvn211,
#endif
#if NSETS > 212
&kvn212,
#endif
#if NSETS > 213
&kvn213,
#endif
#if NSETS > 214
&kvn214,
#endif
#if NSETS > 215
&kvn215,
#endif
#if NSETS > 216
&kvn216,
#endif
#if NSETS > 217
&kvn217,
#endif
#if NSETS > 218
&kvn218,
#endif
#if NSETS > 219
&kvn219,
#endif
#if NSETS > 220
&kvn220,
#endif
#if NSETS > 221
&kvn221,
#endif
#if NSETS > 222
&kvn222,
#endif
#if NSETS > 223
&kvn223,
#endif
#if NSETS > 224
&kvn224,
#endif
#if NSETS > 225
&kvn225,
#endif
#if NSETS > 226
&kvn226,
#endif
#if NSETS > 227
&kvn227,
#endif
#if NSETS > 228
&kvn228,
#endif
#if NSETS > 229
&kvn229,
#endif
#if NSETS > 230
&kvn230,
#endif
#if NSETS > 231
&kvn231,
#endif
#if NSETS > 232
&kvn232,
#endif
#if NSETS > 233
&kvn233,
#endif
#if NSETS > 234
&kvn234,
#endif
#if NSETS > 235
&kvn235,
#endif
#if NSETS > 236
&kvn236,
#endif
#if NSETS > 237
&kvn237,
#endif
#if NSETS > 238
&kvn238,
#endif
#if NSETS > 239
&kvn239,
#endif
#if NSETS > 240
&kvn240,
#endif
#if NSETS > 241
&kvn241,
#endif
#if NSETS > 242
&kvn242,
#endif
#if NSETS > 243
&kvn243,
#endif
#if NSETS > 244
&kvn244,
#endif
#if NSETS > 245
&kvn245,
#endif
#if NSETS > 246
&kvn246,
#endif
#if NSETS > 247
&kvn247,
#endif
#if NSETS > 248
&kvn248,
#endif
#if NSETS > 249
&kvn249,
#endif
#if NSETS > 250
&kvn250,
#endif
#if NSETS > 251
&kvn251,
#endif
#if NSETS > 252
&kvn252,
#endif
#if NSETS > 253
&kvn253,
#endif
#if NSETS > 254
&kvn254,
#endif
#if NSETS > 255
&kvn255,
#endif
#if NSETS > 256
&kvn256,
#endif
#if NSETS > 257
&kvn257,
#endif
#if NSETS > 258
&kvn258,
#endif
#if NSETS > 259
&kvn259,
#endif
#if NSETS > 260
&kvn260,
#endif
#if NSETS > 261
&kvn261,
#endif
#if NSETS > 262
&kvn262,
#endif
#if NSETS > 263
&kvn263,
#endif
#if NSETS > 264
&kvn264,
#endif
#if NSETS > 265
&kvn265,
#endif
#if NSETS > 266
&kvn266,
#endif
#if NSETS > 267
&kvn267,
#endif
#if NSETS > 268
&kvn268,
#endif
#if NSETS > 269
&kvn269,
#endif
#if NSETS > 270
&kvn270,
#endif
#if NSETS > 271
&kvn271,
#endif
#if NSETS > 272
&kvn272,
#endif
#if NSETS > 273
&kvn273,
#endif
#if NSETS > 274
&kvn274,
#endif
#if NSETS > 275
&kvn275,
#endif
#if NSETS > 276
&kvn276,
#endif
#if NSETS > 277
&kvn277,
#endif
#if NSETS > 278
&kvn278,
#endif
#if NSETS > 279
&kvn279,
#endif
#if NSETS > 280
&kvn280,
#endif
#if NSETS > 281
&kvn281,
#endif
#if NSETS > 282
&kvn282,
#endif
#if NSETS > 283
&kvn283,
#endif
#if NSETS > 284
&kvn284,
#endif
#if NSETS > 285
&kvn285,
#endif
#if NSETS > 286
&kvn286,
#endif
#if NSETS > 287
&kvn287,
#endif
#if NSETS > 288
&kvn288,
#endif
#if NSETS > 289
&kvn289,
#endif
#if NSETS > 290
&kvn290,
#endif
#if NSETS > 291
&kvn291,
#endif
#if NSETS > 292
&kvn292,
#endif
#if NSETS > 293
&kvn293,
#endif
#if NSETS > 294
&kvn294,
#endif
#if NSETS > 295
&kvn295,
#endif
#if NSETS > 296
&kvn296,
#endif
#if NSETS > 297
&kvn297,
#endif
#if NSETS > 298
&kvn298,
#endif
#if NSETS > 299
&kvn299,
#endif
#if NSETS > 300
&kvn300,
#endif
#if NSETS > 301
&kvn301,
#endif
#if NSETS > 302
&kvn302,
#endif
#if NSETS > 303
&kvn303,
#endif
#if NSETS > 304
&kvn304,
#endif
#if NSETS > 305
&kvn305,
#endif
#if NSETS > 306
&kvn306,
#endif
#if NSETS > 307
&kvn307,
#endif
#if NSETS > 308
&kvn308,
#endif
#if NSETS > 309
&kvn309,
#endif
#if NSETS > 310
&kvn310,
#endif
#if NSETS > 311
&kvn311,
#endif
#if NSETS > 312
&kvn312,
#endif
#if NSETS > 313
&kvn313,
#endif
#if NSETS > 314
&kvn314,
#endif
#if NSETS > 315
&kvn315,
#endif
#if NSETS > 316
&kvn316,
#endif
#if NSETS > 317
&kvn317,
#endif
#if NSETS > 318
&kvn318,
#endif
#if NSETS > 319
&kvn319,
#endif
#if NSETS > 320
&kvn320,
#endif
#if NSETS > 321
&kvn321,
#endif
#if NSETS > 322
&kvn322,
#endif
#if NSETS > 323
&kvn323,
#endif
#if NSETS > 324
&kvn324,
#endif
#if NSETS > 325
&kvn325,
#endif
#if NSETS > 326
&kvn326,
#endif
#if NSETS > 327
&kvn327,
#endif
#if NSETS > 328
&kvn328,
#endif
#if NSETS > 329
&kvn329,
#endif
#if NSETS > 330
&kvn330,
#endif
#if NSETS > 331
&kvn331,
#endif
#if NSETS > 332
&kvn332,
#endif
#if NSETS > 333
&kvn333,
#endif
#if NSETS > 334
&kvn334,
#endif
#if NSETS > 335
&kvn335,
#endif
#if NSETS > 336
&kvn336,
#endif
#if NSETS > 337
&kvn337,
#endif
#if NSETS > 338
&kvn338,
#endif
#if NSETS > 339
&kvn339,
#endif
#if NSETS > 340
&kvn340,
#endif
#if NSETS > 341
&kvn341,
#endif
#if NSETS > 342
&kvn342,
#endif
#if NSETS > 343
&kvn343,
#endif
#if NSETS > 344
&kvn344,
#endif
#if NSETS > 345
&kvn345,
#endif
#if NSETS > 346
&kvn346,
#endif
#if NSETS > 347
&kvn347,
#endif
#if NSETS > 348
&kvn348,
#endif
#if NSETS > 349
&kvn349,
#endif
#if NSETS > 350
&kvn350,
#endif
#if NSETS > 351
&kvn351,
#endif
#if NSETS > 352
&kvn352,
#endif
#if NSETS > 353
&kvn353,
#endif
#if NSETS > 354
&kvn354,
#endif
#if NSETS > 355
&kvn355,
#endif
#if NSETS > 356
&kvn356,
#endif
#if NSETS > 357
&kvn357,
#endif
#if NSETS > 358
&kvn358,
#endif
#if NSETS > 359
&kvn359,
#endif
#if NSETS > 360
&kvn360,
#endif
#if NSETS > 361
&kvn361,
#endif
#if NSETS > 362
&kvn362,
#endif
#if NSETS > 363
&kvn363,
#endif
#if NSETS > 364
&kvn364,
#endif
#if NSETS > 365
&kvn365,
#endif
#if NSETS > 366
&kvn366,
#endif
#if NSETS > 367
&kvn367,
#endif
#if NSETS > 368
&kvn368,
#endif
#if NSETS > 369
&kvn369,
#endif
#if NSETS > 370
&kvn370,
#endif
#if NSETS > 371
&kvn371,
#endif
#if NSETS > 372
&kvn372,
#endif
#if NSETS > 373
&kvn373,
#endif
#if NSETS > 374
&kvn374,
#endif
#if NSETS > 375
&kvn375,
#endif
#if NSETS > 376
&kvn376,
#endif
#if NSETS > 377
&kvn377,
#endif
#if NSETS > 378
&kvn378,
#endif
#if NSETS > 379
&kvn379,
#endif
#if NSETS > 380
&kvn380,
#endif
#if NSETS > 381
&kvn381,
#endif
#if NSETS > 382
&kvn382,
#endif
#if NSETS > 383
&kvn383,
#endif
#if NSETS > 384
&kvn384,
#endif
#if NSETS > 385
&kvn385,
#endif
#if NSETS > 386
&kvn386,
#endif
#if NSETS > 387
&kvn387,
#endif
#if NSETS > 388
&kvn388,
#endif
#if NSETS > 389
&kvn389,
#endif
#if NSETS > 390
&kvn390,
#endif
#if NSETS > 391
&kvn391,
#endif
#if NSETS > 392
&kvn392,
#endif
#if NSETS > 393
&kvn393,
#endif
#if NSETS > 394
&kvn394,
#endif
#if NSETS > 395
&kvn395,
#endif
#if NSETS > 396
&kvn396,
#endif
#if NSETS > 397
&kvn397,
#endif
#if NSETS > 398
&kvn398,
#endif
#if NSETS > 399
&kvn399,
#endif
#if NSETS > 400
&kvn400,
#endif
#if NSETS > 401
&kvn401,
#endif
#if NSETS > 402
&kvn402,
#endif
#if NSETS > 403
&kvn403,
#endif
#if NSETS > 404
&kvn404,
#endif
#if NSETS > 405
&kvn405,
#endif
#if NSETS > 406
&kvn406,
#endif
#if NSETS > 407
&kvn407,
#endif
#if NSETS > 408
&kvn408,
#endif
#if NSETS > 409
&kvn409,
#endif
#if NSETS > 410
&kvn410,
#endif
#if NSETS > 411
&kvn411,
#endif
#if NSETS > 412
&kvn412,
#endif
#if NSETS > 413
&kvn413,
#endif
#if NSETS > 414
&kvn414,
#endif
#if NSETS > 415
&kvn415,
#endif
#if NSETS > 416
&kvn416,
#endif
#if NSETS > 417
&kvn417,
#endif
#if NSETS > 418
&kvn418,
#endif
#if NSETS > 419
&kvn419,
#endif
#if NSETS > 420
&kvn420,
#endif
#if NSETS > 421
&kvn421,
#endif
#if NSETS > 422
&kvn422,
#endif
#if NSETS > 423
&kvn423,
#endif
#if NSETS > 424
&kvn424,
#endif
#if NSETS > 425
&kvn425,
#endif
#if NSETS > 426
&kvn426,
#endif
#if NSETS > 427
&kvn427,
#endif
#if NSETS > 428
&kvn428,
#endif
#if NSETS > 429
&kvn429,
#endif
#if NSETS > 430
&kvn430,
#endif
#if NSETS > 431
&kvn431,
#endif
#if NSETS > 432
&kvn432,
#endif
#if NSETS > 433
&kvn433,
#endif
#if NSETS > 434
&kvn434,
#endif
#if NSETS > 435
&kvn435,
#endif
#if NSETS > 436
&kvn436,
#endif
#if NSETS > 437
&kvn437,
#endif
#if NSETS > 438
&kvn438,
#endif
#if NSETS > 439
&kvn439,
#endif
#if NSETS > 440
&kvn440,
#endif
#if NSETS > 441
&kvn441,
#endif
#if NSETS > 442
&kvn442,
#endif
#if NSETS > 443
&kvn443,
#endif
#if NSETS > 444
&kvn444,
#endif
#if NSETS > 445
&kvn445,
#endif
#if NSETS > 446
&kvn446,
#endif
#if NSETS > 447
&kvn447,
#endif
#if NSETS > 448
&kvn448,
#endif
#if NSETS > 449
&kvn449,
#endif
#if NSETS > 450
&kvn450,
#endif
#if NSETS > 451
&kvn451,
#endif
#if NSETS > 452
&kvn452,
#endif
#if NSETS > 453
&kvn453,
#endif
#if NSETS > 454
&kvn454,
#endif
#if NSETS > 455
&kvn455,
#endif
#if NSETS > 456
&kvn456,
#endif
#if NSETS > 457
&kvn457,
#endif
#if NSETS > 458
&kvn458,
#endif
#if NSETS > 459
&kvn459,
#endif
#if NSETS > 460
&kvn460,
#endif
#if NSETS > 461
&kvn461,
#endif
#if NSETS > 462
&kvn462,
#endif
#if NSETS > 463
&kvn463,
#endif
#if NSETS > 464
&kvn464,
#endif
#if NSETS > 465
&kvn465,
#endif
#if NSETS > 466
&kvn466,
#endif
#if NSETS > 467
&kvn467,
#endif
#if NSETS > 468
&kvn468,
#endif
#if NSETS > 469
&kvn469,
#endif
#if NSETS > 470
&kvn470,
#endif
#if NSETS > 471
&kvn471,
#endif
#if NSETS > 472
&kvn472,
#endif
#if NSETS > 473
&kvn473,
#endif
#if NSETS > 474
&kvn474,
#endif
#if NSETS > 475
&kvn475,
#endif
#if NSETS > 476
&kvn476,
#endif
#if NSETS > 477
&kvn477,
#endif
#if NSETS > 478
&kvn478,
#endif
#if NSETS > 479
&kvn479,
#endif
#if NSETS > 480
&kvn480,
#endif
#if NSETS > 481
&kvn481,
#endif
#if NSETS > 482
&kvn482,
#endif
#if NSETS > 483
&kvn483,
#endif
#if NSETS > 484
&kvn484,
#endif
#if NSETS > 485
&kvn485,
#endif
#if NSETS > 486
&kvn486,
#endif
#if NSETS > 487
&kvn487,
#endif
#if NSETS > 488
&kvn488,
#endif
#if NSETS > 489
&kvn489,
#endif
#if NSETS > 490
&kvn490,
#endif
#if NSETS > 491
&kvn491,
#endif
#if NSETS > 492
&kvn492,
#endif
#if NSETS > 493
&kvn493,
#endif
#if NSETS > 494
&kvn494,
#endif
#if NSETS > 495
&kvn495,
#endif
#if NSETS > 496
&kvn496,
#endif
#if NSETS > 497
&kvn497,
#endif
#if NSETS > 498
&kvn498,
#endif
#if NSETS > 499
&kvn499,
#endif
#if NSETS > 500
&kvn500,
#endif
#if NSETS > 501
&kvn501,
#endif
#if NSETS > 502
&kvn502,
#endif
#if NSETS > 503
&kvn503,
#endif
#if NSETS > 504
&kvn504,
#endif
#if NSETS > 505
&kvn505,
#endif
#if NSETS > 506
&kvn506,
#endif
#if NSETS > 507
&kvn507,
#endif
#if NSETS > 508
&kvn508,
#endif
#if NSETS > 509
&kvn509,
#endif
#if NSETS > 510
&kvn510,
#endif
#if NSETS > 511
&kvn511,
#endif
#if NSETS > 512
&kvn512,
#endif
#if NSETS > 513
&kvn513,
#endif
#if NSETS > 514
&kvn514,
#endif
#if NSETS > 515
&kvn515,
#endif
#if NSETS > 516
&kvn516,
#endif
#if NSETS > 517
&kvn517,
#endif
#if NSETS > 518
&kvn518,
#endif
#if NSETS > 519
&kvn519,
#endif
#if NSETS > 520
&kvn520,
#endif
#if NSETS > 521
&kvn521,
#endif
#if NSETS > 522
&kvn522,
#endif
#if NSETS > 523
&kvn523,
#endif
#if NSETS > 524
&kvn524,
#endif
#if NSETS > 525
&kvn525,
#endif
#if NSETS > 526
&kvn526,
#endif
#if NSETS > 527
&kvn527,
#endif
#if NSETS > 528
&kvn528,
#endif
#if NSETS > 529
&kvn529,
#endif
#if NSETS > 530
&kvn530,
#endif
#if NSETS > 531
&kvn531,
#endif
#if NSETS > 532
&kvn532,
#endif
#if NSETS > 533
&kvn533,
#endif
#if NSETS > 534
&kvn534,
#endif
#if NSETS > 535
&kvn535,
#endif
#if NSETS > 536
&kvn536,
#endif
#if NSETS > 537
&kvn537,
#endif
#if NSETS > 538
&kvn538,
#endif
#if NSETS > 539
&kvn539,
#endif
#if NSETS > 540
&kvn540,
#endif
#if NSETS > 541
&kvn541,
#endif
#if NSETS > 542
&kvn542,
#endif
#if NSETS > 543
&kvn543,
#endif
#if NSETS > 544
&kvn544,
#endif
#if NSETS > 545
&kvn545,
#endif
#if NSETS > 546
&kvn546,
#endif
#if NSETS > 547
&kvn547,
#endif
#if NSETS > 548
&kvn548,
#endif
#if NSETS > 549
&kvn549,
#endif
#if NSETS > 550
&kvn550,
#endif
#if NSETS > 551
&kvn551,
#endif
#if NSETS > 552
&kvn552,
#endif
#if NSETS > 553
&kvn553,
#endif
#if NSETS > 554
&kvn554,
#endif
#if NSETS > 555
&kvn555,
#endif
#if NSETS > 556
&kvn556,
#endif
#if NSETS > 557
&kvn557,
#endif
#if NSETS > 558
&kvn558,
#endif
#if NSETS > 559
&kvn559,
#endif
#if NSETS > 560
&kvn560,
#endif
#if NSETS > 561
&kvn561,
#endif
#if NSETS > 562
&kvn562,
#endif
#if NSETS > 563
&kvn563,
#endif
#if NSETS > 564
&kvn564,
#endif
#if NSETS > 565
&kvn565,
#endif
#if NSETS > 566
&kvn566,
#endif
#if NSETS > 567
&kvn567,
#endif
#if NSETS > 568
&kvn568,
#endif
#if NSETS > 569
&kvn569,
#endif
#if NSETS > 570
&kvn570,
#endif
#if NSETS > 571
&kvn571,
#endif
#if NSETS > 572
&kvn572,
#endif
#if NSETS > 573
&kvn573,
#endif
#if NSETS > 574
&kvn574,
#endif
#if NSETS > 575
&kvn575,
#endif
#if NSETS > 576
&kvn576,
#endif
#if NSETS > 577
&kvn577,
#endif
#if NSETS > 578
&kvn578,
#endif
#if NSETS > 579
&kvn579,
#endif
#if NSETS > 580
&kvn580,
#endif
#if NSETS > 581
&kvn581,
#endif
#if NSETS > 582
&kvn582,
#endif
#if NSETS > 583
&kvn583,
#endif
#if NSETS > 584
&kvn584,
#endif
#if NSETS > 585
&kvn585,
#endif
#if NSETS > 586
&kvn586,
#endif
#if NSETS > 587
&kvn587,
#endif
#if NSETS > 588
&kvn588,
#endif
#if NSETS > 589
&kvn589,
#endif
#if NSETS > 590
&kvn590,
#endif
#if NSETS > 591
&kvn591,
#endif
#if NSETS > 592
&kvn592,
#endif
#if NSETS > 593
&kvn593,
#endif
#if NSETS > 594
&kvn594,
#endif
#if NSETS > 595
&kvn595,
#endif
#if NSETS > 596
&kvn596,
#endif
#if NSETS > 597
&kvn597,
#endif
#if NSETS > 598
&kvn598,
#endif
#if NSETS > 599
&kvn599,
#endif
#if NSETS > 600
&kvn600,
#endif
#if NSETS > 601
&kvn601,
#endif
#if NSETS > 602
&kvn602,
#endif
#if NSETS > 603
&kvn603,
#endif
#if NSETS > 604
&kvn604,
#endif
#if NSETS > 605
&kvn605,
#endif
#if NSETS > 606
&kvn606,
#endif
#if NSETS > 607
&kvn607,
#endif
#if NSETS > 608
&kvn608,
#endif
#if NSETS > 609
&kvn609,
#endif
#if NSETS > 610
&kvn610,
#endif
#if NSETS > 611
&kvn611,
#endif
#if NSETS > 612
&kvn612,
#endif
#if NSETS > 613
&kvn613,
#endif
#if NSETS > 614
&kvn614,
#endif
#if NSETS > 615
&kvn615,
#endif
#if NSETS > 616
&kvn616,
#endif
#if NSETS > 617
&kvn617,
#endif
#if NSETS > 618
&kvn618,
#endif
#if NSETS > 619
&kvn619,
#endif
#if NSETS > 620
&kvn620,
#endif
#if NSETS > 621
&kvn621,
#endif
#if NSETS > 622
&kvn622,
#endif
#if NSETS > 623
&kvn623,
#endif
#if NSETS > 624
&kvn624,
#endif
#if NSETS > 625
&kvn625,
#endif
#if NSETS > 626
&kvn626,
#endif
#if NSETS > 627
&kvn627,
#endif
#if NSETS > 628
&kvn628,
#endif
#if NSETS > 629
&kvn629,
#endif
#if NSETS > 630
&kvn630,
#endif
#if NSETS > 631
&kvn631,
#endif
#if NSETS > 632
&kvn632,
#endif
#if NSETS > 633
&kvn633,
#endif
#if NSETS > 634
&kvn634,
#endif
#if NSETS > 635
&kvn635,
#endif
#if NSETS > 636
&kvn636,
#endif
#if NSETS > 637
&kvn637,
#endif
#if NSETS > 638
&kvn638,
#endif
#if NSETS > 639
&kvn639,
#endif
#if NSETS > 640
&kvn640,
#endif
#if NSETS > 641
&kvn641,
#endif
#if NSETS > 642
&kvn642,
#endif
#if NSETS > 643
&kvn643,
#endif
#if NSETS > 644
&kvn644,
#endif
#if NSETS > 645
&kvn645,
#endif
#if NSETS > 646
&kvn646,
#endif
#if NSETS > 647
&kvn647,
#endif
#if NSETS > 648
&kvn648,
#endif
#if NSETS > 649
&kvn649,
#endif
#if NSETS > 650
&kvn650,
#endif
#if NSETS > 651
&kvn651,
#endif
#if NSETS > 652
&kvn652,
#endif
#if NSETS > 653
&kvn653,
#endif
#if NSETS > 654
&kvn654,
#endif
#if NSETS > 655
&kvn655,
#endif
#if NSETS > 656
&kvn656,
#endif
#if NSETS > 657
&kvn657,
#endif
#if NSETS > 658
&kvn658,
#endif
#if NSETS > 659
&kvn659,
#endif
#if NSETS > 660
&kvn660,
#endif
#if NSETS > 661
&kvn661,
#endif
#if NSETS > 662
&kvn662,
#endif
#if NSETS > 663
&kvn663,
#endif
#if NSETS > 664
&kvn664,
#endif
#if NSETS > 665
&kvn665,
#endif
#if NSETS > 666
&kvn666,
#endif
#if NSETS > 667
&kvn667,
#endif
#if NSETS > 668
&kvn668,
#endif
#if NSETS > 669
&kvn669,
#endif
#if NSETS > 670
&kvn670,
#endif
#if NSETS > 671
&kvn671,
#endif
#if NSETS > 672
&kvn672,
#endif
#if NSETS > 673
&kvn673,
#endif
#if NSETS > 674
&kvn674,
#endif
#if NSETS > 675
&kvn675,
#endif
#if NSETS > 676
&kvn676,
#endif
#if NSETS > 677
&kvn677,
#endif
#if NSETS > 678
&kvn678,
#endif
#if NSETS > 679
&kvn679,
#endif
#if NSETS > 680
&kvn680,
#endif
#if NSETS > 681
&kvn681,
#endif
#if NSETS > 682
&kvn682,
#endif
#if NSETS > 683
&kvn683,
#endif
#if NSETS > 684
&kvn684,
#endif
#if NSETS > 685
&kvn685,
#endif
#if NSETS > 686
&kvn686,
#endif
#if NSETS > 687
&kvn687,
#endif
#if NSETS > 688
&kvn688,
#endif
#if NSETS > 689
&kvn689,
#endif
#if NSETS > 690
&kvn690,
#endif
#if NSETS > 691
&kvn691,
#endif
#if NSETS > 692
&kvn692,
#endif
#if NSETS > 693
&kvn693,
#endif
#if NSETS > 694
&kvn694,
#endif
#if NSETS > 695
&kvn695,
#endif
#if NSETS > 696
&kvn696,
#endif
#if NSETS > 697
&kvn697,
#endif
#if NSETS > 698
&kvn698,
#endif
#if NSETS > 699
&kvn699,
#endif
#if NSETS > 700
&kvn700,
#endif
#if NSETS > 701
&kvn701,
#endif
#if NSETS > 702
&kvn702,
#endif
#if NSETS > 703
&kvn703,
#endif
#if NSETS > 704
&kvn704,
#endif
#if NSETS > 705
&kvn705,
#endif
#if NSETS > 706
&kvn706,
#endif
#if NSETS > 707
&kvn707,
#endif
#if NSETS > 708
&kvn708,
#endif
#if NSETS > 709
&kvn709,
#endif
#if NSETS > 710
&kvn710,
#endif
#if NSETS > 711
&kvn711,
#endif
#if NSETS > 712
&kvn712,
#endif
#if NSETS > 713
&kvn713,
#endif
#if NSETS > 714
&kvn714,
#endif
#if NSETS > 715
&kvn715,
#endif
#if NSETS > 716
&kvn716,
#endif
#if NSETS > 717
&kvn717,
#endif
#if NSETS > 718
&kvn718,
#endif
#if NSETS > 719
&kvn719,
#endif
#if NSETS > 720
&kvn720,
#endif
#if NSETS > 721
&kvn721,
#endif
#if NSETS > 722
&kvn722,
#endif
#if NSETS > 723
&kvn723,
#endif
#if NSETS > 724
&kvn724,
#endif
#if NSETS > 725
&kvn725,
#endif
#if NSETS > 726
&kvn726,
#endif
#if NSETS > 727
&kvn727,
#endif
#if NSETS > 728
&kvn728,
#endif
#if NSETS > 729
&kvn729,
#endif
#if NSETS > 730
&kvn730,
#endif
#if NSETS > 731
&kvn731,
#endif
#if NSETS > 732
&kvn732,
#endif
#if NSETS > 733
&kvn733,
#endif
#if NSETS > 734
&kvn734,
#endif
#if NSETS > 735
&kvn735,
#endif
#if NSETS > 736
&kvn736,
#endif
#if NSETS > 737
&kvn737,
#endif
#if NSETS > 738
&kvn738,
#endif
#if NSETS > 739
&kvn739,
#endif
#if NSETS > 740
&kvn740,
#endif
#if NSETS > 741
&kvn741,
#endif
#if NSETS > 742
&kvn742,
#endif
#if NSETS > 743
&kvn743,
#endif
#if NSETS > 744
&kvn744,
#endif
#if NSETS > 745
&kvn745,
#endif
#if NSETS > 746
&kvn746,
#endif
#if NSETS > 747
&kvn747,
#endif
#if NSETS > 748
&kvn748,
#endif
#if NSETS > 749
&kvn749,
#endif
#if NSETS > 750
&kvn750,
#endif
#if NSETS > 751
&kvn751,
#endif
#if NSETS > 752
&kvn752,
#endif
#if NSETS > 753
&kvn753,
#endif
#if NSETS > 754
&kvn754,
#endif
#if NSETS > 755
&kvn755,
#endif
#if NSETS > 756
&kvn756,
#endif
#if NSETS > 757
&kvn757,
#endif
#if NSETS > 758
&kvn758,
#endif
#if NSETS > 759
&kvn759,
#endif
#if NSETS > 760
&kvn760,
#endif
#if NSETS > 761
&kvn761,
#endif
#if NSETS > 762
&kvn762,
#endif
#if NSETS > 763
&kvn763,
#endif
#if NSETS > 764
&kvn764,
#endif
#if NSETS > 765
&kvn765,
#endif
#if NSETS > 766
&kvn766,
#endif
#if NSETS > 767
&kvn767,
#endif
#if NSETS > 768
&kvn768,
#endif
#if NSETS > 769
&kvn769,
#endif
#if NSETS > 770
&kvn770,
#endif
#if NSETS > 771
&kvn771,
#endif
#if NSETS > 772
&kvn772,
#endif
#if NSETS > 773
&kvn773,
#endif
#if NSETS > 774
&kvn774,
#endif
#if NSETS > 775
&kvn775,
#endif
#if NSETS > 776
&kvn776,
#endif
#if NSETS > 777
&kvn777,
#endif
#if NSETS > 778
&kvn778,
#endif
#if NSETS > 779
&kvn779,
#endif
#if NSETS > 780
&kvn780,
#endif
#if NSETS > 781
&kvn781,
#endif
#if NSETS > 782
&kvn782,
#endif
#if NSETS > 783
&kvn783,
#endif
#if NSETS > 784
&kvn784,
#endif
#if NSETS > 785
&kvn785,
#endif
#if NSETS > 786
&kvn786,
#endif
#if NSETS > 787
&kvn787,
#endif
#if NSETS > 788
&kvn788,
#endif
#if NSETS > 789
&kvn789,
#endif
#if NSETS > 790
&kvn790,
#endif
#if NSETS > 791
&kvn791,
#endif
#if NSETS > 792
&kvn792,
#endif
#if NSETS > 793
&kvn793,
#endif
#if NSETS > 794
&kvn794,
#endif
#if NSETS > 795
&kvn795,
#endif
#if NSETS > 796
&kvn796,
#endif
#if NSETS > 797
&kvn797,
#endif
#if NSETS > 798
&kvn798,
#endif
#if NSETS > 799
&kvn799,
#endif
#if NSETS > 800
&kvn800,
#endif
#if NSETS > 801
&kvn801,
#endif
#if NSETS > 802
&kvn802,
#endif
#if NSETS > 803
&kvn803,
#endif
#if NSETS > 804
&kvn804,
#endif
#if NSETS > 805
&kvn805,
#endif
#if NSETS > 806
&kvn806,
#endif
#if NSETS > 807
&kvn807,
#endif
#if NSETS > 808
&kvn808,
#endif
#if NSETS > 809
&kvn809,
#endif
#if NSETS > 810
&kvn810,
#endif
#if NSETS > 811
&kvn811,
#endif
#if NSETS > 812
&kvn812,
#endif
#if NSETS > 813
&kvn813,
#endif
#if NSETS > 814
&kvn814,
#endif
#if NSETS > 815
&kvn815,
#endif
#if NSETS > 816
&kvn816,
#endif
#if NSETS > 817
&kvn817,
#endif
#if NSETS > 818
&kvn818,
#endif
#if NSETS > 819
&kvn819,
#endif
#if NSETS > 820
&kvn820,
#endif
#if NSETS > 821
&kvn821,
#endif
#if NSETS > 822
&kvn822,
#endif
#if NSETS > 823
&kvn823,
#endif
#if NSETS > 824
&kvn824,
#endif
#if NSETS > 825
&kvn825,
#endif
#if NSETS > 826
&kvn826,
#endif
#if NSETS > 827
&kvn827,
#endif
#if NSETS > 828
&kvn828,
#endif
#if NSETS > 829
&kvn829,
#endif
#if NSETS > 830
&kvn830,
#endif
#if NSETS > 831
&kvn831,
#endif
#if NSETS > 832
&kvn832,
#endif
#if NSETS > 833
&kvn833,
#endif
#if NSETS > 834
&kvn834,
#endif
#if NSETS > 835
&kvn835,
#endif
#if NSETS > 836
&kvn836,
#endif
#if NSETS > 837
&kvn837,
#endif
#if NSETS > 838
&kvn838,
#endif
#if NSETS > 839
&kvn839,
#endif
#if NSETS > 840
&kvn840,
#endif
#if NSETS > 841
&kvn841,
#endif
#if NSETS > 842
&kvn842,
#endif
#if NSETS > 843
&kvn843,
#endif
#if NSETS > 844
&kvn844,
#endif
#if NSETS > 845
&kvn845,
#endif
#if NSETS > 846
&kvn846,
#endif
#if NSETS > 847
&kvn847,
#endif
#if NSETS > 848
&kvn848,
#endif
#if NSETS > 849
&kvn849,
#endif
#if NSETS > 850
&kvn850,
#endif
#if NSETS > 851
&kvn851,
#endif
#if NSETS > 852
&kvn852,
#endif
#if NSETS > 853
&kvn853,
#endif
#if NSETS > 854
&kvn854,
#endif
#if NSETS > 855
&kvn855,
#endif
#if NSETS > 856
&kvn856,
#endif
#if NSETS > 857
&kvn857,
#endif
#if NSETS > 858
&kvn858,
#endif
#if NSETS > 859
&kvn859,
#endif
#if NSETS > 860
&kvn860,
#endif
#if NSETS > 861
&kvn861,
#endif
#if NSETS > 862
&kvn862,
#endif
#if NSETS > 863
&kvn863,
#endif
#if NSETS > 864
&kvn864,
#endif
#if NSETS > 865
&kvn865,
#endif
#if NSETS > 866
&kvn866,
#endif
#if NSETS > 867
&kvn867,
#endif
#if NSETS > 868
&kvn868,
#endif
#if NSETS > 869
&kvn869,
#endif
#if NSETS > 870
&kvn870,
#endif
#if NSETS > 871
&kvn871,
#endif
#if NSETS > 872
&kvn872,
#endif
#if NSETS > 873
&kvn873,
#endif
#if NSETS > 874
&kvn874,
#endif
#if NSETS > 875
&kvn875,
#endif
#if NSETS > 876
&kvn876,
#endif
#if NSETS > 877
&kvn877,
#endif
#if NSETS > 878
&kvn878,
#endif
#if NSETS > 879
&kvn879,
#endif
#if NSETS > 880
&kvn880,
#endif
#if NSETS > 881
&kvn881,
#endif
#if NSETS > 882
&kvn882,
#endif
#if NSETS > 883
&kvn883,
#endif
#if NSETS > 884
&kvn884,
#endif
#if NSETS > 885
&kvn885,
#endif
#if NSETS > 886
&kvn886,
#endif
#if NSETS > 887
&kvn887,
#endif
#if NSETS > 888
&kvn888,
#endif
#if NSETS > 889
&kvn889,
#endif
#if NSETS > 890
&kvn890,
#endif
#if NSETS > 891
&kvn891,
#endif
#if NSETS > 892
&kvn892,
#endif
#if NSETS > 893
&kvn893,
#endif
#if NSETS > 894
&kvn894,
#endif
#if NSETS > 895
&kvn895,
#endif
#if NSETS > 896
&kvn896,
#endif
#if NSETS > 897
&kvn897,
#endif
#if NSETS > 898
&kvn898,
#endif
#if NSETS > 899
&kvn899,
#endif
#if NSETS > 900
&kvn900,
#endif
#if NSETS > 901
&kvn901,
#endif
#if NSETS > 902
&kvn902,
#endif
#if NSETS > 903
&kvn903,
#endif
#if NSETS > 904
&kvn904,
#endif
#if NSETS > 905
&kvn905,
#endif
#if NSETS > 906
&kvn906,
#endif
#if NSETS > 907
&kvn907,
#endif
#if NSETS > 908
&kvn908,
#endif
#if NSETS > 909
&kvn909,
#endif
#if NSETS > 910
&kvn910,
#endif
#if NSETS > 911
&kvn911,
#endif
#if NSETS > 912
&kvn912,
#endif
#if NSETS > 913
&kvn913,
#endif
#if NSETS > 914
&kvn914,
#endif
#if NSETS > 915
&kvn915,
#endif
#if NSETS > 916
&kvn916,
#endif
#if NSETS > 917
&kvn917,
#endif
#if NSETS > 918
&kvn918,
#endif
#if NSETS > 919
&kvn919,
#endif
#if NSETS > 920
&kvn920,
#endif
#if NSETS > 921
&kvn921,
#endif
#if NSETS > 922
&kvn922,
#endif
#if NSETS > 923
&kvn923,
#endif
#if NSETS > 924
&kvn924,
#endif
#if NSETS > 925
&kvn925,
#endif
#if NSETS > 926
&kvn926,
#endif
#if NSETS > 927
&kvn927,
#endif
#if NSETS > 928
&kvn928,
#endif
#if NSETS > 929
&kvn929,
#endif
#if NSETS > 930
&kvn930,
#endif
#if NSETS > 931
&kvn931,
#endif
#if NSETS > 932
&kvn932,
#endif
#if NSETS > 933
&kvn933,
#endif
#if NSETS > 934
&kvn934,
#endif
#if NSETS > 935
&kvn935,
#endif
#if NSETS > 936
&kvn936,
#endif
#if NSETS > 937
&kvn937,
#endif
#if NSETS > 938
&kvn938,
#endif
#if NSETS > 939
&kvn939,
#endif
#if NSETS > 940
&kvn940,
#endif
#if NSETS > 941
&kvn941,
#endif
#if NSETS > 942
&kvn942,
#endif
#if NSETS > 943
&kvn943,
#endif
#if NSETS > 944
&kvn944,
#endif
#if NSETS > 945
&kvn945,
#endif
#if NSETS > 946
&kvn946,
#endif
#if NSETS > 947
&kvn947,
#endif
#if NSETS > 948
&kvn948,
#endif
#if NSETS > 949
&kvn949,
#endif
#if NSETS > 950
&kvn950,
#endif
#if NSETS > 951
&kvn951,
#endif
#if NSETS > 952
&kvn952,
#endif
#if NSETS > 953
&kvn953,
#endif
#if NSETS > 954
&kvn954,
#endif
#if NSETS > 955
&kvn955,
#endif
#if NSETS > 956
&kvn956,
#endif
#if NSETS > 957
&kvn957,
#endif
#if NSETS > 958
&kvn958,
#endif
#if NSETS > 959
&kvn959,
#endif
#if NSETS > 960
&kvn960,
#endif
#if NSETS > 961
&kvn961,
#endif
#if NSETS > 962
&kvn962,
#endif
#if NSETS > 963
&kvn963,
#endif
#if NSETS > 964
&kvn964,
#endif
#if NSETS > 965
&kvn965,
#endif
#if NSETS > 966
&kvn966,
#endif
#if NSETS > 967
&kvn967,
#endif
#if NSETS > 968
&kvn968,
#endif
#if NSETS > 969
&kvn969,
#endif
#if NSETS > 970
&kvn970,
#endif
#if NSETS > 971
&kvn971,
#endif
#if NSETS > 972
&kvn972,
#endif
#if NSETS > 973
&kvn973,
#endif
#if NSETS > 974
&kvn974,
#endif
#if NSETS > 975
&kvn975,
#endif
#if NSETS > 976
&kvn976,
#endif
#if NSETS > 977
&kvn977,
#endif
#if NSETS > 978
&kvn978,
#endif
#if NSETS > 979
&kvn979,
#endif
#if NSETS > 980
&kvn980,
#endif
#if NSETS > 981
&kvn981,
#endif
#if NSETS > 982
&kvn982,
#endif
#if NSETS > 983
&kvn983,
#endif
#if NSETS > 984
&kvn984,
#endif
#if NSETS > 985
&kvn985,
#endif
#if NSETS > 986
&kvn986,
#endif
#if NSETS > 987
&kvn987,
#endif
#if NSETS > 988
&kvn988,
#endif
#if NSETS > 989
&kvn989,
#endif
#if NSETS > 990
&kvn990,
#endif
#if NSETS > 991
&kvn991,
#endif
#if NSETS > 992
&kvn992,
#endif
#if NSETS > 993
&kvn993,
#endif
#if NSETS > 994
&kvn994,
#endif
#if NSETS > 995
&kvn995,
#endif
#if NSETS > 996
&kvn996,
#endif
#if NSETS > 997
&kvn997,
#endif
#if NSETS > 998
&kvn998,
#endif
#if NSETS > 999
&kvn999,
#endif
#if NSETS > 1000
&kvn1000,
#endif
#if NSETS > 1001
&kvn1001,
#endif
#if NSETS > 1002
&kvn1002,
#endif
#if NSETS > 1003
&kvn1003,
#endif
#if NSETS > 1004
&kvn1004,
#endif
#if NSETS > 1005
&kvn1005,
#endif
#if NSETS > 1006
&kvn1006,
#endif
#if NSETS > 1007
&kvn1007,
#endif
#if NSETS > 1008
&kvn1008,
#endif
#if NSETS > 1009
&kvn1009,
#endif
#if NSETS > 1010
&kvn1010,
#endif
#if NSETS > 1011
&kvn1011,
#endif
#if NSETS > 1012
&kvn1012,
#endif
#if NSETS > 1013
&kvn1013,
#endif
#if NSETS > 1014
&kvn1014,
#endif
#if NSETS > 1015
&kvn1015,
#endif
#if NSETS > 1016
&kvn1016,
#endif
#if NSETS > 1017
&kvn1017,
#endif
#if NSETS > 1018
&kvn1018,
#endif
#if NSETS > 1019
&kvn1019,
#endif
#if NSETS > 1020
&kvn1020,
#endif
#if NSETS > 1021
&kvn1021,
#endif
#if NSETS > 1022
&kvn1022,
#endif
#if NSETS > 1023
&kvn1023,
#endif
#if NSETS > 1024
&kvn1024,
#endif
};
