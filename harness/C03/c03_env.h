/* C03/C01: shared environment contracts (DESIGN section 3) for the writer
 * side of libsquashfs. Every stub *is* the assumed contract: it asserts the
 * callee's precondition at the call site (obligation "<P>.env.<callee>_pre"),
 * records the call in ghost state and returns every outcome the contract
 * permits through verif_nd_*.
 *
 * Define C03_P (obligation prefix, e.g. "C03.meta") before including.
 * Optional: C03_NO_MEM (do not override memcpy/memset).
 */
#ifndef C03_ENV_H
#define C03_ENV_H

#include <stdlib.h>
#include <string.h>
#include "verif.h"
#include "sqfs/predef.h"
#include "sqfs/io.h"
#include "sqfs/compressor.h"
#include "sqfs/error.h"

#ifndef C03_P
#define C03_P "C03"
#endif

/* ---------------------------------------------------------------- memory
 * memcpy/memset on payload buffers: bounds are proved at every call site;
 * copies of at most C03_EXACT bytes (headers, words) are exact; for larger
 * ones the destination receives the source value at ONE arbitrary witness
 * index g_mem_w (unconstrained, so a claim made for it holds for every
 * index); the last large call is recorded. */
#ifndef C03_EXACT
#define C03_EXACT 32
#endif
unsigned g_cpy_calls;
const void *g_cpy_dst, *g_cpy_src;
size_t g_cpy_n;
unsigned g_set_calls;
const void *g_set_dst;
size_t g_set_n;
int g_set_c;
/* copies whose destination is the output buffer last handed to do_block */
sqfs_u8 *g_cmp_out;
unsigned g_cpo_calls;
const void *g_cpo_src;
size_t g_cpo_n;

#ifndef C03_NO_MEM
void *memcpy(void *dst, const void *src, size_t n)
{
	size_t i;

	VERIF_ASSERT(VERIF_R_OK(src, n), C03_P ".env.memcpy_src_readable");
	VERIF_ASSERT(VERIF_W_OK(dst, n), C03_P ".env.memcpy_dst_writable");
	if (g_cmp_out != NULL && dst == (void *)g_cmp_out) {
		if (g_cpo_calls < 1000)
			g_cpo_calls += 1;
		g_cpo_src = src;
		g_cpo_n = n;
	}
	if (n <= C03_EXACT) {
		for (i = 0; i < C03_EXACT; ++i) {
			if (i < n)
				((sqfs_u8 *)dst)[i] = ((const sqfs_u8 *)src)[i];
		}
	} else {
		if (g_cpy_calls < 1000)
			g_cpy_calls += 1;
		g_cpy_dst = dst;
		g_cpy_src = src;
		g_cpy_n = n;
	}
	return dst;
}

void *memset(void *dst, int c, size_t n)
{
	size_t i;

	VERIF_ASSERT(VERIF_W_OK(dst, n), C03_P ".env.memset_dst_writable");
	if (n <= C03_EXACT) {
		for (i = 0; i < C03_EXACT; ++i) {
			if (i < n)
				((sqfs_u8 *)dst)[i] = (sqfs_u8)c;
		}
	} else {
		if (g_set_calls < 1000)
			g_set_calls += 1;
		g_set_dst = dst;
		g_set_n = n;
		g_set_c = c;
	}
	return dst;
}
#endif

/* ------------------------------------------------------------------ file
 * Append-only ghost file: size + log of the last C03_WLOG write_at calls. */
#ifndef C03_WLOG
#define C03_WLOG 4
#endif
sqfs_file_t g_file;
sqfs_u64 g_fsize;
unsigned g_wr_calls;
struct { sqfs_u64 off, size_at_call; size_t n; const void *buf; sqfs_u8 b0, b1;
	 bool cmp_out_at_2, cpy_dst_at_2; /* buf+2 == last do_block out / memcpy dst */ }
	g_wr[C03_WLOG];
unsigned g_faults;

int stub_write_at(sqfs_file_t *file, sqfs_u64 offset, const void *buffer,
		  size_t size)
{
	int e;

	VERIF_ASSERT(file == &g_file, C03_P ".env.write_at_pre");
	VERIF_ASSERT(VERIF_R_OK(buffer, size), C03_P ".env.write_at_pre");
	if (g_wr_calls < C03_WLOG) {
		g_wr[g_wr_calls].off = offset;
		g_wr[g_wr_calls].size_at_call = g_fsize;
		g_wr[g_wr_calls].n = size;
		g_wr[g_wr_calls].buf = buffer;
		if (size >= 2) {
			g_wr[g_wr_calls].b0 = ((const sqfs_u8 *)buffer)[0];
			g_wr[g_wr_calls].b1 = ((const sqfs_u8 *)buffer)[1];
			g_wr[g_wr_calls].cmp_out_at_2 =
				(g_cmp_out == (const sqfs_u8 *)buffer + 2);
			g_wr[g_wr_calls].cpy_dst_at_2 =
				(g_cpy_dst == (const sqfs_u8 *)buffer + 2);
		}
	}
	if (g_wr_calls < 1000)
		g_wr_calls += 1;
	if (verif_nd_bool("write_fails")) {
		e = verif_nd_int("write_err");
		VERIF_ASSUME(e < 0);
		g_faults += 1;
		return e;
	}
	if (offset + size > g_fsize)
		g_fsize = offset + size;
	return 0;
}

sqfs_u64 stub_get_size(const sqfs_file_t *file)
{
	VERIF_ASSERT(file == &g_file, C03_P ".env.get_size_pre");
	return g_fsize;
}

/* ------------------------------------------------------------ compressor
 * do_block contract (compress mode): r < 0 error, else 0 <= r <= outsize and
 * r <= size ("not larger than the input", proved for the in-tree back ends by
 * the comp_* harnesses); the output bytes are not modelled. */
sqfs_compressor_t g_cmp;
unsigned g_cmp_calls;
const sqfs_u8 *g_cmp_in;
sqfs_u32 g_cmp_size, g_cmp_outsize;
sqfs_s32 g_cmp_ret;

sqfs_s32 stub_do_block(sqfs_compressor_t *cmp, const sqfs_u8 *in,
		       sqfs_u32 size, sqfs_u8 *out, sqfs_u32 outsize)
{
	sqfs_s32 r;

	VERIF_ASSERT(cmp == &g_cmp, C03_P ".env.do_block_pre");
	VERIF_ASSERT(VERIF_R_OK(in, size) && VERIF_W_OK(out, outsize),
		     C03_P ".env.do_block_pre");
	if (g_cmp_calls < 1000)
		g_cmp_calls += 1;
	g_cmp_in = in;
	g_cmp_out = out;
	g_cmp_size = size;
	g_cmp_outsize = outsize;
	r = verif_nd_int("do_block_ret");
	VERIF_ASSUME(r < 0 || ((sqfs_u32)r <= outsize && (sqfs_u32)r <= size));
	if (r < 0)
		g_faults += 1;
	g_cmp_ret = r;
	return r;
}

void stub_destroy(sqfs_object_t *obj)
{
	(void)obj;
	VERIF_ASSERT(0, C03_P ".env.no_destroy_expected");
}

sqfs_object_t *stub_copy(const sqfs_object_t *obj)
{
	(void)obj;
	VERIF_ASSERT(0, C03_P ".env.no_copy_expected");
	return NULL;
}

static void c03_env_init(void)
{
	g_fsize = verif_nd_u64("fsize");
	VERIF_ASSUME(g_fsize <= ((sqfs_u64)1 << 62));
	g_file.base.refcount = 1000;
	g_file.base.destroy = stub_destroy;
	g_file.base.copy = stub_copy;
	g_file.write_at = stub_write_at;
	g_file.get_size = stub_get_size;
	g_cmp.base.refcount = 1000;
	g_cmp.base.destroy = stub_destroy;
	g_cmp.base.copy = stub_copy;
	g_cmp.do_block = stub_do_block;
}

#define C03_FP {"do_block": "stub_do_block", "write_at": "stub_write_at", \
		"get_size": "stub_get_size"}
#endif
