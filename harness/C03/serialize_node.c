/* C03.serialize: serialize_tree_node (lib/common/src/writer/serialize_fstree.c)
 * for a non-directory node (-DKIND: 'F' regular file whose inode comes from
 * the block processor as a basic (-DFTYPE=2) or extended (-DFTYPE=9) file
 * inode; 'O' fifo; 'B' block device), every value of link count, xattr
 * index, owner, time, number, and of the fields the block processor left in
 * the file inode. The real sqfs_inode_make_extended / make_basic /
 * set_xattr_index (inode.c, proved in inode_kind.c) are linked in; the id
 * table, the meta writer position and sqfs_meta_writer_write_inode are
 * contracts: the latter inspects the inode it is given through the
 * layout-independent view of the format. Loop-free: proved for the
 * enumerated kinds.
 *
 *  C03.serialize.link_count  the inode handed to the inode writer carries the
 *                            node's link count (a basic file inode, which has
 *                            no such field, only for link count 1)
 *  C03.serialize.xattr       ... and the node's xattr index (basic only for
 *                            "none")
 *  C03.serialize.base        mode, time stamp, inode number of the node; uid /
 *                            gid index as answered by the id table
 *  C03.serialize.file_kept   block start, size, sparse count, fragment
 *                            location of a file inode arrive unchanged
 *  C03.serialize.ref         the node's inode_ref = writer position before
 *                            the inode is written (block << 16 | offset)
 *  C03.serialize.status      id table / writer failure is returned
 */
#include <stdlib.h>
#include <string.h>
#include <stdio.h>
#include "verif.h"
#include "sqfs/predef.h"

struct sqfs_meta_writer_t { sqfs_object_t base; int opaque; };
#include "lib/sqfs/src/inode.c"
#include "lib/common/src/writer/serialize_fstree.c"

#ifndef KIND
#define KIND 'F'
#endif
#ifndef FTYPE
#define FTYPE 9
#endif
#define NONE 0xFFFFFFFFu

static struct sqfs_meta_writer_t g_im;
static sqfs_writer_t g_wr;
static struct { tree_node_t n; char name[4]; } g_node;
static struct { sqfs_inode_generic_t i; sqfs_u32 blocks[2]; } *g_ino;
static struct { sqfs_inode_generic_t i; sqfs_u8 extra[8]; } g_calloc_ino;
static sqfs_u64 g_blk;
static sqfs_u32 g_off;
static unsigned g_id_calls, g_wi_calls, g_faults;
static sqfs_u16 g_uid_idx, g_gid_idx;
static bool g_checked;
/* expectations for the inode writer */
static sqfs_u64 e_blocks_start, e_file_size, e_sparse;
static sqfs_u32 e_frag_idx, e_frag_off;

int sqfs_id_table_id_to_index(sqfs_id_table_t *tbl, sqfs_u32 id, sqfs_u16 *out)
{
	VERIF_ASSERT(tbl == g_wr.idtbl && out != NULL, "C03.serialize.env.id_pre");
	VERIF_ASSERT(id == (g_id_calls == 0 ? g_node.n.uid : g_node.n.gid),
		     "C03.serialize.base");
	g_id_calls += 1;
	if (verif_nd_bool("id_fails")) {
		g_faults += 1;
		return SQFS_ERROR_OVERFLOW;
	}
	*out = verif_nd_u16("id_index");
	if (g_id_calls == 1)
		g_uid_idx = *out;
	else
		g_gid_idx = *out;
	return 0;
}

int sqfs_id_table_index_to_id(const sqfs_id_table_t *t, sqfs_u16 i, sqfs_u32 *o)
{ (void)t; (void)i; (void)o; return SQFS_ERROR_OUT_OF_BOUNDS; }

void sqfs_meta_writer_get_position(const sqfs_meta_writer_t *m,
				   sqfs_u64 *block_start, sqfs_u32 *offset)
{
	VERIF_ASSERT(m == &g_im, "C03.serialize.env.position_pre");
	*block_start = g_blk;
	*offset = g_off;
}

int sqfs_meta_writer_write_inode(sqfs_meta_writer_t *iw,
				 const sqfs_inode_generic_t *n)
{
	const tree_node_t *t = &g_node.n;
	sqfs_u32 nlink, xattr;

	VERIF_ASSERT(iw == &g_im && n != NULL, "C03.serialize.env.write_inode_pre");
	g_wi_calls += 1;
	g_checked = true;
	VERIF_ASSERT(n->base.mode == t->mode && n->base.mod_time == t->mod_time &&
		     n->base.inode_number == t->inode_num &&
		     n->base.uid_idx == g_uid_idx && n->base.gid_idx == g_gid_idx,
		     "C03.serialize.base");
	xattr = NONE;
	switch (n->base.type) {
	case SQFS_INODE_FILE: nlink = 1; break;
	case SQFS_INODE_EXT_FILE:
		nlink = n->data.file_ext.nlink; xattr = n->data.file_ext.xattr_idx; break;
	case SQFS_INODE_FIFO: case SQFS_INODE_SOCKET: nlink = n->data.ipc.nlink; break;
	case SQFS_INODE_EXT_FIFO: case SQFS_INODE_EXT_SOCKET:
		nlink = n->data.ipc_ext.nlink; xattr = n->data.ipc_ext.xattr_idx; break;
	case SQFS_INODE_BDEV: case SQFS_INODE_CDEV: nlink = n->data.dev.nlink; break;
	case SQFS_INODE_EXT_BDEV: case SQFS_INODE_EXT_CDEV:
		nlink = n->data.dev_ext.nlink; xattr = n->data.dev_ext.xattr_idx; break;
	default: nlink = 0; VERIF_ASSERT(0, "C03.serialize.kind"); break;
	}
	VERIF_ASSERT(nlink == t->link_count, "C03.serialize.link_count");
	VERIF_ASSERT(xattr == t->xattr_idx, "C03.serialize.xattr");
#if KIND == 'F'
	if (n->base.type == SQFS_INODE_FILE)
		VERIF_ASSERT(n->data.file.blocks_start == e_blocks_start &&
			     n->data.file.file_size == e_file_size &&
			     e_sparse == 0 &&
			     n->data.file.fragment_index == e_frag_idx &&
			     n->data.file.fragment_offset == e_frag_off,
			     "C03.serialize.file_kept");
	else
		VERIF_ASSERT(n->data.file_ext.blocks_start == e_blocks_start &&
			     n->data.file_ext.file_size == e_file_size &&
			     n->data.file_ext.sparse == e_sparse &&
			     n->data.file_ext.fragment_idx == e_frag_idx &&
			     n->data.file_ext.fragment_offset == e_frag_off,
			     "C03.serialize.file_kept");
	VERIF_ASSERT(n->base.type == SQFS_INODE_FILE ||
		     n->base.type == SQFS_INODE_EXT_FILE, "C03.serialize.kind");
#elif KIND == 'O'
	VERIF_ASSERT(n->base.type == SQFS_INODE_FIFO ||
		     n->base.type == SQFS_INODE_EXT_FIFO, "C03.serialize.kind");
#else
	VERIF_ASSERT((n->base.type == SQFS_INODE_BDEV ||
		      n->base.type == SQFS_INODE_EXT_BDEV) &&
		     (n->base.type == SQFS_INODE_BDEV ? n->data.dev.devno
						      : n->data.dev_ext.devno) ==
		     t->data.devno, "C03.serialize.kind");
#endif
	if (verif_nd_bool("write_inode_fails")) {
		g_faults += 1;
		return SQFS_ERROR_IO;
	}
	return 0;
}

/* tree_node_to_inode allocates with calloc: zeroed typed object or NULL */
void *calloc(size_t n, size_t size)
{
	VERIF_ASSERT(n * size <= sizeof(g_calloc_ino), "C03.serialize.env.calloc_pre");
	if (verif_nd_bool("calloc_fails")) {
		g_faults += 1;
		return NULL;
	}
	return &g_calloc_ino.i;
}

void free(void *p)
{
	VERIF_ASSERT(p == (void *)&g_calloc_ino.i || p == (void *)g_ino,
		     "C03.serialize.env.free_pre");
}

void *alloc_flex(size_t b, size_t i, size_t n) { (void)b; (void)i; (void)n; return NULL; }
void sqfs_perror(const char *f, const char *a, int e) { (void)f; (void)a; (void)e; }
void perror(const char *s) { (void)s; }
int sqfs_dir_writer_begin(sqfs_dir_writer_t *w, sqfs_u32 f) { (void)w; (void)f; return SQFS_ERROR_INTERNAL; }
int sqfs_dir_writer_add_entry(sqfs_dir_writer_t *w, const char *n, sqfs_u32 i, sqfs_u64 r, sqfs_u16 m)
{ (void)w; (void)n; (void)i; (void)r; (void)m; return SQFS_ERROR_INTERNAL; }
int sqfs_dir_writer_end(sqfs_dir_writer_t *w) { (void)w; return SQFS_ERROR_INTERNAL; }
sqfs_inode_generic_t *sqfs_dir_writer_create_inode(const sqfs_dir_writer_t *w, size_t h, sqfs_u32 x, sqfs_u32 p)
{ (void)w; (void)h; (void)x; (void)p; return NULL; }
int sqfs_meta_writer_flush(sqfs_meta_writer_t *m) { (void)m; return SQFS_ERROR_INTERNAL; }
int sqfs_meta_write_write_to_file(sqfs_meta_writer_t *m) { (void)m; return SQFS_ERROR_INTERNAL; }

void harness(void)
{
	tree_node_t *n = &g_node.n;
	sqfs_u16 perm = verif_nd_u16("perm") & 07777;
	int ret;

	g_wr.im = &g_im;
	g_wr.idtbl = (sqfs_id_table_t *)&g_wr;	/* opaque identity */
	n->name = g_node.name;
	n->uid = verif_nd_u32("uid");
	n->gid = verif_nd_u32("gid");
	n->mod_time = verif_nd_u32("mtime");
	n->inode_num = verif_nd_u32("inum");
	n->xattr_idx = verif_nd_u32("xattr");
	n->link_count = verif_nd_u32("link_count");
	VERIF_ASSUME(n->link_count >= 1);
	g_blk = verif_nd_u64("im_block");
	VERIF_ASSUME(g_blk < ((sqfs_u64)1 << 47));
	g_off = verif_nd_u16("im_offset") % 8192;

#if KIND == 'F'
	n->mode = S_IFREG | perm;
	g_ino = malloc(sizeof(*g_ino));
	VERIF_ASSUME(g_ino != NULL);
	g_ino->i.base.type = FTYPE;
	g_ino->i.payload_bytes_available = sizeof(g_ino->blocks);
	g_ino->i.payload_bytes_used = 0;
	e_frag_idx = verif_nd_u32("frag_idx");
	e_frag_off = verif_nd_u32("frag_off");
#if FTYPE == 2
	g_ino->i.data.file.blocks_start = verif_nd_u32("blocks_start");
	g_ino->i.data.file.file_size = verif_nd_u32("file_size");
	g_ino->i.data.file.fragment_index = e_frag_idx;
	g_ino->i.data.file.fragment_offset = e_frag_off;
	e_blocks_start = g_ino->i.data.file.blocks_start;
	e_file_size = g_ino->i.data.file.file_size;
	e_sparse = 0;
#else
	/* as the block processor leaves an extended file inode: nlink 1 */
	g_ino->i.data.file_ext.blocks_start = e_blocks_start = verif_nd_u64("blocks_start");
	g_ino->i.data.file_ext.file_size = e_file_size = verif_nd_u64("file_size");
	g_ino->i.data.file_ext.sparse = e_sparse = verif_nd_u64("sparse");
	g_ino->i.data.file_ext.nlink = 1;
	g_ino->i.data.file_ext.fragment_idx = e_frag_idx;
	g_ino->i.data.file_ext.fragment_offset = e_frag_off;
	g_ino->i.data.file_ext.xattr_idx = NONE;
#endif
	n->data.file.inode = &g_ino->i;
#elif KIND == 'O'
	n->mode = S_IFIFO | perm;
#else
	n->mode = S_IFBLK | perm;
	n->data.devno = verif_nd_u32("devno");
#endif

	ret = serialize_tree_node("image", &g_wr, n);

	VERIF_ASSERT((ret == 0) == (g_faults == 0), "C03.serialize.status");
	if (ret == 0) {
		VERIF_ASSERT(g_wi_calls == 1 && g_checked && g_id_calls == 2,
			     "C03.serialize.status");
		VERIF_ASSERT(n->inode_ref == ((g_blk << 16) | g_off),
			     "C03.serialize.ref");
		VERIF_COVER(n->link_count > 1 && n->xattr_idx == NONE);
		VERIF_COVER(n->link_count == 1 && n->xattr_idx != NONE);
		VERIF_COVER(n->link_count == 1 && n->xattr_idx == NONE);
	} else {
		VERIF_COVER(g_id_calls == 1);
		VERIF_COVER(g_wi_calls == 1);
	}
}
