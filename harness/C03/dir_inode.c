/* C03.dir.inode_kind: sqfs_dir_writer_create_inode (lib/sqfs/src/dir_writer.c)
 * for a finished directory with NIDX recorded headers (-DNIDX 0..3, concrete
 * list shape; positions, sizes, counts, xattr index, parent, names symbolic;
 * first-entry name lengths concrete 1,3,4). alloc_flex is its contract (typed
 * inode + 64 payload bytes, may fail). bounded: index list <= 3.
 *
 *  C03.dir.inode_kind.ext_iff   extended directory inode exactly when an
 *                               xattr index is given, the listing size + 3
 *                               exceeds 16 bit, the start block exceeds 32
 *                               bit or there are >= 256 entries
 *  C03.dir.inode_kind.fields    size = listing size + 3, start block / offset
 *                               = the position recorded at begin, parent,
 *                               link count, xattr index: stored exactly
 *  C03.dir.inode_kind.index     extended: inodex_count = number of headers,
 *                               payload = for each header (byte offset in the
 *                               listing, metadata block, name_len - 1, name
 *                               of the first entry), payload_bytes_used =
 *                               payload_bytes_available = its size
 * requires: listing start block < 2^32 and listing size < 2^32 - 3 (field
 * widths of both layouts), entry count + hard links + 2 < 2^32.
 */
#include <stdlib.h>
#include <string.h>
#include "verif.h"
#include "sqfs/predef.h"

struct sqfs_meta_writer_t { sqfs_object_t base; int opaque; };
#include "lib/sqfs/src/dir_writer.c"

#ifndef NIDX
#define NIDX 2
#endif
#define NAMEMAX 4
#define PAYLOAD 64

typedef struct { sqfs_dir_entry_t e; char name[NAMEMAX]; } node_t;
static node_t n0, n1, n2;
static node_t *const g_nodes[3] = { &n0, &n1, &n2 };
static index_ent_t i0, i1, i2;
static index_ent_t *const g_idx[3] = { &i0, &i1, &i2 };
static const size_t g_lens[3] = { 1, 3, 4 };
static struct { sqfs_inode_generic_t ino; sqfs_u8 extra[PAYLOAD]; } g_ino;
static sqfs_dir_writer_t g_w;
static unsigned g_allocs;
static size_t g_alloc_nmemb;

void *alloc_flex(size_t base_size, size_t item_size, size_t nmemb)
{
	VERIF_ASSERT(base_size == sizeof(sqfs_inode_generic_t) &&
		     item_size == 1 && nmemb <= PAYLOAD, "C03.dir.env.alloc_pre");
	g_allocs += 1;
	g_alloc_nmemb = nmemb;
	if (verif_nd_bool("alloc_fails"))
		return NULL;
	return &g_ino.ino;	/* static: zeroed like calloc */
}

int array_set_capacity(array_t *a, size_t c) { (void)a; (void)c; return SQFS_ERROR_ALLOC; }
int array_init(array_t *a, size_t s, size_t c) { (void)a; (void)s; (void)c; return SQFS_ERROR_ALLOC; }
void array_cleanup(array_t *a) { (void)a; }
int sqfs_meta_writer_append(sqfs_meta_writer_t *m, const void *d, size_t n) { (void)m; (void)d; (void)n; return SQFS_ERROR_IO; }
void sqfs_meta_writer_get_position(const sqfs_meta_writer_t *m, sqfs_u64 *b, sqfs_u32 *o) { (void)m; *b = 0; *o = 0; }
int sqfs_write_table(sqfs_file_t *f, sqfs_compressor_t *c, const void *d, size_t n, sqfs_u64 *s)
{ (void)f; (void)c; (void)d; (void)n; (void)s; return SQFS_ERROR_IO; }

void harness(void)
{
	size_t hlinks = verif_nd_size("hlinks"), i, k, pos, want = 0;
	sqfs_u32 xattr = verif_nd_u32("xattr"), parent = verif_nd_u32("parent");
	sqfs_inode_generic_t *ino;
	sqfs_u64 start_block;
	bool ext, idx_ok = true;
	const sqfs_u8 *p;

	for (i = 0; i < NIDX; ++i) {
		g_nodes[i]->e.name_len = g_lens[i];
		verif_nd_bytes(g_nodes[i]->name, NAMEMAX, "name");
		g_idx[i]->next = i + 1 < NIDX ? g_idx[i + 1] : NULL;
		g_idx[i]->ent = &g_nodes[i]->e;
		g_idx[i]->block = verif_nd_u64("idx_block");
		VERIF_ASSUME(g_idx[i]->block <= 0xFFFFFFFFu);
		g_idx[i]->index = verif_nd_u32("idx_index");
		want += sizeof(sqfs_dir_index_t) + g_lens[i];
	}
	g_w.base.refcount = 1;
	g_w.idx = NIDX > 0 ? g_idx[0] : NULL;
	g_w.idx_end = NIDX > 0 ? g_idx[NIDX - 1] : NULL;
	g_w.dir_ref = verif_nd_u64("dir_ref");
	start_block = g_w.dir_ref >> 16;
	VERIF_ASSUME(start_block <= 0xFFFFFFFFu);
	g_w.dir_size = verif_nd_size("dir_size");
	VERIF_ASSUME(g_w.dir_size < 0xFFFFFFFFu - 3);
	g_w.ent_count = verif_nd_size("ent_count");
	VERIF_ASSUME(g_w.ent_count < ((size_t)1 << 31) &&
		     hlinks < ((size_t)1 << 31) - 2);

	ino = sqfs_dir_writer_create_inode(&g_w, hlinks, xattr, parent);

	VERIF_ASSERT(g_allocs == 1 && g_alloc_nmemb == want,
		     "C03.dir.inode_kind.index");
	if (ino == NULL) {
		VERIF_COVER(1);
		return;
	}
	VERIF_ASSERT(ino == &g_ino.ino &&
		     (ino->base.type == SQFS_INODE_DIR ||
		      ino->base.type == SQFS_INODE_EXT_DIR),
		     "C03.dir.inode_kind.ext_iff");
	ext = ino->base.type == SQFS_INODE_EXT_DIR;
	VERIF_ASSERT(ext == (xattr != 0xFFFFFFFFu ||
			     g_w.dir_size + 3 > 0xFFFF ||
			     g_w.ent_count >= 256), "C03.dir.inode_kind.ext_iff");
	VERIF_ASSERT(ino->payload_bytes_available == want,
		     "C03.dir.inode_kind.index");
	if (!ext) {
		VERIF_ASSERT(ino->data.dir.start_block == start_block &&
			     ino->data.dir.offset == (g_w.dir_ref & 0xFFFF) &&
			     ino->data.dir.size == g_w.dir_size + 3 &&
			     ino->data.dir.nlink == g_w.ent_count + hlinks + 2 &&
			     ino->data.dir.parent_inode == parent,
			     "C03.dir.inode_kind.fields");
		VERIF_COVER(NIDX == 0 ? g_w.dir_size == 0 : g_w.dir_size == 0xFFFC);
	} else {
		VERIF_ASSERT(ino->data.dir_ext.start_block == start_block &&
			     ino->data.dir_ext.offset == (g_w.dir_ref & 0xFFFF) &&
			     ino->data.dir_ext.size == g_w.dir_size + 3 &&
			     ino->data.dir_ext.nlink == g_w.ent_count + hlinks + 2 &&
			     ino->data.dir_ext.parent_inode == parent &&
			     ino->data.dir_ext.xattr_idx == xattr,
			     "C03.dir.inode_kind.fields");
		VERIF_ASSERT(ino->data.dir_ext.inodex_count == NIDX &&
			     ino->payload_bytes_used == want,
			     "C03.dir.inode_kind.index");
		p = (const sqfs_u8 *)ino->extra;
		pos = 0;
		for (i = 0; i < NIDX; ++i) {
			sqfs_dir_index_t rec;

			memcpy(&rec, p + pos, sizeof(rec));
			if (rec.index != g_idx[i]->index ||
			    rec.start_block != g_idx[i]->block ||
			    rec.size + 1 != g_lens[i])
				idx_ok = false;
			for (k = 0; k < NAMEMAX; ++k)
				if (k < g_lens[i] &&
				    p[pos + sizeof(rec) + k] !=
				    ((const sqfs_u8 *)g_nodes[i]->name)[k])
					idx_ok = false;
			pos += sizeof(rec) + g_lens[i];
		}
		VERIF_ASSERT(idx_ok, "C03.dir.inode_kind.index");
		VERIF_COVER(xattr == 0xFFFFFFFFu && g_w.ent_count < 256);
		VERIF_COVER(xattr == 0xFFFFFFFFu && g_w.dir_size + 3 <= 0xFFFF);
	}
}
