/* C03.frag.table: sqfs_frag_table_write (lib/sqfs/src/frag_table.c), every
 * table of 0..2^28 fragments with arbitrary entries, every super block.
 * The scan loop is closed by a loop contract; sqfs_write_table is replaced by
 * its contract.
 *
 *  C03.frag.table.empty     no fragments: table start = "absent" sentinel,
 *                           NO_FRAGMENTS set, ALWAYS/UNCOMPRESSED_FRAGMENTS
 *                           clear, nothing written
 *  C03.frag.table.bytes     otherwise one table of 16 * count bytes from the
 *                           fragment array, start stored in the super block
 *  C03.frag.table.count     fragment_entry_count == count, no truncation
 *  C03.frag.table.flags     NO_FRAGMENTS clear, ALWAYS_FRAGMENTS set,
 *                           UNCOMPRESSED_FRAGMENTS set => every entry
 *                           (witness) has the uncompressed bit, no other flag
 *                           bit changes
 *  C03.frag.table.error     write failure is returned, count not announced
 */
#include <stdlib.h>
#include "verif.h"
size_t g_fr_w;
unsigned g_fr_flags;
#ifdef VERIF_REPLAY
#define __CPROVER_loop_invariant(...)
#define __CPROVER_decreases(...)
#endif
#include "lib/sqfs/src/frag_table.c"

static sqfs_file_t g_file;
static sqfs_compressor_t g_cmp;
unsigned g_wt_calls;
const void *g_wt_data;
size_t g_wt_size;
sqfs_u64 g_wt_start, *g_wt_startp;
int g_wt_ret;

int sqfs_write_table(sqfs_file_t *file, sqfs_compressor_t *cmp,
		     const void *data, size_t table_size, sqfs_u64 *start)
{
	VERIF_ASSERT(file == &g_file && cmp == &g_cmp && start != NULL &&
		     VERIF_R_OK(data, table_size),
		     "C03.frag.env.write_table_pre");
	g_wt_calls += 1;
	g_wt_data = data;
	g_wt_size = table_size;
	g_wt_startp = start;
	g_wt_ret = 0;
	if (verif_nd_bool("write_table_fails")) {
		g_wt_ret = verif_nd_int("write_table_err");
		VERIF_ASSUME(g_wt_ret < 0);
		return g_wt_ret;
	}
	g_wt_start = verif_nd_u64("table_start");
	*start = g_wt_start;
	return 0;
}

int array_append(array_t *a, const void *d) { (void)a; (void)d; return SQFS_ERROR_ALLOC; }
int array_init(array_t *a, size_t s, size_t c) { (void)a; (void)s; (void)c; return SQFS_ERROR_ALLOC; }
int array_init_copy(array_t *a, const array_t *s) { (void)a; (void)s; return SQFS_ERROR_ALLOC; }
void array_cleanup(array_t *a) { (void)a; }
int sqfs_read_table(sqfs_file_t *f, sqfs_compressor_t *c, size_t n, sqfs_u64 l,
		    sqfs_u64 lo, sqfs_u64 up, void **out)
{ (void)f; (void)c; (void)n; (void)l; (void)lo; (void)up; (void)out; return SQFS_ERROR_IO; }

void harness(void)
{
	sqfs_frag_table_t tbl;
	sqfs_super_t super;
	sqfs_fragment_t *frags;
	sqfs_u16 flags0;
	sqfs_u32 count0;
	sqfs_u64 start0;
	size_t used, cap;
	int ret;

	g_wt_calls = 0;
	g_wt_ret = 0;
	used = verif_nd_size("used");
	VERIF_ASSUME(used <= ((size_t)1 << 28));
	cap = verif_nd_size("capacity");
	VERIF_ASSUME(cap >= used && cap <= ((size_t)1 << 29));
	frags = malloc(cap * sizeof(*frags));
	VERIF_ASSUME(frags != NULL);
	tbl.base.refcount = 1;
	tbl.table.size = sizeof(sqfs_fragment_t);
	tbl.table.count = cap;
	tbl.table.used = used;
	tbl.table.data = frags;
	g_fr_w = verif_nd_size("w");

	super.flags = flags0 = verif_nd_u16("flags");
	super.fragment_entry_count = count0 = verif_nd_u32("count0");
	super.fragment_table_start = start0 = verif_nd_u64("start0");
	/* the flag word with the three bits the function owns set as the
	 * non-empty branch leaves them before the scan */
	g_fr_flags = (flags0 & ~(SQFS_FLAG_NO_FRAGMENTS |
				 SQFS_FLAG_UNCOMPRESSED_FRAGMENTS)) |
		SQFS_FLAG_ALWAYS_FRAGMENTS;

	ret = sqfs_frag_table_write(&tbl, &g_file, &super, &g_cmp);

	if (used == 0) {
		VERIF_ASSERT(ret == 0 && g_wt_calls == 0 &&
			     super.fragment_table_start == 0xFFFFFFFFFFFFFFFFULL &&
			     (super.flags & SQFS_FLAG_NO_FRAGMENTS) &&
			     !(super.flags & (SQFS_FLAG_ALWAYS_FRAGMENTS |
					      SQFS_FLAG_UNCOMPRESSED_FRAGMENTS)) &&
			     ((super.flags ^ flags0) &
			      ~(SQFS_FLAG_NO_FRAGMENTS | SQFS_FLAG_ALWAYS_FRAGMENTS |
				SQFS_FLAG_UNCOMPRESSED_FRAGMENTS)) == 0,
			     "C03.frag.table.empty");
		VERIF_COVER(1);
		return;
	}
	VERIF_ASSERT(g_wt_calls == 1 && g_wt_data == (const void *)frags &&
		     g_wt_size == sizeof(sqfs_fragment_t) * used &&
		     g_wt_startp == &super.fragment_table_start,
		     "C03.frag.table.bytes");
	VERIF_ASSERT(ret == g_wt_ret, "C03.frag.table.error");
	if (ret != 0) {
		VERIF_ASSERT(super.fragment_entry_count == count0 &&
			     super.flags == flags0, "C03.frag.table.error");
		VERIF_COVER(1);
		return;
	}
	VERIF_ASSERT(super.fragment_table_start == g_wt_start,
		     "C03.frag.table.bytes");
	VERIF_ASSERT((size_t)super.fragment_entry_count == used,
		     "C03.frag.table.count");
	VERIF_ASSERT(!(super.flags & SQFS_FLAG_NO_FRAGMENTS) &&
		     (super.flags & SQFS_FLAG_ALWAYS_FRAGMENTS) &&
		     (unsigned)(super.flags & ~SQFS_FLAG_UNCOMPRESSED_FRAGMENTS)
		     == g_fr_flags, "C03.frag.table.flags");
	if ((super.flags & SQFS_FLAG_UNCOMPRESSED_FRAGMENTS) && g_fr_w < used)
		VERIF_ASSERT(!SQFS_IS_BLOCK_COMPRESSED(frags[g_fr_w].size),
			     "C03.frag.table.flags");
	VERIF_COVER((super.flags & SQFS_FLAG_UNCOMPRESSED_FRAGMENTS) && used > 3 && cap > used);
	VERIF_COVER(!(super.flags & SQFS_FLAG_UNCOMPRESSED_FRAGMENTS) && used > 3);
}
