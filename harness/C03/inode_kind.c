/* C03.inode.kind: sqfs_inode_make_basic / make_extended / set_file_size /
 * set_file_block_start / set_xattr_index (lib/sqfs/src/inode.c), loop-free,
 * full domain of field values; the inode type is a concrete case (-DTYPE,
 * all 14 types + one run for every invalid tag). Postconditions are stated
 * on a layout-independent "logical view" of the inode written from
 * doc/format.adoc (basic file: nlink 1, not sparse; basic inodes: no xattr).
 *
 *  C03.inode.kind.values_preserved  converting between layouts changes no
 *                                   logical field (no truncation)
 *  C03.inode.kind.basic_iff_fits    after make_basic: basic <=> no xattr and
 *                                   every field fits the basic layout
 *  C03.inode.kind.extended          after make_extended: extended layout,
 *                                   xattr index = none if it had none
 *  C03.inode.kind.set_readback      set_file_size / set_file_block_start /
 *                                   set_xattr_index: the value reads back
 *                                   exactly, nothing else changes, and a
 *                                   basic result holds only fitting values
 *  C03.inode.kind.status            0 for valid tags (NOT_FILE for the file
 *                                   setters on non-files), CORRUPTED else,
 *                                   and then nothing is modified
 * requires: extended file inodes have nlink >= 1 (format: link count).
 */
#include <string.h>
#include "verif.h"
#include "lib/sqfs/src/inode.c"

#ifndef TYPE
#define TYPE 9
#endif

#define NONE 0xFFFFFFFFu

/* not reachable from the functions under test; keeps the native link whole */
int sqfs_id_table_index_to_id(const sqfs_id_table_t *tbl, sqfs_u16 index,
			      sqfs_u32 *out)
{ (void)tbl; (void)index; (void)out; return SQFS_ERROR_OUT_OF_BOUNDS; }

typedef struct {
	int kind, ext;
	sqfs_u64 nlink, size, start_block, parent, offset;
	sqfs_u64 blocks_start, file_size, sparse, frag_idx, frag_off;
	sqfs_u64 xattr, devno, target_size;
} view_t;

static int view(const sqfs_inode_generic_t *n, view_t *v)
{
	memset(v, 0, sizeof(*v));
	v->xattr = NONE;
	switch (n->base.type) {
	case SQFS_INODE_DIR:
		v->kind = SQFS_INODE_DIR;
		v->nlink = n->data.dir.nlink; v->size = n->data.dir.size;
		v->start_block = n->data.dir.start_block;
		v->parent = n->data.dir.parent_inode;
		v->offset = n->data.dir.offset;
		break;
	case SQFS_INODE_EXT_DIR:
		v->kind = SQFS_INODE_DIR; v->ext = 1;
		v->nlink = n->data.dir_ext.nlink; v->size = n->data.dir_ext.size;
		v->start_block = n->data.dir_ext.start_block;
		v->parent = n->data.dir_ext.parent_inode;
		v->offset = n->data.dir_ext.offset;
		v->xattr = n->data.dir_ext.xattr_idx;
		break;
	case SQFS_INODE_FILE:
		v->kind = SQFS_INODE_FILE;
		v->nlink = 1;
		v->blocks_start = n->data.file.blocks_start;
		v->file_size = n->data.file.file_size;
		v->frag_idx = n->data.file.fragment_index;
		v->frag_off = n->data.file.fragment_offset;
		break;
	case SQFS_INODE_EXT_FILE:
		v->kind = SQFS_INODE_FILE; v->ext = 1;
		v->nlink = n->data.file_ext.nlink;
		v->blocks_start = n->data.file_ext.blocks_start;
		v->file_size = n->data.file_ext.file_size;
		v->sparse = n->data.file_ext.sparse;
		v->frag_idx = n->data.file_ext.fragment_idx;
		v->frag_off = n->data.file_ext.fragment_offset;
		v->xattr = n->data.file_ext.xattr_idx;
		break;
	case SQFS_INODE_SLINK:
		v->kind = SQFS_INODE_SLINK;
		v->nlink = n->data.slink.nlink;
		v->target_size = n->data.slink.target_size;
		break;
	case SQFS_INODE_EXT_SLINK:
		v->kind = SQFS_INODE_SLINK; v->ext = 1;
		v->nlink = n->data.slink_ext.nlink;
		v->target_size = n->data.slink_ext.target_size;
		v->xattr = n->data.slink_ext.xattr_idx;
		break;
	case SQFS_INODE_BDEV:
	case SQFS_INODE_CDEV:
		v->kind = n->base.type;
		v->nlink = n->data.dev.nlink; v->devno = n->data.dev.devno;
		break;
	case SQFS_INODE_EXT_BDEV:
	case SQFS_INODE_EXT_CDEV:
		v->kind = n->base.type - 7; v->ext = 1;
		v->nlink = n->data.dev_ext.nlink;
		v->devno = n->data.dev_ext.devno;
		v->xattr = n->data.dev_ext.xattr_idx;
		break;
	case SQFS_INODE_FIFO:
	case SQFS_INODE_SOCKET:
		v->kind = n->base.type;
		v->nlink = n->data.ipc.nlink;
		break;
	case SQFS_INODE_EXT_FIFO:
	case SQFS_INODE_EXT_SOCKET:
		v->kind = n->base.type - 7; v->ext = 1;
		v->nlink = n->data.ipc_ext.nlink;
		v->xattr = n->data.ipc_ext.xattr_idx;
		break;
	default:
		return -1;
	}
	return 0;
}

static bool same_values(const view_t *a, const view_t *b)
{
	return a->kind == b->kind && a->nlink == b->nlink &&
		a->size == b->size && a->start_block == b->start_block &&
		a->parent == b->parent && a->offset == b->offset &&
		a->blocks_start == b->blocks_start &&
		a->file_size == b->file_size && a->sparse == b->sparse &&
		a->frag_idx == b->frag_idx && a->frag_off == b->frag_off &&
		a->xattr == b->xattr && a->devno == b->devno &&
		a->target_size == b->target_size;
}

static bool fits_basic(const view_t *a)
{
	if (a->xattr != NONE)
		return false;
	if (a->kind == SQFS_INODE_DIR)
		return a->size <= 0xFFFF;
	if (a->kind == SQFS_INODE_FILE)
		return a->blocks_start <= 0xFFFFFFFFu &&
			a->file_size <= 0xFFFFFFFFu && a->sparse == 0 &&
			a->nlink <= 1;
	return true;
}

static sqfs_inode_generic_t ino, before;

static void fill(void)
{
	/* every byte of the union arbitrary first (stale bytes of a larger
	 * layout), then the members of the layout in use */
	ino.data.file_ext.blocks_start = verif_nd_u64("u0");
	ino.data.file_ext.file_size = verif_nd_u64("u1");
	ino.data.file_ext.sparse = verif_nd_u64("u2");
	ino.data.file_ext.nlink = verif_nd_u32("u3");
	ino.data.file_ext.fragment_idx = verif_nd_u32("u4");
	ino.data.file_ext.fragment_offset = verif_nd_u32("u5");
	ino.data.file_ext.xattr_idx = verif_nd_u32("u6");
	ino.base.mode = verif_nd_u16("mode");
	ino.base.uid_idx = verif_nd_u16("uid");
	ino.base.gid_idx = verif_nd_u16("gid");
	ino.base.mod_time = verif_nd_u32("mtime");
	ino.base.inode_number = verif_nd_u32("ino");
	ino.payload_bytes_available = 0;
	ino.payload_bytes_used = 0;
#if TYPE >= 1 && TYPE <= 14
	ino.base.type = TYPE;
#else
	ino.base.type = verif_nd_u16("type");
	VERIF_ASSUME(ino.base.type < 1 || ino.base.type > 14);
#endif
#if TYPE == 1
	ino.data.dir.start_block = verif_nd_u32("a");
	ino.data.dir.nlink = verif_nd_u32("b");
	ino.data.dir.size = verif_nd_u16("c");
	ino.data.dir.offset = verif_nd_u16("d");
	ino.data.dir.parent_inode = verif_nd_u32("e");
#elif TYPE == 8
	ino.data.dir_ext.nlink = verif_nd_u32("a");
	ino.data.dir_ext.size = verif_nd_u32("b");
	ino.data.dir_ext.start_block = verif_nd_u32("c");
	ino.data.dir_ext.parent_inode = verif_nd_u32("d");
	ino.data.dir_ext.inodex_count = 0;
	ino.data.dir_ext.offset = verif_nd_u16("e");
	ino.data.dir_ext.xattr_idx = verif_nd_u32("f");
#elif TYPE == 2
	ino.data.file.blocks_start = verif_nd_u32("a");
	ino.data.file.fragment_index = verif_nd_u32("b");
	ino.data.file.fragment_offset = verif_nd_u32("c");
	ino.data.file.file_size = verif_nd_u32("d");
#elif TYPE == 9
	VERIF_ASSUME(ino.data.file_ext.nlink >= 1);
#elif TYPE == 3
	ino.data.slink.nlink = verif_nd_u32("a");
	ino.data.slink.target_size = verif_nd_u32("b");
#elif TYPE == 10
	ino.data.slink_ext.nlink = verif_nd_u32("a");
	ino.data.slink_ext.target_size = verif_nd_u32("b");
	ino.data.slink_ext.xattr_idx = verif_nd_u32("c");
#elif TYPE == 4 || TYPE == 5
	ino.data.dev.nlink = verif_nd_u32("a");
	ino.data.dev.devno = verif_nd_u32("b");
#elif TYPE == 11 || TYPE == 12
	ino.data.dev_ext.nlink = verif_nd_u32("a");
	ino.data.dev_ext.devno = verif_nd_u32("b");
	ino.data.dev_ext.xattr_idx = verif_nd_u32("c");
#elif TYPE == 6 || TYPE == 7
	ino.data.ipc.nlink = verif_nd_u32("a");
#elif TYPE == 13 || TYPE == 14
	ino.data.ipc_ext.nlink = verif_nd_u32("a");
	ino.data.ipc_ext.xattr_idx = verif_nd_u32("b");
#endif
}

#define VALID (TYPE >= 1 && TYPE <= 14)
#define ISFILE (TYPE == 2 || TYPE == 9)
#define ISEXT (TYPE >= 8 && TYPE <= 14)
/* cover points must be reachable in every case: state them per layout */
#define COVER_IF(applies, c) VERIF_COVER(!(applies) || (c))

void harness(void)
{
	view_t a, b;
	int op = verif_nd_u8("op") % 5, ret, va, vb;
	sqfs_u64 arg = verif_nd_u64("arg");

	fill();
	before = ino;
	va = view(&ino, &a);

	switch (op) {
	case 0:
		ret = sqfs_inode_make_basic(&ino);
		vb = view(&ino, &b);
#if VALID
		{
			VERIF_ASSERT(ret == 0 && va == 0 && vb == 0,
				     "C03.inode.kind.status");
			VERIF_ASSERT(same_values(&a, &b),
				     "C03.inode.kind.values_preserved");
			VERIF_ASSERT((b.ext == 0) == fits_basic(&a),
				     "C03.inode.kind.basic_iff_fits");
			COVER_IF(ISEXT, a.ext == 1 && b.ext == 0);
			COVER_IF(ISEXT, a.ext == 1 && b.ext == 1);
			COVER_IF(!ISEXT, b.ext == 0);
		}
#endif
		break;
	case 1:
		ret = sqfs_inode_make_extended(&ino);
		vb = view(&ino, &b);
#if VALID
		{
			VERIF_ASSERT(ret == 0 && vb == 0,
				     "C03.inode.kind.status");
			VERIF_ASSERT(same_values(&a, &b),
				     "C03.inode.kind.values_preserved");
			VERIF_ASSERT(b.ext == 1, "C03.inode.kind.extended");
			COVER_IF(!ISEXT, a.ext == 0 && b.ext == 1);
			COVER_IF(ISEXT, a.ext == 1 && b.ext == 1);
		}
#endif
		break;
	case 2:
		ret = sqfs_inode_set_file_size(&ino, arg);
		vb = view(&ino, &b);
#if VALID && ISFILE
		VERIF_ASSERT(ret == 0 && vb == 0, "C03.inode.kind.status");
		a.file_size = arg;
		VERIF_ASSERT(same_values(&a, &b), "C03.inode.kind.set_readback");
		VERIF_COVER(b.ext == 0);
		VERIF_COVER(b.ext == 1 && arg > 0xFFFFFFFFu);
#elif VALID
		VERIF_ASSERT(ret == SQFS_ERROR_NOT_FILE, "C03.inode.kind.status");
		VERIF_COVER(ret == SQFS_ERROR_NOT_FILE);
#endif
		break;
	case 3:
		ret = sqfs_inode_set_file_block_start(&ino, arg);
		vb = view(&ino, &b);
#if VALID && ISFILE
		VERIF_ASSERT(ret == 0 && vb == 0, "C03.inode.kind.status");
		a.blocks_start = arg;
		VERIF_ASSERT(same_values(&a, &b), "C03.inode.kind.set_readback");
		VERIF_COVER(b.ext == 0);
		VERIF_COVER(b.ext == 1 && arg > 0xFFFFFFFFu);
#elif VALID
		VERIF_ASSERT(ret == SQFS_ERROR_NOT_FILE, "C03.inode.kind.status");
		VERIF_COVER(ret == SQFS_ERROR_NOT_FILE);
#endif
		break;
	default:
		ret = sqfs_inode_set_xattr_index(&ino, (sqfs_u32)arg);
		vb = view(&ino, &b);
#if VALID
		{
			VERIF_ASSERT(ret == 0 && vb == 0,
				     "C03.inode.kind.status");
			if ((sqfs_u32)arg != NONE || a.ext)
				a.xattr = (sqfs_u32)arg;
			VERIF_ASSERT(same_values(&a, &b),
				     "C03.inode.kind.set_readback");
			VERIF_ASSERT(b.ext == 1 || b.xattr == NONE,
				     "C03.inode.kind.extended");
			VERIF_COVER(b.ext == 1 && (sqfs_u32)arg != NONE);
			COVER_IF(!ISEXT, b.ext == 0);
		}
#endif
		break;
	}

#if !VALID
	{
		VERIF_ASSERT(va == -1, "C03.inode.kind.status");
		if (op != 2 && op != 3)
			VERIF_ASSERT(ret == SQFS_ERROR_CORRUPTED,
				     "C03.inode.kind.status");
		else
			VERIF_ASSERT(ret == SQFS_ERROR_NOT_FILE,
				     "C03.inode.kind.status");
		VERIF_ASSERT(memcmp(&before, &ino, sizeof(ino)) == 0,
			     "C03.inode.kind.status");
		VERIF_COVER(ret == SQFS_ERROR_CORRUPTED);
	}
#endif
	VERIF_COVER(op == 0);
	VERIF_COVER(op == 4);
}
