PROPERTY = "C03"
LEVEL = "proof"
FUNCTIONS = ["get_conseq_entry_count"]
TRUSTED = []
ASSUMPTIONS = []
EXPLANATION = ""
FP = {"do_block": "stub_do_block", "write_at": "stub_write_at",
      "get_size": "stub_get_size", "destroy": "stub_destroy", "copy": "stub_copy"}

HARNESSES = [
    dict(name="meta_flush", file="meta_flush.c", label="proved", fp=FP,
         unwind=34, malloc_fail=True, timeout=170,
         cases=[dict(id="all", tier="quick")]),
    dict(name="inode_kind", file="inode_kind.c", label="proved", unwind=70,
         nochecks=["--conversion-check"], timeout=120,
         cases=[dict(id="type%d" % t, defines={"TYPE": t}, tier="quick")
                for t in range(0, 15)]),
    dict(name="dir_run", file="dir_run.c", loops=["get_conseq_entry_count"],
         label="proved", unwind=259, timeout=600,
         cases=[dict(id="all", tier="quick")]),
]
