PROPERTY = "C03"
LEVEL = "proof"
FUNCTIONS = [
    "get_conseq_entry_count", "sqfs_dir_writer_add_entry", "sqfs_dir_writer_end",
    "add_header", "sqfs_dir_writer_create_inode", "add_export_table_entry",
    "sqfs_dir_writer_write_export_table",
    "sqfs_meta_writer_flush", "write_block (meta_writer.c)", "sqfs_meta_writer_append",
    "sqfs_inode_make_basic", "sqfs_inode_make_extended", "sqfs_inode_set_file_size",
    "sqfs_inode_set_file_block_start", "sqfs_inode_set_xattr_index",
    "sqfs_inode_get_xattr_index",
    "sqfs_id_table_id_to_index", "sqfs_id_table_write",
    "sqfs_frag_table_write", "sqfs_write_table",
    "gzip_do_block", "find_strategy", "xz_comp_block", "compress (xz.c)",
    "lz4_comp_block", "zstd_comp_block", "lzma_comp_block", "try_compress (lzma.c)",
    "alloc_location_table", "write_id_table (xattr_writer_flush.c)",
    "padd_sqfs",
    "serialize_tree_node (non-directory nodes)", "tree_node_to_inode",
    "dequeue_block", "store_io_block", "process_completed_fragment (fragment block overflow path)",
    "fstree_post_process", "alloc_inode_num_dfs", "map_inodes_dfs",
    "reorder_hard_links", "file_list_dfs",
]
TRUSTED = [
    "codec libraries (harness/C03/comp.c): deflate/deflateReset/deflateParams, lzma_stream_buffer_encode, lzma_alone_encoder/lzma_code, LZ4_compress_default/_HC, ZSTD_compressCCtx never produce more than the given capacity, return documented status codes only; a finished .lzma stream has at least its 13 byte header",
    "compressor do_block as seen by the meta writer (c03_env.h): r < 0, or 0 <= r <= min(size, outsize) - the r <= size clause is what comp.c proves for the in-tree back ends (fails for lz4 on the unchanged tree, see proposed_known_findings.json)",
    "sqfs_file_t contract (c03_env.h, write_table.c, finish_pad.c): get_size returns the tracked size; write_at fails or sets size = max(size, off + n)",
    "meta writer as seen by sqfs_write_table / write_id_table / sqfs_dir_writer_end: append accepts the bytes or fails; a block is emitted (file grows by 3..8194 bytes, position moves to the next block) exactly when 8192 bytes are buffered; flush emits the rest",
    "sqfs_write_table as seen by the id / fragment / export table writers: fails, or writes the table and reports the start of its location list",
    "array_append / array_set_capacity (lib/util/src/array.c): fail and leave the array alone, or append in place / provide at least the requested capacity keeping the old elements",
    "alloc_flex / alloc_array / calloc: NULL or zeroed memory of the requested size; memcpy/memset/strlen: libc contracts (bounds asserted at every call, effect = recorded arguments for copies > 32 bytes)",
    "fstree_resolve_hard_links (post_dense.c): fails, or leaves every hard link node with its target_node set to a non-directory, non-link node",
    "get_conseq_entry_count as seen by sqfs_dir_writer_end (dir_end.c): its contract proved in dir_run.c",
]
ASSUMPTIONS = [
    "machine model: LP64 little endian; unsigned -> signed conversions are modular (gcc): get_conseq_entry_count and sqfs_dir_writer_end rely on it for the inode number delta (conversion check off there, the value obligations replace it)",
    "get_conseq_entry_count: per-entry facts (same_block, delta_fits) for every list are proved only in the thorough tier (dir_run:n257_wit, 5 min SAT); one_block / maximal only for lists <= 16 entries",
    "dir_end / dir_inode: <= 3 entries / headers, names <= 4 bytes; inode references < 2^48, directory table < 4 GiB, listing < 4 GiB (field widths; sqfs_dir_writer_create_inode would truncate a start block >= 2^32 silently although it selects the extended layout for it - latent, not reachable below a 4 GiB directory table)",
    "inodex_count is a 16 bit field: directories with more than 65535 headers are outside the bounded harness",
    "fragment count < 2^28 in frag_write (fragment_entry_count and the index returned by sqfs_frag_table_append are 32 bit; >= 2^32 fragments would truncate, not reachable below 2^32 fragment blocks)",
    "id table: the 65535 bound is the invariant checked at sqfs_id_table_id_to_index (C03.ids.count_fits) and assumed at sqfs_id_table_write",
    "xattr id table: per-set pair count and byte size fit 32 bit; the number of sets is one of {1,2,511,512,513,1024,1025}; on-disk size of an emitted block is 3 or 8194 (concrete cases)",
    "padding: device block size is a power of two 2^0..2^32 (plus 3000 for images < 16 MiB); super.bytes_used = file size at super block time is C14.finish.bytes_used; order of the table stages and 'tables inside bytes_used' are C14.finish.* (not repeated here)",
    "post_process: all tree shapes up to 5 nodes and every 16th shape with 6 nodes, at most 2 hard links, targets = regular files; tree depth/width beyond that are covered by no run",
    "compressor option fields within the ranges their create functions validate; codec output bytes are not modelled",
    "not covered: superblock field consistency beyond id/fragment/export fields (C14), data block contiguity (C02/C14), sortedness of directory listings (C11 insert_sorted), write_inode byte layout (C01), validity as judged by the Linux kernel",
]
EXPLANATION = ("each on-disk invariant of the statement is attached to the function that establishes it: "
               "run limits and header/entry encoding (dir_writer.c), metadata block header (meta_writer.c), "
               "basic/extended inode choice without truncation (inode.c), id/fragment/export/xattr table "
               "sizes and references (id_table.c, frag_table.c, write_table.c, xattr_writer_flush.c), "
               "'compressed result not larger than the input' for the five back ends (comp/*.c), padding "
               "(finish.c) and dense inode numbering (post_process.c). Loop-free functions and loops closed "
               "by loop contracts / unwound to a code constant are proved for the full value domain; "
               "list- and tree-shaped inputs are enumerated shapes with symbolic values (bounded).")

import itertools


def _shapes(n, maxlinks=2, kinds="DFL"):
    """every rooted ordered tree with n nodes: node 0 is the root directory,
    node i > 0 hangs below an earlier directory and is an (empty or not)
    directory, a file or a hard link to any file of the tree."""
    res = []

    def rec(i, parents, ks):
        if i == n:
            links = [j for j in range(n) if ks[j] == 'L']
            files = [j for j in range(n) if ks[j] in 'FO']
            if len(links) > maxlinks or (links and not files):
                return
            for combo in itertools.product(files, repeat=len(links)):
                t = [0] * n
                for l, c in zip(links, combo):
                    t[l] = c
                res.append((tuple(parents), "".join(ks), tuple(t)))
            return
        for p in range(i):
            if ks[p] != 'D':
                continue
            for k in kinds:
                rec(i + 1, parents + [p], ks + [k])
    rec(1, [0], ['D'])
    return res


def _shape_case(sh, tier, extra=None):
    parents, kinds, targets = sh
    n = len(kinds)
    d = {"NN": n}
    for i in range(n):
        d["K%d" % i] = "'%s'" % kinds[i]
        if i > 0:
            d["P%d" % i] = parents[i]
        if kinds[i] == 'L':
            d["T%d" % i] = targets[i]
    cid = kinds + "_" + "".join(str(p) for p in parents[1:]) + \
        ("_t" + "".join(str(targets[i]) for i in range(n) if kinds[i] == 'L')
         if 'L' in kinds else "")
    if extra:
        d.update(extra)
        cid += "_" + "_".join(k.lower() for k in extra)
    return dict(id=cid, defines=d, tier=tier)


_POST_CASES = []
for _n in range(1, 5):
    _POST_CASES += [_shape_case(sh, "quick") for sh in _shapes(_n)]
_POST_CASES += [_shape_case(sh, "thorough") for sh in _shapes(5)]
_six = _shapes(6)
_POST_CASES += [_shape_case(sh, "thorough") for sh in _six[7::16]]
# two hard links whose targets are both numbered after them (both are moved by
# reorder_hard_links, the second move sees the numbering the first one left):
# the smallest shapes on which a stale index in that loop shows (seed C03-6);
# every third of the 422 such 6-node shapes in the quick tier, all in thorough
_six2 = [sh for sh in _six if sh[1].count('L') == 2 and
         all(sh[2][i] > i for i in range(6) if sh[1][i] == 'L')]
_seen = set(c["id"] for c in _POST_CASES)
for _i, _sh in enumerate(_six2):
    _c = _shape_case(_sh, "quick" if _i % 3 == 0 else "thorough")
    if _c["id"] not in _seen:
        _POST_CASES.append(_c)
        _seen.add(_c["id"])
# the probe shape of DESIGN 2.4, a deep chain and a fifo in place of a file
_POST_CASES += [
    _shape_case(((0, 0, 0, 1, 1, 1), "DDFFFL", (0, 0, 0, 0, 0, 2)), "quick"),
    _shape_case(((0, 0, 1, 2, 3, 0), "DDDDFL", (0, 0, 0, 0, 0, 4)), "quick"),
    _shape_case(((0, 0, 0, 1, 1, 0), "DDLOFL", (0, 0, 3, 0, 0, 4)), "quick"),
    _shape_case(((0, 0, 0, 1), "DDFL", (0, 0, 0, 2)), "quick", {"CALLOC_FAILS": None}),
]

FP = {"do_block": "stub_do_block", "write_at": "stub_write_at",
      "get_size": "stub_get_size", "destroy": "stub_destroy", "copy": "stub_copy"}

HARNESSES = [
    dict(name="meta_flush", file="meta_flush.c", label="proved", fp=FP,
         unwind=34, malloc_fail=True, timeout=600,
         cases=[dict(id="all", tier="quick")]),
    dict(name="meta_append", file="meta_append.c", label="proved", fp=FP,
         loops=["sqfs_meta_writer_append"], timeout=900, unwind=34,
         # meta_writer_destroy -> sqfs_drop -> destroy hook is a recursion
         # candidate that crashes the inliner of --apply-loop-contracts
         # ("Numeric exception"); it is not reachable from append
         pre_instrument_flags=["--replace-calls", "sqfs_meta_writer_flush:stub_flush",
                               "--remove-function-body", "meta_writer_destroy"],
         cases=[dict(id="all", tier="quick")]),
    dict(name="data_contig_deq", file="data_contig.c", timeout=900, unwind=5,
         label="bounded(blocks in pool <= 2)", nochecks=["--conversion-check"],
         include_dirs=["lib/sqfs/src/block_processor"],
         fp={"dequeue": "stub_pool_dequeue", "get_status": "stub_pool_status",
             "write_data_block": "stub_write_data_block"},
         pre_instrument_flags=["--replace-calls", "process_completed_block:stub_pcb",
                               "--replace-calls", "process_completed_fragment:stub_pcf"],
         cases=[dict(id="k%d%d" % (a, b), defines={"K0": a, "K1": b}, tier="quick")
                for (a, b) in ((1, 0), (3, 0), (4, 0), (1, 3), (3, 1), (1, 1), (2, 3), (4, 3))]),
    dict(name="data_contig_frag", file="data_contig.c", timeout=900, unwind=5,
         label="bounded(block size <= 8)", nochecks=["--conversion-check"],
         include_dirs=["lib/sqfs/src/block_processor"],
         fp={"dequeue": "stub_pool_dequeue", "get_status": "stub_pool_status",
             "write_data_block": "stub_write_data_block"},
         cases=[dict(id="overflow", defines={"OP_FRAGMENT": None, "K0": 4, "K1": 0},
                     tier="quick")]),
    dict(name="serialize_node", file="serialize_node.c", label="proved", timeout=900,
         unwind=4, nochecks=["--conversion-check"],
         include_dirs=["lib/common/src/writer"],
         cases=[dict(id="file_ext", defines={"KIND": "'F'", "FTYPE": 9}, tier="quick"),
                dict(id="file_basic", defines={"KIND": "'F'", "FTYPE": 2}, tier="quick"),
                dict(id="fifo", defines={"KIND": "'O'"}, tier="quick"),
                dict(id="bdev", defines={"KIND": "'B'"}, tier="quick")]),
    dict(name="inode_kind", file="inode_kind.c", label="proved", unwind=70,
         nochecks=["--conversion-check"], timeout=120,
         native_sources=["lib/util/src/alloc.c"],
         cases=[dict(id="type%d" % t, defines={"TYPE": t}, tier="quick")
                for t in range(0, 15)]),
    dict(name="ids_write", file="ids_write.c", label="proved", timeout=600,
         loops=["sqfs_id_table_write"], flags=["--arrays-uf-always"],
         cases=[dict(id="all", tier="quick")]),
    dict(name="write_table", file="write_table.c", label="proved", timeout=600,
         loops=["sqfs_write_table"], flags=["--arrays-uf-always"],
         fp={"get_size": "stub_get_size", "write_at": "stub_write_at",
             "destroy": "stub_mw_destroy"},
         cases=[dict(id="all", tier="quick")]),
    dict(name="frag_write", file="frag_write.c", label="proved", timeout=600,
         loops=["sqfs_frag_table_write"], flags=["--arrays-uf-always"],
         nochecks=["--conversion-check"],
         cases=[dict(id="all", tier="quick")]),
    dict(name="xattr_idtable", file="xattr_idtable.c",
         label="bounded(sets in {1,2,511,512,513,1024,1025})", timeout=2400,
         include_dirs=["lib/sqfs/src/xattr"], object_bits=12, weight=8,
         cases=[dict(id="n%d_g%d" % (n, g), defines={"NSETS": n, "GROW": g},
                     unwind=n + 2,
                     tier="quick" if (n, g) in ((1, 3), (512, 8194), (2, 3)) else "thorough")
                for n in (1, 2, 511, 512, 513, 1024, 1025) for g in (3, 8194)]),
    dict(name="dir_add", file="dir_add.c", label="proved", timeout=600, unwind=4,
         cases=[dict(id="all", tier="quick")]),
    dict(name="dir_end", file="dir_end.c", label="bounded(entries<=3,name<=4)",
         timeout=900, unwind=13, nochecks=["--conversion-check"],
         pre_instrument_flags=["--replace-calls", "get_conseq_entry_count:stub_conseq"],
         cases=[dict(id="r%d%d%d" % r,
                     defines=dict({"R0": r[0], "R1": r[1], "R2": r[2]},
                                  **({"L0": 1, "L1": 1, "L2": 2} if r == (1, 1, 1) else {})),
                     tier="quick" if sum(r) <= 2 or r == (2, 1, 0) else "thorough")
                for r in ((1, 0, 0), (2, 0, 0), (1, 1, 0), (3, 0, 0), (2, 1, 0),
                          (1, 2, 0), (1, 1, 1))]),
    dict(name="post_dense", file="post_dense.c", timeout=600, unwind=9,
         label="bounded(all tree shapes <= 5 nodes, <= 2 hard links; 6 nodes sampled)",
         include_dirs=["lib/fstree/src"], cases=_POST_CASES),
    dict(name="export_tbl", file="export_tbl.c", label="proved", timeout=600, unwind=4,
         flags=["--arrays-uf-always"],
         cases=[dict(id="add", defines={"OP_WRITE": 0}, tier="quick"),
                dict(id="write", defines={"OP_WRITE": 1}, tier="quick")]),
    dict(name="dir_inode", file="dir_inode.c", label="bounded(index<=3,name<=4)",
         timeout=600, unwind=14,
         cases=[dict(id="n%d" % n, defines={"NIDX": n}, tier="quick") for n in range(4)]),
    dict(name="finish_pad", file="finish_pad.c", timeout=900, unwind=4,
         label="bounded(devblksize = 2^k, k = 1..32)",
         fp={"get_size": "stub_get_size", "write_at": "stub_write_at"},
         cases=[dict(id="blk%d" % (1 << k), defines={"BLK": 1 << k},
                     tier="quick" if k in (10, 12, 16) else "thorough")
                for k in range(1, 33)] +   # k = 0: the cover points degenerate to constants (vacuity guard)
               # gensquashfs/tar2sqfs accept ANY --devblksz >= 1024, not only
               # powers of two (seed C03-5: `%` replaced by `& (blk - 1)`)
               [dict(id="blk%d_s%d" % (b, sb), defines={"BLK": b, "SIZEBITS": sb},
                     tier=t,
                     label="bounded(devblksize = %d, image < 2^%d)" % (b, sb))
                for b, sb, t in ((3000, 24, "quick"), (1536, 24, "quick"),
                                 (5000, 20, "quick"), (12288, 24, "thorough"),
                                 (1000000, 24, "thorough"), (3000, 32, "thorough"))]),
    dict(name="dir_run", file="dir_run.c", label="proved", timeout=9000,
         nochecks=["--conversion-check"], weight=20,
         cases=[dict(id="n257", defines={"DR_N": 257}, unwind=258, tier="quick",
                     flags=["--max-field-sensitivity-array-size", "300"]),
                dict(id="n257_wit", defines={"DR_N": 257, "DR_WIT": None},
                     unwind=258, tier="thorough", timeout=4000,
                     flags=["--max-field-sensitivity-array-size", "300"]),
                dict(id="blk_n8", defines={"DR_N": 8, "DR_BLK": None, "DR_WIT": None},
                     unwind=10, tier="quick", label="bounded(list<=8)", weight=2),
                dict(id="blk_n16", defines={"DR_N": 16, "DR_BLK": None, "DR_WIT": None},
                     unwind=18, tier="thorough", label="bounded(list<=16)", weight=2)]),
    dict(name="comp", file="comp.c", label="proved", unwind=12, timeout=900,
         include_dirs=["lib/sqfs/src/comp"],
         cases=[dict(id=c, defines={"COMP_" + c: None}, tier="quick")
                for c in ("gzip", "xz", "lz4", "zstd", "lzma")]),
    dict(name="ids_index", file="ids_index.c", label="proved", timeout=600,
         loops=["sqfs_id_table_id_to_index"], flags=["--arrays-uf-always"],
         cases=[dict(id="all", tier="quick")]),
]
