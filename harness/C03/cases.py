PROPERTY = "C03"
LEVEL = "proof"
FUNCTIONS = ["get_conseq_entry_count"]
TRUSTED = []
ASSUMPTIONS = []
EXPLANATION = ""
HARNESSES = [
    dict(name="dir_run", file="dir_run.c", loops=["get_conseq_entry_count"],
         label="proved", unwind=259, timeout=600,
         cases=[dict(id="all", tier="quick")]),
]
