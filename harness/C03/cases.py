PROPERTY = "C03"
LEVEL = "proof"
FUNCTIONS = ["get_conseq_entry_count"]
TRUSTED = []
ASSUMPTIONS = []
EXPLANATION = ""
FP = {"do_block": "stub_do_block", "write_at": "stub_write_at",
      "get_size": "stub_get_size", "destroy": "stub_destroy", "copy": "stub_copy"}

HARNESSES = [
    dict(name="meta_flush", file="meta_flush.c", label="proved", fp=FP,
         unwind=34, malloc_fail=True, timeout=170,
         cases=[dict(id="all", tier="quick")]),
    dict(name="inode_kind", file="inode_kind.c", label="proved", unwind=70,
         nochecks=["--conversion-check"], timeout=120,
         cases=[dict(id="type%d" % t, defines={"TYPE": t}, tier="quick")
                for t in range(0, 15)]),
    dict(name="ids_write", file="ids_write.c", label="proved", timeout=170,
         loops=["sqfs_id_table_write"], flags=["--arrays-uf-always"],
         cases=[dict(id="all", tier="quick")]),
    dict(name="write_table", file="write_table.c", label="proved", timeout=170,
         loops=["sqfs_write_table"], flags=["--arrays-uf-always"],
         fp={"get_size": "stub_get_size", "write_at": "stub_write_at",
             "destroy": "stub_mw_destroy"},
         cases=[dict(id="all", tier="quick")]),
    dict(name="frag_write", file="frag_write.c", label="proved", timeout=170,
         loops=["sqfs_frag_table_write"], flags=["--arrays-uf-always"],
         nochecks=["--conversion-check"],
         cases=[dict(id="all", tier="quick")]),
    dict(name="xattr_idtable", file="xattr_idtable.c",
         label="bounded(sets in {1,2,511,512,513,1024,1025})", timeout=900,
         include_dirs=["lib/sqfs/src/xattr"], object_bits=12, weight=8,
         cases=[dict(id="n%d_g%d" % (n, g), defines={"NSETS": n, "GROW": g},
                     unwind=n + 2,
                     tier="quick" if (n, g) in ((1, 3), (512, 8194), (513, 3)) else "thorough")
                for n in (1, 2, 511, 512, 513, 1024, 1025) for g in (3, 8194)]),
    dict(name="dir_add", file="dir_add.c", label="proved", timeout=170, unwind=4,
         cases=[dict(id="all", tier="quick")]),
    dict(name="dir_end", file="dir_end.c", label="bounded(entries<=3,name<=4)",
         timeout=300, unwind=13, nochecks=["--conversion-check"],
         pre_instrument_flags=["--replace-calls", "get_conseq_entry_count:stub_conseq"],
         cases=[dict(id="r%d%d%d" % r,
                     defines=dict({"R0": r[0], "R1": r[1], "R2": r[2]},
                                  **({"L0": 1, "L1": 1, "L2": 2} if r == (1, 1, 1) else {})),
                     tier="quick" if sum(r) <= 2 or r == (2, 1, 0) else "thorough")
                for r in ((1, 0, 0), (2, 0, 0), (1, 1, 0), (3, 0, 0), (2, 1, 0),
                          (1, 2, 0), (1, 1, 1))]),
    dict(name="dir_run", file="dir_run.c", label="proved", timeout=1200,
         nochecks=["--conversion-check"], weight=20,
         cases=[dict(id="n257", defines={"DR_N": 257}, unwind=258, tier="quick",
                     flags=["--max-field-sensitivity-array-size", "300"]),
                dict(id="blk_n8", defines={"DR_N": 8, "DR_BLK": None}, unwind=10,
                     tier="quick", label="bounded(list<=8)", weight=2),
                dict(id="blk_n16", defines={"DR_N": 16, "DR_BLK": None}, unwind=18,
                     tier="thorough", label="bounded(list<=16)", weight=2)]),
    dict(name="comp", file="comp.c", label="proved", unwind=12, timeout=300,
         include_dirs=["lib/sqfs/src/comp"],
         cases=[dict(id=c, defines={"COMP_" + c: None}, tier="quick")
                for c in ("gzip", "xz", "lz4", "zstd", "lzma")]),
    dict(name="ids_index", file="ids_index.c", label="proved", timeout=170,
         loops=["sqfs_id_table_id_to_index"], flags=["--arrays-uf-always"],
         cases=[dict(id="all", tier="quick")]),
]
