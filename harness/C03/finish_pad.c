/* C03.finish.layout: padd_sqfs (lib/common/src/writer/finish.c), loop-free,
 * every image size below 2^62; the device block size is a concrete case
 * (-DBLK; gensquashfs accepts any --devblksz >= 1024): with a symbolic block
 * size the remainder identity needs two 64 bit dividers and neither SAT nor
 * z3/cvc5 finish in 3 min. Against the file contract.
 * sqfs_writer_finish passes super.bytes_used = file size at super block time
 * (C14.finish.bytes_used); this harness takes that equality as its requires.
 *
 *  C03.finish.layout.padded    success => the file size is a multiple of the
 *                              device block size, >= the image size and less
 *                              than one block larger
 *  C03.finish.layout.pad_write at most one write, at the end of the file, of
 *                              exactly the missing bytes, from a zeroed buffer
 *  C03.finish.layout.error     allocation / write failure => -1, no success
 */
#include <stdlib.h>
#include <string.h>
#include <stdio.h>
#include "verif.h"
#include "sqfs/predef.h"
#ifndef SIZEBITS
#define SIZEBITS 62
#endif

static unsigned g_callocs;
static size_t g_calloc_n;
static void *g_calloc_buf;

/* calloc contract: zeroed buffer of n * size bytes or NULL */
void *calloc(size_t n, size_t size)
{
	g_callocs += 1;
	g_calloc_n = n * size;
	if (verif_nd_bool("calloc_fails"))
		return NULL;
	g_calloc_buf = malloc(n * size);
	__CPROVER_assume(g_calloc_buf != NULL);
	return g_calloc_buf;
}

#include "lib/common/src/writer/finish.c"

static sqfs_file_t g_file;
static sqfs_u64 g_fsize;
static unsigned g_wr_calls, g_faults;
static sqfs_u64 g_wr_off;
static size_t g_wr_n;
static const void *g_wr_buf;

sqfs_u64 stub_get_size(const sqfs_file_t *file)
{
	VERIF_ASSERT(file == &g_file, "C03.finish.env.get_size_pre");
	return g_fsize;
}

int stub_write_at(sqfs_file_t *file, sqfs_u64 offset, const void *buffer,
		  size_t size)
{
	VERIF_ASSERT(file == &g_file && VERIF_R_OK(buffer, size),
		     "C03.finish.env.write_at_pre");
	g_wr_calls += 1;
	g_wr_off = offset;
	g_wr_n = size;
	g_wr_buf = buffer;
	if (verif_nd_bool("write_fails")) {
		g_faults += 1;
		return SQFS_ERROR_IO;
	}
	if (offset + size > g_fsize)
		g_fsize = offset + size;
	return 0;
}

void perror(const char *s) { (void)s; }

void harness(void)
{
	sqfs_u64 size = verif_nd_u64("size");
#ifdef BLK
	size_t blk = BLK;	/* concrete case: see the header comment */
#else
	size_t blk = verif_nd_size("devblksize");
#endif
	int ret;

	VERIF_ASSUME(size >= sizeof(sqfs_super_t) && size <= ((sqfs_u64)1 << SIZEBITS));
	VERIF_ASSUME(blk >= 1 && blk <= ((size_t)1 << 32));
	g_fsize = size;
	g_file.get_size = stub_get_size;
	g_file.write_at = stub_write_at;

	ret = padd_sqfs(&g_file, size, blk);

	VERIF_ASSERT(ret == 0 || ret == -1, "C03.finish.layout.error");
	VERIF_ASSERT(g_wr_calls <= 1, "C03.finish.layout.pad_write");
	if (g_wr_calls == 1)
		VERIF_ASSERT(g_wr_off == size && g_wr_n >= 1 && g_wr_n < blk &&
			     g_callocs == 1 && g_wr_buf == g_calloc_buf &&
			     g_calloc_n == g_wr_n, "C03.finish.layout.pad_write");
	if (ret == 0) {
		VERIF_ASSERT(g_faults == 0, "C03.finish.layout.error");
		VERIF_ASSERT(g_fsize % blk == 0 && g_fsize >= size &&
			     g_fsize - size < blk, "C03.finish.layout.padded");
		VERIF_COVER(g_wr_calls == 0);
		VERIF_COVER(g_wr_calls == 1 || blk == 1);
		VERIF_COVER((g_wr_calls == 1 && g_wr_n == blk - 1) || blk == 1);
	} else {
		VERIF_COVER(g_wr_calls == 1 || blk == 1);
		VERIF_COVER(g_wr_calls == 0 || blk == 1);
	}
}
