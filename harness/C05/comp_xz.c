/* C05: xz_uncomp_block against the assumed contract of
 * lzma_stream_buffer_decode: reads in[*in_pos..in_size), writes
 * out[*out_pos..out_size), advances both positions (never beyond the sizes),
 * returns a documented lzma_ret. */
#include "C05/comp_common.h"
#include <lzma.h>

lzma_ret lzma_stream_buffer_decode(uint64_t *memlimit, uint32_t flags,
				   const lzma_allocator *allocator,
				   const uint8_t *in, size_t *in_pos, size_t in_size,
				   uint8_t *out, size_t *out_pos, size_t out_size)
{
	size_t ip, op;
	(void)flags; (void)allocator;
	VERIF_ASSERT(memlimit != NULL && *in_pos == 0 && *out_pos == 0,
		     "C05.comp.lib_input");
	comp_lib_io(in, in_size, out, out_size);
	ip = verif_nd_size("xz.in_pos");
	op = verif_nd_size("xz.out_pos");
	if (ip > in_size)
		ip = in_size;
	if (op > out_size)
		op = out_size;
	*in_pos = ip;
	*out_pos = op;
	g_c.produced = op;
	switch (verif_nd_u8("xz.ret") % 8) {
	case 0: return LZMA_OK;
	case 1: return LZMA_FORMAT_ERROR;
	case 2: return LZMA_OPTIONS_ERROR;
	case 3: return LZMA_DATA_ERROR;
	case 4: return LZMA_NO_CHECK;
	case 5: return LZMA_MEM_ERROR;
	case 6: return LZMA_MEMLIMIT_ERROR;
	default: return LZMA_BUF_ERROR;
	}
}

#include "lib/sqfs/src/comp/xz.c"

void harness(void)
{
	comp_setup();
	comp_check(xz_uncomp_block(NULL, g_c.in, g_c.size, g_c.out, g_c.outsize));
}
