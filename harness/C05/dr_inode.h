/* dr_inode.h - an arbitrary well-formed file inode (wf_inode, as ensured by
 * harness read_inode: type FILE or EXT_FILE, payload_bytes_used == 4 * number
 * of block words, that many bytes present after the structure), every field
 * and every block word symbolic. The number of block words is symbolic too
 * (<= DI_MAXBLK) unless -DNBLK fixes it.
 */
#ifndef DR_INODE_H
#define DR_INODE_H
#include "sqfs/inode.h"
#include "lib/sqfs/src/inode.c"

#ifdef VERIF_REPLAY
/* native link only: referenced by sqfs_dir_entry_from_inode (inode.c), which
 * no data reader harness reaches */
__attribute__((weak)) int sqfs_id_table_index_to_id(const sqfs_id_table_t *t,
						     sqfs_u16 i, sqfs_u32 *o)
{ (void)t; (void)i; (void)o; return SQFS_ERROR_INTERNAL; }
#endif

#ifndef DI_MAXBLK
#define DI_MAXBLK 0x3FFFFFFF
#endif

static sqfs_inode_generic_t *di_new_file(size_t *nblk_out)
{
	sqfs_inode_generic_t *ino;
	size_t nblk;
	bool ext = verif_nd_bool("ino.ext");

#ifdef NBLK
	nblk = NBLK;
#else
	nblk = verif_nd_size("ino.nblk");
	VERIF_ASSUME(nblk <= DI_MAXBLK);
#endif
	ino = malloc(sizeof(*ino) + nblk * sizeof(sqfs_u32));
	VERIF_ASSUME(ino != NULL);
	ino->base.mode = verif_nd_u16("ino.mode");
	ino->base.uid_idx = verif_nd_u16("ino.uid");
	ino->base.gid_idx = verif_nd_u16("ino.gid");
	ino->base.mod_time = verif_nd_u32("ino.mtime");
	ino->base.inode_number = verif_nd_u32("ino.num");
	ino->payload_bytes_available = (sqfs_u32)(nblk * sizeof(sqfs_u32));
	ino->payload_bytes_used = (sqfs_u32)(nblk * sizeof(sqfs_u32));
	if (ext) {
		ino->base.type = SQFS_INODE_EXT_FILE;
		ino->data.file_ext.blocks_start = verif_nd_u64("ino.start");
		ino->data.file_ext.file_size = verif_nd_u64("ino.size");
		ino->data.file_ext.sparse = verif_nd_u64("ino.sparse");
		ino->data.file_ext.nlink = verif_nd_u32("ino.nlink");
		ino->data.file_ext.fragment_idx = verif_nd_u32("ino.fidx");
		ino->data.file_ext.fragment_offset = verif_nd_u32("ino.foff");
		ino->data.file_ext.xattr_idx = verif_nd_u32("ino.xattr");
	} else {
		ino->base.type = SQFS_INODE_FILE;
		ino->data.file.blocks_start = verif_nd_u32("ino.start");
		ino->data.file.file_size = verif_nd_u32("ino.size");
		ino->data.file.fragment_index = verif_nd_u32("ino.fidx");
		ino->data.file.fragment_offset = verif_nd_u32("ino.foff");
	}
	*nblk_out = nblk;
	return ino;
}
#endif
