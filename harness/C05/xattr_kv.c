/* C05: sqfs_xattr_reader_seek_kv + sqfs_xattr_reader_read_key on arbitrary
 * bytes. Metadata reader = contract; key type and size (16 bit) symbolic.
 * (sqfs_xattr_reader_read_value is harness xattr_value; the combined
 * sqfs_xattr_reader_read with its realloc did not finish in 170 s and is not
 * covered.)
 *
 *   C05.xattr.seek_kv      the cursor goes to xattr_start + (ref >> 16),
 *                          offset ref & 0xFFFF
 *   C05.xattr.kv_layout    ret == 0 => one allocation holding the header,
 *                          prefix + key.size bytes (read from the image) +
 *                          NUL, all inside the allocation
 *   C05.xattr.kv_prefix    an unknown prefix id => SQFS_ERROR_UNSUPPORTED,
 *                          nothing returned
 *   C05.xattr.kv_fail      ret != 0 => *out untouched
 *   (all CBMC memory / arithmetic checks)
 */
#include <stdlib.h>
#include <string.h>
#include <errno.h>
#include "verif.h"
#define ENV_PROP "C05"
#define ENV_NO_MEM_OVERRIDE
#include "C10/rd_env.h"
#include "C10/mr_contract.h"
#include "lib/sqfs/src/xattr/xattr.c"
#include "lib/sqfs/src/xattr/xattr_reader.c"

void harness(void)
{
	sqfs_xattr_reader_t *xr = malloc(sizeof(*xr));
	sqfs_meta_reader_t *kv = malloc(1);
	sqfs_xattr_entry_t *out = NULL;
	sqfs_xattr_id_t desc;
	int ret;

	VERIF_ASSUME(xr != NULL && kv != NULL);
	env_init();
	mrc_init();
	g_mrc_rd0 = kv;
	xr->base.refcount = 1;
	xr->base.destroy = xattr_reader_destroy;
	xr->base.copy = xattr_reader_copy;
	xr->xattr_start = verif_nd_u64("xattr_start");
	xr->xattr_end = verif_nd_u64("xattr_end");
	xr->num_id_blocks = 0;
	xr->num_ids = 0;
	xr->id_block_starts = NULL;
	xr->idrd = NULL;
	xr->kvrd = kv;

	/* position the cursor from an arbitrary descriptor */
	desc.xattr = verif_nd_u64("desc.xattr");
	desc.count = verif_nd_u32("desc.count");
	desc.size = verif_nd_u32("desc.size");
	ret = sqfs_xattr_reader_seek_kv(xr, &desc);
	VERIF_ASSERT(g_mrc.seeks == 1 &&
		     g_mrc.s[0].to.block == xr->xattr_start + (desc.xattr >> 16) &&
		     g_mrc.s[0].to.off == (desc.xattr & 0xFFFF), "C05.xattr.seek_kv");
	if (ret != 0)
		goto done;

	ret = sqfs_xattr_reader_read_key(xr, &out);

	if (ret == 0) {
		sqfs_u16 type = (sqfs_u16)(g_mrc.r[0].val & 0xFFFF);
		VERIF_ASSERT(!g_mrc.failed && out != NULL &&
			     (type & SQFS_XATTR_PREFIX_MASK) <= SQFS_XATTR_SECURITY,
			     "C05.xattr.kv_prefix");
		{
			sqfs_u16 ksz = (sqfs_u16)((g_mrc.r[0].val >> 16) & 0xFFFF);
			size_t plen = (type & SQFS_XATTR_PREFIX_MASK) == SQFS_XATTR_USER ? 5 :
				(type & SQFS_XATTR_PREFIX_MASK) == SQFS_XATTR_TRUSTED ? 8 : 9;
			VERIF_ASSERT(out->type == type && out->size == ksz &&
				     VERIF_R_OK(out, sizeof(*out) + plen + ksz + 1) &&
				     g_mrc.r[1].buf == (void *)(out->key + plen) &&
				     g_mrc.r[1].n == ksz &&
				     out->key[plen + ksz] == 0,
				     "C05.xattr.kv_layout");
		}
		free(out);
	} else {
		VERIF_ASSERT(out == NULL, "C05.xattr.kv_fail");
	}
done:
	VERIF_COVER(ret == 0 && g_mrc.reads == 2 && g_mrc.r[1].n > 300);
	VERIF_COVER(ret == SQFS_ERROR_UNSUPPORTED);
	VERIF_COVER(ret != 0 && g_mrc.failed);
	free(kv);
	free(xr);
}
