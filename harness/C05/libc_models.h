/* libc functions cbmc 6.11 ships no model of (assumed C / POSIX semantics) */
#ifndef LIBC_MODELS_H
#define LIBC_MODELS_H
#ifndef VERIF_REPLAY
#include <stddef.h>
size_t strnlen(const char *s, size_t maxlen)
{
	size_t i;

	for (i = 0; i < maxlen; ++i) {
		if (s[i] == '\0')
			break;
	}
	return i;
}
#endif
#endif
