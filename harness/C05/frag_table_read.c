/* C05: sqfs_frag_table_read on an arbitrary superblock with sqfs_read_table
 * replaced by its contract.
 *
 *   C05.frag_table.wf       on every return the table is well formed: empty
 *                           or a buffer of exactly used * 16 bytes, used ==
 *                           count == fragment_entry_count, element size 16 -
 *                           so array_get's bounds test protects
 *                           sqfs_frag_table_lookup
 *   C05.frag_table.request  fragment_entry_count * 16 bytes (no overflow) at
 *                           fragment_table_start, inside
 *                           [directory_table_start, id/export table start)
 *   C05.frag_table.skip     no fragments announced => success, empty table,
 *                           nothing read
 */
#include <stdlib.h>
#include <string.h>
#include "verif.h"
#define ENV_PROP "C05"
#define ENV_NO_MEM_OVERRIDE
#include "C10/rd_env.h"
#include "C05/tbl_env.h"
#include "lib/util/src/array.c"
#include "lib/sqfs/src/frag_table.c"

void harness(void)
{
	sqfs_frag_table_t *tbl = malloc(sizeof(*tbl));
	sqfs_super_t super;
	size_t old_used = verif_nd_size("old.used");
	bool none;
	int ret;

	VERIF_ASSUME(tbl != NULL);
	env_init();
	env_objects_init();
	g_tbl.calls = 0;
	tbl->base.refcount = 1;
	tbl->base.destroy = frag_table_destroy;
	tbl->base.copy = frag_table_copy;
	VERIF_ASSUME(old_used <= 0xFFFFFFFFUL);
	tbl->table.size = sizeof(sqfs_fragment_t);
	tbl->table.used = tbl->table.count = old_used;
	tbl->table.data = old_used ? malloc(old_used * sizeof(sqfs_fragment_t)) : NULL;
	VERIF_ASSUME(old_used == 0 || tbl->table.data != NULL);

	super.flags = verif_nd_u16("flags");
	super.fragment_entry_count = verif_nd_u32("fragment_entry_count");
	super.bytes_used = verif_nd_u64("bytes_used");
	super.id_table_start = verif_nd_u64("id_table_start");
	super.directory_table_start = verif_nd_u64("directory_table_start");
	super.fragment_table_start = verif_nd_u64("fragment_table_start");
	super.export_table_start = verif_nd_u64("export_table_start");
	none = (super.flags & SQFS_FLAG_NO_FRAGMENTS) ||
		super.fragment_table_start == 0xFFFFFFFFFFFFFFFFUL ||
		super.fragment_entry_count == 0;

	ret = sqfs_frag_table_read(tbl, &g_file, &super, &g_cmp);

	VERIF_ASSERT(tbl->table.size == 16, "C05.frag_table.wf");
	if (ret == 0 && !none) {
		VERIF_ASSERT(tbl->table.data != NULL && tbl->table.data == g_tbl.buf &&
			     tbl->table.used == super.fragment_entry_count &&
			     tbl->table.count == super.fragment_entry_count &&
			     VERIF_R_OK(tbl->table.data, tbl->table.used * 16),
			     "C05.frag_table.wf");
		VERIF_ASSERT(g_tbl.calls == 1 &&
			     g_tbl.size == (size_t)super.fragment_entry_count * 16 &&
			     g_tbl.location == super.fragment_table_start &&
			     g_tbl.lower == super.directory_table_start &&
			     g_tbl.lower <= g_tbl.location &&
			     g_tbl.location < super.id_table_start &&
			     g_tbl.upper <= super.id_table_start &&
			     g_tbl.location < super.bytes_used,
			     "C05.frag_table.request");
	} else {
		VERIF_ASSERT(tbl->table.data == NULL && tbl->table.used == 0,
			     "C05.frag_table.wf");
	}
	if (none)
		VERIF_ASSERT(ret == 0 && g_tbl.calls == 0, "C05.frag_table.skip");
	VERIF_COVER(ret == 0 && !none);
	VERIF_COVER(ret == 0 && none);
	VERIF_COVER(ret != 0 && g_tbl.calls == 1);
	VERIF_COVER(ret != 0 && g_tbl.calls == 0);
	free(tbl->table.data);
	free(tbl);
}
