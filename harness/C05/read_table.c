/* C05: sqfs_read_table for every table size, location and window, on
 * arbitrary image bytes. The metadata reader is its contract (create may
 * fail, seek / read may fail, reads deliver arbitrary bytes); the loop over
 * the block locations is closed by a loop contract (contracts/loops/C05.tbl):
 * unbounded in the table size.
 *
 *   C05.read_table.index_in_bounds   (loop invariant) the location array is
 *                                    indexed below its length, the output
 *                                    cursor stays inside the table buffer
 *   C05.read_table.chunks            every read goes to out + 8192 * k with
 *                                    min(8192, remaining) bytes, after a seek
 *                                    to offset 0 of a block
 *   C05.read_table.result            ret == 0 => *out is a buffer of
 *                                    table_size bytes, completely delivered
 *   C05.read_table.out_on_failure    ret != 0 => *out is NULL or untouched
 *   C05.read_table.reader_dropped    the temporary reader is released on
 *                                    every path that created it
 *   (decreases: termination)
 */
#include <stdlib.h>
#include <string.h>
#include <errno.h>
#include "verif.h"
#define ENV_PROP "C05"
#define ENV_NO_MEM_OVERRIDE
#define ENV_IS_PAYLOAD(p, n) 1
#include "C10/rd_env.h"

typedef struct {
	size_t size0;
	size_t nblk;
	unsigned created, destroyed;
	size_t delivered;
	size_t delivered_before;	/* value at the start of the current read */
	unsigned char *out;	/* the table buffer (first allocation) */
	unsigned mallocs;
} rt_ghost_t;
static rt_ghost_t g_rt;

static void rt_on_read(void *buf, size_t n);
static void rt_on_seek(size_t off);
#define MRC_ON_READ(m, b, n) rt_on_read((b), (n))
#define MRC_ON_SEEK(m, b, o) rt_on_seek(o)
#define MRC_IS_PAYLOAD(p, n) 1
#define MRC_NO_LOG
#define MRC_REBASE(p) (g_rt.out + g_rt.delivered_before)
#include "C10/mr_contract.h"
#include "lib/util/src/alloc.c"

/* the first allocation of sqfs_read_table is the table buffer: remember it */
static void *rt_malloc(size_t n)
{
	void *p = malloc(n);
	if (g_rt.mallocs++ == 0)
		g_rt.out = p;
	return p;
}
#define malloc(n) rt_malloc(n)
#include "lib/sqfs/src/read_table.c"
#undef malloc

typedef struct {
	sqfs_object_t base;
} rt_reader_t;

static void rt_reader_destroy(sqfs_object_t *obj)
{
	++g_rt.destroyed;
	free(obj);
}

sqfs_meta_reader_t *sqfs_meta_reader_create(sqfs_file_t *file,
					    sqfs_compressor_t *cmp,
					    sqfs_u64 start, sqfs_u64 limit)
{
	rt_reader_t *r;

	VERIF_ASSERT(file == &g_file && cmp == &g_cmp, "C05.env.meta_create.args");
	(void)start; (void)limit;
	r = malloc(sizeof(*r));
	if (r == NULL)
		return NULL;
	r->base.refcount = 1;
	r->base.destroy = rt_reader_destroy;
	r->base.copy = NULL;
	++g_rt.created;
	g_mrc_rd0 = (sqfs_meta_reader_t *)r;
	return (sqfs_meta_reader_t *)r;
}

static void rt_on_seek(size_t off)
{
	VERIF_ASSERT(off == 0, "C05.read_table.chunks");
}

static void rt_on_read(void *buf, size_t n)
{
	size_t left = g_rt.size0 - g_rt.delivered;

	VERIF_ASSERT(g_rt.delivered < g_rt.size0 &&
		     n == (left < 8192 ? left : 8192) &&
		     (unsigned char *)buf == g_rt.out + g_rt.delivered,
		     "C05.read_table.chunks");
	g_rt.delivered_before = g_rt.delivered;
	g_rt.delivered += n;
}

void harness(void)
{
	size_t table_size = verif_nd_size("table_size");
	sqfs_u64 location = verif_nd_u64("location");
	sqfs_u64 lower = verif_nd_u64("lower"), upper = verif_nd_u64("upper");
	void *out, *out0;
	int ret;

	env_init();
	env_objects_init();
	mrc_init();
	VERIF_ASSUME(table_size <= RT_MAX);
	g_rt.size0 = table_size;
	g_rt.nblk = table_size / 8192 + (table_size % 8192 ? 1 : 0);
	g_rt.created = g_rt.destroyed = 0;
	g_rt.delivered = 0;
	g_rt.delivered_before = 0;
	g_rt.mallocs = 0;
	g_rt.out = NULL;
	out = out0 = (void *)(size_t)verif_nd_size("out.before");

	ret = sqfs_read_table(&g_file, &g_cmp, table_size, location, lower,
			      upper, &out);

	VERIF_ASSERT(g_rt.created == g_rt.destroyed && g_rt.created <= 1,
		     "C05.read_table.reader_dropped");
	if (ret == 0) {
		VERIF_ASSERT(out != NULL && VERIF_R_OK(out, table_size) &&
			     g_rt.delivered == table_size,
			     "C05.read_table.result");
		free(out);
	} else {
		VERIF_ASSERT(out == NULL || out == out0,
			     "C05.read_table.out_on_failure");
	}
	VERIF_COVER(ret == 0 && table_size > 3 * 8192);
	VERIF_COVER(ret == 0 && table_size == 0);
	VERIF_COVER(ret != 0 && g_rt.created == 1);
	VERIF_COVER(ret != 0 && g_rt.created == 0);
}
