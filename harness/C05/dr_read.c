/* C05: sqfs_data_reader_read (positional read) for an arbitrary well-formed
 * file inode with NBLK block words (case split, bounded), every file size,
 * offset, request size, fragment location and block word, arbitrary cache
 * state, every legal block size (symbolic).
 *
 *   C05.env.memcpy.* / memset.*   every copy into the caller's buffer stays
 *                                 inside `size` bytes and inside the cached
 *                                 block / fragment block it reads from
 *   C05.dr_read.result            ret >= 0 => ret <= size (and <= what the
 *                                 file has left); ret < 0 is an error code
 *   (all CBMC memory / arithmetic checks; both loops unwound NBLK + 1 times
 *    with unwinding assertions)
 */
#include <stdlib.h>
#include <string.h>
#include <errno.h>
#include "verif.h"
#define ENV_PROP "C05"
#define ENV_IS_PAYLOAD(p, n) 1
#define DR_DEFINES_LOOKUP
#include "C10/dr_common.h"
#include "C05/dr_inode.h"

static sqfs_frag_table_t *g_ft;

int sqfs_frag_table_lookup(sqfs_frag_table_t *tbl, sqfs_u32 index,
			   sqfs_fragment_t *out)
{
	VERIF_ASSERT(tbl == g_ft, "C05.env.lookup.table");
	(void)index;
	if (verif_nd_bool("lookup.fail"))
		return SQFS_ERROR_OUT_OF_BOUNDS;
	out->start_offset = verif_nd_u64("lookup.start");
	out->size = verif_nd_u32("lookup.size");
	out->pad0 = verif_nd_u32("lookup.pad0");
	return 0;
}

void harness(void)
{
	sqfs_data_reader_t *rd;
	sqfs_inode_generic_t *ino;
	size_t nblk, i;
	sqfs_u64 offset = verif_nd_u64("offset"), filesz;
	sqfs_u32 size = verif_nd_u32("size");
	size_t cap = verif_nd_size("cap");
	sqfs_u8 *buf;
	sqfs_s32 ret;

	env_init();
	env_objects_init();
	g_ft = malloc(1);
	VERIF_ASSUME(g_ft != NULL);
	rd = dr_new(g_ft);
	if (verif_nd_bool("frag.cached")) {
		rd->frag_block = malloc(BS);
		VERIF_ASSUME(rd->frag_block != NULL);
		rd->frag_blk_size = verif_nd_size("frag.size");
		VERIF_ASSUME(rd->frag_blk_size <= BS);
	}
	rd->current_frag_index = verif_nd_u32("frag.tag");
	if (verif_nd_bool("data.cached")) {
		rd->data_block = malloc(BS);
		VERIF_ASSUME(rd->data_block != NULL);
		rd->data_blk_size = verif_nd_size("data.size");
		VERIF_ASSUME(rd->data_blk_size <= BS);
	}
	rd->current_block = verif_nd_u64("data.tag");
	rd->current_block_word = verif_nd_u32("data.word");

	ino = di_new_file(&nblk);
	for (i = 0; i < NBLK; ++i)
		ino->extra[i] = verif_nd_u32("ino.word");
	sqfs_inode_get_file_size(ino, &filesz);

	/* the caller's buffer holds at least `size` bytes */
	VERIF_ASSUME(cap >= 1 && cap >= size && cap <= 0x80000000UL);
	buf = malloc(cap);
	VERIF_ASSUME(buf != NULL);

	ret = sqfs_data_reader_read(rd, ino, offset, buf, size);

	if (ret >= 0) {
		VERIF_ASSERT((sqfs_u32)ret <= size &&
			     (offset >= filesz ? ret == 0 :
			      (sqfs_u64)ret <= filesz - offset),
			     "C05.dr_read.result");
	}
	VERIF_COVER(ret > 0);
	VERIF_COVER(ret == 0);
	VERIF_COVER(ret < 0);
	free(buf);
	free(ino);
	dr_delete(rd);
	free(g_ft);
}
