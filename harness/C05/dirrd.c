/* C05: the thin entry points of sqfs_dir_reader_t (lib/sqfs/src/dir_reader.c),
 * one per case (-DFN): 1 open_dir, 2 read, 3 get_inode, 4 resolve_inum.
 * Everything below them is a contract: sqfs_readdir_state_init,
 * sqfs_meta_reader_readdir, sqfs_meta_reader_read_inode (verified by the
 * harnesses readdir_init / readdir / read_inode) and the inode-number cache
 * (rbtree_lookup returns NULL or a node holding that key and some 64 bit
 * value, rbtree_insert succeeds or fails). Reader flags, cursor state, inode
 * contents, references: symbolic.
 *
 *   C05.dirrd.open_state      open_dir: ret == 0 => the state is one the
 *                             reader accepts (OPENED with both dot references
 *                             resolved, or ENTRIES), cursor initialised from
 *                             the inode; unknown flags are refused
 *   C05.dirrd.read_sequence   read: "." then ".." then the real entries; a
 *                             state value outside the protocol is refused
 *                             (SQFS_ERROR_SEQUENCE), dummy entries are
 *                             complete NUL terminated nodes
 *   C05.dirrd.get_inode       get_inode: the reference is split into
 *                             (block = ref >> 16, offset = ref & 0xFFFF); only
 *                             directory inodes enter the cache, only with the
 *                             dot-entries flag
 *   C05.dirrd.resolve_inum    resolve_inum: NO_ENTRY without the flag or
 *                             without a cache hit, *ref always written
 *   (all CBMC memory / arithmetic checks)
 */
#include <stdlib.h>
#include <string.h>
#include "verif.h"
#define ENV_PROP "C05"
#define ENV_NO_MEM_OVERRIDE
#include "C10/rd_env.h"
#include "sqfs/meta_reader.h"
#include "sqfs/dir_reader.h"
#include "sqfs/inode.h"
#include "sqfs/dir.h"
#include "util/rbtree.h"

#ifndef FN
#error "define FN"
#endif

typedef struct {
	rbtree_node_t n;
	sqfs_u8 data[16];
} dd_node_t;

static sqfs_meta_reader_t *g_meta_dir, *g_meta_inode;
static unsigned g_lookups, g_inserts, g_readdirs, g_readinodes, g_inits;
static sqfs_u32 g_lk_key[2];
static bool g_lk_hit[2];
static sqfs_u64 g_lk_val[2];
static dd_node_t g_nodes[2];
static sqfs_u32 g_ins_key;
static sqfs_u64 g_ins_val;
static sqfs_u64 g_ri_block;
static size_t g_ri_off;
static sqfs_inode_generic_t *g_ri_inode;
static int g_sub_ret;

rbtree_node_t *rbtree_lookup(const rbtree_t *tree, const void *key)
{
	unsigned i = g_lookups < 2 ? g_lookups : 1;
	sqfs_u32 k;

	VERIF_ASSERT(tree != NULL && VERIF_R_OK(key, 4), "C05.env.rbtree_lookup.args");
	k = *(const sqfs_u32 *)key;
	g_lk_key[i] = k;
	g_lk_hit[i] = verif_nd_bool("lk.hit");
	++g_lookups;
	if (!g_lk_hit[i])
		return NULL;
	g_lk_val[i] = verif_nd_u64("lk.val");
	g_nodes[i].n.left = g_nodes[i].n.right = NULL;
	g_nodes[i].n.value_offset = 8;
	memcpy(g_nodes[i].data, &k, 4);
	memcpy(g_nodes[i].data + 8, &g_lk_val[i], 8);
	return &g_nodes[i].n;
}

int rbtree_insert(rbtree_t *tree, const void *key, const void *value)
{
	VERIF_ASSERT(tree != NULL && VERIF_R_OK(key, 4) && VERIF_R_OK(value, 8),
		     "C05.env.rbtree_insert.args");
	g_ins_key = *(const sqfs_u32 *)key;
	g_ins_val = *(const sqfs_u64 *)value;
	++g_inserts;
	return verif_nd_bool("ins.fail") ? SQFS_ERROR_ALLOC : 0;
}

int sqfs_readdir_state_init(sqfs_readdir_state_t *s, const sqfs_super_t *super,
			    const sqfs_inode_generic_t *inode)
{
	VERIF_ASSERT(s != NULL && super != NULL && inode != NULL,
		     "C05.env.state_init.args");
	++g_inits;
	memset(s, 0, sizeof(*s));
	if (inode->base.type != SQFS_INODE_DIR &&
	    inode->base.type != SQFS_INODE_EXT_DIR)
		return SQFS_ERROR_NOT_DIR;
	s->block = verif_nd_u64("si.block");
	s->offset = verif_nd_u16("si.offset");
	s->size = verif_nd_u32("si.size");
	return 0;
}

int sqfs_meta_reader_readdir(sqfs_meta_reader_t *m, sqfs_readdir_state_t *it,
			     sqfs_dir_node_t **ent, sqfs_u32 *inum, sqfs_u64 *iref)
{
	VERIF_ASSERT(m == g_meta_dir && it != NULL && ent != NULL && inum == NULL &&
		     iref != NULL, "C05.env.readdir.args");
	++g_readdirs;
	g_sub_ret = verif_nd_bool("rd.fail") ? env_nd_error("rd.err") :
		(verif_nd_bool("rd.eof") ? 1 : 0);
	if (g_sub_ret == 0) {
		sqfs_dir_node_t *e = calloc(1, sizeof(*e) + 2);
		if (e == NULL) {
			g_sub_ret = SQFS_ERROR_ALLOC;
			return g_sub_ret;
		}
		e->name[0] = verif_nd_u8("rd.name");
		*ent = e;
		*iref = verif_nd_u64("rd.iref");
	}
	return g_sub_ret;
}

int sqfs_meta_reader_read_inode(sqfs_meta_reader_t *ir, const sqfs_super_t *super,
				sqfs_u64 block_start, size_t offset,
				sqfs_inode_generic_t **out)
{
	VERIF_ASSERT(ir == g_meta_inode && super != NULL && out != NULL,
		     "C05.env.read_inode.args");
	++g_readinodes;
	g_ri_block = block_start;
	g_ri_off = offset;
	g_sub_ret = verif_nd_bool("ri.fail") ? env_nd_error("ri.err") : 0;
	if (g_sub_ret == 0) {
		g_ri_inode = calloc(1, sizeof(*g_ri_inode));
		if (g_ri_inode == NULL) {
			g_sub_ret = SQFS_ERROR_ALLOC;
			return g_sub_ret;
		}
		g_ri_inode->base.type = verif_nd_u16("ri.type");
		g_ri_inode->base.inode_number = verif_nd_u32("ri.num");
		*out = g_ri_inode;
	}
	return g_sub_ret;
}

#include "lib/sqfs/src/dir_reader.c"

static sqfs_dir_reader_t *dd_reader(void)
{
	sqfs_dir_reader_t *rd = malloc(sizeof(*rd));

	VERIF_ASSUME(rd != NULL);
	g_meta_dir = malloc(1);
	g_meta_inode = malloc(1);
	VERIF_ASSUME(g_meta_dir != NULL && g_meta_inode != NULL);
	rd->base.refcount = 1;
	rd->base.destroy = dir_reader_destroy;
	rd->base.copy = dir_reader_copy;
	rd->meta_dir = g_meta_dir;
	rd->meta_inode = g_meta_inode;
	rd->super.root_inode_ref = verif_nd_u64("root_ref");
	rd->super.directory_table_start = verif_nd_u64("dir_table");
	rd->super.inode_table_start = verif_nd_u64("ino_table");
	rd->super.block_size = 4096;
	rd->flags = verif_nd_bool("dot") ? SQFS_DIR_READER_DOT_ENTRIES : 0;
	rd->dcache.root = NULL;
	rd->dcache.key_compare = dcache_key_compare;
	rd->dcache.key_size = 4;
	rd->dcache.key_size_padded = 8;
	rd->dcache.value_size = 8;
	rd->dcache.key_context = NULL;
	g_lookups = g_inserts = g_readdirs = g_readinodes = g_inits = 0;
	return rd;
}

void harness(void)
{
	sqfs_dir_reader_t *rd;
	int ret;

	env_init();
	rd = dd_reader();
#if FN == 1
	{
		sqfs_inode_generic_t ino;
		sqfs_dir_reader_state_t st;
		sqfs_u32 flags = verif_nd_u32("flags");
		bool ext = verif_nd_bool("ext");

		ino.base.type = verif_nd_u16("type");
		ino.base.inode_number = verif_nd_u32("inum");
		if (ext)
			ino.data.dir_ext.parent_inode = verif_nd_u32("parent");
		else
			ino.data.dir.parent_inode = verif_nd_u32("parent");
		verif_nd_bytes(&st, sizeof(st), "state.before");

		ret = sqfs_dir_reader_open_dir(rd, &ino, &st, flags);

		if (flags & ~SQFS_DIR_OPEN_ALL_FLAGS)
			VERIF_ASSERT(ret == SQFS_ERROR_UNSUPPORTED && g_inits == 0,
				     "C05.dirrd.open_state");
		if (ret == 0) {
			bool dots = (rd->flags & SQFS_DIR_READER_DOT_ENTRIES) &&
				!(flags & SQFS_DIR_OPEN_NO_DOT_ENTRIES);
			VERIF_ASSERT(g_inits == 1 &&
				     (ino.base.type == SQFS_INODE_DIR ||
				      ino.base.type == SQFS_INODE_EXT_DIR) &&
				     st.state == (dots ? DIR_STATE_OPENED : DIR_STATE_ENTRIES),
				     "C05.dirrd.open_state");
			if (dots)
				VERIF_ASSERT(g_lookups >= 1 && g_lk_hit[0] &&
					     g_lk_key[0] == ino.base.inode_number &&
					     st.dir_ref == g_lk_val[0] &&
					     (st.dir_ref == rd->super.root_inode_ref ?
					      st.parent_ref == st.dir_ref :
					      (g_lookups == 2 && g_lk_hit[1] &&
					       st.parent_ref == g_lk_val[1])),
					     "C05.dirrd.open_state");
		}
		VERIF_COVER(ret == 0 && st.state == DIR_STATE_OPENED && g_lookups == 2);
		VERIF_COVER(ret == 0 && st.state == DIR_STATE_ENTRIES);
		VERIF_COVER(ret == SQFS_ERROR_NO_ENTRY);
	}
#elif FN == 2
	{
		sqfs_dir_reader_state_t st;
		sqfs_dir_node_t *out = NULL;
		sqfs_u8 s0;

		verif_nd_bytes(&st, sizeof(st), "state");
		s0 = st.state;

		ret = sqfs_dir_reader_read(rd, &st, &out);

		if (s0 == DIR_STATE_OPENED || s0 == DIR_STATE_DOT) {
			if (ret == 0) {
				size_t n = (s0 == DIR_STATE_OPENED) ? 1 : 2;
				VERIF_ASSERT(out != NULL && out->size == n - 1 &&
					     out->type == SQFS_INODE_DIR &&
					     VERIF_R_OK(out, sizeof(*out) + n + 1) &&
					     out->name[0] == '.' && out->name[n] == 0 &&
					     st.state == s0 + 1 && g_readdirs == 0 &&
					     st.ent_ref == (s0 == DIR_STATE_OPENED ?
							    st.dir_ref : st.parent_ref),
					     "C05.dirrd.read_sequence");
			} else {
				VERIF_ASSERT(ret == SQFS_ERROR_ALLOC && st.state == s0,
					     "C05.dirrd.read_sequence");
			}
		} else if (s0 == DIR_STATE_ENTRIES) {
			VERIF_ASSERT(g_readdirs == 1 && ret == g_sub_ret,
				     "C05.dirrd.read_sequence");
		} else {
			VERIF_ASSERT(ret == SQFS_ERROR_SEQUENCE && g_readdirs == 0 &&
				     out == NULL, "C05.dirrd.read_sequence");
		}
		VERIF_COVER(ret == 0 && s0 == DIR_STATE_DOT);
		VERIF_COVER(ret == 0 && s0 == DIR_STATE_ENTRIES);
		VERIF_COVER(ret == SQFS_ERROR_SEQUENCE);
		if (ret == 0)
			free(out);
	}
#elif FN == 3
	{
		sqfs_u64 ref = verif_nd_u64("ref");
		sqfs_inode_generic_t *ino = NULL;

		ret = sqfs_dir_reader_get_inode(rd, ref, &ino);

		VERIF_ASSERT(g_readinodes == 1 && g_ri_block == (ref >> 16) &&
			     g_ri_off == (ref & 0xFFFF), "C05.dirrd.get_inode");
		if (g_sub_ret != 0)
			VERIF_ASSERT(ret == g_sub_ret && g_lookups == 0,
				     "C05.dirrd.get_inode");
		if (g_inserts > 0)
			VERIF_ASSERT((rd->flags & SQFS_DIR_READER_DOT_ENTRIES) &&
				     (ino->base.type == SQFS_INODE_DIR ||
				      ino->base.type == SQFS_INODE_EXT_DIR) &&
				     g_ins_key == ino->base.inode_number &&
				     g_ins_val == ref && !g_lk_hit[0],
				     "C05.dirrd.get_inode");
		VERIF_COVER(ret == 0 && g_inserts == 1);
		VERIF_COVER(ret == 0 && g_inserts == 0 && g_lookups == 1);
		VERIF_COVER(ret != 0 && g_sub_ret == 0);
	}
#elif FN == 4
	{
		sqfs_u32 inum = verif_nd_u32("inum");
		sqfs_u64 ref = verif_nd_u64("ref.before");

		ret = sqfs_dir_reader_resolve_inum(rd, inum, &ref);

		if (!(rd->flags & SQFS_DIR_READER_DOT_ENTRIES))
			VERIF_ASSERT(ret == SQFS_ERROR_NO_ENTRY && ref == 0 &&
				     g_lookups == 0, "C05.dirrd.resolve_inum");
		else
			VERIF_ASSERT(g_lookups == 1 && g_lk_key[0] == inum &&
				     (g_lk_hit[0] ? (ret == 0 && ref == g_lk_val[0]) :
				      (ret == SQFS_ERROR_NO_ENTRY && ref == 0)),
				     "C05.dirrd.resolve_inum");
		VERIF_COVER(ret == 0);
		VERIF_COVER(ret != 0 && g_lookups == 1);
	}
#endif
}
