/* comp_common.h - shared part of the un-compress wrapper harnesses: the
 * do_block contract that every reader harness ASSUMES of a compressor
 * (rd_env.h stub_do_block) is CHECKED here for the in-tree wrappers, against
 * assumed contracts of the codec libraries (DESIGN section 3):
 *   library: reads only in[0..size), writes only out[0..cap), reports how much
 *   it produced (<= cap) / consumed (<= size), returns a documented status.
 *
 *   C05.comp.lib_input      the library is handed exactly the caller's input
 *                           (pointer, size) - readable by precondition
 *   C05.comp.lib_output     ... and the caller's output buffer with a capacity
 *                           <= outsize
 *   C05.comp.result_bound   r <= outsize or r < 0
 *   C05.comp.result_is_produced   r > 0 => r bytes were actually produced by
 *                           the library (r <= reported output): the caller
 *                           never consumes bytes the codec did not write
 */
#ifndef COMP_COMMON_H
#define COMP_COMMON_H
#include <stdlib.h>
#include <string.h>
#include "verif.h"
#include "sqfs/predef.h"
#include "sqfs/compressor.h"
#include "sqfs/error.h"

#ifndef COMP_MAX
#define COMP_MAX 1048576
#endif

typedef struct {
	const sqfs_u8 *in;
	sqfs_u32 size;
	sqfs_u8 *out;
	sqfs_u32 outsize;
	size_t produced;	/* what the library reported as written */
	bool lib_called;
} comp_ghost_t;
static comp_ghost_t g_c;

static void comp_setup(void)
{
	g_c.size = verif_nd_u32("size");
	g_c.outsize = verif_nd_u32("outsize");
	/* callers pass block buffers: at most 1 MiB in and out, and they own
	   that many bytes */
	VERIF_ASSUME(g_c.size <= COMP_MAX && g_c.outsize <= COMP_MAX);
	g_c.in = malloc(g_c.size ? g_c.size : 1);
	g_c.out = malloc(g_c.outsize ? g_c.outsize : 1);
	VERIF_ASSUME(g_c.in != NULL && g_c.out != NULL);
	g_c.produced = 0;
	g_c.lib_called = false;
}

static void comp_check(sqfs_s32 r)
{
	VERIF_ASSERT(r < 0 || (sqfs_u32)r <= g_c.outsize, "C05.comp.result_bound");
	if (r > 0)
		VERIF_ASSERT(g_c.lib_called && (size_t)r <= g_c.produced,
			     "C05.comp.result_is_produced");
	VERIF_COVER(r > 0);
	VERIF_COVER(r == 0);
	VERIF_COVER(r < 0);
}

/* the library's view of the buffers */
static void comp_lib_io(const void *in, size_t in_size, void *out, size_t cap)
{
	VERIF_ASSERT(in == (const void *)g_c.in && in_size == g_c.size,
		     "C05.comp.lib_input");
	VERIF_ASSERT(out == (void *)g_c.out && cap <= g_c.outsize,
		     "C05.comp.lib_output");
	g_c.lib_called = true;
}
#endif
