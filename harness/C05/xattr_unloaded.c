/* C05: the xattr reader in the state "nothing loaded" - what
 * sqfs_xattr_reader_create() leaves and what sqfs_xattr_reader_load() keeps
 * when it returns 0 early (NO_XATTRS flag set, or xattr_id_table_start ==
 * ~0): idrd == kvrd == NULL, no id blocks. A damaged image reaches every
 * public lookup in this state with an arbitrary index (the flag is clear but
 * the table start says "none", an extended inode carries xattr_idx 0), so
 * each of them has to answer "no attributes" or an error - never use the
 * readers that do not exist.
 *
 *   C05.env.meta_seek.reader /
 *   C05.env.meta_read.reader   precondition of the metadata reader contract:
 *                              called on an existing reader (CBMC's pointer
 *                              checks do not see the NULL dereference, the
 *                              callee is a contract)
 *   C05.xattr.unloaded.empty_or_error   read_all: 0 with an empty list, or an
 *                              error; never a non-empty list
 *   (step = 0 get_desc -> seek_kv as bin/rdsquashfs/src/restore_fstree.c does
 *    it; step = 1 read_all as dump_xattrs.c / sqfs2tar / dir_iterator.c do)
 */
#include <stdlib.h>
#include <string.h>
#include <errno.h>
#include "verif.h"
#define ENV_PROP "C05"
#define ENV_NO_MEM_OVERRIDE
#include "C10/rd_env.h"
#include "C10/mr_contract.h"
#include "sqfs/xattr.h"
#include "lib/sqfs/src/xattr/xattr.c"
#include "lib/sqfs/src/xattr/xattr_reader.c"

/* read_all's per-entry read is not reachable with an empty descriptor; its
 * body (symbolic-size allocation) is kept out of this harness and the call
 * itself is an obligation (--replace-calls in cases.py) */
int stub_xr_read(sqfs_xattr_reader_t *xr, sqfs_xattr_t **out)
{
	(void)xr;
	*out = NULL;
	VERIF_ASSERT(0, "C05.xattr.unloaded.no_reader_use");
	return SQFS_ERROR_OUT_OF_BOUNDS;
}

void harness(void)
{
	sqfs_xattr_reader_t *xr = malloc(sizeof(*xr));
	sqfs_meta_reader_t *other0 = malloc(1), *other1 = malloc(1);
	sqfs_u32 idx = verif_nd_u32("idx");
	sqfs_xattr_id_t desc;
	sqfs_xattr_t *list = NULL;
	int ret;

	VERIF_ASSUME(xr != NULL && other0 != NULL && other1 != NULL);
	env_init();
	mrc_init();
	g_mrc_rd0 = other0;	/* readers exist elsewhere, not in xr */
	g_mrc_rd1 = other1;

	memset(xr, 0, sizeof(*xr));
	xr->base.refcount = 1;
	xr->base.destroy = xattr_reader_destroy;
	xr->base.copy = xattr_reader_copy;
	/* leftovers of an earlier load attempt are arbitrary */
	xr->xattr_start = verif_nd_u64("xattr_start");
	xr->xattr_end = verif_nd_u64("xattr_end");

	if (verif_nd_bool("step")) {
		ret = sqfs_xattr_reader_read_all(xr, idx, &list);
		VERIF_ASSERT(ret != 0 || list == NULL,
			     "C05.xattr.unloaded.empty_or_error");
		VERIF_COVER(ret == 0 && idx == 0);
		VERIF_COVER(ret != 0);
	} else {
		ret = sqfs_xattr_reader_get_desc(xr, idx, &desc);
		VERIF_COVER(ret == 0 && idx == 0);
		if (ret == 0) {
			ret = sqfs_xattr_reader_seek_kv(xr, &desc);
			VERIF_ASSERT(ret != 0 || desc.count == 0,
				     "C05.xattr.unloaded.empty_or_error");
		}
	}
	VERIF_ASSERT(g_mrc.ops == 0, "C05.xattr.unloaded.no_reader_use");
	free(other0);
	free(other1);
	free(xr);
}
