/* C05: zstd_uncomp_block against the assumed contract of ZSTD_decompress:
 * returns the number of bytes written (<= dstCapacity) or an error code for
 * which ZSTD_isError() is true (error codes are > the largest legal size). */
#include "C05/comp_common.h"
#include <zstd.h>

size_t ZSTD_decompress(void *dst, size_t dstCapacity, const void *src,
		       size_t compressedSize)
{
	size_t r;
	comp_lib_io(src, compressedSize, dst, dstCapacity);
	if (verif_nd_bool("zstd.fail"))
		return ~(size_t)0 - (verif_nd_u8("zstd.code") % 100);
	r = verif_nd_size("zstd.ret");
	if (r > dstCapacity)
		r = dstCapacity;
	g_c.produced = r;
	return r;
}

unsigned ZSTD_isError(size_t code)
{
	return code > ~(size_t)0 - 119;
}

#include "lib/sqfs/src/comp/zstd.c"

void harness(void)
{
	comp_setup();
	comp_check(zstd_uncomp_block(NULL, g_c.in, g_c.size, g_c.out, g_c.outsize));
}
