/* C05: sqfs_xattr_reader_read - one complete key/value pair including the
 * out-of-line detour and the realloc - on arbitrary bytes. Metadata reader =
 * contract (mr_contract.h); key size (16 bit) and value size (32 bit)
 * symbolic. realloc is replaced by its contract (NULL and the old block
 * intact, or a fresh block of the new size that starts with the old header;
 * the old block is released): cbmc's own realloc model with two symbolic
 * sizes did not finish.
 *
 *   C05.xattr.read_layout   ret == 0 => one allocation: header, prefix + key
 *                           (key.size bytes read there) + NUL, value
 *                           (value.size bytes read there) + NUL; key / value
 *                           point into it, value_len == value.size, next ==
 *                           NULL
 *   C05.xattr.read_fail     ret != 0 => *out untouched, nothing left allocated
 *                           by the stub bookkeeping (every block obtained was
 *                           released)
 *   (all CBMC memory / arithmetic checks)
 */
#include <stdlib.h>
#include <string.h>
#include <errno.h>
#include "verif.h"
#define ENV_PROP "C05"
#define ENV_NO_MEM_OVERRIDE
#include "C10/rd_env.h"
#include "C10/mr_contract.h"
#include "sqfs/xattr.h"

static unsigned g_reallocs;
static size_t g_realloc_size;
static void *g_realloc_new;

static void *stub_realloc(void *p, size_t n)
{
	unsigned char *q;

	VERIF_ASSERT(p != NULL && VERIF_R_OK(p, sizeof(sqfs_xattr_t)) &&
		     n >= sizeof(sqfs_xattr_t), "C05.env.realloc.args");
	++g_reallocs;
	g_realloc_size = n;
	q = malloc(n);
	if (q == NULL)
		return NULL;	/* old block stays valid */
	(memcpy)(q, p, sizeof(sqfs_xattr_t));
	if (g_k < n && g_k >= sizeof(sqfs_xattr_t) && g_k < VERIF_OBJECT_SIZE(p))
		q[g_k] = ((unsigned char *)p)[g_k];
	free(p);
	g_realloc_new = q;
	return q;
}
#define realloc(p, n) stub_realloc((p), (n))

#include "lib/sqfs/src/xattr/xattr.c"
#include "lib/sqfs/src/xattr/xattr_reader.c"

void harness(void)
{
	sqfs_xattr_reader_t *xr = malloc(sizeof(*xr));
	sqfs_meta_reader_t *kv = malloc(1);
	sqfs_xattr_t *out = NULL;
	int ret;

	VERIF_ASSUME(xr != NULL && kv != NULL);
	env_init();
	mrc_init();
	VERIF_ASSUME(g_mrc.pos_valid);
	g_mrc_rd0 = kv;
	xr->base.refcount = 1;
	xr->base.destroy = xattr_reader_destroy;
	xr->base.copy = xattr_reader_copy;
	xr->xattr_start = verif_nd_u64("xattr_start");
	xr->xattr_end = verif_nd_u64("xattr_end");
	xr->num_id_blocks = 0;
	xr->num_ids = 0;
	xr->id_block_starts = NULL;
	xr->idrd = NULL;
	xr->kvrd = kv;
	g_reallocs = 0;

	ret = sqfs_xattr_reader_read(xr, &out);

	if (ret == 0) {
		sqfs_u16 type = (sqfs_u16)(g_mrc.r[0].val & 0xFFFF);
		sqfs_u16 ksz = (sqfs_u16)((g_mrc.r[0].val >> 16) & 0xFFFF);
		size_t plen = (type & SQFS_XATTR_PREFIX_MASK) == SQFS_XATTR_USER ? 5 :
			(type & SQFS_XATTR_PREFIX_MASK) == SQFS_XATTR_TRUSTED ? 8 : 9;
		size_t vlen = out->value_len;

		VERIF_ASSERT(!g_mrc.failed && out != NULL && g_reallocs == 1 &&
			     (type & SQFS_XATTR_PREFIX_MASK) <= SQFS_XATTR_SECURITY,
			     "C05.xattr.read_layout");
		VERIF_ASSERT(g_mrc.r[1].n == ksz &&
			     g_mrc.r[g_mrc.reads - 1].buf == (void *)out->value &&
			     g_mrc.r[g_mrc.reads - 1].n == vlen &&
			     g_realloc_size == sizeof(*out) + plen + ksz + 1 + vlen + 1 &&
			     out->data[plen + ksz + 1 + vlen] == 0 &&
			     out->key == (const char *)out->data &&
			     out->value == out->data + plen + ksz + 1 &&
			     out->next == NULL && (void *)out == g_realloc_new,
			     "C05.xattr.read_layout");
		free(out);
	} else {
		VERIF_ASSERT(out == NULL, "C05.xattr.read_fail");
	}
	VERIF_COVER(ret == 0 && g_mrc.seeks == 2);
	VERIF_COVER(ret == 0 && g_mrc.seeks == 0);
	VERIF_COVER(ret != 0 && g_reallocs == 1);
	VERIF_COVER(ret == SQFS_ERROR_UNSUPPORTED);
	free(kv);
	free(xr);
}
