/* C05: two consumers of inode objects in lib/sqfs/src/inode.c (-DFN):
 *
 * FN 1  sqfs_inode_unpack_dir_index_entry on a well-formed extended directory
 *       inode (wf_inode as ensured by read_inode: the payload is a
 *       concatenation of NENT complete index entries, 12 byte header + size +
 *       1 name bytes; sizes symbolic, total below 4 GiB) for every index:
 *   C05.unpack_index.result   index < NENT => a fresh copy of exactly that
 *                             entry (header, size + 1 name bytes, terminator
 *                             inside the allocation); index >= NENT =>
 *                             OUT_OF_BOUNDS; non-directories refused
 *   C05.env.memcpy.*          every copy stays inside the payload / result
 *
 * FN 2  sqfs_dir_entry_from_inode for an arbitrary inode (type symbolic, all
 *       14 + unknown), a name buffer of NLEN bytes with or without terminator
 *       and the id table as a contract:
 *   C05.entry_from_inode.name   the name is copied up to the first NUL or len
 *                               bytes, result NUL terminated, inside the
 *                               allocation, never read beyond len bytes
 *   C05.entry_from_inode.ids    an id index the table rejects => CORRUPTED,
 *                               nothing returned
 */
#include <stdlib.h>
#include <string.h>
#include "verif.h"
#define ENV_PROP "C05"
#define ENV_NO_MEM_OVERRIDE
#include "C10/rd_env.h"
/* fixed-size record copies (sizeof) keep cbmc's exact built-in memcpy, copies
 * of an on-disk controlled length go through the checking witness stub */
#define memcpy(d, s, n) (__builtin_constant_p(n) ? (memcpy)((d), (s), (n)) : \
			 verif_memcpy((d), (s), (n)))
#include "C05/libc_models.h"
#include "sqfs/id_table.h"
#include "lib/util/src/alloc.c"

#ifndef FN
#error "define FN"
#endif

static unsigned g_id_calls;
static bool g_id_fail;

int sqfs_id_table_index_to_id(const sqfs_id_table_t *tbl, sqfs_u16 index,
			      sqfs_u32 *out)
{
	VERIF_ASSERT(tbl != NULL && out != NULL, "C05.env.index_to_id.args");
	(void)index;
	++g_id_calls;
	if (verif_nd_bool("id.fail")) {
		g_id_fail = true;
		return SQFS_ERROR_OUT_OF_BOUNDS;
	}
	*out = verif_nd_u32("id.value");
	return 0;
}

#include "lib/sqfs/src/inode.c"

void harness(void)
{
	int ret;

	env_init();
#if FN == 1
	{
#ifndef NENT
#define NENT 2
#endif
		sqfs_inode_generic_t *ino;
		sqfs_dir_index_t *out = NULL;
		sqfs_u32 sz[NENT + 1];
		size_t off[NENT + 1], used = 0, index = verif_nd_size("index");
		bool is_ext = verif_nd_bool("is_ext");
		unsigned i;

		for (i = 0; i < NENT; ++i) {
			sz[i] = verif_nd_u32("ent.size");
			off[i] = used;
			used += 12 + (size_t)sz[i] + 1;
		}
		off[NENT] = used;
		VERIF_ASSUME(used <= 0xFFFFFFFFUL);
		ino = malloc(sizeof(*ino) + used);
		VERIF_ASSUME(ino != NULL);
		ino->base.type = is_ext ? SQFS_INODE_EXT_DIR : verif_nd_u16("type");
		VERIF_ASSUME(is_ext || ino->base.type != SQFS_INODE_EXT_DIR);
		ino->payload_bytes_used = (sqfs_u32)used;
		ino->payload_bytes_available = (sqfs_u32)used;
		for (i = 0; i < NENT; ++i) {
			sqfs_dir_index_t hdr;
			hdr.start_block = verif_nd_u32("ent.start");
			hdr.index = verif_nd_u32("ent.index");
			hdr.size = sz[i];
			(memcpy)((char *)ino->extra + off[i], &hdr, 12);
		}
		VERIF_ASSUME(index <= NENT + 1);

		ret = sqfs_inode_unpack_dir_index_entry(ino, &out, index);

		if (!is_ext) {
			VERIF_ASSERT(ret == (ino->base.type == SQFS_INODE_DIR ?
					     SQFS_ERROR_OUT_OF_BOUNDS : SQFS_ERROR_NOT_DIR),
				     "C05.unpack_index.result");
		} else if (index >= NENT) {
			VERIF_ASSERT(ret == SQFS_ERROR_OUT_OF_BOUNDS && out == NULL,
				     "C05.unpack_index.result");
		} else if (ret == 0) {
			VERIF_ASSERT(out != NULL && out->size == sz[index] &&
				     VERIF_R_OK(out, 12 + (size_t)sz[index] + 2) &&
				     out->name[(size_t)sz[index] + 1] == 0,
				     "C05.unpack_index.result");
			free(out);
		} else {
			VERIF_ASSERT(ret == SQFS_ERROR_ALLOC, "C05.unpack_index.result");
		}
		VERIF_COVER(ret == 0 && index == NENT - 1 && sz[0] > 1000);
		VERIF_COVER(ret == SQFS_ERROR_OUT_OF_BOUNDS && is_ext);
		VERIF_COVER(ret == SQFS_ERROR_NOT_DIR);
		free(ino);
	}
#elif FN == 2
	{
#ifndef NLEN
#define NLEN 6
#endif
		sqfs_inode_generic_t ino;
		sqfs_dir_entry_t *out = NULL;
		sqfs_id_table_t *tbl = malloc(1);
		char *name = malloc(NLEN);
		size_t len = verif_nd_size("len"), n, i;
		bool term = verif_nd_bool("terminated");

		VERIF_ASSUME(tbl != NULL && name != NULL);
		verif_nd_bytes(&ino, sizeof(ino), "inode");
		for (i = 0; i < NLEN; ++i)
			name[i] = verif_nd_bool("name.nul") ? '\0' : 'n';
		if (term)
			name[NLEN - 1] = '\0';
		/* len == 0 means "NUL terminated string", else an upper bound
		   the caller guarantees to be readable */
		VERIF_ASSUME(len <= NLEN && (len > 0 || term));
		g_id_calls = 0;
		g_id_fail = false;

		ret = sqfs_dir_entry_from_inode(name, len, &ino, tbl, &out);

		if (g_id_fail)
			VERIF_ASSERT(ret == SQFS_ERROR_CORRUPTED && out == NULL,
				     "C05.entry_from_inode.ids");
		if (ret == 0) {
			n = 0;
			for (i = 0; i < NLEN; ++i) {
				if ((len == 0 || i < len) && name[i] != '\0' && n == i)
					n = i + 1;
			}
			VERIF_ASSERT(out != NULL && g_id_calls == 2 &&
				     VERIF_R_OK(out, sizeof(*out) + n + 1) &&
				     out->name[n] == '\0' &&
				     out->mode == ino.base.mode &&
				     out->mtime == ino.base.mod_time,
				     "C05.entry_from_inode.name");
			free(out);
		}
		VERIF_COVER(ret == 0 && len == 0);
		VERIF_COVER(ret == 0 && len == NLEN && !term);
		VERIF_COVER(ret == SQFS_ERROR_CORRUPTED);
		free(name);
		free(tbl);
	}
#endif
}
