# w20: bin/sqfsdiff - object ownership of main()/open_sfqs()/close_sfqs() over
# every failure path, exit status contract (sqfsdiff.1), node_compare /
# compare_dir_entries on small trees.
FUNCTIONS = ["main (sqfsdiff.c)", "open_sfqs", "close_sfqs"]
TRUSTED = [
    "w20: sqfs object contract (include/sqfs/predef.h, harness/C05/w20_sqfsdiff_env.h): every library constructor used by sqfsdiff (sqfs_file_open, sqfs_super_read, sqfs_compressor_create, read_options/get_configuration, sqfs_id_table_create/_read, sqfs_dir_reader_create, sqfs_dir_reader_get_full_hierarchy, sqfs_data_reader_create/_load_fragment_table) either fails handing out nothing (*out NULL/untouched) or hands out one object that must be released exactly once; mkdir_p / chdir / process_options / node_compare / compare_super_blocks are 'any result' contracts with argument checks",
]
ASSUMPTIONS = [
    "w20 sqfsdiff_main: a failing compressor->read_options is NOT fatal for sqfsdiff (the tool prints a diagnostic and only loses the option comparison of --super): the status obligation follows the code here, the property text does not decide it",
    "w20 sqfsdiff_main: node_compare / compare_super_blocks are contracts (any int); that a differing symlink target is printed without setting the exit status (node_compare.c) is functional and outside the text of C05",
]
HARNESSES = [
    dict(name="w20_sqfsdiff_main", file="w20_sqfsdiff_main.c", label="proved", timeout=300,
         fp={"destroy": "sd_destroy", "read_options": "sd_read_options",
             "get_configuration": "sd_get_configuration"},
         cases=[dict(id="all", tier="quick")]),
]
