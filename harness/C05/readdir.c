/* C05: sqfs_meta_reader_readdir / read_dir_header / read_dir_ent on arbitrary
 * directory bytes, from an arbitrary cursor state (any size, any number of
 * entries left). Metadata reader = its contract (mr_contract.h).
 *
 *   C05.readdir.progress      ret == 0 => it->size strictly smaller than
 *                             before (by at least the 8 byte entry header):
 *                             every listing loop `while (readdir() == 0)`
 *                             terminates after at most size/8 entries,
 *                             whatever counts the image claims
 *   C05.readdir.count_limit   after a header was accepted at most 256 entries
 *                             are expected (SQFS_MAX_DIR_ENT)
 *   C05.readdir.name_nul      ret == 0 => the entry has size + 2 name bytes
 *                             allocated and name[size + 1] == 0
 *   C05.readdir.eof_final     ret > 0 => size == 0 and entries == 0: the
 *                             next call reports EOF again without touching
 *                             the reader
 *   (all CBMC memory / arithmetic checks; --conversion-check off: the signed
 *    inode_diff is added to an unsigned base on purpose)
 */
#include <stdlib.h>
#include <string.h>
#include "verif.h"
#define ENV_PROP "C05"
#define ENV_NO_MEM_OVERRIDE
#include "C10/rd_env.h"
#include "C10/mr_contract.h"
#include "lib/sqfs/src/readdir.c"

void harness(void)
{
	sqfs_meta_reader_t *m = malloc(1);
	sqfs_readdir_state_t it, it0;
	sqfs_dir_node_t *ent = NULL;
	sqfs_u32 inum = 0;
	sqfs_u64 iref = 0;
	int ret;

	VERIF_ASSUME(m != NULL);
	env_init();
	mrc_init();
	g_mrc_rd0 = m;

	it.inode_block = verif_nd_u64("it.inode_block");
	it.block = verif_nd_u64("it.block");
	it.offset = verif_nd_size("it.offset");
	it.size = verif_nd_size("it.size");
	it.entries = verif_nd_size("it.entries");
	it.inum_base = verif_nd_u32("it.inum_base");
	it0 = it;

	ret = sqfs_meta_reader_readdir(m, &it, &ent, &inum, &iref);

	if (ret == 0) {
		VERIF_ASSERT(it.size < it0.size && it0.size - it.size >= 8,
			     "C05.readdir.progress");
		VERIF_ASSERT(ent != NULL &&
			     VERIF_R_OK(ent, sizeof(*ent) + (size_t)ent->size + 2) &&
			     ent->name[(size_t)ent->size + 1] == 0,
			     "C05.readdir.name_nul");
		if (it0.entries == 0)
			VERIF_ASSERT(it.entries <= 255, "C05.readdir.count_limit");
		else
			VERIF_ASSERT(it.entries == it0.entries - 1,
				     "C05.readdir.count_limit");
	} else if (ret > 0) {
		VERIF_ASSERT(it.size == 0 && it.entries == 0,
			     "C05.readdir.eof_final");
	}
	if (it0.size == 0 && it0.entries == 0)
		VERIF_ASSERT(ret > 0 && g_mrc.ops == 0, "C05.readdir.eof_final");

	VERIF_COVER(ret == 0 && it0.entries == 0);
	VERIF_COVER(ret == 0 && it0.entries > 0 && it.size == 0);
	VERIF_COVER(ret > 0);
	VERIF_COVER(ret < 0 && !g_mrc.failed);
	if (ret == 0)
		free(ent);
	free(m);
}
