/* C05: sqfs_data_reader_get_fragment for an arbitrary well-formed file inode
 * (fragment index / offset, file size from the image), arbitrary fragment
 * cache state, every legal block size (symbolic).
 *
 *   C05.env.memcpy.src_readable   the tail is copied out of the fragment
 *                                 block only inside its block_size bytes:
 *                                 fragment_offset + tail size must be checked
 *                                 without wrapping
 *   C05.get_fragment.result       ret == 0 => *out NULL with *size 0 (no
 *                                 tail), or a fresh buffer of *size ==
 *                                 file_size % block_size bytes; ret != 0 =>
 *                                 *out == NULL
 */
#include <stdlib.h>
#include <string.h>
#include <errno.h>
#include "verif.h"
#define ENV_PROP "C05"
#define ENV_IS_PAYLOAD(p, n) 1
#define DR_DEFINES_LOOKUP
#include "C10/dr_common.h"
#include "C05/dr_inode.h"

static sqfs_frag_table_t *g_ft;

int sqfs_frag_table_lookup(sqfs_frag_table_t *tbl, sqfs_u32 index,
			   sqfs_fragment_t *out)
{
	VERIF_ASSERT(tbl == g_ft, "C05.env.lookup.table");
	(void)index;
	if (verif_nd_bool("lookup.fail"))
		return SQFS_ERROR_OUT_OF_BOUNDS;
	out->start_offset = verif_nd_u64("lookup.start");
	out->size = verif_nd_u32("lookup.size");
	out->pad0 = verif_nd_u32("lookup.pad0");
	return 0;
}

void harness(void)
{
	sqfs_data_reader_t *rd;
	sqfs_inode_generic_t *ino;
	size_t nblk, size = verif_nd_size("size.before");
	sqfs_u8 *out = NULL;
	sqfs_u64 filesz;
	int ret;

	env_init();
	env_objects_init();
	g_ft = malloc(1);
	VERIF_ASSUME(g_ft != NULL);
	rd = dr_new(g_ft);
	if (verif_nd_bool("frag.cached")) {
		rd->frag_block = malloc(BS);
		VERIF_ASSUME(rd->frag_block != NULL);
		rd->frag_blk_size = verif_nd_size("frag.size");
		VERIF_ASSUME(rd->frag_blk_size <= BS);
	}
	rd->current_frag_index = verif_nd_u32("frag.tag");
	ino = di_new_file(&nblk);
	sqfs_inode_get_file_size(ino, &filesz);

	ret = sqfs_data_reader_get_fragment(rd, ino, &size, &out);

	if (ret == 0) {
		if (out == NULL) {
			VERIF_ASSERT(size == 0, "C05.get_fragment.result");
		} else {
			VERIF_ASSERT(size == filesz % BS &&
				     (size == 0 || VERIF_R_OK(out, size)),
				     "C05.get_fragment.result");
		}
	} else {
		VERIF_ASSERT(out == NULL, "C05.get_fragment.result");
	}
	VERIF_COVER(ret == 0 && out != NULL);
	VERIF_COVER(ret == 0 && out == NULL);
	VERIF_COVER(ret != 0);
	free(out);
	free(ino);
	dr_delete(rd);
	free(g_ft);
}
