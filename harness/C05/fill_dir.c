/* C05: the per-directory step of fill_dir (lib/common/src/read_tree.c), the
 * recursive tree reader behind sqfs_dir_reader_get_full_hierarchy, on a
 * hostile directory structure - inductive in the depth:
 *   - the directory being filled (root) sits below an ARBITRARY chain of up
 *     to FD_CHAIN ancestors with arbitrary inode numbers;
 *   - the directory reader is its contract: sqfs_dir_reader_read delivers up
 *     to FD_MAXENT entries of arbitrary type, sqfs_dir_reader_get_inode
 *     inodes of arbitrary type (basic / extended directory, other) and
 *     arbitrary inode NUMBER (the image may name an ancestor again: a loop),
 *     open_dir succeeds or fails;
 *   - create_node (alloc + strcpy) is replaced by a contract stub returning a
 *     fresh typed node or NULL (goto-instrument --replace-calls); the stub
 *     remembers which node carries which inode;
 *   - the recursion is real but shallow: once a directory has been entered
 *     (open_dir succeeded) the reader contract only reports end-of-directory
 *     or an error, so the nested fill_dir returns at once. The descent itself
 *     is observed at sqfs_dir_reader_open_dir, which fill_dir calls with the
 *     child's inode immediately before it recurses.
 *
 *   C05.read_tree.noloop    fill_dir never descends into a node - basic OR
 *                           extended directory - whose inode number is that of
 *                           one of its ancestors (root or the chain above
 *                           it). With 2^32 inode numbers the recursion depth
 *                           is bounded whatever the image says.
 *   C05.read_tree.loop_reported  a child that repeats an ancestor's number
 *                           makes the call fail with SQFS_ERROR_LINK_LOOP
 *   C05.read_tree.tree_wf   ret == 0 => every child hangs below root
 *                           (parent == root), the list is NULL terminated
 *                           within FD_MAXENT nodes
 * Bounded: entries per directory <= 1 (case split over count and inode type;
 * two entries did not finish in 170 s),
 * ancestor chain <= FD_CHAIN; allocation failures of the stubs' own objects are
 * not explored (create_node returning NULL is).
 */
#include <stdlib.h>
#include <string.h>
#include "verif.h"
#include "sqfs/predef.h"
#include "sqfs/dir_reader.h"
#include "sqfs/inode.h"
#include "sqfs/dir.h"
#include "sqfs/error.h"
#include "dir_tree.h"

/* shape concrete, values symbolic: the directory has exactly FD_NENT entries
 * (0..2) whose inode types are FD_T0 / FD_T1 (0 = regular file, 1 = basic
 * directory, 2 = extended directory); inode numbers, flags, failures of
 * get_inode / open_dir stay symbolic */
#ifndef FD_NENT
#define FD_NENT 2
#endif
#ifndef FD_T0
#define FD_T0 2
#endif
#ifndef FD_T1
#define FD_T1 1
#endif
#define FD_MAXENT FD_NENT
#ifndef FD_CHAIN
#define FD_CHAIN 2
#endif

static sqfs_dir_reader_t *g_dr;
static unsigned g_reads;		/* entries delivered */
static unsigned g_descents;
static struct { const sqfs_inode_generic_t *ino; sqfs_tree_node_t *node; } g_made[FD_MAXENT + 1];
static unsigned g_made_n;
static bool g_dup_seen;		/* an inode repeating an ancestor was delivered */
static sqfs_tree_node_t *g_root;

static bool fd_on_chain(const sqfs_tree_node_t *from, sqfs_u32 num)
{
	const sqfs_tree_node_t *a = from;
	unsigned up;

	for (up = 0; up <= FD_CHAIN + 1; ++up) {
		if (a == NULL)
			break;
		if (a->inode->base.inode_number == num)
			return true;
		a = a->parent;
	}
	return false;
}

int sqfs_dir_reader_read(sqfs_dir_reader_t *rd, sqfs_dir_reader_state_t *state,
			 sqfs_dir_node_t **out)
{
	sqfs_dir_node_t *ent;

	VERIF_ASSERT(rd == g_dr && state != NULL, "C05.env.dir_read.args");
	if (g_descents > 0 || g_reads >= FD_NENT)
		return 1;
	++g_reads;
	ent = malloc(sizeof(*ent));
	VERIF_ASSUME(ent != NULL);
	ent->type = SQFS_INODE_FILE;	/* never skipped by should_skip */
	ent->size = 0;
	ent->offset = 0;
	ent->inode_diff = 0;
	state->ent_ref = verif_nd_u64("ent.ref");
	*out = ent;
	return 0;
}

int sqfs_dir_reader_get_inode(sqfs_dir_reader_t *rd, sqfs_u64 ref,
			      sqfs_inode_generic_t **inode)
{
	sqfs_inode_generic_t *ino;

	VERIF_ASSERT(rd == g_dr, "C05.env.get_inode.args");
	(void)ref;
	if (verif_nd_bool("gi.fail"))
		return SQFS_ERROR_IO;
	ino = malloc(sizeof(*ino));
	VERIF_ASSUME(ino != NULL);
	{
		int t = (g_reads == 1) ? FD_T0 : FD_T1;
		ino->base.type = t == 2 ? SQFS_INODE_EXT_DIR :
			t == 1 ? SQFS_INODE_DIR : SQFS_INODE_FILE;
	}
	ino->base.inode_number = verif_nd_u32("gi.num");
	if (fd_on_chain(g_root, ino->base.inode_number))
		g_dup_seen = true;
	*inode = ino;
	return 0;
}

int sqfs_dir_reader_open_dir(sqfs_dir_reader_t *rd,
			     const sqfs_inode_generic_t *inode,
			     sqfs_dir_reader_state_t *state, sqfs_u32 flags)
{
	sqfs_tree_node_t *n = NULL;
	unsigned i;

	VERIF_ASSERT(rd == g_dr && state != NULL && inode != NULL &&
		     (inode->base.type == SQFS_INODE_DIR ||
		      inode->base.type == SQFS_INODE_EXT_DIR),
		     "C05.env.open_dir.args");
	(void)flags;
	/* fill_dir is about to descend into the node of this inode: its
	   number must not be on the chain above it */
	for (i = 0; i <= FD_MAXENT; ++i) {
		if (i < g_made_n && g_made[i].ino == inode)
			n = g_made[i].node;
	}
	VERIF_ASSERT(n != NULL && n->parent == g_root &&
		     !fd_on_chain(n->parent, inode->base.inode_number),
		     "C05.read_tree.noloop");
	if (verif_nd_bool("od.fail"))
		return SQFS_ERROR_IO;
	++g_descents;
	return 0;
}

/* contract of create_node */
static sqfs_tree_node_t *stub_create_node(sqfs_inode_generic_t *inode,
					  const char *name)
{
	sqfs_tree_node_t *n;

	VERIF_ASSERT(inode != NULL && name != NULL, "C05.env.create_node.args");
	if (verif_nd_bool("cn.fail"))
		return NULL;
	n = malloc(sizeof(*n));
	VERIF_ASSUME(n != NULL);
	n->parent = NULL;
	n->children = NULL;
	n->next = NULL;
	n->inode = inode;
	n->uid = 0;
	n->gid = 0;
	if (g_made_n <= FD_MAXENT) {
		g_made[g_made_n].ino = inode;
		g_made[g_made_n].node = n;
	}
	++g_made_n;
	return n;
}

static void fd_destroy(sqfs_object_t *o) { (void)o; }
static sqfs_object_t *fd_copy(const sqfs_object_t *o) { (void)o; return NULL; }

#include "lib/common/src/read_tree.c"

void harness(void)
{
	sqfs_tree_node_t chain[FD_CHAIN + 1];
	sqfs_inode_generic_t inos[FD_CHAIN + 1];
	sqfs_dir_reader_state_t state;
	unsigned flags = verif_nd_u32("flags") & SQFS_TREE_ALL_FLAGS;
	unsigned depth = verif_nd_u32("depth"), i, cnt;
	sqfs_tree_node_t *n;
	int ret;

	(void)fd_destroy; (void)fd_copy; (void)stub_create_node;
	g_dr = malloc(1);
	VERIF_ASSUME(g_dr != NULL);
	/* chain[0] is the directory to fill, chain[1..depth] its ancestors */
	VERIF_ASSUME(depth <= FD_CHAIN);
	for (i = 0; i <= FD_CHAIN; ++i) {
		inos[i].base.type = SQFS_INODE_DIR;
		inos[i].base.inode_number = verif_nd_u32("chain.num");
		chain[i].inode = &inos[i];
		chain[i].parent = (i < depth) ? &chain[i + 1] : NULL;
		chain[i].children = NULL;
		chain[i].next = NULL;
	}
	g_root = &chain[0];
	g_reads = 0;
	g_descents = 0;
	g_made_n = 0;
	g_dup_seen = false;
	memset(&state, 0, sizeof(state));

	ret = fill_dir(g_dr, &chain[0], &state, flags);

	if (ret == 0) {
		VERIF_ASSERT(!g_dup_seen, "C05.read_tree.loop_reported");
		cnt = 0;
		for (n = chain[0].children; cnt <= FD_MAXENT; ++cnt) {
			if (n == NULL)
				break;
			VERIF_ASSERT(n->parent == &chain[0], "C05.read_tree.tree_wf");
			n = n->next;
		}
		VERIF_ASSERT(n == NULL, "C05.read_tree.tree_wf");
	}
	VERIF_COVER(ret == 0 && g_descents == (FD_NENT > 0 && FD_T0 > 0) + (FD_NENT > 1 && FD_T1 > 0));
	VERIF_COVER(FD_NENT == 0 || (ret == SQFS_ERROR_LINK_LOOP && depth == FD_CHAIN));
	VERIF_COVER(ret == 0 && g_reads == FD_NENT);
}
