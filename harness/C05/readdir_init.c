/* C05: sqfs_readdir_state_init for every inode type (symbolic): only the two
 * directory types are accepted, the cursor is taken from the matching union
 * member, the block is relative to the directory table.
 *
 *   C05.readdir_init.dirs_only   ret == 0 <=> type is DIR or EXT_DIR
 *   C05.readdir_init.fields      cursor == (start_block + table start,
 *                                offset, size) of the matching member,
 *                                entries == 0
 */
#include <stdlib.h>
#include <string.h>
#include "verif.h"
#define ENV_PROP "C05"
#define ENV_NO_MEM_OVERRIDE
#include "C10/rd_env.h"
#include "lib/sqfs/src/readdir.c"

void harness(void)
{
	sqfs_inode_generic_t ino;
	sqfs_readdir_state_t s;
	sqfs_super_t super;
	bool ext = verif_nd_bool("ext");
	int ret;

	ino.base.type = verif_nd_u16("type");
	if (ext) {
		ino.data.dir_ext.start_block = verif_nd_u32("start");
		ino.data.dir_ext.offset = verif_nd_u16("offset");
		ino.data.dir_ext.size = verif_nd_u32("size");
	} else {
		ino.data.dir.start_block = verif_nd_u32("start");
		ino.data.dir.offset = verif_nd_u16("offset");
		ino.data.dir.size = verif_nd_u16("size");
	}
	super.directory_table_start = verif_nd_u64("dir_table_start");
	verif_nd_bytes(&s, sizeof(s), "state.before");

	ret = sqfs_readdir_state_init(&s, &super, &ino);

	VERIF_ASSERT((ret == 0) == (ino.base.type == SQFS_INODE_DIR ||
				    ino.base.type == SQFS_INODE_EXT_DIR) &&
		     (ret == 0 || ret == SQFS_ERROR_NOT_DIR),
		     "C05.readdir_init.dirs_only");
	if (ret == 0 && ext == (ino.base.type == SQFS_INODE_EXT_DIR)) {
		sqfs_u64 start = ext ? ino.data.dir_ext.start_block :
			ino.data.dir.start_block;
		size_t off = ext ? ino.data.dir_ext.offset : ino.data.dir.offset;
		size_t size = ext ? ino.data.dir_ext.size : ino.data.dir.size;
		VERIF_ASSERT(s.block == start + super.directory_table_start &&
			     s.offset == off && s.size == size && s.entries == 0,
			     "C05.readdir_init.fields");
	}
	VERIF_COVER(ret == 0 && ext);
	VERIF_COVER(ret == 0 && !ext);
	VERIF_COVER(ret != 0);
}
