/* C05: would_be_own_parent (lib/common/src/read_tree.c), the directory loop
 * detection of the tree reader: for a chain of up to OP_DEPTH ancestors with
 * arbitrary inode numbers (taken from the image) the walk terminates and
 * answers exactly "some ancestor has the inode number of the new node".
 * fill_dir rejects such a node (SQFS_ERROR_LINK_LOOP) before it recurses, so
 * along any path of the tree being built all inode numbers are distinct.
 * Bounded: chain length case split 0..OP_DEPTH, loop unwound.
 *
 *   C05.read_tree.own_parent_iff   result == exists ancestor with equal number
 *   (unwinding assertion)          the walk ends after at most depth steps
 */
#include <stdlib.h>
#include <string.h>
#include "verif.h"
#include "lib/common/src/read_tree.c"

#ifndef OP_DEPTH
#define OP_DEPTH 4
#endif

void harness(void)
{
	sqfs_tree_node_t nodes[OP_DEPTH + 1];
	sqfs_inode_generic_t inos[OP_DEPTH + 1];
	sqfs_tree_node_t *parent = NULL;
	bool expect = false, got;
	unsigned i;

	/* nodes[0] is the new node, nodes[1..OP_DEPTH] the ancestor chain,
	   nodes[OP_DEPTH] being the root */
	for (i = 0; i <= OP_DEPTH; ++i) {
		inos[i].base.inode_number = verif_nd_u32("inode_number");
		nodes[i].inode = &inos[i];
		nodes[i].parent = (i < OP_DEPTH) ? &nodes[i + 1] : NULL;
		nodes[i].children = NULL;
		nodes[i].next = NULL;
	}
	if (OP_DEPTH > 0)
		parent = &nodes[1];
	for (i = 1; i <= OP_DEPTH; ++i) {
		if (inos[i].base.inode_number == inos[0].base.inode_number)
			expect = true;
	}

	got = would_be_own_parent(parent, &nodes[0]);

	VERIF_ASSERT(got == expect, "C05.read_tree.own_parent_iff");
	VERIF_COVER(got || OP_DEPTH == 0);
	VERIF_COVER(!got);
}
