/* C05 (w13): rdsquashfs `stat` - the real stat_file() of bin/rdsquashfs/src/
 * stat.c on a tree node whose inode is an ARBITRARY wf_inode (what harness
 * read_inode ensures, nothing more) of the concrete type ITYPE (all 14), every
 * field symbolic: file inodes with a symbolic number of block words (loop
 * contract on the block list walk: contracts/loops/C05_w13.tbl), symlinks with
 * a symbolic target length (no NUL assumed inside the target, only behind it),
 * extended directories with NENT complete index entries of symbolic sizes.
 *
 * Callees: the loop-free accessors of lib/sqfs/src/inode.c are the real ones;
 * sqfs_inode_unpack_dir_index_entry is its contract (C05.unpack_index.result,
 * proved in harness inode_misc); printf / strftime / gmtime are contracts
 * (w13_env.h: every %s / %.*s argument must be a readable string).
 *
 *   C05.stat.ok                 stat_file returns 0 unless unpacking an index
 *                               entry failed (then -1, after a diagnostic)
 *   C05.stat.index_walk         the index walk asks for entries 0,1,2,... in
 *                               order, stops at the first OUT_OF_BOUNDS and
 *                               releases every entry it was given (no leak, no
 *                               double free: --memory-leak-check + cbmc's
 *                               pointer checks)
 *   C05.env.printf.string_arg   every string handed to printf is terminated
 *                               inside its object or cut by a precision that
 *                               stays inside it
 *   C05.env.unpack_index.args   callee precondition
 *   (all CBMC memory / arithmetic checks; termination: decreases clause on the
 *    block list loop, unwinding assertion NENT + 2 on the index walk, whose
 *    exit is the callee's OUT_OF_BOUNDS)
 */
#include <stdlib.h>
#include <string.h>
#include "w13_env.h"
#include "common.h"

#ifndef ITYPE
#error "define ITYPE"
#endif
#ifndef NENT
#define NENT 0
#endif

static w13_ino_ghost_t g_ig;
static size_t g_w13_nblk;	/* ghost for the loop contract */
static unsigned g_unpack_calls, g_unpack_live, g_unpack_failed;
static const sqfs_inode_generic_t *g_the_inode;

/* contract of sqfs_inode_unpack_dir_index_entry (C05.unpack_index.result) */
int sqfs_inode_unpack_dir_index_entry(const sqfs_inode_generic_t *inode,
				      sqfs_dir_index_t **out, size_t index)
{
	sqfs_dir_index_t *ent;
	size_t sz;

	VERIF_ASSERT(inode == g_the_inode && out != NULL,
		     "C05.env.unpack_index.args");
	VERIF_ASSERT(index == g_unpack_calls, "C05.stat.index_walk");
	++g_unpack_calls;
	if (inode->base.type != SQFS_INODE_EXT_DIR)
		return inode->base.type == SQFS_INODE_DIR ?
			SQFS_ERROR_OUT_OF_BOUNDS : SQFS_ERROR_NOT_DIR;
	if (index >= g_ig.nent)
		return SQFS_ERROR_OUT_OF_BOUNDS;
	sz = g_ig.ent_size[index];
	ent = malloc(sizeof(*ent) + sz + 2);
	if (ent == NULL) {
		++g_unpack_failed;
		return SQFS_ERROR_ALLOC;
	}
	ent->start_block = verif_nd_u32("idx.start");
	ent->index = verif_nd_u32("idx.index");
	ent->size = (sqfs_u32)sz;
	ent->name[sz + 1] = '\0';
	pr_register(ent->name, sz + 1);
	++g_unpack_live;
	*out = ent;
	return 0;
}

static struct tm g_tm;

struct tm *gmtime(const time_t *t)
{
	VERIF_ASSERT(t != NULL && VERIF_R_OK(t, sizeof(*t)), PR("gmtime.args"));
	/* may fail only when the year does not fit an int */
	if ((*t < 0 || *t > 0xFFFFFFFFLL) && verif_nd_bool("gmtime.fail"))
		return NULL;
	g_tm.tm_year = verif_nd_int("tm.year");
	return &g_tm;
}

size_t strftime(char *s, size_t max, const char *fmt, const struct tm *tm)
{
	size_t n = verif_nd_size("strftime.len");

	VERIF_ASSERT(tm != NULL && VERIF_R_OK(tm, sizeof(*tm)) && fmt != NULL &&
		     max > 0 && VERIF_W_OK(s, max), PR("strftime.args"));
	/* "%a, %d %b %Y %T %z": 3+2+2+1+3+1+(year <= 11)+1+8+1+5 <= 40 */
	VERIF_ASSERT(max >= 40, PR("strftime.args"));
	VERIF_ASSUME(n < 40);
	s[n] = '\0';
	pr_register(s, n);
	return n;
}

/* the real loop-free accessors; the real unpack function is compiled under
 * another name and never called (its contract above stands for it) */
#define sqfs_inode_unpack_dir_index_entry w13_real_unpack_dir_index_entry
#include "lib/sqfs/src/inode.c"
#undef sqfs_inode_unpack_dir_index_entry

#include "bin/rdsquashfs/src/stat.c"

static struct {
	sqfs_tree_node_t n;
	sqfs_u8 name[4];
} g_node;

void harness(void)
{
	sqfs_inode_generic_t *ino;
	int ret;

	pr_init();
	g_unpack_calls = g_unpack_live = g_unpack_failed = 0;
	ino = w13_new_inode(ITYPE, NENT, &g_ig);
	g_the_inode = ino;
	g_w13_nblk = g_ig.nblk;
	if (ITYPE == SQFS_INODE_SLINK || ITYPE == SQFS_INODE_EXT_SLINK)
		pr_register(ino->extra, g_ig.tlen);

	g_node.n.parent = NULL;
	g_node.n.children = NULL;
	g_node.n.next = NULL;
	g_node.n.inode = ino;
	g_node.n.uid = verif_nd_u32("uid");
	g_node.n.gid = verif_nd_u32("gid");
	verif_nd_bytes(g_node.name, 3, "name");
	g_node.name[3] = '\0';
	pr_register(g_node.n.name, 3);

	VERIF_COVER(ITYPE != SQFS_INODE_FILE || g_ig.nblk == W13_MAXBLK || g_ig.nblk > 100000);
	VERIF_COVER(ITYPE != SQFS_INODE_EXT_SLINK || g_ig.tlen > 0x80000000UL);

	ret = stat_file(&g_node.n);

	VERIF_ASSERT(ret == 0 || (ret == -1 && g_unpack_failed == 1 &&
				  g_pr.err_calls == 1), "C05.stat.ok");
	if (ITYPE == SQFS_INODE_EXT_DIR && ret == 0 &&
	    ino->data.dir_ext.size != 0)
		VERIF_ASSERT(g_unpack_calls == NENT + 1, "C05.stat.index_walk");
	if (ITYPE != SQFS_INODE_EXT_DIR)
		VERIF_ASSERT(g_unpack_calls == 0 && ret == 0, "C05.stat.index_walk");
	VERIF_COVER(ret == 0);
	VERIF_COVER(ret == 0 && g_pr.out_calls > 7);
#if ITYPE == 8 && NENT > 0
	VERIF_COVER(ret == -1);
	VERIF_COVER(ret == 0 && g_unpack_calls == NENT + 1 &&
		    g_ig.ent_size[0] > 0x80000000UL);
#endif
	free(ino);
}
