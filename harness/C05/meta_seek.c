/* C05: sqfs_meta_reader_seek from an arbitrary well-formed reader state, for
 * every block_start / offset and every image (header word, body bytes,
 * un-compressor result and failures all arbitrary).
 *
 *   C05.meta.seek_wf   on EVERY return (success or failure) the reader is
 *                      well formed again: data_used <= 8192 and offset <=
 *                      data_used - the precondition of sqfs_meta_reader_read,
 *                      which computes data_used - offset unsigned and copies
 *                      that many bytes
 *   C05.meta.seek_fits_block   at most 8192 bytes are read into m->data,
 *                      unpacked into m->scratch and copied back
 *   C05.env.*          at most 8192 bytes are read into / unpacked into /
 *                      copied between the two 8 KiB buffers
 *   (all CBMC memory / arithmetic checks inside the function)
 */
#include <stdlib.h>
#include <string.h>
#include "verif.h"
#define ENV_PROP "C05"
static void *g_rdr;
#ifdef VERIF_REPLAY
static int ms_in_reader(const void *p);
#define ENV_IS_PAYLOAD(p, n) ms_in_reader(p)
#else
#define ENV_IS_PAYLOAD(p, n) VERIF_SAME_OBJECT((p), g_rdr)
#endif
#include "C10/rd_env.h"
#include "lib/sqfs/src/meta_reader.c"

#ifdef VERIF_REPLAY
static int ms_in_reader(const void *p)
{
	return (const char *)p >= (const char *)g_rdr &&
		(const char *)p < (const char *)g_rdr + sizeof(sqfs_meta_reader_t);
}
#endif

void harness(void)
{
	sqfs_meta_reader_t *m = malloc(sizeof(*m));
	sqfs_u64 block_start;
	size_t offset;
	int ret;

	VERIF_ASSUME(m != NULL);
	env_init();
	env_objects_init();
	g_rdr = m;

	m->base.refcount = 1;
	m->base.destroy = meta_reader_destroy;
	m->base.copy = meta_reader_copy;
	m->file = &g_file;
	m->cmp = &g_cmp;
	m->start = verif_nd_u64("start");
	m->limit = verif_nd_u64("limit");
	m->block_offset = verif_nd_u64("tag");
	m->next_block = verif_nd_u64("next");
	m->data_used = verif_nd_size("used");
	m->offset = verif_nd_size("cursor");
	VERIF_ASSUME(m->data_used <= sizeof(m->data));
	VERIF_ASSUME(m->offset <= m->data_used);
#ifdef VERIF_REPLAY
	(memset)(m->data, 0xA5, sizeof(m->data));
	(memset)(m->scratch, 0x5A, sizeof(m->scratch));
#endif
	block_start = verif_nd_u64("block_start");
	offset = verif_nd_size("offset");

	ret = sqfs_meta_reader_seek(m, block_start, offset);

	VERIF_ASSERT(m->data_used <= sizeof(m->data) &&
		     m->offset <= m->data_used, "C05.meta.seek_wf");
	/* the two 8 KiB arrays are members of one object, so an overrun from
	   one into the other is not an object-bounds violation: state it */
	{
		unsigned i;
		for (i = 0; i < ENV_LOG; ++i) {
			if (i < g_rd_n && g_rd[i].buf == (void *)m->data)
				VERIF_ASSERT(g_rd[i].n <= sizeof(m->data),
					     "C05.meta.seek_fits_block");
			if (i < g_blk_n)
				VERIF_ASSERT(g_blk[i].in == m->data &&
					     g_blk[i].n <= sizeof(m->data) &&
					     g_blk[i].out == m->scratch &&
					     g_blk[i].m <= sizeof(m->scratch),
					     "C05.meta.seek_fits_block");
			if (i < g_cpy_n)
				VERIF_ASSERT(g_cpy[i].n <= sizeof(m->data),
					     "C05.meta.seek_fits_block");
		}
	}
	VERIF_ASSERT(ret <= 0, "C05.meta.seek_status_domain");
	VERIF_COVER(ret == 0 && g_blk_n == 1);
	VERIF_COVER(ret == 0 && g_rd_n == 2 && g_blk_n == 0);
	VERIF_COVER(ret != 0 && g_rd_n == 2 && g_rd[1].ret == 0);
	VERIF_COVER(ret != 0 && g_rd_n == 0);
	free(m);
}
