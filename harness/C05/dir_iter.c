/* C05: the squashfs directory iterator (lib/sqfs/src/dir_iterator.c), one
 * entry point per case (-DFN): 1 it_next, 2 it_read_link, 3 the three
 * dispatchers it_open_subdir / it_open_file_ro / it_read_xattr, 4
 * sqfs_dir_iterator_create. Everything it calls is a contract (each verified
 * by its own harness or listed as not covered): sqfs_dir_reader_open_dir /
 * read / get_inode (dirrd), sqfs_dir_entry_from_inode,
 * sqfs_inode_get_xattr_index, sqfs_data_reader_create_stream
 * (dr_create_stream), sqfs_xattr_reader_read_all. The iterator starts in an
 * arbitrary well-formed state: no current entry, or a current entry with its
 * inode (wf_inode) and directory node (name NUL terminated).
 *
 *   C05.dir_iter.next_state   it_next: the previous entry is released exactly
 *                             once; ret == 0 => a current inode and node, an
 *                             entry object returned with the entry's
 *                             reference; ret != 0 => no current entry, nothing
 *                             returned, nothing leaked into the iterator
 *   C05.dir_iter.read_link    only for symlink inodes; the result has
 *                             target_size + 1 bytes, is NUL terminated and the
 *                             copy stays inside the inode's payload
 *   C05.dir_iter.dispatch     open_subdir only for directory inodes,
 *                             open_file_ro only for file inodes with a data
 *                             reader, read_xattr only with an xattr reader and
 *                             an index; no current entry => NO_ENTRY
 *   C05.dir_iter.create       ret == 0 => all six hooks set, readers grabbed
 *                             once each, state from open_dir; ret != 0 =>
 *                             nothing grabbed, *out untouched
 */
#include <stdlib.h>
#include <string.h>
#include "verif.h"
#define ENV_PROP "C05"
#include "C10/rd_env.h"
#include "sqfs/dir_reader.h"
#include "sqfs/xattr_reader.h"
#include "sqfs/data_reader.h"
#include "sqfs/dir_entry.h"
#include "sqfs/id_table.h"
#include "sqfs/inode.h"
#include "sqfs/dir.h"

#ifndef FN
#error "define FN"
#endif

static unsigned g_frees, g_reads, g_gets, g_froms, g_opens, g_streams, g_xattrs;
static void *g_freed[6];
static int g_read_ret, g_get_ret, g_from_ret, g_open_ret;
static sqfs_dir_node_t *g_new_dent;
static sqfs_inode_generic_t *g_new_inode;
static sqfs_dir_entry_t *g_new_ent;
static sqfs_u64 g_new_ref;
static const sqfs_inode_generic_t *g_open_inode;

void sqfs_free(void *p)
{
	if (p != NULL && g_frees < 6)
		g_freed[g_frees] = p;
	if (p != NULL)
		++g_frees;
	free(p);
}

int sqfs_dir_reader_read(sqfs_dir_reader_t *rd, sqfs_dir_reader_state_t *state,
			 sqfs_dir_node_t **out)
{
	VERIF_ASSERT(rd != NULL && state != NULL && out != NULL && *out == NULL,
		     "C05.env.dir_read.args");
	++g_reads;
	g_read_ret = verif_nd_bool("rd.fail") ? env_nd_error("rd.err") :
		(verif_nd_bool("rd.eof") ? 1 : 0);
	if (g_read_ret == 0) {
		sqfs_u16 sz = verif_nd_u16("rd.size");
		VERIF_ASSUME(sz < 8);
		g_new_dent = calloc(1, sizeof(*g_new_dent) + (size_t)sz + 2);
		if (g_new_dent == NULL) {
			g_read_ret = SQFS_ERROR_ALLOC;
			return g_read_ret;
		}
		g_new_dent->size = sz;
		g_new_ref = verif_nd_u64("rd.ref");
		state->ent_ref = g_new_ref;
		*out = g_new_dent;
	}
	return g_read_ret;
}

int sqfs_dir_reader_get_inode(sqfs_dir_reader_t *rd, sqfs_u64 ref,
			      sqfs_inode_generic_t **inode)
{
	VERIF_ASSERT(rd != NULL && inode != NULL && ref == g_new_ref,
		     "C05.env.get_inode.args");
	++g_gets;
	g_get_ret = verif_nd_bool("gi.fail") ? env_nd_error("gi.err") : 0;
	if (g_get_ret == 0) {
		g_new_inode = calloc(1, sizeof(*g_new_inode));
		if (g_new_inode == NULL) {
			g_get_ret = SQFS_ERROR_ALLOC;
			return g_get_ret;
		}
		g_new_inode->base.type = verif_nd_u16("gi.type");
		*inode = g_new_inode;
	}
	return g_get_ret;
}

int sqfs_dir_entry_from_inode(const char *name, size_t len,
			      const sqfs_inode_generic_t *inode,
			      const sqfs_id_table_t *idtbl, sqfs_dir_entry_t **out)
{
	VERIF_ASSERT(name == (const char *)g_new_dent->name &&
		     len == (size_t)g_new_dent->size + 1 && VERIF_R_OK(name, len) &&
		     inode == g_new_inode && out != NULL,
		     "C05.env.entry_from_inode.args");
	(void)idtbl;
	++g_froms;
	g_from_ret = verif_nd_bool("fi.fail") ? env_nd_error("fi.err") : 0;
	if (g_from_ret == 0) {
		g_new_ent = calloc(1, sizeof(*g_new_ent) + len + 1);
		if (g_new_ent == NULL) {
			g_from_ret = SQFS_ERROR_ALLOC;
			return g_from_ret;
		}
		*out = g_new_ent;
	}
	return g_from_ret;
}

int sqfs_inode_get_xattr_index(const sqfs_inode_generic_t *inode, sqfs_u32 *out)
{
	VERIF_ASSERT(inode != NULL && out != NULL, "C05.env.get_xattr_index.args");
	*out = verif_nd_u32("xi");
	return 0;
}

int sqfs_dir_reader_open_dir(sqfs_dir_reader_t *rd, const sqfs_inode_generic_t *inode,
			     sqfs_dir_reader_state_t *state, sqfs_u32 flags)
{
	VERIF_ASSERT(rd != NULL && inode != NULL && state != NULL && flags == 0,
		     "C05.env.open_dir.args");
	++g_opens;
	g_open_inode = inode;
	g_open_ret = verif_nd_bool("od.fail") ? env_nd_error("od.err") : 0;
	return g_open_ret;
}

int sqfs_data_reader_create_stream(sqfs_data_reader_t *data,
				   const sqfs_inode_generic_t *inode,
				   const char *filename, sqfs_istream_t **out)
{
	VERIF_ASSERT(data != NULL && inode != NULL && filename != NULL &&
		     out != NULL &&
		     (inode->base.type == SQFS_INODE_FILE ||
		      inode->base.type == SQFS_INODE_EXT_FILE),
		     "C05.env.create_stream.args");
	++g_streams;
	return verif_nd_bool("cs.fail") ? env_nd_error("cs.err") : 0;
}

int sqfs_xattr_reader_read_all(sqfs_xattr_reader_t *xr, sqfs_u32 idx,
			       sqfs_xattr_t **out)
{
	VERIF_ASSERT(xr != NULL && idx != 0xFFFFFFFF && out != NULL,
		     "C05.env.read_all.args");
	++g_xattrs;
	return verif_nd_bool("xa.fail") ? env_nd_error("xa.err") : 0;
}

#include "lib/sqfs/src/dir_iterator.c"

typedef struct { sqfs_object_t base; } di_obj_t;
static void di_obj_destroy(sqfs_object_t *o) { (void)o; }
static sqfs_object_t *di_obj_copy(const sqfs_object_t *o) { (void)o; return NULL; }

static di_obj_t g_rd_o, g_id_o, g_data_o, g_xattr_o;

static void di_objs(void)
{
	di_obj_t *all[4] = { &g_rd_o, &g_id_o, &g_data_o, &g_xattr_o };
	unsigned i;

	for (i = 0; i < 4; ++i) {
		all[i]->base.refcount = 1;
		all[i]->base.destroy = di_obj_destroy;
		all[i]->base.copy = di_obj_copy;
	}
}

/* an iterator in an arbitrary well-formed state */
static iterator_t *di_iterator(bool *has_entry, sqfs_u32 *tsize)
{
	iterator_t *it = calloc(1, sizeof(*it));

	VERIF_ASSUME(it != NULL);
	di_objs();
	it->base.obj.refcount = 1;
	it->base.obj.destroy = it_destroy;
	it->rd = (sqfs_dir_reader_t *)&g_rd_o;
	it->id = (sqfs_id_table_t *)&g_id_o;
	it->data = verif_nd_bool("has.data") ? (sqfs_data_reader_t *)&g_data_o : NULL;
	it->xattr = verif_nd_bool("has.xattr") ? (sqfs_xattr_reader_t *)&g_xattr_o : NULL;
	it->xattr_idx = verif_nd_u32("xattr_idx");
	/* since fix 2b61ea3 the iterator knows the inode number of the directory
	 * it lists (loop detection; the chain itself is harness w13_dir_iter_loop) */
	it->dir_inode_num = verif_nd_u32("dir.inode_number");
	*has_entry = verif_nd_bool("has.entry");
	*tsize = 0;
	if (*has_entry) {
		sqfs_u16 type = verif_nd_u16("cur.type");
		sqfs_u32 ts = verif_nd_u32("cur.target_size");
		bool slink = (type == SQFS_INODE_SLINK || type == SQFS_INODE_EXT_SLINK);

		/* wf_inode: a symlink inode carries target_size + 1 bytes */
		VERIF_ASSUME(ts <= 0x10000);
		it->inode = calloc(1, sizeof(*it->inode) + (slink ? (size_t)ts + 1 : 0));
		it->dent = calloc(1, sizeof(*it->dent) + 2);
		VERIF_ASSUME(it->inode != NULL && it->dent != NULL);
		it->inode->base.type = type;
		it->inode->base.inode_number = verif_nd_u32("cur.inode_number");
		if (slink) {
			it->inode->data.slink.target_size = ts;
			it->inode->payload_bytes_used = ts;
			it->inode->payload_bytes_available = ts + 1;
			*tsize = ts;
		}
		it->dent->name[0] = 'x';
	}
	g_frees = g_reads = g_gets = g_froms = g_opens = g_streams = g_xattrs = 0;
	return it;
}

void harness(void)
{
	iterator_t *it;
	bool has_entry;
	sqfs_u32 tsize;
	int ret;

	(void)di_obj_copy;
	env_init();
#if FN == 1
	{
		sqfs_dir_entry_t *out = NULL;
		void *old_inode, *old_dent;

		it = di_iterator(&has_entry, &tsize);
		old_inode = it->inode;
		old_dent = it->dent;

		ret = it_next(&it->base, &out);

		if (has_entry)
			VERIF_ASSERT(g_frees >= 2 && g_freed[0] == old_inode &&
				     g_freed[1] == old_dent, "C05.dir_iter.next_state");
		if (ret == 0) {
			VERIF_ASSERT(it->inode == g_new_inode && it->dent == g_new_dent &&
				     out == g_new_ent && out->inode == g_new_ref &&
				     g_frees == (has_entry ? 2u : 0u),
				     "C05.dir_iter.next_state");
			free(out);
		} else {
			VERIF_ASSERT(it->inode == NULL && it->dent == NULL && out == NULL,
				     "C05.dir_iter.next_state");
		}
		VERIF_COVER(ret == 0 && has_entry);
		VERIF_COVER(ret > 0);
		VERIF_COVER(ret < 0 && g_froms == 1);
		VERIF_COVER(ret < 0 && g_gets == 1 && g_froms == 0);
	}
#elif FN == 2
	{
		char *out = (char *)(size_t)verif_nd_size("out.before");

		it = di_iterator(&has_entry, &tsize);
		ret = it_read_link(&it->base, &out);

		if (ret == 0) {
			VERIF_ASSERT(has_entry && out != NULL &&
				     (it->inode->base.type == SQFS_INODE_SLINK ||
				      it->inode->base.type == SQFS_INODE_EXT_SLINK) &&
				     VERIF_R_OK(out, (size_t)tsize + 1) && out[tsize] == '\0',
				     "C05.dir_iter.read_link");
			free(out);
		} else {
			VERIF_ASSERT(out == NULL, "C05.dir_iter.read_link");
		}
		VERIF_COVER(ret == 0 && tsize > 100);
		VERIF_COVER(ret == SQFS_ERROR_NO_ENTRY && has_entry);
		VERIF_COVER(ret == SQFS_ERROR_NO_ENTRY && !has_entry);
	}
#elif FN == 3
	{
		sqfs_dir_iterator_t *sub = NULL;
		sqfs_istream_t *strm = NULL;
		sqfs_xattr_t *xa = NULL;
		unsigned which = verif_nd_u8("which") % 3;
		sqfs_u16 type;

		it = di_iterator(&has_entry, &tsize);
		type = has_entry ? it->inode->base.type : 0;
		if (which == 0)
			ret = it_open_subdir(&it->base, &sub);
		else if (which == 1)
			ret = it_open_file_ro(&it->base, &strm);
		else
			ret = it_read_xattr(&it->base, &xa);

		if (!has_entry)
			VERIF_ASSERT(ret == SQFS_ERROR_NO_ENTRY && g_opens == 0 &&
				     g_streams == 0 && g_xattrs == 0,
				     "C05.dir_iter.dispatch");
		if (g_opens > 0)
			VERIF_ASSERT(which == 0 && g_open_inode == it->inode &&
				     (type == SQFS_INODE_DIR || type == SQFS_INODE_EXT_DIR),
				     "C05.dir_iter.dispatch");
		if (g_streams > 0)
			VERIF_ASSERT(which == 1 && it->data != NULL &&
				     (type == SQFS_INODE_FILE || type == SQFS_INODE_EXT_FILE),
				     "C05.dir_iter.dispatch");
		if (g_xattrs > 0)
			VERIF_ASSERT(which == 2 && it->xattr != NULL &&
				     it->xattr_idx != 0xFFFFFFFF, "C05.dir_iter.dispatch");
		VERIF_COVER(g_opens == 1 && ret == 0);
		VERIF_COVER(g_streams == 1);
		VERIF_COVER(g_xattrs == 1);
		VERIF_COVER(ret == SQFS_ERROR_NOT_DIR);
		if (sub != NULL)
			free(sub);
	}
#elif FN == 4
	{
		sqfs_dir_iterator_t *out = NULL;
		sqfs_inode_generic_t ino;
		bool with_data = verif_nd_bool("with.data");
		bool with_xattr = verif_nd_bool("with.xattr");

		di_objs();
		g_frees = g_opens = 0;
		ino.base.type = verif_nd_u16("type");
		ret = sqfs_dir_iterator_create((sqfs_dir_reader_t *)&g_rd_o,
					       (sqfs_id_table_t *)&g_id_o,
					       with_data ? (sqfs_data_reader_t *)&g_data_o : NULL,
					       with_xattr ? (sqfs_xattr_reader_t *)&g_xattr_o : NULL,
					       &ino, &out);
		if (ret == 0) {
			it = (iterator_t *)out;
			VERIF_ASSERT(out != NULL && g_opens == 1 && g_open_ret == 0 &&
				     out->next == it_next && out->read_link == it_read_link &&
				     out->open_subdir == it_open_subdir &&
				     out->ignore_subdir == it_ignore_subdir &&
				     out->open_file_ro == it_open_file_ro &&
				     out->read_xattr == it_read_xattr &&
				     it->inode == NULL && it->dent == NULL &&
				     g_rd_o.base.refcount == 2 && g_id_o.base.refcount == 2 &&
				     g_data_o.base.refcount == (with_data ? 2u : 1u) &&
				     g_xattr_o.base.refcount == (with_xattr ? 2u : 1u),
				     "C05.dir_iter.create");
			free(it);
		} else {
			VERIF_ASSERT(out == NULL && g_rd_o.base.refcount == 1 &&
				     g_id_o.base.refcount == 1 &&
				     g_data_o.base.refcount == 1 &&
				     g_xattr_o.base.refcount == 1, "C05.dir_iter.create");
		}
		VERIF_COVER(ret == 0 && with_data && with_xattr);
		VERIF_COVER(ret != 0 && g_opens == 1);
		VERIF_COVER(ret != 0 && g_opens == 0);
	}
#endif
}
