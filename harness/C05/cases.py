PROPERTY = "C05"
LEVEL = "proof"
FUNCTIONS = ["sqfs_super_read"]
TRUSTED = []
ASSUMPTIONS = []
_ENV = {"read_at": "stub_read_at", "do_block": "stub_do_block"}
_UF = ["--arrays-uf-always"]
_FP_MR = dict(_ENV, destroy="meta_reader_destroy", copy="meta_reader_copy")
_INODE_NAMES = {0: "none0", 1: "dir", 2: "file", 3: "slink", 4: "bdev", 5: "cdev", 6: "fifo",
                7: "socket", 8: "dir_ext", 9: "file_ext", 10: "slink_ext", 11: "bdev_ext",
                12: "cdev_ext", 13: "fifo_ext", 14: "socket_ext", 15: "none15"}

def _inode_cases():
    return [dict(id=n, defines={"ITYPE": t}, tier="quick")
            for t, n in sorted(_INODE_NAMES.items()) if t not in (2, 8, 9)]

def _dir_ext_cases():
    return [dict(id="idx%d" % k, defines={"ITYPE": 8, "NIDX": k},
                 tier="quick" if k <= 1 else "thorough",
                 # loop .0 is the inner doubling `while` (at most 57 doublings
                 # of a size_t starting at 128), loop .1 the `for` over the
                 # index entries (inodex_count fixed to k by the harness)
                 unwindset=["read_inode_dir_ext.0:60",
                            "read_inode_dir_ext.1:%d" % (k + 1), "harness.0:%d" % (k + 1)])
            for k in range(0, 4)]

_FP_DR = dict(_ENV, destroy="data_reader_destroy", copy="data_reader_copy")
HARNESSES = [
    dict(name="super", file="super.c", label="proved", timeout=170,
         fp=dict(_ENV), unwindset=["sqfs_super_read.0:21", "memcmp.0:97", "verif_nd_bytes.0:97"]),
    dict(name="meta_seek", file="meta_seek.c", label="proved", timeout=170,
         fp=_FP_MR, flags=_UF),
    dict(name="meta_read", file="meta_read.c", label="proved", timeout=170,
         fp=_FP_MR, flags=_UF, loops=["sqfs_meta_reader_read"], loop_tables=["C10"],
         defines={"MR_CAP": 1048576}),
    # one run per inode type (the split covers all 14 types plus two
    # non-types: proved); conversion check stays on: payload sizes are stored
    # in 32 bit fields
    dict(name="read_inode", file="read_inode.c", label="proved", timeout=170,
         malloc_fail=True, flags=_UF, cases=_inode_cases()),
    dict(name="read_inode_file", file="read_inode.c", label="proved", timeout=170,
         malloc_fail=True, flags=_UF, loops=["read_inode_file"], defines={"ITYPE": 2}),
    dict(name="read_inode_file_ext", file="read_inode.c", label="proved", timeout=170,
         malloc_fail=True, flags=_UF, loops=["read_inode_file_ext"], defines={"ITYPE": 9}),
    dict(name="read_inode_dir_ext", file="read_inode.c",
         label="bounded(dir index entries <= 3)", timeout=170,
         malloc_fail=True, flags=_UF, cases=_dir_ext_cases()),
    dict(name="readdir", file="readdir.c", label="proved", timeout=170,
         nochecks=["--conversion-check"], malloc_fail=True, flags=_UF),
    dict(name="readdir_init", file="readdir_init.c", label="proved", timeout=170,
         unwindset=["verif_nd_bytes.0:49"]),
    dict(name="read_table", file="read_table.c", label="proved", timeout=170,
         fp=dict(_ENV, destroy="rt_reader_destroy", copy="rt_reader_destroy"),
         malloc_fail=True, flags=_UF, loops=["sqfs_read_table"],
         defines={"RT_MAX": "0x1000000000"}),
    dict(name="id_table_read", file="id_table_read.c", label="proved", timeout=170,
         fp=dict(_ENV, destroy="id_table_destroy", copy="id_table_copy"),
         malloc_fail=True, flags=_UF, loops=["sqfs_id_table_read"]),
    dict(name="frag_table_read", file="frag_table_read.c", label="proved", timeout=170,
         fp=dict(_ENV, destroy="frag_table_destroy", copy="frag_table_copy"),
         malloc_fail=True, flags=_UF),
    dict(name="dr_stream", file="dr_stream.c", label="proved", timeout=170,
         fp=_FP_DR, malloc_fail=True, flags=_UF, defines={"DS_MAXBLK": "0x3FFFFFFF"}),
    dict(name="dr_fragment", file="dr_fragment.c", label="proved", timeout=170,
         fp=_FP_DR, malloc_fail=True, flags=_UF),
    dict(name="dr_read", file="dr_read.c", label="bounded(block words <= 3)", timeout=170,
         fp=_FP_DR, malloc_fail=True, flags=_UF,
         cases=[dict(id="nblk%d" % n, defines={"NBLK": n}, unwind=n + 2,
                     tier="quick" if n <= 2 else "thorough") for n in range(0, 4)]),
    # a loop contract on the walk over the preceding block words makes
    # goto-instrument 6.11 fail ("Recursive call to 'get_block' during
    # inlining"), so the index is bounded and the loop unwound
    dict(name="dr_getblock", file="dr_getblock.c", label="bounded(index <= 3)", timeout=170,
         fp=_FP_DR, malloc_fail=True, flags=_UF, defines={"GB_MAXIDX": 3},
         unwindset=["sqfs_data_reader_get_block.0:5"]),
    dict(name="dr_create_stream", file="dr_create_stream.c", label="proved", timeout=170,
         fp=dict(_FP_DR, **{"sqfs_drop:destroy": "data_reader_destroy"}),
         malloc_fail=True, flags=_UF, unwindset=["strlen.0:6"]),
    dict(name="xattr_value", file="xattr_value.c", label="proved", timeout=170,
         fp={"read_at": "stub_read_at", "destroy": "xattr_reader_destroy",
             "copy": "xattr_reader_copy"},
         malloc_fail=True, flags=_UF),
    dict(name="xattr_desc", file="xattr_desc.c", label="proved", timeout=170,
         fp={"read_at": "stub_read_at", "destroy": "xattr_reader_destroy",
             "copy": "xattr_reader_copy"},
         unwindset=["harness.0:4", "harness.1:9", "verif_nd_bytes.0:17", "memset.0:17"]),
    dict(name="xattr_load", file="xattr_load.c", label="bounded(xattr id table blocks <= 2)",
         timeout=170, malloc_fail=True,
         fp={"read_at": "stub_read_at", "do_block": "stub_do_block",
             "destroy": "xl_reader_destroy", "copy": "xattr_reader_copy"},
         cases=[dict(id="idblk%d" % k, defines={"NIDBLK": k}, tier="quick",
                     unwindset=["sqfs_xattr_reader_load.0:%d" % (k + 1)]) for k in (0, 1, 2)]),
    # key size bounded (KV_KEYMAX) only for the strlen of the harness' own check;
    # the function itself sees the full 16 bit key size
    dict(name="xattr_kv", file="xattr_kv.c", label="proved", timeout=170,
         fp={"read_at": "stub_read_at", "destroy": "xattr_reader_destroy",
             "copy": "xattr_reader_copy"},
         nochecks=["--conversion-check"], malloc_fail=True, flags=_UF,
         unwindset=["strlen.0:12", "sqfs_get_xattr_prefix.0:4"]),
]
