PROPERTY = "C05"
LEVEL = "proof"
FUNCTIONS = ["sqfs_super_read"]
TRUSTED = []
ASSUMPTIONS = []
_ENV = {"read_at": "stub_read_at", "do_block": "stub_do_block"}
_UF = ["--arrays-uf-always"]
_FP_MR = dict(_ENV, destroy="meta_reader_destroy", copy="meta_reader_copy")
_INODE_NAMES = {0: "none0", 1: "dir", 2: "file", 3: "slink", 4: "bdev", 5: "cdev", 6: "fifo",
                7: "socket", 8: "dir_ext", 9: "file_ext", 10: "slink_ext", 11: "bdev_ext",
                12: "cdev_ext", 13: "fifo_ext", 14: "socket_ext", 15: "none15"}

def _inode_cases():
    return [dict(id=n, defines={"ITYPE": t}, tier="quick")
            for t, n in sorted(_INODE_NAMES.items()) if t not in (2, 8, 9)]

def _dir_ext_cases():
    return [dict(id="idx%d" % k, defines={"ITYPE": 8, "NIDX": k},
                 tier="quick" if k <= 1 else "thorough",
                 unwindset=["read_inode_dir_ext.0:%d" % (k + 1),
                            "read_inode_dir_ext.1:60", "harness.0:%d" % (k + 1)])
            for k in range(0, 4)]

HARNESSES = [
    dict(name="super", file="super.c", label="proved", timeout=170,
         fp=dict(_ENV), unwindset=["sqfs_super_read.0:21", "memcmp.0:97", "verif_nd_bytes.0:97"]),
    dict(name="meta_seek", file="meta_seek.c", label="proved", timeout=170,
         fp=_FP_MR, flags=_UF),
    dict(name="meta_read", file="meta_read.c", label="proved", timeout=170,
         fp=_FP_MR, flags=_UF, loops=["sqfs_meta_reader_read"], loop_tables=["C10"],
         defines={"MR_CAP": 1048576}),
    # one run per inode type (the split covers all 14 types plus two
    # non-types: proved); conversion check stays on: payload sizes are stored
    # in 32 bit fields
    dict(name="read_inode", file="read_inode.c", label="proved", timeout=170,
         malloc_fail=True, flags=_UF, cases=_inode_cases()),
    dict(name="read_inode_file", file="read_inode.c", label="proved", timeout=170,
         malloc_fail=True, flags=_UF, loops=["read_inode_file"], defines={"ITYPE": 2}),
    dict(name="read_inode_file_ext", file="read_inode.c", label="proved", timeout=170,
         malloc_fail=True, flags=_UF, loops=["read_inode_file_ext"], defines={"ITYPE": 9}),
    dict(name="read_inode_dir_ext", file="read_inode.c",
         label="bounded(dir index entries <= 3)", timeout=170,
         malloc_fail=True, flags=_UF, cases=_dir_ext_cases()),
]
