PROPERTY = "C05"
LEVEL = "proof"
FUNCTIONS = ["sqfs_super_read",
             "sqfs_meta_reader_seek", "sqfs_meta_reader_read",
             "sqfs_meta_reader_read_inode", "read_inode_file", "read_inode_file_ext",
             "read_inode_slink", "read_inode_slink_ext", "read_inode_dir_ext", "set_mode",
             "sqfs_meta_reader_read_dir_header", "sqfs_meta_reader_read_dir_ent",
             "sqfs_meta_reader_readdir", "sqfs_readdir_state_init",
             "sqfs_read_table", "sqfs_id_table_read", "sqfs_frag_table_read",
             "get_block", "precache_fragment_block", "precache_data_block",
             "sqfs_data_reader_get_block", "sqfs_data_reader_get_fragment",
             "sqfs_data_reader_read", "dr_stream_get_buffered_data",
             "sqfs_data_reader_create_stream",
             "sqfs_xattr_reader_load", "sqfs_xattr_reader_get_desc",
             "sqfs_xattr_reader_seek_kv", "sqfs_xattr_reader_read_key",
             "sqfs_xattr_reader_read_value", "read_value_hdr", "read_key_hdr",
             "gzip_do_block", "xz_uncomp_block", "lz4_uncomp_block",
             "zstd_uncomp_block", "lzma_uncomp_block",
             "would_be_own_parent", "fill_dir", "should_skip"]
TRUSTED = [
    "sqfs_file_t.read_at contract (harness/C10/rd_env.h): requires a writable buffer of the requested size; delivers arbitrary bytes or any negative error",
    "sqfs_compressor_t.do_block contract (un-compress): requires readable input / writable output of the given sizes; returns any r <= outsize or negative, writes only out[0..r) - CHECKED for the five in-tree wrappers by the comp_* harnesses against the library contracts below",
    "zlib inflateReset/inflate, liblzma lzma_stream_buffer_decode / lzma_alone_decoder / lzma_code / lzma_end, libzstd ZSTD_decompress / ZSTD_isError, liblz4 LZ4_decompress_safe: read only the given input, write only the given output capacity, report produced/consumed counts within those, return documented status codes (the libraries themselves are not verified)",
    "sqfs_meta_reader_t contract (harness/C10/mr_contract.h) for the functions that only use a metadata reader; the real seek/read are verified in meta_seek / meta_read",
    "sqfs_read_table contract (harness/C05/tbl_env.h) in id_table_read / frag_table_read; the real one is verified in read_table",
    "sqfs_frag_table_lookup contract in the data reader harnesses; sqfs_meta_reader_create contract in read_table / xattr_load",
    "CBMC memory model (fresh non-overlapping allocations, every allocation may fail), CBMC library models of strlen / memset on small records, array theory back end (--arrays-uf-always)",
]
ASSUMPTIONS = [
    "leaf functions are verified one by one from arbitrary well-formed object states (wf_super, wf_meta, wf_inode, wf stream state) - each wf predicate is ensured by the harness of the function that produces the object (super, meta_seek/meta_read loop invariant, read_inode, dr_create_stream) and required by the consumers; the composition into rdsquashfs / sqfs2tar / sqfsdiff main() is not verified",
    "NOT covered: sqfs_dir_reader_* (open_dir, read, get_inode, resolve_path, dcache), dir_iterator.c, sqfs_dir_reader_get_full_hierarchy around fill_dir (fill_dir itself: harness fill_dir, one directory step with <= 1 entry below an arbitrary ancestor chain <= 2, create_node and the directory reader as contracts; two entries per directory did not finish in 170 s with either SAT solver), sqfs_tree_node_get_path, sqfs_inode_unpack_dir_index_entry, sqfs_dir_entry_from_inode, sqfs_xattr_reader_read (realloc variant: did not finish in 170 s) and read_all, the bin/ tools",
    "bounded stand-ins (not counted as proved): read_inode_dir_ext with <= 1 index entry (2 entries hit the 14 GB memory cap), sqfs_data_reader_read with <= 3 block words, sqfs_data_reader_get_block with index <= 3, xattr id table <= 2 blocks, ancestor chain <= 4, fill_dir: <= 1 entry per directory and ancestor chain <= 2",
    "termination is proved as a decreases clause / unwinding assertion per loop, plus C05.readdir.progress and C05.dr_stream.progress for consumer loops; wall-clock bounds and the recursion depth of the tree walk are not",
    "payload bytes are tracked through one arbitrary witness position per buffer; short on-disk records (<= 40 / 96 bytes) are fully symbolic",
    "--conversion-check is disabled in readdir and xattr_kv (signed inode_diff added to an unsigned base on purpose; 16 bit fields widened); everywhere else all of cbmc's bounds / pointer / overflow / conversion / shift checks are on",
    "the codec libraries and the kernel are outside; Windows branches are preprocessed away",
]
EXPLANATION = ("every reader entry point is executed once by cbmc on fully symbolic on-disk bytes "
               "(image = read_at contract, un-compressor = do_block contract) from an arbitrary "
               "well-formed object state; memory safety = cbmc's built-in checks plus the "
               "preconditions of the environment contracts at every call site; the wf predicates "
               "that connect producers and consumers are named obligations")
_ENV = {"read_at": "stub_read_at", "do_block": "stub_do_block"}
_UF = ["--arrays-uf-always"]
_FP_MR = dict(_ENV, destroy="meta_reader_destroy", copy="meta_reader_copy")
_INODE_NAMES = {0: "none0", 1: "dir", 2: "file", 3: "slink", 4: "bdev", 5: "cdev", 6: "fifo",
                7: "socket", 8: "dir_ext", 9: "file_ext", 10: "slink_ext", 11: "bdev_ext",
                12: "cdev_ext", 13: "fifo_ext", 14: "socket_ext", 15: "none15"}

def _inode_cases():
    return [dict(id=n, defines={"ITYPE": t}, tier="quick")
            for t, n in sorted(_INODE_NAMES.items()) if t not in (2, 8, 9)]

def _dir_ext_cases():
    return [dict(id="idx%d" % k, defines={"ITYPE": 8, "NIDX": k},
                 tier="quick" if k == 0 else "thorough", timeout=900,
                 # loop .0 is the inner doubling `while` (at most 57 doublings
                 # of a size_t starting at 128), loop .1 the `for` over the
                 # index entries (inodex_count fixed to k by the harness)
                 unwindset=["read_inode_dir_ext.0:60",
                            "read_inode_dir_ext.1:%d" % (k + 1), "harness.0:%d" % (k + 1)])
            for k in range(0, 2)]   # 2+ entries exceed the 14 GB memory cap (also with realloc as a contract)

_FP_DR = dict(_ENV, destroy="data_reader_destroy", copy="data_reader_copy")
HARNESSES = [
    dict(name="super", file="super.c", label="proved", timeout=600,
         fp=dict(_ENV), unwindset=["sqfs_super_read.0:21", "memcmp.0:97", "verif_nd_bytes.0:97"]),
    dict(name="meta_seek", file="meta_seek.c", label="proved", timeout=600,
         fp=_FP_MR, flags=_UF, unwindset=["harness.0:5"]),
    dict(name="meta_read", file="meta_read.c", label="proved", timeout=600,
         fp=_FP_MR, flags=_UF, loops=["sqfs_meta_reader_read"], loop_tables=["C10"],
         defines={"MR_CAP": 1048576}),
    # one run per inode type (the split covers all 14 types plus two
    # non-types: proved); conversion check stays on: payload sizes are stored
    # in 32 bit fields
    dict(name="read_inode", file="read_inode.c", label="proved", timeout=600,
         malloc_fail=True, flags=_UF, cases=_inode_cases()),
    dict(name="read_inode_file", file="read_inode.c", label="proved", timeout=600,
         malloc_fail=True, flags=_UF, loops=["read_inode_file"], defines={"ITYPE": 2, "INO_LOOP_HAVOC": 1}),
    dict(name="read_inode_file_ext", file="read_inode.c", label="proved", timeout=600,
         malloc_fail=True, flags=_UF, loops=["read_inode_file_ext"], defines={"ITYPE": 9, "INO_LOOP_HAVOC": 1}),
    dict(name="read_inode_dir_ext", file="read_inode.c",
         label="bounded(dir index entries <= 1)", timeout=600,
         malloc_fail=True, flags=_UF, cases=_dir_ext_cases()),
    dict(name="readdir", file="readdir.c", label="proved", timeout=600,
         nochecks=["--conversion-check"], malloc_fail=True, flags=_UF),
    dict(name="readdir_init", file="readdir_init.c", label="proved", timeout=600,
         unwindset=["verif_nd_bytes.0:49"]),
    dict(name="read_table", file="read_table.c", label="proved", timeout=600,
         fp=dict(_ENV, destroy="rt_reader_destroy", copy="rt_reader_destroy"),
         malloc_fail=True, flags=_UF, loops=["sqfs_read_table"],
         defines={"RT_MAX": "0x1000000000"}),
    dict(name="id_table_read", file="id_table_read.c", label="proved", timeout=600,
         fp=dict(_ENV, destroy="id_table_destroy", copy="id_table_copy"),
         malloc_fail=True, flags=_UF, loops=["sqfs_id_table_read"]),
    dict(name="frag_table_read", file="frag_table_read.c", label="proved", timeout=600,
         fp=dict(_ENV, destroy="frag_table_destroy", copy="frag_table_copy"),
         malloc_fail=True, flags=_UF),
    dict(name="dr_stream", file="dr_stream.c", label="proved", timeout=600,
         fp=_FP_DR, malloc_fail=True, flags=_UF, defines={"DS_MAXBLK": "0x3FFFFFFF"}),
    dict(name="dr_fragment", file="dr_fragment.c", label="proved", timeout=600,
         fp=_FP_DR, malloc_fail=True, flags=_UF),
    dict(name="dr_read", file="dr_read.c", label="bounded(block words <= 3)", timeout=600,
         fp=_FP_DR, malloc_fail=True, flags=_UF,
         cases=[dict(id="nblk%d" % n, defines={"NBLK": n}, unwind=n + 2,
                     tier="quick" if n <= 1 else "thorough", timeout=600) for n in range(0, 4)]),
    # a loop contract on the walk over the preceding block words makes
    # goto-instrument 6.11 fail ("Recursive call to 'get_block' during
    # inlining"), so the index is bounded and the loop unwound
    dict(name="dr_getblock", file="dr_getblock.c", label="bounded(index <= 3)", timeout=600,
         fp=_FP_DR, malloc_fail=True, flags=_UF, defines={"GB_MAXIDX": 3},
         unwindset=["sqfs_data_reader_get_block.0:5"]),
    dict(name="dr_create_stream", file="dr_create_stream.c", label="proved", timeout=600,
         fp=dict(_FP_DR, **{"sqfs_drop:destroy": "data_reader_destroy"}),
         malloc_fail=True, flags=_UF, unwindset=["strlen.0:6"]),
    dict(name="xattr_value", file="xattr_value.c", label="proved", timeout=600,
         fp={"read_at": "stub_read_at", "destroy": "xattr_reader_destroy",
             "copy": "xattr_reader_copy"},
         malloc_fail=True, flags=_UF),
    dict(name="xattr_desc", file="xattr_desc.c", label="proved", timeout=600,
         fp={"read_at": "stub_read_at", "destroy": "xattr_reader_destroy",
             "copy": "xattr_reader_copy"},
         unwindset=["harness.0:4", "harness.1:9", "verif_nd_bytes.0:17", "memset.0:17"]),
    dict(name="xattr_load", file="xattr_load.c", label="bounded(xattr id table blocks <= 2)",
         timeout=600, malloc_fail=True,
         fp={"read_at": "stub_read_at", "do_block": "stub_do_block",
             "destroy": "xl_reader_destroy", "copy": "xattr_reader_copy"},
         cases=[dict(id="idblk%d" % k, defines={"NIDBLK": k}, tier="quick",
                     unwindset=["sqfs_xattr_reader_load.0:%d" % (k + 1)]) for k in (0, 1, 2)]),
    # key size bounded (KV_KEYMAX) only for the strlen of the harness' own check;
    # the function itself sees the full 16 bit key size
    dict(name="xattr_kv", file="xattr_kv.c", label="proved", timeout=600,
         fp={"read_at": "stub_read_at", "destroy": "xattr_reader_destroy",
             "copy": "xattr_reader_copy"},
         nochecks=["--conversion-check"], malloc_fail=True, flags=_UF,
         unwindset=["strlen.0:12", "sqfs_get_xattr_prefix.0:4"]),
    # un-compress wrappers against assumed codec library contracts
    dict(name="comp_zstd", file="comp_zstd.c", label="proved", timeout=600, flags=_UF),
    dict(name="comp_lz4", file="comp_lz4.c", label="proved", timeout=600, flags=_UF),
    dict(name="comp_xz", file="comp_xz.c", label="proved", timeout=600, flags=_UF),
    dict(name="comp_gzip", file="comp_gzip.c", label="proved", timeout=600, flags=_UF),
    dict(name="comp_lzma", file="comp_lzma.c", label="proved", timeout=600, flags=_UF),
    dict(name="own_parent", file="own_parent.c", label="bounded(ancestor chain <= 4)",
         timeout=600,
         cases=[dict(id="depth%d" % d, defines={"OP_DEPTH": d}, unwind=d + 2,
                     tier="quick") for d in (0, 1, 4)]),
    dict(name="fill_dir", file="fill_dir.c",
         label="bounded(entries per directory <= 1, ancestor chain <= 2)", timeout=600,
         pre_instrument_flags=["--replace-calls", "create_node:stub_create_node"],
         fp={"destroy": "fd_destroy", "copy": "fd_copy"}, native=False, unwind=5,
         # --pointer-overflow-check alone makes this harness run > 60 s (1.5 s
         # without); fill_dir does no pointer arithmetic, only list linking
         nochecks=["--pointer-overflow-check"], solver="cadical",
         cases=[dict(id="n0", defines={"FD_NENT": 0}, tier="quick")] +
               [dict(id="n1_t%d" % t, defines={"FD_NENT": 1, "FD_T0": t}, tier="quick")
                for t in (0, 1, 2)]),

    # --conversion-check off: `flags & ~SQFS_DIR_OPEN_ALL_FLAGS` converts the int
    # ~1 to unsigned on purpose (well defined)
    dict(name="dirrd", file="dirrd.c", label="proved", timeout=600, malloc_fail=True,
         nochecks=["--conversion-check"],
         fp={"read_at": "stub_read_at", "destroy": "dir_reader_destroy",
             "copy": "dir_reader_copy", "key_compare": "dcache_key_compare"},
         unwindset=["verif_nd_bytes.0:100", "memset.0:100", "strlen.0:4", "strcpy.0:4",
                    "memcpy.0:9"],
         cases=[dict(id=n, defines={"FN": k}, tier="quick")
                for k, n in ((1, "open_dir"), (2, "read"), (3, "get_inode"), (4, "resolve_inum"))]),
    dict(name="resolve_path", file="resolve_path.c",
         label="bounded(path <= 3 bytes, <= 2 entries per directory, names <= 3 bytes)",
         timeout=600, malloc_fail=True, native=False,
         pre_instrument_flags=["--replace-calls", "sqfs_dir_reader_open_dir:stub_open_dir",
                               "--replace-calls", "sqfs_dir_reader_read:stub_dir_read",
                               "--replace-calls", "sqfs_dir_reader_get_inode:stub_get_inode",
                               "--replace-calls", "sqfs_dir_reader_resolve_inum:stub_resolve_inum"],
         fp={"read_at": "stub_read_at", "destroy": "rp_destroy", "copy": "rp_copy",
             "key_compare": "dcache_key_compare"},
         cases=[dict(id="plen%d" % n, defines={"PLEN": n}, unwind=n + 4, timeout=600,
                     tier="quick" if n <= 2 else "thorough") for n in range(0, 4)]),
    dict(name="dir_iter", file="dir_iter.c", label="proved", timeout=600, malloc_fail=True,
         flags=_UF,
         fp={"read_at": "stub_read_at", "do_block": "stub_do_block",
             "destroy": ["di_obj_destroy", "it_destroy"], "copy": "di_obj_copy"},
         cases=[dict(id=n, defines={"FN": k}, tier="quick", unwind=6)
                for k, n in ((1, "next"), (2, "read_link"), (3, "dispatch"), (4, "create"))]),
    dict(name="inode_misc", file="inode_misc.c", timeout=600, malloc_fail=True, flags=_UF,
         label="bounded(dir index entries <= 2; name buffer 6 bytes)",
         fp={"read_at": "stub_read_at", "do_block": "stub_do_block"},
         cases=[dict(id="unpack_index%d" % n, defines={"FN": 1, "NENT": n},
                     tier="quick" if n == 1 else "thorough", timeout=400,
                     unwindset=["sqfs_inode_unpack_dir_index_entry.0:5", "harness.0:4",
                                "harness.1:4"]) for n in (1, 2)] + [
                dict(id="entry_from_inode", defines={"FN": 2, "NLEN": 6}, tier="quick",
                     unwindset=["harness.0:7", "harness.1:7", "strnlen.0:8", "strlen.0:8",
                                "verif_nd_bytes.0:100"])]),
    dict(name="xattr_unloaded", file="xattr_unloaded.c", label="proved", timeout=300,
         fp={"read_at": "stub_read_at", "destroy": "xattr_reader_destroy",
             "copy": "xattr_reader_copy"},
         pre_instrument_flags=["--replace-calls", "sqfs_xattr_reader_read:stub_xr_read"],
         malloc_fail=True, flags=_UF, unwindset=["sqfs_xattr_reader_read_all.0:2"]),
    # 250-300 s on an idle machine, more under load: thorough tier only
    dict(name="xattr_read", file="xattr_read.c", label="proved", timeout=1800,
         cases=[dict(id="default", tier="thorough")],
         fp={"read_at": "stub_read_at", "destroy": "xattr_reader_destroy",
             "copy": "xattr_reader_copy"},
         nochecks=["--conversion-check"], malloc_fail=True, flags=_UF,
         unwindset=["strlen.0:12", "sqfs_get_xattr_prefix.0:4"]),
]
