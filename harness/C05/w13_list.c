/* C05 (w13): rdsquashfs `list` - the real list_files() / print_node_size() /
 * mode_to_str() / count_int_chars() of bin/rdsquashfs/src/list_files.c and the
 * real print_size() (lib/common/src/print_size.c) on
 *   SHAPE 0  a single node of inode type T0 (what `-l <file>` lists), or
 *   SHAPE 1  a directory node (basic or extended) with two children of the
 *            inode types T0 and T1,
 * every inode an arbitrary wf_inode (w13_env.h, = postcondition of harness
 * read_inode), uid / gid / names / all fields symbolic; symlink targets of
 * symbolic length <= W13_MAXTGT with arbitrary bytes (NUL only guaranteed
 * behind the target).
 *
 *   C05.list.one_line_per_entry  exactly one line per listed node (two output
 *                                calls: the columns, then the target / the
 *                                newline), nothing on stderr
 *   C05.env.printf.string_arg    names, link targets, the mode and size
 *                                columns are terminated strings inside their
 *                                objects
 *   C05.env.sprintf.fits         the size column (print_size / "%u:%u") fits
 *                                sizestr[32]
 *   (all CBMC memory / arithmetic checks: mode_to_str stays inside
 *    modestr[12]; loops: the child list (shape), count_int_chars <= 10 rounds
 *    and print_size <= 7 rounds for every 32 / 64 bit value - unwinding
 *    assertions)
 */
#include <stdlib.h>
#include <string.h>
#define W13_MAXTGT_DEFAULT 6
#ifndef W13_MAXTGT
#define W13_MAXTGT W13_MAXTGT_DEFAULT
#endif
#include "w13_env.h"
#include "common.h"

#ifndef SHAPE
#define SHAPE 1
#endif
#ifndef T0
#error "define T0"
#endif
#ifndef T1
#define T1 1
#endif

#include "lib/sqfs/src/inode.c"
#include "lib/common/src/print_size.c"
#include "bin/rdsquashfs/src/list_files.c"

struct lnode {
	sqfs_tree_node_t n;
	sqfs_u8 name[4];
};
static struct lnode g_dir, g_c0, g_c1;
static w13_ino_ghost_t g_g0, g_g1, g_gd;

static void mk_node(struct lnode *ln, sqfs_inode_generic_t *ino)
{
	ln->n.parent = NULL;
	ln->n.children = NULL;
	ln->n.next = NULL;
	ln->n.inode = ino;
	ln->n.uid = verif_nd_u32("uid");
	ln->n.gid = verif_nd_u32("gid");
	verif_nd_bytes(ln->name, 3, "name");
	ln->name[3] = '\0';
	pr_register(ln->n.name, 3);
	/* wf_slink_nul: the byte behind the target is NUL */
	if (ino->base.type == SQFS_INODE_SLINK ||
	    ino->base.type == SQFS_INODE_EXT_SLINK)
		pr_register(ino->extra, ino->data.slink.target_size);
}

void harness(void)
{
	sqfs_inode_generic_t *i0, *i1 = NULL, *id = NULL;

	pr_init();
	i0 = w13_new_inode(T0, 0, &g_g0);
	mk_node(&g_c0, i0);
	VERIF_COVER(g_c0.n.uid > 4000000000U);
#if SHAPE == 0
	list_files(&g_c0.n);
	/* (a directory lists its children: none here) */
	VERIF_ASSERT(g_pr.out_calls == ((T0 == SQFS_INODE_DIR ||
					 T0 == SQFS_INODE_EXT_DIR) ? 0 : 2) &&
		     g_pr.err_calls == 0, "C05.list.one_line_per_entry");
#else
	i1 = w13_new_inode(T1, 0, &g_g1);
	mk_node(&g_c1, i1);
	id = w13_new_inode(verif_nd_bool("dir.ext") ? SQFS_INODE_EXT_DIR :
						      SQFS_INODE_DIR, 0, &g_gd);
	mk_node(&g_dir, id);
	g_dir.n.children = &g_c0.n;
	g_c0.n.parent = &g_dir.n;
	g_c0.n.next = &g_c1.n;
	g_c1.n.parent = &g_dir.n;
	list_files(&g_dir.n);
	VERIF_ASSERT(g_pr.out_calls == 4 && g_pr.err_calls == 0,
		     "C05.list.one_line_per_entry");
#endif
	VERIF_COVER(g_pr.strs >= 3 || T0 == SQFS_INODE_DIR || T0 == SQFS_INODE_EXT_DIR);
	free(i0);
	free(i1);
	free(id);
}
