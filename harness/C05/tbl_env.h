/* tbl_env.h - sqfs_read_table seen through its contract (proved for the real
 * function by harness read_table.c): it fails - then *out is NULL or
 * untouched - or returns a fresh buffer of exactly table_size bytes with
 * arbitrary contents. The call is logged.
 */
#ifndef TBL_ENV_H
#define TBL_ENV_H
#include "sqfs/table.h"

typedef struct {
	unsigned calls;
	size_t size;
	sqfs_u64 location, lower, upper;
	void *buf;
	int ret;
} tbl_ghost_t;
static tbl_ghost_t g_tbl;

int sqfs_read_table(sqfs_file_t *file, sqfs_compressor_t *cmp,
		    size_t table_size, sqfs_u64 location, sqfs_u64 lower_limit,
		    sqfs_u64 upper_limit, void **out)
{
	unsigned char *p;

	VERIF_ASSERT(file == &g_file && cmp == &g_cmp, ENV_NAME("read_table.args"));
	VERIF_ASSERT(VERIF_W_OK(out, sizeof(*out)), ENV_NAME("read_table.out_writable"));
	++g_tbl.calls;
	g_tbl.size = table_size;
	g_tbl.location = location;
	g_tbl.lower = lower_limit;
	g_tbl.upper = upper_limit;
	g_tbl.buf = NULL;
	if (verif_nd_bool("read_table.fail")) {
		g_tbl.ret = env_nd_error("read_table.err");
		if (verif_nd_bool("read_table.null"))
			*out = NULL;
		return g_tbl.ret;
	}
	p = malloc(table_size);
	if (p == NULL) {
		g_tbl.ret = SQFS_ERROR_ALLOC;
		*out = NULL;
		return g_tbl.ret;
	}
	if (g_k < table_size)
		p[g_k] = verif_nd_u8("read_table.vk");
	*out = p;
	g_tbl.buf = p;
	g_tbl.ret = 0;
	return 0;
}
#endif
