/* C05: sqfs_data_reader_get_block (per-block access) for an arbitrary
 * well-formed file inode with ANY number of block words (symbolic), every
 * legal block size (symbolic); the index is any value that is out of range or
 * <= GB_MAXIDX (the walk over the preceding words is unwound, bounded).
 *
 *   C05.get_block.index_checked   index >= block count => OUT_OF_BOUNDS and
 *                                 nothing read
 *   C05.get_block.result          ret == 0 => *out is a fresh buffer of
 *                                 min(remaining file size, block_size) bytes,
 *                                 *size <= that; ret != 0 => *out == NULL,
 *                                 *size == 0 (or untouched when rejected early)
 *   C05.env.*                     at most the buffer size / block_size bytes
 *                                 are read, unpacked
 */
#include <stdlib.h>
#include <string.h>
#include <errno.h>
#include "verif.h"
#define ENV_PROP "C05"
#define ENV_IS_PAYLOAD(p, n) 1
static size_t g_di_nblk;
#include "C10/dr_common.h"
#include "C05/dr_inode.h"

void harness(void)
{
	sqfs_data_reader_t *rd;
	sqfs_inode_generic_t *ino;
	size_t index = verif_nd_size("index");
	size_t size = 0;
	sqfs_u8 *out = NULL;
	int ret;

	env_init();
	env_objects_init();
	rd = dr_new(NULL);
	ino = di_new_file(&g_di_nblk);
	VERIF_ASSUME(index >= g_di_nblk || index <= GB_MAXIDX);
	if (index < g_di_nblk) {
		size_t j;
		for (j = 0; j <= GB_MAXIDX; ++j) {
			if (j <= index)
				ino->extra[j] = verif_nd_u32("ino.word");
		}
	}

	ret = sqfs_data_reader_get_block(rd, ino, index, &size, &out);

	if (index >= g_di_nblk)
		VERIF_ASSERT(ret == SQFS_ERROR_OUT_OF_BOUNDS && g_env_seq == 0,
			     "C05.get_block.index_checked");
	if (ret == 0) {
		VERIF_ASSERT(out != NULL && size <= BS &&
			     (size == 0 || VERIF_R_OK(out, size)),
			     "C05.get_block.result");
	} else {
		VERIF_ASSERT(out == NULL && size == 0, "C05.get_block.result");
	}
	VERIF_COVER(ret == 0 && index == GB_MAXIDX && g_blk_n == 1);
	VERIF_COVER(ret == 0 && g_env_seq == 0);
	VERIF_COVER(ret != 0 && index < g_di_nblk);
	VERIF_COVER(ret != 0 && index >= g_di_nblk);
	free(out);
	free(ino);
	dr_delete(rd);
}
