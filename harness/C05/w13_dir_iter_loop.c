/* C05 (w13): directory loops and the parent reference of the squashfs
 * directory iterator (lib/sqfs/src/dir_iterator.c: it_open_subdir, it_destroy,
 * sqfs_dir_iterator_create). Environment contracts and object vocabulary are
 * those of harness dir_iter (dir_iter.c is included with its own entry point
 * renamed): directory reader, data reader, xattr reader, id table are
 * contract stubs that return any result.
 *
 * A chain of CHAIN (0..2) nested directory iterators is built THROUGH THE REAL
 * CODE: sqfs_dir_iterator_create on a root directory inode with inode number
 * n[0], then CHAIN times "current entry := a directory inode with number
 * n[k], it_open_subdir". All numbers are symbolic. (Building the chain through
 * the API keeps the harness independent of how the iterator remembers its
 * ancestors; it therefore also runs on a tree without that bookkeeping, where
 * noloop fails.) On the innermost iterator the current entry is an arbitrary
 * inode (type symbolic; inode number m symbolic) and it_open_subdir is called.
 *
 *   C05.dir_iter.noloop        m equals the number of the directory the
 *                              iterator lists or of any directory it was
 *                              reached through => SQFS_ERROR_LINK_LOOP, no
 *                              directory is opened, nothing returned
 *   C05.dir_iter.open_subdir_ok  no such match, a directory inode => the
 *                              directory reader is asked to open exactly that
 *                              inode; its result (or ALLOC) is the result
 *   C05.dir_iter.parent_kept   the new iterator holds ONE counted reference to
 *                              the iterator it came from: that one stays alive
 *                              when its creator drops it first (ORDER 1), is
 *                              not released while the child lives, and is
 *                              released exactly once when the child goes
 *                              (ORDER 0: child first) - afterwards every
 *                              iterator of the chain is gone and every reader
 *                              is back to its initial reference count; no
 *                              leak (--memory-leak-check), no double free
 *                              (cbmc's free model)
 */
#include <stdlib.h>
#include <string.h>
#include "verif.h"
#include "sqfs/predef.h"

/* sqfs_drop (static inline in sqfs/predef.h) calls obj->destroy through a
 * function pointer from ONE call site for all five references an iterator
 * drops; with two candidate targets per site the recursion it_destroy ->
 * drop(parent) -> it_destroy fans out 5^depth in symex. The same function,
 * with the indirect call resolved by comparing the hook against the two
 * destructors that exist in this harness (anything else is a failed
 * obligation), keeps the recursion linear. */
static void it_destroy(sqfs_object_t *obj);
static void di_obj_destroy(sqfs_object_t *o);

static void *w13_drop(void *obj)
{
	sqfs_object_t *o = obj;

	if (o != NULL) {
		if (o->refcount <= 1) {
			if (o->destroy == di_obj_destroy) {
				di_obj_destroy(o);
			} else {
				VERIF_ASSERT(o->destroy == it_destroy,
					     "C05.env.drop.known_destructor");
				it_destroy(o);
			}
		} else {
			o->refcount -= 1;
		}
	}
	return NULL;
}
#define sqfs_drop(o) w13_drop(o)

#define harness di_unused_harness
#define FN 0
#include "dir_iter.c"
#undef harness

#ifndef CHAIN
#define CHAIN 0
#endif
#ifndef ORDER
#define ORDER 0
#endif

static sqfs_inode_generic_t *w13_entry_inode(sqfs_u16 type, sqfs_u32 num)
{
	sqfs_inode_generic_t *ino = calloc(1, sizeof(*ino));

	VERIF_ASSUME(ino != NULL);
	ino->base.type = type;
	ino->base.inode_number = num;
	return ino;
}

static void w13_set_entry(iterator_t *it, sqfs_u16 type, sqfs_u32 num)
{
	it->inode = w13_entry_inode(type, num);
	it->dent = calloc(1, sizeof(*it->dent) + 2);
	VERIF_ASSUME(it->dent != NULL);
	it->dent->name[0] = 'x';
}

void harness(void)
{
	sqfs_dir_iterator_t *lvl[CHAIN + 1], *sub = NULL;
	sqfs_inode_generic_t root;
	sqfs_u32 n[CHAIN + 1], m;
	sqfs_u16 type;
	iterator_t *it;
	bool match = false;
	unsigned k, opens_before, rc_before;
	int ret;

	(void)di_obj_copy;
	(void)di_iterator;
	env_init();
	di_objs();
	g_frees = g_reads = g_gets = g_froms = g_opens = g_streams = g_xattrs = 0;

	/* the chain, built by the code under test */
	for (k = 0; k <= CHAIN; ++k)
		n[k] = verif_nd_u32("chain.inode_number");
	root.base.type = verif_nd_bool("root.ext") ? SQFS_INODE_EXT_DIR :
						     SQFS_INODE_DIR;
	root.base.inode_number = n[0];
	lvl[0] = NULL;
	ret = sqfs_dir_iterator_create((sqfs_dir_reader_t *)&g_rd_o,
				       (sqfs_id_table_t *)&g_id_o,
				       (sqfs_data_reader_t *)&g_data_o, NULL,
				       &root, &lvl[0]);
	VERIF_ASSUME(ret == 0);
	for (k = 1; k <= CHAIN; ++k) {
		w13_set_entry((iterator_t *)lvl[k - 1],
			      verif_nd_bool("chain.ext") ? SQFS_INODE_EXT_DIR :
							   SQFS_INODE_DIR, n[k]);
		lvl[k] = NULL;
		ret = lvl[k - 1]->open_subdir(lvl[k - 1], &lvl[k]);
		VERIF_ASSUME(ret == 0);
		/* the creator of level k-1 lets go: from here on only the
		   child keeps it alive */
		sqfs_drop(lvl[k - 1]);
	}

	/* the step under test */
	it = (iterator_t *)lvl[CHAIN];
	VERIF_ASSERT(it->base.obj.refcount == 1, "C05.dir_iter.parent_kept");
	type = verif_nd_u16("cur.type");
	m = verif_nd_u32("cur.inode_number");
	w13_set_entry(it, type, m);
	for (k = 0; k <= CHAIN; ++k) {
		if (n[k] == m)
			match = true;
	}
	opens_before = g_opens;
	rc_before = it->base.obj.refcount;

	ret = it->base.open_subdir(&it->base, &sub);

	if (type != SQFS_INODE_DIR && type != SQFS_INODE_EXT_DIR) {
		VERIF_ASSERT(ret == SQFS_ERROR_NOT_DIR && sub == NULL &&
			     g_opens == opens_before, "C05.dir_iter.dispatch");
	} else if (match) {
		VERIF_ASSERT(ret == SQFS_ERROR_LINK_LOOP && sub == NULL &&
			     g_opens == opens_before, "C05.dir_iter.noloop");
	} else {
		VERIF_ASSERT(ret == SQFS_ERROR_ALLOC ||
			     (g_opens == opens_before + 1 &&
			      g_open_inode == it->inode && ret == g_open_ret),
			     "C05.dir_iter.open_subdir_ok");
		VERIF_ASSERT((ret == 0) == (sub != NULL),
			     "C05.dir_iter.open_subdir_ok");
	}
	VERIF_COVER(ret == SQFS_ERROR_LINK_LOOP && n[0] == m);
	VERIF_COVER(ret == SQFS_ERROR_LINK_LOOP && n[CHAIN] == m);
	VERIF_COVER(ret == 0);
	VERIF_COVER(ret == SQFS_ERROR_NOT_DIR);

	if (ret == 0) {
		VERIF_ASSERT(it->base.obj.refcount == rc_before + 1,
			     "C05.dir_iter.parent_kept");
		VERIF_ASSERT(g_rd_o.base.refcount == 1 + (CHAIN + 2) &&
			     g_id_o.base.refcount == 1 + (CHAIN + 2) &&
			     g_data_o.base.refcount == 1 + (CHAIN + 2) &&
			     g_xattr_o.base.refcount == 1,
			     "C05.dir_iter.parent_kept");
#if ORDER == 0
		/* child first: the parent survives with its creator's
		   reference, and goes with it */
		sqfs_drop(sub);
		VERIF_ASSERT(VERIF_R_OK(it, sizeof(*it)) &&
			     it->base.obj.refcount == rc_before,
			     "C05.dir_iter.parent_kept");
		sqfs_drop(it);
#else
		/* creator first: the child keeps the parent alive */
		sqfs_drop(it);
		VERIF_ASSERT(VERIF_R_OK(it, sizeof(*it)) &&
			     it->base.obj.refcount == rc_before,
			     "C05.dir_iter.parent_kept");
		sqfs_drop(sub);
#endif
	} else {
		VERIF_ASSERT(it->base.obj.refcount == rc_before,
			     "C05.dir_iter.parent_kept");
		sqfs_drop(it);
	}
	/* everything is gone: all iterators (leak check), all references */
	VERIF_ASSERT(g_rd_o.base.refcount == 1 && g_id_o.base.refcount == 1 &&
		     g_data_o.base.refcount == 1 && g_xattr_o.base.refcount == 1,
		     "C05.dir_iter.parent_kept");
}
