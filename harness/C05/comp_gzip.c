/* C05: gzip_do_block in un-compress mode against the assumed contract of
 * zlib's inflateReset / inflate(Z_FINISH): inflate reads next_in[0..avail_in),
 * writes next_out[0..avail_out), advances the pointers and counters, sets
 * total_out to the bytes produced since the reset, returns a documented code.
 */
#include "C05/comp_common.h"
#include <zlib.h>

static z_stream *g_strm;
static bool g_reset;

int inflateReset(z_streamp strm)
{
	VERIF_ASSERT(strm == g_strm, "C05.comp.lib_input");
	if (verif_nd_bool("z.reset.fail"))
		return Z_STREAM_ERROR;
	strm->total_in = strm->total_out = 0;
	g_reset = true;
	return Z_OK;
}

int inflate(z_streamp strm, int flush)
{
	uInt c, p;
	VERIF_ASSERT(strm == g_strm && g_reset && flush == Z_FINISH,
		     "C05.comp.lib_input");
	comp_lib_io(strm->next_in, strm->avail_in, strm->next_out, strm->avail_out);
	c = verif_nd_u32("z.consumed");
	p = verif_nd_u32("z.produced");
	if (c > strm->avail_in)
		c = strm->avail_in;
	if (p > strm->avail_out)
		p = strm->avail_out;
	strm->next_in += c;
	strm->avail_in -= c;
	strm->total_in += c;
	strm->next_out += p;
	strm->avail_out -= p;
	strm->total_out += p;
	g_c.produced = p;
	switch (verif_nd_u8("z.ret") % 7) {
	case 0: return Z_OK;
	case 1: return Z_STREAM_END;
	case 2: return Z_NEED_DICT;
	case 3: return Z_DATA_ERROR;
	case 4: return Z_MEM_ERROR;
	case 5: return Z_BUF_ERROR;
	default: return Z_STREAM_ERROR;
	}
}

#include "lib/sqfs/src/comp/gzip.c"

void harness(void)
{
	gzip_compressor_t *gz = malloc(sizeof(*gz));

	VERIF_ASSUME(gz != NULL);
	comp_setup();
	gz->base.base.refcount = 1;
	gz->base.base.destroy = gzip_destroy;
	gz->base.base.copy = gzip_create_copy;
	gz->base.get_configuration = gzip_get_configuration;
	gz->base.write_options = gzip_write_options;
	gz->base.read_options = gzip_read_options;
	gz->base.do_block = gzip_do_block;
	gz->compress = false;
	gz->block_size = verif_nd_size("block_size");
	gz->opt.level = verif_nd_u32("opt.level");
	gz->opt.window = verif_nd_u16("opt.window");
	gz->opt.strategies = verif_nd_u16("opt.strategies");
	gz->strm.next_in = NULL;
	gz->strm.next_out = NULL;
	gz->strm.avail_in = gz->strm.avail_out = 0;
	gz->strm.total_in = verif_nd_size("strm.total_in");
	gz->strm.total_out = verif_nd_size("strm.total_out");
	g_strm = &gz->strm;
	g_reset = false;

	comp_check(gzip_do_block(&gz->base, g_c.in, g_c.size, g_c.out, g_c.outsize));
}
