/* C05: sqfs_data_reader_create_stream for an arbitrary well-formed file inode
 * with any number of block words (symbolic). Establishes the well-formed
 * stream state that harness dr_stream starts from.
 *
 *   C05.create_stream.wf      ret == 0 => a stream whose block list is a
 *                             private copy of the inode's (blk_count == block
 *                             count, inside the stream object), buffer of
 *                             block_size bytes, empty (buf_used == buf_off ==
 *                             0, blk_idx == 0), file size / location /
 *                             fragment taken from the inode, reader grabbed
 *   C05.create_stream.fail    ret != 0 => *out == NULL, reader not grabbed
 *   C05.env.memcpy.*          the two copies stay inside the allocation
 */
#include <stdlib.h>
#include <string.h>
#include <errno.h>
#include "verif.h"
#define ENV_PROP "C05"
#define ENV_IS_PAYLOAD(p, n) 1
static size_t g_di_nblk;
#include "C10/dr_common.h"
#include "C05/dr_inode.h"

void harness(void)
{
	sqfs_data_reader_t *rd;
	sqfs_inode_generic_t *ino;
	sqfs_istream_t *out = (sqfs_istream_t *)(size_t)verif_nd_size("out.before");
	sqfs_u64 filesz, start;
	sqfs_u32 fidx, foff;
	size_t refs;
	int ret;

	env_init();
	env_objects_init();
	rd = dr_new(NULL);
	ino = di_new_file(&g_di_nblk);
	sqfs_inode_get_file_size(ino, &filesz);
	sqfs_inode_get_file_block_start(ino, &start);
	sqfs_inode_get_frag_location(ino, &fidx, &foff);
	refs = rd->obj.refcount;

	ret = sqfs_data_reader_create_stream(rd, ino, "name", &out);

	if (ret == 0) {
		data_reader_istream_t *st = (data_reader_istream_t *)out;
		VERIF_ASSERT(st != NULL && st->rd == rd &&
			     rd->obj.refcount == refs + 1 &&
			     st->blk_count == g_di_nblk && st->blk_idx == 0 &&
			     st->blocks == st->inodata &&
			     VERIF_R_OK(st->blocks, g_di_nblk * 4 + 1) &&
			     st->buffer != NULL && VERIF_W_OK(st->buffer, BS) &&
			     st->buf_used == 0 && st->buf_off == 0 &&
			     st->filesz == filesz && st->disk_offset == start &&
			     st->frag_idx == fidx && st->frag_off == foff &&
			     st->base.get_buffered_data == dr_stream_get_buffered_data,
			     "C05.create_stream.wf");
		free(st->buffer);
		free(st);
	} else {
		VERIF_ASSERT(out == NULL && rd->obj.refcount == refs,
			     "C05.create_stream.fail");
	}
	VERIF_COVER(ret == 0 && g_di_nblk > 3);
	VERIF_COVER(ret != 0);
	free(ino);
	dr_delete(rd);
}
