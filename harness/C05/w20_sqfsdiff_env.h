/*
 * w20_sqfsdiff_env.h - the library as sqfsdiff's main()/open_sfqs()/close_sfqs()
 * see it: every constructor is a contract stub that may fail at every call
 * and hands out one ghost-tracked object per (image, kind).
 *
 * Object contract (include/sqfs/predef.h): an object handed out by a
 * constructor is released by the caller exactly once (sqfs_drop, or
 * sqfs_dir_tree_destroy for the tree); after that the storage is gone: it
 * must not be dropped, destroyed or handed to the library again. A failing
 * constructor hands out nothing (*out stays NULL / NULL is returned).
 *
 *   C05.sqfsdiff.release_once   destroy hook / sqfs_dir_tree_destroy only on
 *                               an object a constructor handed out and that
 *                               was not released before
 *   C05.sqfsdiff.use_live       every object passed to the library is live
 *   C05.sqfsdiff.wiring         the objects passed to one library call belong
 *                               to the same image (the state being opened)
 */
#ifndef W20_SQFSDIFF_ENV_H
#define W20_SQFSDIFF_ENV_H

#include <stdlib.h>
#include <string.h>
#include <stdio.h>
#include "verif.h"
#include "bin/sqfsdiff/src/sqfsdiff.h"

enum { K_FILE, K_CMP, K_IDTBL, K_DR, K_ROOT, K_DATA, K_N };
enum { ST_NONE = 0, ST_LIVE = 1, ST_RELEASED = 2 };

/* opaque library types: only the object header is ever touched by the tool */
typedef struct { sqfs_object_t base; } sd_opaque_t;
typedef struct { sqfs_tree_node_t n; char name[1]; } sd_root_t;

static sqfs_file_t g_file[2];
static sqfs_compressor_t g_cmp[2];
static sd_opaque_t g_idtbl[2], g_dr[2], g_data[2];
static sd_root_t g_root[2];
static sqfs_inode_generic_t g_root_inode[2];

static unsigned g_st[2][K_N];	/* ST_* per object */
static unsigned g_made[2][K_N];	/* constructor successes */
static int g_cur;		/* image being opened: 0 old, 1 new, -1 none */
static unsigned g_opened[2];	/* open sequence of the image completed */
static bool g_fault;		/* a library call that must be fatal failed */
static unsigned g_diag;		/* diagnostics printed */
static sqfsdiff_t *g_sd;
static unsigned g_nc_calls, g_cs_calls, g_chdir_calls, g_mkdir_calls;
static int g_nc_ret, g_cs_ret;
static bool g_want_super, g_want_extract;
static char g_old_path[] = "a.sqfs", g_new_path[] = "b.sqfs", g_extract[] = "x";

static void sd_env_init(void)
{
	int i, k;

	for (i = 0; i < 2; ++i) {
		for (k = 0; k < K_N; ++k)
			g_st[i][k] = g_made[i][k] = 0;
		g_opened[i] = 0;
	}
	g_cur = -1;
	g_fault = false;
	g_diag = 0;
	g_sd = NULL;
	g_nc_calls = g_cs_calls = g_chdir_calls = g_mkdir_calls = 0;
	g_nc_ret = g_cs_ret = 0;
	g_want_super = g_want_extract = false;
}

static void *sd_obj(int img, int kind)
{
	switch (kind) {
	case K_FILE: return &g_file[img];
	case K_CMP: return &g_cmp[img];
	case K_IDTBL: return &g_idtbl[img];
	case K_DR: return &g_dr[img];
	case K_DATA: return &g_data[img];
	default: return &g_root[img];
	}
}

/* which (image, kind) is this pointer? -1 if none of ours */
static int sd_find(const void *p, int *kind)
{
	int i, k;

	for (i = 0; i < 2; ++i) {
		for (k = 0; k < K_N; ++k) {
			if (p == sd_obj(i, k)) {
				*kind = k;
				return i;
			}
		}
	}
	return -1;
}

/* the object the tool hands to the library: live, of the expected kind, and
 * of the image that is being worked on */
static void sd_use(const void *p, int img, int kind)
{
	int k = -1, i = sd_find(p, &k);

	VERIF_ASSERT(i >= 0 && g_st[i][k] == ST_LIVE, "C05.sqfsdiff.use_live");
	VERIF_ASSERT(i == img && k == kind, "C05.sqfsdiff.wiring");
}

static void sd_release(const void *p)
{
	int k = -1, i = sd_find(p, &k);

	VERIF_ASSERT(i >= 0 && g_st[i][k] == ST_LIVE, "C05.sqfsdiff.release_once");
	if (i >= 0) {
		g_st[i][k] = ST_RELEASED;
		/* the storage is gone: whatever is read from it later is not a
		 * reference count that keeps the object alive */
		if (k != K_ROOT)
			((sqfs_object_t *)sd_obj(i, k))->refcount = 0;
	}
}

void sd_destroy(sqfs_object_t *obj)
{
	sd_release(obj);
}

static void sd_mk(int img, int kind)
{
	VERIF_ASSERT(g_st[img][kind] == ST_NONE, "C05.sqfsdiff.ctor_once");
	g_st[img][kind] = ST_LIVE;
	g_made[img][kind] += 1;
	if (kind != K_ROOT) {
		sqfs_object_t *o = sd_obj(img, kind);

		o->refcount = 1;
		o->destroy = sd_destroy;
		o->copy = NULL;
	}
}

/* a fatal library failure: any negative SQFS_ERROR code */
static int sd_fail_code(const char *tag)
{
	int e = verif_nd_int(tag);

	VERIF_ASSUME(e < 0 && e >= -64);
	g_fault = true;
	return e;
}

/* ---- diagnostics ---------------------------------------------------------- */
void sqfs_perror(const char *file, const char *action, int error_code)
{
	(void)file; (void)action; (void)error_code;
	g_diag += 1;
}

void perror(const char *s)
{
	(void)s;
	g_diag += 1;
}

/* ---- constructors ---------------------------------------------------------- */
int sqfs_file_open(sqfs_file_t **out, const char *filename, sqfs_u32 flags)
{
	VERIF_ASSERT(g_sd != NULL && (out == &g_sd->sqfs_old.file ||
				      out == &g_sd->sqfs_new.file),
		     "C05.sqfsdiff.wiring");
	g_cur = (out == &g_sd->sqfs_new.file) ? 1 : 0;
	VERIF_ASSERT(filename == (g_cur ? g_new_path : g_old_path) &&
		     (flags & SQFS_FILE_OPEN_READ_ONLY), "C05.sqfsdiff.wiring");
	if (verif_nd_bool("file_open.fail")) {
		*out = NULL;
		return sd_fail_code("file_open.err");
	}
	sd_mk(g_cur, K_FILE);
	*out = &g_file[g_cur];
	return 0;
}

int sqfs_super_read(sqfs_super_t *super, sqfs_file_t *file)
{
	sd_use(file, g_cur, K_FILE);
	VERIF_ASSERT(super == (g_cur ? &g_sd->sqfs_new.super : &g_sd->sqfs_old.super),
		     "C05.sqfsdiff.wiring");
	if (verif_nd_bool("super_read.fail"))
		return sd_fail_code("super_read.err");
	super->flags = verif_nd_u16("super.flags");
	super->compression_id = verif_nd_u16("super.comp");
	super->block_size = verif_nd_u32("super.bs");
	return 0;
}

int sqfs_compressor_config_init(sqfs_compressor_config_t *cfg, SQFS_COMPRESSOR id,
				size_t block_size, sqfs_u16 flags)
{
	(void)block_size;
	VERIF_ASSERT(cfg == (g_cur ? &g_sd->sqfs_new.cfg : &g_sd->sqfs_old.cfg),
		     "C05.sqfsdiff.wiring");
	VERIF_ASSERT(flags & SQFS_COMP_FLAG_UNCOMPRESS, "C05.sqfsdiff.wiring");
	cfg->id = id;
	cfg->flags = flags;
	return verif_nd_bool("config_init.fail") ? SQFS_ERROR_UNSUPPORTED : 0;
}

int sd_read_options(sqfs_compressor_t *cmp, sqfs_file_t *file)
{
	sd_use(cmp, g_cur, K_CMP);
	sd_use(file, g_cur, K_FILE);
	/* not fatal for the tool: it only loses the option comparison */
	if (verif_nd_bool("read_options.fail"))
		return SQFS_ERROR_CORRUPTED;
	return 0;
}

void sd_get_configuration(const sqfs_compressor_t *cmp, sqfs_compressor_config_t *cfg)
{
	sd_use(cmp, g_cur, K_CMP);
	VERIF_ASSERT(cfg == (g_cur ? &g_sd->sqfs_new.options : &g_sd->sqfs_old.options),
		     "C05.sqfsdiff.wiring");
	cfg->id = verif_nd_u16("options.id");
}

static int sd_mk_cmp(const sqfs_compressor_config_t *cfg, sqfs_compressor_t **out,
		     const char *tag)
{
	VERIF_ASSERT(cfg == (g_cur ? &g_sd->sqfs_new.cfg : &g_sd->sqfs_old.cfg) &&
		     out == (g_cur ? &g_sd->sqfs_new.cmp : &g_sd->sqfs_old.cmp),
		     "C05.sqfsdiff.wiring");
	*out = NULL;
	if (verif_nd_bool(tag))
		return sd_fail_code(tag);
	sd_mk(g_cur, K_CMP);
	g_cmp[g_cur].read_options = sd_read_options;
	g_cmp[g_cur].get_configuration = sd_get_configuration;
	*out = &g_cmp[g_cur];
	return 0;
}

int sqfs_compressor_create(const sqfs_compressor_config_t *cfg, sqfs_compressor_t **out)
{
	return sd_mk_cmp(cfg, out, "compressor_create.fail");
}

int lzo_compressor_create(const sqfs_compressor_config_t *cfg, sqfs_compressor_t **out)
{
	/* only tried after sqfs_compressor_create failed: that failure was not
	 * final; this one is (sd_mk_cmp sets the fault flag again if it fails) */
	g_fault = false;
	return sd_mk_cmp(cfg, out, "lzo_create.fail");
}

sqfs_id_table_t *sqfs_id_table_create(sqfs_u32 flags)
{
	(void)flags;
	VERIF_ASSERT(g_cur >= 0, "C05.sqfsdiff.wiring");
	if (verif_nd_bool("id_table_create.fail")) {
		g_fault = true;
		return NULL;
	}
	sd_mk(g_cur, K_IDTBL);
	return (sqfs_id_table_t *)&g_idtbl[g_cur];
}

int sqfs_id_table_read(sqfs_id_table_t *tbl, sqfs_file_t *file,
		       const sqfs_super_t *super, sqfs_compressor_t *cmp)
{
	sd_use(tbl, g_cur, K_IDTBL);
	sd_use(file, g_cur, K_FILE);
	sd_use(cmp, g_cur, K_CMP);
	VERIF_ASSERT(super == (g_cur ? &g_sd->sqfs_new.super : &g_sd->sqfs_old.super),
		     "C05.sqfsdiff.wiring");
	if (verif_nd_bool("id_table_read.fail"))
		return sd_fail_code("id_table_read.err");
	return 0;
}

sqfs_dir_reader_t *sqfs_dir_reader_create(const sqfs_super_t *super,
					  sqfs_compressor_t *cmp, sqfs_file_t *file,
					  sqfs_u32 flags)
{
	(void)flags;
	sd_use(file, g_cur, K_FILE);
	sd_use(cmp, g_cur, K_CMP);
	VERIF_ASSERT(super == (g_cur ? &g_sd->sqfs_new.super : &g_sd->sqfs_old.super),
		     "C05.sqfsdiff.wiring");
	if (verif_nd_bool("dir_reader_create.fail")) {
		g_fault = true;
		return NULL;
	}
	sd_mk(g_cur, K_DR);
	return (sqfs_dir_reader_t *)&g_dr[g_cur];
}

int sqfs_dir_reader_get_full_hierarchy(sqfs_dir_reader_t *rd, const sqfs_id_table_t *idtbl,
				       const char *path, sqfs_u32 flags,
				       sqfs_tree_node_t **out)
{
	sd_use(rd, g_cur, K_DR);
	sd_use(idtbl, g_cur, K_IDTBL);
	VERIF_ASSERT(out == (g_cur ? &g_sd->sqfs_new.root : &g_sd->sqfs_old.root),
		     "C05.sqfsdiff.wiring");
	/* the whole image, unfiltered: both sides of the comparison complete */
	VERIF_ASSERT((path == NULL || path[0] == '\0') && flags == 0,
		     "C05.sqfsdiff.whole_tree");
	if (verif_nd_bool("get_full_hierarchy.fail"))
		return sd_fail_code("get_full_hierarchy.err");
	sd_mk(g_cur, K_ROOT);
	g_root[g_cur].n.parent = NULL;
	g_root[g_cur].n.children = NULL;
	g_root[g_cur].n.next = NULL;
	g_root[g_cur].n.inode = &g_root_inode[g_cur];
	g_root[g_cur].name[0] = '\0';
	*out = &g_root[g_cur].n;
	return 0;
}

sqfs_data_reader_t *sqfs_data_reader_create(sqfs_file_t *file, size_t block_size,
					    sqfs_compressor_t *cmp, sqfs_u32 flags)
{
	(void)flags;
	sd_use(file, g_cur, K_FILE);
	sd_use(cmp, g_cur, K_CMP);
	VERIF_ASSERT(block_size == (g_cur ? g_sd->sqfs_new.super.block_size :
				    g_sd->sqfs_old.super.block_size),
		     "C05.sqfsdiff.wiring");
	if (verif_nd_bool("data_reader_create.fail")) {
		g_fault = true;
		return NULL;
	}
	sd_mk(g_cur, K_DATA);
	return (sqfs_data_reader_t *)&g_data[g_cur];
}

int sqfs_data_reader_load_fragment_table(sqfs_data_reader_t *data, const sqfs_super_t *super)
{
	sd_use(data, g_cur, K_DATA);
	VERIF_ASSERT(super == (g_cur ? &g_sd->sqfs_new.super : &g_sd->sqfs_old.super),
		     "C05.sqfsdiff.wiring");
	if (verif_nd_bool("load_fragment_table.fail"))
		return sd_fail_code("load_fragment_table.err");
	g_opened[g_cur] += 1;
	return 0;
}

void sqfs_dir_tree_destroy(sqfs_tree_node_t *root)
{
	if (root == NULL)
		return;
	sd_release(root);
}

/* ---- the rest of the tool -------------------------------------------------- */
void process_options(sqfsdiff_t *sd, int argc, char **argv)
{
	(void)argc; (void)argv;
	g_sd = sd;
	sd->old_path = g_old_path;
	sd->new_path = g_new_path;
	sd->compare_flags = (int)verif_nd_u8("opt.flags");
	g_want_super = verif_nd_bool("opt.super");
	g_want_extract = verif_nd_bool("opt.extract");
	sd->compare_super = g_want_super;
	sd->extract_dir = g_want_extract ? g_extract : NULL;
}

int mkdir_p(const char *path)
{
	VERIF_ASSERT(path == g_extract && g_want_extract, "C05.sqfsdiff.wiring");
	g_mkdir_calls += 1;
	if (verif_nd_bool("mkdir_p.fail")) {
		g_fault = true;
		g_diag += 1;	/* prints its own message */
		return -1;
	}
	return 0;
}

int chdir(const char *path)
{
	VERIF_ASSERT(path == g_extract && g_want_extract, "C05.sqfsdiff.wiring");
	/* the image names may be relative: both images are open by now */
	VERIF_ASSERT(g_opened[0] == 1 && g_opened[1] == 1, "C05.sqfsdiff.chdir_after_open");
	g_chdir_calls += 1;
	if (verif_nd_bool("chdir.fail")) {
		g_fault = true;
		return -1;
	}
	return 0;
}

static void sd_all_live(int img)
{
	int k;

	for (k = 0; k < K_N; ++k)
		VERIF_ASSERT(g_st[img][k] == ST_LIVE, "C05.sqfsdiff.use_live");
}

int node_compare(sqfsdiff_t *sd, sqfs_tree_node_t *a, sqfs_tree_node_t *b)
{
	VERIF_ASSERT(sd == g_sd && a == &g_root[0].n && b == &g_root[1].n,
		     "C05.sqfsdiff.compare_args");
	VERIF_ASSERT(g_opened[0] == 1 && g_opened[1] == 1, "C05.sqfsdiff.compare_args");
	/* it reads file data through sd->sqfs_old.data / sqfs_new.data */
	sd_all_live(0);
	sd_all_live(1);
	VERIF_ASSERT(sd->sqfs_old.data == (sqfs_data_reader_t *)&g_data[0] &&
		     sd->sqfs_new.data == (sqfs_data_reader_t *)&g_data[1],
		     "C05.sqfsdiff.compare_args");
	g_nc_calls += 1;
	g_nc_ret = verif_nd_int("node_compare.ret");
	if (g_nc_ret < 0)
		g_diag += 1;	/* prints its own message */
	return g_nc_ret;
}

int compare_super_blocks(const sqfs_super_t *a, const sqfs_super_t *b)
{
	VERIF_ASSERT(a == &g_sd->sqfs_old.super && b == &g_sd->sqfs_new.super,
		     "C05.sqfsdiff.compare_args");
	VERIF_ASSERT(g_opened[0] == 1 && g_opened[1] == 1, "C05.sqfsdiff.compare_args");
	g_cs_calls += 1;
	g_cs_ret = verif_nd_int("compare_super.ret");
	if (g_cs_ret < 0)
		g_diag += 1;
	return g_cs_ret;
}

#endif /* W20_SQFSDIFF_ENV_H */
