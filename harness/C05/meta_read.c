/* C05: sqfs_meta_reader_read is memory safe and terminates for every
 * well-formed reader state (wf_meta: data_used <= 8192, offset <= data_used),
 * every request size and every image: the harness of C10/meta_read.c (loop
 * contract, real seek against the image / un-compressor contracts) with the
 * obligations named for C05. What counts here are the CBMC checks inside the
 * real functions, the environment preconditions
 *   C05.env.read_at.buffer_writable, C05.env.do_block.*, C05.env.memcpy.*
 * the loop invariant (wf_meta is preserved across refills) and `decreases`.
 */
#define ENV_PROP "C05"
#include "C10/meta_read.c"
