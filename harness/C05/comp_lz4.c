/* C05: lz4_uncomp_block against the assumed contract of LZ4_decompress_safe:
 * never writes more than maxDecompressedSize bytes, returns the number of
 * bytes written or a negative value (also for a negative compressedSize). */
#include "C05/comp_common.h"
#include <lz4.h>

int LZ4_decompress_safe(const char *src, char *dst, int compressedSize,
			int dstCapacity)
{
	int r;
	VERIF_ASSERT(compressedSize >= 0 && dstCapacity >= 0, "C05.comp.lib_input");
	comp_lib_io(src, (size_t)compressedSize, dst, (size_t)dstCapacity);
	if (verif_nd_bool("lz4.fail"))
		return -1 - (int)verif_nd_u8("lz4.code");
	r = verif_nd_int("lz4.ret");
	if (r < 0 || r > dstCapacity)
		r = dstCapacity;
	g_c.produced = (size_t)r;
	return r;
}

#include "lib/sqfs/src/comp/lz4.c"

void harness(void)
{
	comp_setup();
	comp_check(lz4_uncomp_block(NULL, g_c.in, g_c.size, g_c.out, g_c.outsize));
}
