/* C05 / sqfsdiff: the real main(), open_sfqs() and close_sfqs() of
 * bin/sqfsdiff/src/sqfsdiff.c; every library constructor, the option parser,
 * mkdir_p/chdir and the two comparisons are contracts that may fail at every
 * call (w20_sqfsdiff_env.h). All three functions are loop-free: every
 * combination "old image fails at step i / new image fails at step j / both
 * open, comparison returns any int" is one symbolic run.
 *
 *   C05.sqfsdiff.release_once  (env) an object is released only if a
 *                              constructor handed it out and it was not
 *                              released before - on every path
 *   C05.sqfsdiff.use_live      (env) nothing released is handed to the library
 *   C05.sqfsdiff.no_leak       at exit no object a constructor handed out is
 *                              still live
 *   C05.sqfsdiff.status        sqfsdiff.1: 0 equal, 1 different, 2 problem.
 *                              Any failed library call / unreadable image /
 *                              failed comparison => 2; 0 only if both images
 *                              were opened completely and every requested
 *                              comparison ran and returned 0; 1 only if a
 *                              comparison reported a difference and nothing
 *                              failed; nothing else is returned
 *   C05.sqfsdiff.diagnostic    status 2 => a diagnostic was printed
 *   C05.sqfsdiff.wiring / compare_args / whole_tree / chdir_after_open /
 *   ctor_once                  (env) argument contracts of the stubs
 */
#include "C05/w20_sqfsdiff_env.h"

#define main sqfsdiff_main
#include "bin/sqfsdiff/src/sqfsdiff.c"
#undef main

void harness(void)
{
	static char *argv[4] = { "sqfsdiff", g_old_path, g_new_path, NULL };
	bool cmp_failed, cmp_differs;
	int status, i, k;

	sd_env_init();

	status = sqfsdiff_main(3, argv);

	for (i = 0; i < 2; ++i) {
		for (k = 0; k < K_N; ++k) {
			VERIF_ASSERT(g_st[i][k] != ST_LIVE, "C05.sqfsdiff.no_leak");
			VERIF_ASSERT(g_made[i][k] <= 1, "C05.sqfsdiff.ctor_once");
		}
	}

	cmp_failed = (g_nc_calls && g_nc_ret < 0) || (g_cs_calls && g_cs_ret < 0);
	cmp_differs = (g_nc_calls && g_nc_ret > 0) || (g_cs_calls && g_cs_ret > 0);

	VERIF_ASSERT(status == 0 || status == 1 || status == 2, "C05.sqfsdiff.status");
	if (g_fault || cmp_failed || g_opened[0] != 1 || g_opened[1] != 1)
		VERIF_ASSERT(status == 2, "C05.sqfsdiff.status");
	if (status == 0)
		VERIF_ASSERT(!g_fault && g_opened[0] == 1 && g_opened[1] == 1 &&
			     g_nc_calls == 1 && g_nc_ret == 0 &&
			     (!g_want_super || (g_cs_calls == 1 && g_cs_ret == 0)) &&
			     (!g_want_extract || g_chdir_calls == 1),
			     "C05.sqfsdiff.status");
	if (status == 1)
		VERIF_ASSERT(!g_fault && !cmp_failed && cmp_differs, "C05.sqfsdiff.status");
	if (!g_fault && !cmp_failed && cmp_differs)
		VERIF_ASSERT(status == 1, "C05.sqfsdiff.status");
	VERIF_ASSERT(status != 2 || g_diag >= 1, "C05.sqfsdiff.diagnostic");

	VERIF_COVER(status == 0 && g_want_super && g_want_extract);
	VERIF_COVER(status == 0 && !g_want_super && !g_want_extract);
	VERIF_COVER(status == 1 && g_cs_calls == 1);
	VERIF_COVER(status == 1 && g_cs_calls == 0);
	VERIF_COVER(status == 2 && g_opened[0] == 1 && g_opened[1] == 1);
	VERIF_COVER(status == 2 && g_made[0][K_FILE] == 0);
	VERIF_COVER(status == 2 && g_opened[0] == 1 && g_made[1][K_FILE] == 0);
	VERIF_COVER(status == 2 && g_opened[0] == 1 && g_made[1][K_DATA] == 1 && g_opened[1] == 0);
	VERIF_COVER(status == 2 && g_opened[0] == 1 && g_made[1][K_ROOT] == 1 && g_made[1][K_DATA] == 0);
	VERIF_COVER(status == 2 && g_made[0][K_DATA] == 1 && g_opened[0] == 0);
	VERIF_COVER(status == 2 && g_made[0][K_CMP] == 1 && g_made[0][K_IDTBL] == 0);
	VERIF_COVER(status == 2 && g_chdir_calls == 1 && g_nc_calls == 0);
}
