/* C05: lzma_uncomp_block (legacy LZMA1 blocks) against the assumed contract of
 * lzma_alone_decoder / lzma_code / lzma_end: lzma_code reads next_in[0..
 * avail_in), writes next_out[0..avail_out), advances pointers and counters
 * (total_out = bytes produced so far), returns a documented lzma_ret.
 */
#include "C05/comp_common.h"
#include <lzma.h>

static lzma_stream *g_strm;
static unsigned g_code_calls;
static size_t g_total_out;

lzma_ret lzma_alone_decoder(lzma_stream *strm, uint64_t memlimit)
{
	(void)memlimit;
	g_strm = strm;
	if (verif_nd_bool("lzma.init.fail"))
		return LZMA_MEM_ERROR;
	strm->total_in = strm->total_out = 0;
	return LZMA_OK;
}

void lzma_end(lzma_stream *strm)
{
	VERIF_ASSERT(strm == g_strm, "C05.comp.lib_input");
}

lzma_ret lzma_code(lzma_stream *strm, lzma_action action)
{
	size_t c, p;
	VERIF_ASSERT(strm == g_strm, "C05.comp.lib_input");
	VERIF_ASSERT(strm->avail_in == 0 || VERIF_R_OK(strm->next_in, strm->avail_in),
		     "C05.comp.lib_input");
	VERIF_ASSERT(strm->avail_out == 0 || VERIF_W_OK(strm->next_out, strm->avail_out),
		     "C05.comp.lib_output");
	if (g_code_calls == 0) {
		/* the 13 byte header copy */
		VERIF_ASSERT(action == LZMA_RUN && strm->avail_in == 13 &&
			     strm->next_out == g_c.out &&
			     strm->avail_out == g_c.outsize, "C05.comp.lib_output");
	} else {
		VERIF_ASSERT(action == LZMA_FINISH &&
			     strm->next_in == g_c.in + 13 &&
			     strm->avail_in == g_c.size - 13 &&
			     strm->next_out + strm->avail_out == g_c.out + g_c.outsize,
			     "C05.comp.lib_input");
		g_c.lib_called = true;
	}
	++g_code_calls;
	c = verif_nd_size("lzma.consumed");
	p = verif_nd_size("lzma.produced");
	if (c > strm->avail_in)
		c = strm->avail_in;
	if (p > strm->avail_out)
		p = strm->avail_out;
	strm->next_in += c;
	strm->avail_in -= c;
	strm->total_in += c;
	strm->next_out += p;
	strm->avail_out -= p;
	strm->total_out += p;
	g_total_out = strm->total_out;
	g_c.produced = g_total_out;
	switch (verif_nd_u8("lzma.ret") % 6) {
	case 0: return LZMA_OK;
	case 1: return LZMA_STREAM_END;
	case 2: return LZMA_FORMAT_ERROR;
	case 3: return LZMA_DATA_ERROR;
	case 4: return LZMA_MEM_ERROR;
	default: return LZMA_BUF_ERROR;
	}
}

#include "lib/sqfs/src/comp/lzma.c"

void harness(void)
{
	comp_setup();
	g_code_calls = 0;
	g_total_out = 0;
	comp_check(lzma_uncomp_block(NULL, g_c.in, g_c.size, g_c.out, g_c.outsize));
}
