# w13: tool glue code that consumes inode / tree node objects (rdsquashfs stat
# and list, sqfsdiff, sqfs2tar iterator) on arbitrary wf_inode objects.
FUNCTIONS = ["stat_file"]
TRUSTED = [
    "printf / fprintf / fputs / fputc / sprintf / perror contract (harness/C05/w13_env.h): reads exactly the arguments its format demands, every %s argument up to its terminator or precision; sprintf writes the C-standard number of characters plus NUL; gmtime / strftime contracts (NULL only for a year that overflows int; output <= 39 characters for the format of stat.c)",
    "glibc gnu_dev_major / gnu_dev_minor bit layout (harness model)",
]
ASSUMPTIONS = [
    "the tools' functions are verified one by one from an arbitrary wf_inode (exactly the postcondition of harness read_inode: wf_type, wf_payload, wf_file_blocks, wf_slink_nul, wf_dir_index) per node; tree SHAPES are concrete and small (see labels), all values symbolic",
    "--conversion-check is off in w13_stat: (int)link_size / (int)(idx->size + 1) as printf precision are implementation-defined narrowing (gcc: modulo 2^32), a negative precision means 'no precision' and the terminator behind the target / name (wf_slink_nul, C05.unpack_index.result) bounds the read - this case is covered by printf.string_arg",
]
_INODE_NAMES = {1: "dir", 2: "file", 3: "slink", 4: "bdev", 5: "cdev", 6: "fifo",
                7: "socket", 8: "dir_ext", 9: "file_ext", 10: "slink_ext", 11: "bdev_ext",
                12: "cdev_ext", 13: "fifo_ext", 14: "socket_ext"}
# loops of the printf contract: flags, width digits, precision digits, length
# modifiers, the format string itself (longest format of the code: < 64)
_PR_UNWIND = ["pr_vfmt.0:3", "pr_vfmt.1:12", "pr_vfmt.2:12", "pr_vfmt.3:4", "pr_vfmt.4:64",
              "pr_ndigits.0:24", "pr_putn.0:24", "pr_init.0:13", "pr_forget.0:13",
              "pr_known.0:13", "pr_known.1:50", "verif_nd_bytes.0:8"]

def _stat_cases():
    out = []
    for t, n in sorted(_INODE_NAMES.items()):
        if t in (2, 9):
            continue
        if t == 8:
            for k in (0, 1, 2):
                out.append(dict(id="dir_ext_idx%d" % k, defines={"ITYPE": 8, "NENT": k},
                                tier="quick", unwindset=_PR_UNWIND + ["stat_file.0:2", "stat_file.1:%d" % (k + 2)]))
        else:
            out.append(dict(id=n, defines={"ITYPE": t}, tier="quick"))
    return out

HARNESSES = [
    # all 14 inode types: 12 here (ext. directory with 0..2 index entries) ...
    dict(name="w13_stat", file="w13_stat.c", timeout=300, malloc_fail=True,
         label="bounded(dir index entries <= 2)",
         nochecks=["--conversion-check"], flags=["--memory-leak-check", "--arrays-uf-always"],
         unwindset=_PR_UNWIND + ["stat_file.0:2", "stat_file.1:2"],
         cases=_stat_cases()),
    # ... and the two file types with the loop contract on the block word walk
    dict(name="w13_stat_file", file="w13_stat.c", label="proved", timeout=300, malloc_fail=True,
         nochecks=["--conversion-check"], flags=["--memory-leak-check", "--arrays-uf-always"],
         loops=["stat_file"], loop_tables=["C05_w13"],
         unwindset=_PR_UNWIND + ["stat_file.1:2"],
         cases=[dict(id="file", defines={"ITYPE": 2}, tier="quick"),
                dict(id="file_ext", defines={"ITYPE": 9}, tier="quick")]),
]
