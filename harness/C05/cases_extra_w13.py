# w13: tool glue code that consumes inode / tree node objects (rdsquashfs stat
# and list, sqfsdiff, sqfs2tar iterator) on arbitrary wf_inode objects.
FUNCTIONS = ["stat_file", "list_files", "print_node_size", "mode_to_str", "count_int_chars", "print_size", "it_open_subdir (loop refusal, parent reference)", "it_destroy",
             "sqfs_dir_iterator_create (as called by it_open_subdir)"]
TRUSTED = [
    "printf / fprintf / fputs / fputc / sprintf / perror contract (harness/C05/w13_env.h): reads exactly the arguments its format demands, every %s argument up to its terminator or precision; sprintf writes the C-standard number of characters plus NUL; gmtime / strftime contracts (NULL only for a year that overflows int; output <= 39 characters for the format of stat.c)",
    "glibc gnu_dev_major / gnu_dev_minor bit layout (harness model)",
]
ASSUMPTIONS = [
    "w13: NOT covered (time): bin/sqfsdiff/src/* (node_compare, compare_dir, compare_files, extract, util), tar_compat_iterator_create and write_entry of sqfs2tar, rdsquashfs list of a directory with children beyond the one registered thorough case",
    "the tools' functions are verified one by one from an arbitrary wf_inode (exactly the postcondition of harness read_inode: wf_type, wf_payload, wf_file_blocks, wf_slink_nul, wf_dir_index) per node; tree SHAPES are concrete and small (see labels), all values symbolic",
    "--conversion-check is off in w13_stat: (int)link_size / (int)(idx->size + 1) as printf precision are implementation-defined narrowing (gcc: modulo 2^32), a negative precision means 'no precision' and the terminator behind the target / name (wf_slink_nul, C05.unpack_index.result) bounds the read - this case is covered by printf.string_arg",
]
_INODE_NAMES = {1: "dir", 2: "file", 3: "slink", 4: "bdev", 5: "cdev", 6: "fifo",
                7: "socket", 8: "dir_ext", 9: "file_ext", 10: "slink_ext", 11: "bdev_ext",
                12: "cdev_ext", 13: "fifo_ext", 14: "socket_ext"}
# loops of the printf contract: flags, width digits, precision digits, length
# modifiers, the format string itself (longest format of the code: < 64)
_PR_UNWIND = ["pr_vfmt.0:3", "pr_vfmt.1:12", "pr_vfmt.2:12", "pr_vfmt.3:4", "pr_vfmt.4:64",
              "pr_ndigits.0:24", "pr_putn.0:24", "pr_init.0:13", "pr_forget.0:13",
              "pr_known.0:13", "pr_known.1:50", "verif_nd_bytes.0:8"]

_PRE_UNWIND = ["--unwindset", ",".join(_PR_UNWIND[:-1]), "--unwinding-assertions"]

def _stat_cases():
    out = []
    for t, n in sorted(_INODE_NAMES.items()):
        if t in (2, 9):
            continue
        if t == 8:
            for k in (0, 1, 2):
                out.append(dict(id="dir_ext_idx%d" % k, defines={"ITYPE": 8, "NENT": k},
                                tier="quick" if k < 2 else "thorough", unwindset=_PR_UNWIND + ["stat_file.0:2", "stat_file.1:%d" % (k + 2)]))
        else:
            out.append(dict(id=n, defines={"ITYPE": t}, tier="quick"))
    return out

HARNESSES = [
    # directory loops / parent reference of the squashfs directory iterator
    # (chain built through the real create / open_subdir; see the file header)
    dict(name="w13_dir_iter_loop", file="w13_dir_iter_loop.c", timeout=300, malloc_fail=True,
         label="bounded(iterator chain <= 2 ancestors)",
         flags=["--memory-leak-check", "--arrays-uf-always"],
         fp={"read_at": "stub_read_at", "do_block": "stub_do_block",
             "destroy": ["di_obj_destroy", "it_destroy"], "copy": "di_obj_copy",
             "open_subdir": "it_open_subdir"},
         # chain2_order1 needs > 5 min since the entry/directory inode numbers of
         # the shared stubs (dir_iter.c) are symbolic: thorough tier only
         cases=[dict(id="chain%d_order%d" % (c, o), defines={"CHAIN": c, "ORDER": o},
                     tier="thorough" if (c, o) == (2, 1) else "quick",
                     timeout=300 if (c, o) != (2, 1) else 2400,
                     unwind=c + 6)
                for c in (0, 1, 2) for o in (0, 1)]),
    # all 14 inode types: 12 here (ext. directory with 0..2 index entries) ...
    dict(name="w13_stat", file="w13_stat.c", timeout=300, malloc_fail=True,
         label="bounded(dir index entries <= 2)",
         nochecks=["--conversion-check"], flags=["--memory-leak-check", "--arrays-uf-always"],
         unwindset=_PR_UNWIND + ["stat_file.0:2", "stat_file.1:2"],
         cases=_stat_cases()),
    # ... and the two file types. A loop contract on the block word walk
    # (contracts/loops/C05_w13.tbl, kept) needs the loops of the printf contract
    # unwound by goto-instrument first ("inner loop without contract"); that
    # pre-pass did not finish in 4 minutes, so the walk is bounded instead.
    dict(name="w13_stat_file", file="w13_stat.c", label="bounded(block words <= 3)", timeout=300,
         malloc_fail=True, nochecks=["--conversion-check"],
         flags=["--memory-leak-check", "--arrays-uf-always"],
         defines={"W13_MAXBLK": 3},
         unwindset=_PR_UNWIND + ["stat_file.0:5", "stat_file.1:2"],
         cases=[dict(id="file", defines={"ITYPE": 2, "W13_MAXBLK": 3}, tier="quick"),
                dict(id="file_ext", defines={"ITYPE": 9, "W13_MAXBLK": 3}, tier="quick")]),
    # rdsquashfs -l: single node of every type; a directory with two children
    dict(name="w13_list", file="w13_list.c", timeout=300, malloc_fail=True, object_bits=10,
         label="bounded(children <= 2, symlink target <= 6 bytes)",
         flags=["--memory-leak-check", "--arrays-uf-always"],
         unwindset=_PR_UNWIND + ["list_files.0:4", "list_files.1:4", "count_int_chars.0:11",
                                 "print_size.0:8", "strlen.0:34"],
         cases=[dict(id="one_%s" % n, defines={"SHAPE": 0, "T0": t}, tier="quick")
                for t, n in sorted(_INODE_NAMES.items())] +
               # directory with two children: 257 s for this pair, the other pairs of
               # the file header did not finish in 290 s under load - one is registered
               [dict(id="dir_dir_slink_ext", defines={"SHAPE": 1, "T0": 1, "T1": 10},
                     tier="thorough", timeout=1500)]),
]
