/* C05: memory safety / error reporting of the xattr reader on untrusted
 * bytes: the harness of C10/xattr_load.c with the obligations named for C05 (CBMC's
 * memory and arithmetic checks inside the real function are what counts here,
 * plus the environment preconditions C05.env.*).
 */
#define ENV_PROP "C05"
#define XL_ALLOC_OBLIGATION
#include "C10/xattr_load.c"
