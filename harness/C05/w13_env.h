/* w13_env.h - vocabulary of the w13 harnesses over the tool glue code that
 * consumes sqfs_inode_generic_t / sqfs_tree_node_t objects (rdsquashfs stat /
 * list, sqfsdiff, sqfs2tar).
 *
 * 1. pr_*: the printf family as a CONTRACT. The format string is interpreted
 *    (all formats of the code under test are literals, so symex walks them
 *    concretely); every argument is fetched with the type the conversion
 *    demands, and every %s argument must be a readable string:
 *      - with a precision p >= 0: p readable bytes suffice (or a terminator
 *        before that, see next item);
 *      - otherwise a NUL terminator must be known: the harness (or a callee
 *        contract) has registered "p[m] == 0 and p[0..m] readable" with
 *        pr_register(); the argument may point anywhere into p[0..m].
 *    No string is walked, so lengths stay symbolic and unbounded.
 *    Obligations <PROP>.env.printf.known_format / .string_arg.
 *    sprintf additionally produces output of the exact C-standard LENGTH
 *    (digits arbitrary) and must find the destination writable for it:
 *    <PROP>.env.sprintf.fits.
 * 2. w13_new_inode(type): an arbitrary wf_inode of the given (concrete) type,
 *    exactly what harness read_inode ensures (C05.inode.wf_type / wf_payload /
 *    wf_file_blocks / wf_slink_nul / wf_dir_index), every other field
 *    symbolic.
 */
#ifndef W13_ENV_H
#define W13_ENV_H
#include <stdio.h>
#include <stdarg.h>
#include <stdlib.h>
#include <string.h>
#include <time.h>
#include <sys/stat.h>
#include <sys/sysmacros.h>
#include "verif.h"
#include "sqfs/predef.h"
#include "sqfs/inode.h"
#include "sqfs/error.h"
#include "sqfs/dir.h"

#ifndef ENV_PROP
#define ENV_PROP "C05"
#endif
#define PR(s) ENV_PROP ".env." s

/* ------------------------------------------------------------ printf family */
#define PR_MAXSTR 12
#define PR_SMALL 48	/* objects up to this size are searched for their NUL */
typedef struct {
	const char *p[PR_MAXSTR];
	size_t m[PR_MAXSTR];
	unsigned nstr;
	unsigned out_calls;	/* calls that print to stdout */
	unsigned err_calls;	/* calls that print to stderr / perror */
	unsigned strs;		/* %s arguments checked */
} pr_ghost_t;
static pr_ghost_t g_pr;

static void pr_init(void)
{
	unsigned i;

	for (i = 0; i < PR_MAXSTR; ++i) {
		g_pr.p[i] = NULL;
		g_pr.m[i] = 0;
	}
	g_pr.nstr = g_pr.out_calls = g_pr.err_calls = g_pr.strs = 0;
}

/* p[m] == 0 and p[0..m] readable is KNOWN (asserted here, so a wrong
 * registration is a failed obligation, not an assumption) */
static void pr_register(const void *p, size_t m)
{
	VERIF_ASSERT(p != NULL && VERIF_R_OK(p, m + 1) &&
		     ((const char *)p)[m] == '\0', PR("printf.registration"));
	if (g_pr.nstr < PR_MAXSTR) {
		g_pr.p[g_pr.nstr] = (const char *)p;
		g_pr.m[g_pr.nstr] = m;
		++g_pr.nstr;
	} else {
		VERIF_ASSERT(0, PR("printf.registration"));
	}
}

static void pr_forget(const void *p)
{
	unsigned i;

	for (i = 0; i < PR_MAXSTR; ++i) {
		if (i < g_pr.nstr && g_pr.p[i] == (const char *)p)
			g_pr.p[i] = NULL;
	}
}

/* is `s` a string with a known terminator? *left = distance to it */
static bool pr_known(const char *s, size_t *left)
{
	bool ok = false;
	unsigned i;

	for (i = 0; i < PR_MAXSTR; ++i) {
		const char *p = g_pr.p[i];
		size_t m = g_pr.m[i], d;

		if (i >= g_pr.nstr || p == NULL || !VERIF_SAME_OBJECT(s, p))
			continue;
		if (VERIF_POINTER_OFFSET(s) < VERIF_POINTER_OFFSET(p))
			continue;
		d = VERIF_POINTER_OFFSET(s) - VERIF_POINTER_OFFSET(p);
		if (d <= m && VERIF_R_OK(p, m + 1) && p[m] == '\0') {
			ok = true;
			*left = m - d;
		}
	}
#ifndef VERIF_REPLAY
	/* small objects (string literals, on-stack text buffers): look */
	if (!ok && s != NULL && VERIF_R_OK(s, 1) &&
	    VERIF_OBJECT_SIZE(s) <= PR_SMALL) {
		size_t off = VERIF_POINTER_OFFSET(s), sz = VERIF_OBJECT_SIZE(s);
		size_t j;

		for (j = 0; j < PR_SMALL; ++j) {
			if (off + j >= sz)
				break;
			if (s[j] == '\0') {
				ok = true;
				*left = j;
				break;
			}
		}
	}
#endif
	return ok;
}

static void pr_check_str(const char *s, bool has_prec, long prec)
{
	size_t left = 0;
	bool ok;

	++g_pr.strs;
#ifdef VERIF_REPLAY
	/* natively: really walk the string, the sanitizer is the judge */
	{
		size_t i, n = 0;

		for (i = 0; (!has_prec || prec < 0 || i < (size_t)prec) &&
		     s[i] != '\0'; ++i)
			++n;
		(void)n; (void)left; (void)ok;
	}
#else
	ok = s != NULL &&
	     ((has_prec && prec >= 0 &&
	       (prec == 0 || VERIF_R_OK(s, (size_t)prec))) || pr_known(s, &left));
	VERIF_ASSERT(ok, PR("printf.string_arg"));
#endif
}

/* number of characters of an unsigned value in the given base */
static size_t pr_ndigits(unsigned long long v, unsigned base)
{
	size_t n = 1;

	while (v >= base) {
		v /= base;
		++n;
	}
	return n;
}

/* sprintf output: one character / n equal characters at *pos (dst == NULL:
 * nothing is produced, printf only checks its arguments) */
static void pr_put(char *dst, size_t *pos, char ch)
{
	if (dst != NULL) {
		VERIF_ASSERT(VERIF_W_OK(dst + *pos, 1), PR("sprintf.fits"));
		dst[*pos] = ch;
	}
	++*pos;
}

static void pr_putn(char *dst, size_t *pos, char ch, size_t n)
{
	size_t i;

	if (dst == NULL)
		return;
	for (i = 0; i < n; ++i)
		pr_put(dst, pos, ch);
}

/* goto-cc 6.11 stores a variadic argument with its UNPROMOTED type (a
 * sqfs_u16 handed to "%u" is a 2 byte object), so fetching it as int is
 * reported as an out-of-bounds read. Where the value is not needed (printf:
 * nothing is produced) the argument is skipped with a 1 byte fetch; natively
 * the promoted type is used. */
#ifdef VERIF_REPLAY
#define PR_SKIP_INT(ap, lng) do { if (lng) (void)va_arg(ap, long); \
				  else (void)va_arg(ap, int); } while (0)
#else
#define PR_SKIP_INT(ap, lng) ((void)va_arg(ap, char))
#endif

/* dst == NULL: only check. Otherwise produce output of the exact length,
 * every digit arbitrary, and require room for it. Returns the length. */
static size_t pr_vfmt(char *dst, const char *fmt, va_list ap)
{
	size_t pos = 0;

	for (; *fmt != '\0'; ++fmt) {
		bool has_prec = false, lng = false;
		long width = 0, prec = -1;
		size_t n = 0;

		if (*fmt != '%') {
			pr_put(dst, &pos, *fmt);
			continue;
		}
		++fmt;
		if (*fmt == '%') {
			pr_put(dst, &pos, '%');
			continue;
		}
		while (*fmt == '-' || *fmt == '0')
			++fmt;
		if (*fmt == '*') {
			width = va_arg(ap, int);
			++fmt;
		} else {
			while (*fmt >= '0' && *fmt <= '9')
				width = width * 10 + (*fmt++ - '0');
		}
		if (*fmt == '.') {
			has_prec = true;
			++fmt;
			if (*fmt == '*') {
				prec = va_arg(ap, int);
				++fmt;
			} else {
				prec = 0;
				while (*fmt >= '0' && *fmt <= '9')
					prec = prec * 10 + (*fmt++ - '0');
			}
		}
		while (*fmt == 'l' || *fmt == 'z') {
			lng = true;
			++fmt;
		}
		switch (*fmt) {
		case 's': {
			const char *s = va_arg(ap, const char *);

			pr_check_str(s, has_prec, prec);
			if (dst != NULL) {
				/* length of a known string: any n with s[n] == 0
				   not beyond the known terminator; the copy is
				   not done byte by byte (lengths are symbolic) */
				size_t left = 0;
				bool k = pr_known(s, &left);

				VERIF_ASSERT(k, PR("sprintf.string_known"));
				n = verif_nd_size("sprintf.strlen");
				VERIF_ASSUME(n <= left && s[n] == '\0');
				VERIF_ASSERT(n == 0 || VERIF_W_OK(dst + pos, n),
					     PR("sprintf.fits"));
				pos += n;
			}
			break;
		}
		case 'c':
			PR_SKIP_INT(ap, false);
			pr_put(dst, &pos, 'c');
			break;
		case 'd':
			if (dst != NULL) {
				long long v;
				unsigned long long a;

				if (lng)
					v = va_arg(ap, long);
				else
					v = va_arg(ap, int);
				a = v < 0 ? 0ULL - (unsigned long long)v :
					    (unsigned long long)v;
				n = pr_ndigits(a, 10) + (v < 0 ? 1 : 0);
				pr_putn(dst, &pos, '1', n);
			} else {
				PR_SKIP_INT(ap, lng);
			}
			break;
		case 'u':
		case 'o':
		case 'x':
		case 'X':
			if (dst != NULL) {
				unsigned long long v;

				if (lng)
					v = va_arg(ap, unsigned long);
				else
					v = va_arg(ap, unsigned int);
				n = pr_ndigits(v, *fmt == 'u' ? 10 :
					       *fmt == 'o' ? 8 : 16);
				pr_putn(dst, &pos, '1', n);
			} else {
				PR_SKIP_INT(ap, lng);
			}
			break;
		default:
			VERIF_ASSERT(0, PR("printf.known_format"));
			return pos;
		}
		/* field width only matters for sprintf lengths; none of the
		   sprintf formats of the code under test uses one */
		if (dst != NULL)
			VERIF_ASSERT(width == 0, PR("printf.known_format"));
	}
	if (dst != NULL) {
		VERIF_ASSERT(VERIF_W_OK(dst + pos, 1), PR("sprintf.fits"));
		dst[pos] = '\0';
	}
	return pos;
}

#ifdef VERIF_REPLAY
#define printf w13_printf
#define fprintf w13_fprintf
#define sprintf w13_sprintf
#define fputc w13_fputc
#define fputs w13_fputs
#define perror w13_perror
#endif

int printf(const char *fmt, ...)
{
	va_list ap;

	++g_pr.out_calls;
	va_start(ap, fmt);
	pr_vfmt(NULL, fmt, ap);
	va_end(ap);
	return 0;
}

int fprintf(FILE *fp, const char *fmt, ...)
{
	va_list ap;

	if (fp == stdout)
		++g_pr.out_calls;
	else
		++g_pr.err_calls;
	va_start(ap, fmt);
	pr_vfmt(NULL, fmt, ap);
	va_end(ap);
	return 0;
}

int sprintf(char *dst, const char *fmt, ...)
{
	va_list ap;
	size_t n;

	VERIF_ASSERT(dst != NULL, PR("sprintf.fits"));
	va_start(ap, fmt);
	n = pr_vfmt(dst, fmt, ap);
	va_end(ap);
	return (int)n;
}

int fputc(int c, FILE *fp)
{
	if (fp == stdout)
		++g_pr.out_calls;
	else
		++g_pr.err_calls;
	return c;
}

int fputs(const char *s, FILE *fp)
{
	if (fp == stdout)
		++g_pr.out_calls;
	else
		++g_pr.err_calls;
	pr_check_str(s, false, -1);
	return 0;
}

void perror(const char *s)
{
	++g_pr.err_calls;
	if (s != NULL)
		pr_check_str(s, false, -1);
}

void sqfs_perror(const char *file, const char *action, int error_code)
{
	(void)error_code;
	++g_pr.err_calls;
	if (file != NULL)
		pr_check_str(file, false, -1);
	if (action != NULL)
		pr_check_str(action, false, -1);
}

#ifndef W13_NO_SQFS_FREE
void sqfs_free(void *p)
{
	pr_forget(p);
	free(p);
}
#endif

#ifndef VERIF_REPLAY
/* glibc's device number split (sys/sysmacros.h), which goto-cc sees only as
 * declarations */
unsigned int gnu_dev_major(dev_t dev)
{
	return (unsigned int)(((dev & 0x00000000000fff00ULL) >> 8) |
			      ((dev & 0xfffff00000000000ULL) >> 32));
}

unsigned int gnu_dev_minor(dev_t dev)
{
	return (unsigned int)((dev & 0x00000000000000ffULL) |
			      ((dev & 0x00000ffffff00000ULL) >> 12));
}
#endif

/* ------------------------------------------------------------------ wf_inode */
#ifndef W13_MAXBLK
#define W13_MAXBLK 0x3FFFFFFF	/* payload_bytes_used is a 32 bit byte count */
#endif
#ifndef W13_MAXTGT
#define W13_MAXTGT 0xFFFFFFFEUL	/* read_inode_slink refuses 0xFFFFFFFF */
#endif

typedef struct {
	size_t nblk;		/* file inodes: number of block words */
	size_t tlen;		/* symlinks: target_size */
	size_t nent;		/* ext. directories: index entries present */
	size_t used;		/* payload_bytes_used */
	sqfs_u32 ent_size[4];	/* ext. directories: size field per entry */
	size_t ent_off[5];
} w13_ino_ghost_t;

static unsigned w13_ifmt(unsigned type)
{
	switch (type) {
	case 1: case 8: return 0040000;
	case 2: case 9: return 0100000;
	case 3: case 10: return 0120000;
	case 4: case 11: return 0060000;
	case 5: case 12: return 0020000;
	case 6: case 13: return 0010000;
	case 7: case 14: return 0140000;
	}
	return 0;
}

static sqfs_u64 w13_spec_block_count(sqfs_u64 size, unsigned bs_log,
				      sqfs_u32 fidx, sqfs_u32 foff)
{
	sqfs_u64 n = size >> bs_log;

	if ((size & ((1ULL << bs_log) - 1)) != 0 &&
	    (fidx == 0xFFFFFFFF || foff == 0xFFFFFFFF))
		n += 1;
	return n;
}

/* `type` and `nent` (directory index entries, <= 4) must be compile-time
 * constants at the call site */
static sqfs_inode_generic_t *w13_new_inode(unsigned type, unsigned nent,
					   w13_ino_ghost_t *g)
{
	sqfs_inode_generic_t *ino;
	size_t payload = 0, avail;
	unsigned i;

	g->nblk = g->tlen = g->nent = g->used = 0;
	switch (type) {
	case SQFS_INODE_FILE:
	case SQFS_INODE_EXT_FILE:
		g->nblk = verif_nd_size("ino.nblk");
		VERIF_ASSUME(g->nblk <= W13_MAXBLK);
		payload = g->used = g->nblk * sizeof(sqfs_u32);
		break;
	case SQFS_INODE_SLINK:
	case SQFS_INODE_EXT_SLINK:
		g->tlen = verif_nd_size("ino.tlen");
		VERIF_ASSUME(g->tlen <= W13_MAXTGT);
		g->used = g->tlen;
		payload = g->tlen + 1;
		break;
	case SQFS_INODE_EXT_DIR:
		g->nent = nent;
		for (i = 0; i < nent; ++i) {
			g->ent_size[i] = verif_nd_u32("ino.ent.size");
			g->ent_off[i] = payload;
			payload += 12 + (size_t)g->ent_size[i] + 1;
		}
		g->ent_off[nent] = payload;
		VERIF_ASSUME(payload <= 0xFFFFFFFFUL);
		g->used = payload;
		break;
	default:
		break;
	}
	/* payload_bytes_available may exceed what is used (realloc doubling) */
	avail = payload;
	if (type == SQFS_INODE_EXT_DIR) {
		avail = verif_nd_size("ino.avail");
		VERIF_ASSUME(avail >= payload && avail <= 0xFFFFFFFFUL);
	}
	ino = malloc(sizeof(*ino) + avail);
	VERIF_ASSUME(ino != NULL);
	/* payload first (stores at symbolic offsets), the fixed header after
	 * it: cbmc then still sees the header fields - the type tag above all -
	 * as the constants / symbols assigned here */
	if (type == SQFS_INODE_SLINK || type == SQFS_INODE_EXT_SLINK)
		((char *)ino->extra)[g->tlen] = '\0';
	if (type == SQFS_INODE_EXT_DIR) {
		for (i = 0; i < nent; ++i) {
			sqfs_dir_index_t hdr;

			hdr.start_block = verif_nd_u32("ino.ent.start");
			hdr.index = verif_nd_u32("ino.ent.index");
			hdr.size = g->ent_size[i];
			(memcpy)((char *)ino->extra + g->ent_off[i], &hdr, 12);
		}
	}
	ino->base.type = (sqfs_u16)type;
	ino->base.mode = (sqfs_u16)((verif_nd_u16("ino.mode") & 07777) |
				    w13_ifmt(type));
	ino->base.uid_idx = verif_nd_u16("ino.uid");
	ino->base.gid_idx = verif_nd_u16("ino.gid");
	ino->base.mod_time = verif_nd_u32("ino.mtime");
	ino->base.inode_number = verif_nd_u32("ino.num");
	ino->payload_bytes_available = (sqfs_u32)avail;
	ino->payload_bytes_used = (sqfs_u32)g->used;
	switch (type) {
	case SQFS_INODE_DIR:
		ino->data.dir.start_block = verif_nd_u32("ino.w0");
		ino->data.dir.nlink = verif_nd_u32("ino.w1");
		ino->data.dir.size = verif_nd_u16("ino.h0");
		ino->data.dir.offset = verif_nd_u16("ino.h1");
		ino->data.dir.parent_inode = verif_nd_u32("ino.w2");
		break;
	case SQFS_INODE_FILE: {
		unsigned bs_log = verif_nd_u8("super.block_log");

		ino->data.file.blocks_start = verif_nd_u32("ino.w0");
		ino->data.file.fragment_index = verif_nd_u32("ino.w1");
		ino->data.file.fragment_offset = verif_nd_u32("ino.w2");
		ino->data.file.file_size = verif_nd_u32("ino.w3");
		VERIF_ASSUME(bs_log >= 12 && bs_log <= 20);
		VERIF_ASSUME(g->nblk == w13_spec_block_count(
			ino->data.file.file_size, bs_log,
			ino->data.file.fragment_index,
			ino->data.file.fragment_offset));
		break;
	}
	case SQFS_INODE_SLINK:
	case SQFS_INODE_EXT_SLINK:
		ino->data.slink_ext.nlink = verif_nd_u32("ino.w0");
		ino->data.slink_ext.target_size = (sqfs_u32)g->tlen;
		if (type == SQFS_INODE_EXT_SLINK)
			ino->data.slink_ext.xattr_idx = verif_nd_u32("ino.w1");
		break;
	case SQFS_INODE_BDEV:
	case SQFS_INODE_CDEV:
	case SQFS_INODE_EXT_BDEV:
	case SQFS_INODE_EXT_CDEV:
		ino->data.dev_ext.nlink = verif_nd_u32("ino.w0");
		ino->data.dev_ext.devno = verif_nd_u32("ino.w1");
		if (type >= SQFS_INODE_EXT_DIR)
			ino->data.dev_ext.xattr_idx = verif_nd_u32("ino.w2");
		break;
	case SQFS_INODE_FIFO:
	case SQFS_INODE_SOCKET:
	case SQFS_INODE_EXT_FIFO:
	case SQFS_INODE_EXT_SOCKET:
		ino->data.ipc_ext.nlink = verif_nd_u32("ino.w0");
		if (type >= SQFS_INODE_EXT_DIR)
			ino->data.ipc_ext.xattr_idx = verif_nd_u32("ino.w1");
		break;
	case SQFS_INODE_EXT_DIR:
		ino->data.dir_ext.nlink = verif_nd_u32("ino.w0");
		ino->data.dir_ext.size = verif_nd_u32("ino.w1");
		ino->data.dir_ext.start_block = verif_nd_u32("ino.w2");
		ino->data.dir_ext.parent_inode = verif_nd_u32("ino.w3");
		ino->data.dir_ext.inodex_count = (sqfs_u16)nent;
		ino->data.dir_ext.offset = verif_nd_u16("ino.h0");
		ino->data.dir_ext.xattr_idx = verif_nd_u32("ino.w4");
		/* index entries only exist for a non-empty listing */
		if (nent > 0)
			VERIF_ASSUME(ino->data.dir_ext.size != 0);
		break;
	case SQFS_INODE_EXT_FILE: {
		unsigned bs_log = verif_nd_u8("super.block_log");

		ino->data.file_ext.blocks_start = verif_nd_u64("ino.q0");
		ino->data.file_ext.file_size = verif_nd_u64("ino.q1");
		ino->data.file_ext.sparse = verif_nd_u64("ino.q2");
		ino->data.file_ext.nlink = verif_nd_u32("ino.w0");
		ino->data.file_ext.fragment_idx = verif_nd_u32("ino.w1");
		ino->data.file_ext.fragment_offset = verif_nd_u32("ino.w2");
		ino->data.file_ext.xattr_idx = verif_nd_u32("ino.w3");
		VERIF_ASSUME(bs_log >= 12 && bs_log <= 20);
		VERIF_ASSUME(g->nblk == w13_spec_block_count(
			ino->data.file_ext.file_size, bs_log,
			ino->data.file_ext.fragment_idx,
			ino->data.file_ext.fragment_offset));
		break;
	}
	default:
		break;
	}
	return ino;
}
#endif
