/* C05: sqfs_id_table_read on an arbitrary superblock (id_count, table
 * pointers) with sqfs_read_table replaced by its contract. The byte-swap loop
 * over the ids is closed by a loop contract.
 *
 *   C05.id_table.wf        on every return the table is well formed: empty
 *                          (data == NULL, used == 0) or a buffer of exactly
 *                          used * 4 bytes with used == count == id_count -
 *                          so sqfs_id_table_index_to_id's bounds test
 *                          (index < used) protects the access
 *   C05.id_table.request   the table is requested with id_count * 4 bytes at
 *                          id_table_start, window upper limit id_table_start
 *   C05.id_table.reject    id_count == 0 or a table start beyond bytes_used
 *                          is SQFS_ERROR_CORRUPTED, nothing read
 */
#include <stdlib.h>
#include <string.h>
#include "verif.h"
#define ENV_PROP "C05"
#define ENV_NO_MEM_OVERRIDE
#include "C10/rd_env.h"
#include "C05/tbl_env.h"
#include "lib/util/src/array.c"
#include "lib/sqfs/src/id_table.c"

void harness(void)
{
	sqfs_id_table_t *tbl = malloc(sizeof(*tbl));
	sqfs_super_t super;
	size_t old_used = verif_nd_size("old.used");
	int ret;

	VERIF_ASSUME(tbl != NULL);
	env_init();
	env_objects_init();
	g_tbl.calls = 0;
	tbl->base.refcount = 1;
	tbl->base.destroy = id_table_destroy;
	tbl->base.copy = id_table_copy;
	/* any previous contents */
	VERIF_ASSUME(old_used <= 0x10000);
	tbl->ids.size = sizeof(sqfs_u32);
	tbl->ids.used = tbl->ids.count = old_used;
	tbl->ids.data = old_used ? malloc(old_used * sizeof(sqfs_u32)) : NULL;
	VERIF_ASSUME(old_used == 0 || tbl->ids.data != NULL);

	super.id_count = verif_nd_u16("id_count");
	super.bytes_used = verif_nd_u64("bytes_used");
	super.id_table_start = verif_nd_u64("id_table_start");
	super.directory_table_start = verif_nd_u64("directory_table_start");
	super.fragment_table_start = verif_nd_u64("fragment_table_start");
	super.export_table_start = verif_nd_u64("export_table_start");

	ret = sqfs_id_table_read(tbl, &g_file, &super, &g_cmp);

	if (ret == 0) {
		VERIF_ASSERT(tbl->ids.data != NULL && tbl->ids.data == g_tbl.buf &&
			     tbl->ids.size == 4 && tbl->ids.used == super.id_count &&
			     tbl->ids.count == super.id_count &&
			     VERIF_R_OK(tbl->ids.data, tbl->ids.used * 4),
			     "C05.id_table.wf");
		VERIF_ASSERT(g_tbl.calls == 1 &&
			     g_tbl.size == (size_t)super.id_count * 4 &&
			     g_tbl.location == super.id_table_start &&
			     g_tbl.upper == super.id_table_start,
			     "C05.id_table.request");
	} else if (g_tbl.calls == 1) {
		VERIF_ASSERT(ret == g_tbl.ret && tbl->ids.data == NULL &&
			     tbl->ids.used == 0, "C05.id_table.wf");
	}
	if (super.id_count == 0 || super.id_table_start >= super.bytes_used)
		VERIF_ASSERT(ret == SQFS_ERROR_CORRUPTED && g_tbl.calls == 0,
			     "C05.id_table.reject");
	VERIF_COVER(ret == 0 && super.id_count == 0xFFFF);
	VERIF_COVER(ret != 0 && g_tbl.calls == 1);
	VERIF_COVER(ret != 0 && g_tbl.calls == 0);
	free(tbl->ids.data);
	free(tbl);
}
