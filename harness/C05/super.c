/* C05: sqfs_super_read on an arbitrary 96 byte superblock (every field
 * symbolic, delivered by the read_at contract; read_at may also fail).
 * The shift loop runs block_log <= 20 times (checked by the function itself
 * before the loop): unwound 21 times with the unwinding assertion, a constant
 * of the code, so the harness is `proved`.
 *
 *   C05.super.wf_on_success   ret == 0 => wf_super: magic, version 4.0, block
 *                             size a power of two in [4 KiB, 1 MiB] with
 *                             block_log its logarithm, compressor id in range,
 *                             id_count > 0 - what every consumer requires
 *   C05.super.untouched_on_failure   ret != 0 => *super not written
 *   C05.super.reads_96_at_0   exactly one read of sizeof(sqfs_super_t) at 0
 *   (all CBMC memory / arithmetic checks inside the function)
 */
#include <stdlib.h>
#include <string.h>
#include "verif.h"
#define ENV_PROP "C05"
#define ENV_SMALL 96
#define ENV_NO_MEM_OVERRIDE
#include "C10/rd_env.h"
#include "lib/sqfs/src/read_super.c"

void harness(void)
{
	sqfs_super_t super, before;
	int ret;

	env_init();
	env_objects_init();
	verif_nd_bytes(&super, sizeof(super), "super.before");
	before = super;

	ret = sqfs_super_read(&super, &g_file);

	VERIF_ASSERT(g_rd_n == 1 && g_rd[0].off == 0 &&
		     g_rd[0].n == sizeof(sqfs_super_t), "C05.super.reads_96_at_0");
	if (ret == 0) {
		VERIF_ASSERT(super.magic == SQFS_MAGIC &&
			     super.version_major == 4 && super.version_minor == 0 &&
			     super.block_size >= 4096 && super.block_size <= 1048576 &&
			     (super.block_size & (super.block_size - 1)) == 0 &&
			     super.block_log >= 12 && super.block_log <= 20 &&
			     super.block_size == (1UL << super.block_log) &&
			     super.compression_id >= SQFS_COMP_MIN &&
			     super.compression_id <= SQFS_COMP_MAX &&
			     super.id_count > 0, "C05.super.wf_on_success");
	} else {
		VERIF_ASSERT(memcmp(&super, &before, sizeof(super)) == 0,
			     "C05.super.untouched_on_failure");
	}
	VERIF_COVER(ret == 0 && super.block_log == 20);
	VERIF_COVER(ret == 0 && super.block_log == 12);
	VERIF_COVER(ret != 0 && g_rd[0].ret == 0);
	VERIF_COVER(ret != 0 && g_rd[0].ret != 0);
}
