/* C05: dr_stream_get_buffered_data (data_reader.c), the streaming file reader
 * behind cat / unpack / sqfs2tar, from an ARBITRARY well-formed stream state
 * (any number of blocks already delivered, any remaining size, block list
 * words arbitrary = taken from the image), every legal block size (symbolic).
 * Image / un-compressor / fragment table are contracts.
 *
 *   C05.env.read_at.buffer_writable   every read goes into a buffer that has
 *   C05.env.do_block.input_readable   room for it: the 24 bit on-disk size of
 *   C05.env.do_block.output_writable  a block word must not exceed what the
 *   C05.env.memcpy.* / memset.*       scratch area (block_size bytes) and the
 *                                     stream buffer (block_size bytes) hold
 *   C05.dr_stream.result      ret == 0 => *out points into the stream buffer
 *                             and *size bytes are readable there, *size <=
 *                             block_size; ret != 0 => *out == NULL, *size == 0
 *   C05.dr_stream.progress    ret == 0 with new data => filesz decreased by
 *                             *size > 0: a `while (get_buffered_data() == 0)`
 *                             consumer terminates
 *   C05.dr_stream.wf          the stream state stays well formed (buf_off <=
 *                             buf_used <= block_size, blk_idx <= blk_count)
 */
#include <stdlib.h>
#include <string.h>
#include <errno.h>
#include "verif.h"
#define ENV_PROP "C05"
#define ENV_IS_PAYLOAD(p, n) 1
#define DR_DEFINES_LOOKUP
#include "C10/dr_common.h"

static sqfs_frag_table_t *g_ft;

int sqfs_frag_table_lookup(sqfs_frag_table_t *tbl, sqfs_u32 index,
			   sqfs_fragment_t *out)
{
	VERIF_ASSERT(tbl == g_ft, "C05.env.lookup.table");
	(void)index;
	if (verif_nd_bool("lookup.fail"))
		return SQFS_ERROR_OUT_OF_BOUNDS;
	out->start_offset = verif_nd_u64("lookup.start");
	out->size = verif_nd_u32("lookup.size");
	out->pad0 = verif_nd_u32("lookup.pad0");
	return 0;
}

void harness(void)
{
	sqfs_data_reader_t *rd;
	data_reader_istream_t *st = malloc(sizeof(*st));
	sqfs_u32 *blocks;
	size_t nblk = verif_nd_size("nblk");
	const sqfs_u8 *out = NULL;
	size_t size = 0, want = verif_nd_size("want");
	sqfs_u64 filesz0;
	bool had_data;
	int ret;

	VERIF_ASSUME(st != NULL);
	env_init();
	env_objects_init();
	g_ft = malloc(1);
	VERIF_ASSUME(g_ft != NULL);
	rd = dr_new(g_ft);
	if (verif_nd_bool("frag.cached")) {
		rd->frag_block = malloc(BS);
		VERIF_ASSUME(rd->frag_block != NULL);
		rd->frag_blk_size = verif_nd_size("frag.size");
		VERIF_ASSUME(rd->frag_blk_size <= BS);
	}
	rd->current_frag_index = verif_nd_u32("frag.tag");

	/* arbitrary well-formed stream state */
	VERIF_ASSUME(nblk <= DS_MAXBLK);
	blocks = malloc(nblk ? nblk * sizeof(sqfs_u32) : 1);
	VERIF_ASSUME(blocks != NULL);
	st->base.base.refcount = 1;
	st->base.base.destroy = dr_stream_destroy;
	st->base.base.copy = NULL;
	st->base.get_buffered_data = dr_stream_get_buffered_data;
	st->base.advance_buffer = dr_stream_advance_buffer;
	st->base.get_filename = dr_stream_get_filename;
	st->rd = rd;
	st->filename = "f";
	st->blocks = blocks;
	st->blk_count = (sqfs_u32)nblk;
	st->blk_idx = verif_nd_u32("blk_idx");
	VERIF_ASSUME(st->blk_idx <= st->blk_count);
	if (st->blk_idx < st->blk_count)
		blocks[st->blk_idx] = verif_nd_u32("block.word");
	st->filesz = verif_nd_u64("filesz");
	st->disk_offset = verif_nd_u64("disk_offset");
	st->frag_idx = verif_nd_u32("frag_idx");
	st->frag_off = verif_nd_u32("frag_off");
	st->buffer = malloc(BS);
	VERIF_ASSUME(st->buffer != NULL);
	st->buf_used = verif_nd_size("buf_used");
	st->buf_off = verif_nd_size("buf_off");
	VERIF_ASSUME(st->buf_used <= BS && st->buf_off <= st->buf_used);
	filesz0 = st->filesz;
	had_data = st->buf_off < st->buf_used;

	ret = dr_stream_get_buffered_data(&st->base, &out, &size, want);

	if (ret == 0) {
		VERIF_ASSERT(out != NULL && st->buffer != NULL &&
			     out == st->buffer + st->buf_off &&
			     size == st->buf_used - st->buf_off &&
			     size >= 1 && size <= BS &&
			     VERIF_R_OK(out, size), "C05.dr_stream.result");
		if (!had_data)
			VERIF_ASSERT(st->filesz < filesz0 &&
				     filesz0 - st->filesz == size,
				     "C05.dr_stream.progress");
	} else {
		VERIF_ASSERT(out == NULL && size == 0, "C05.dr_stream.result");
	}
	VERIF_ASSERT(st->buf_off <= st->buf_used && st->buf_used <= BS &&
		     st->blk_idx <= st->blk_count, "C05.dr_stream.wf");

	VERIF_COVER(ret == 0 && had_data);
	VERIF_COVER(ret == 0 && !had_data && g_blk_n == 1);
	VERIF_COVER(ret == 0 && !had_data && g_rd_n == 1 && g_blk_n == 0);
	VERIF_COVER(ret == 0 && !had_data && g_rd_n == 0 && g_set_n == 1);
	VERIF_COVER(ret == 0 && !had_data && g_cpy_n == 1);
	VERIF_COVER(ret > 0);
	VERIF_COVER(ret < 0);
	free(st->buffer);
	free(blocks);
	free(st);
	dr_delete(rd);
	free(g_ft);
}
