/* C05: sqfs_dir_reader_resolve_path (lib/sqfs/src/dir_reader.c) for every path
 * string of PLEN bytes (case split on the length; every byte value except NUL,
 * '/' included) against hostile directory contents. The three reader entry
 * points it is built from - open_dir, read, get_inode (harness dirrd) - and
 * resolve_inum are replaced by contracts (goto-instrument --replace-calls):
 * read delivers up to RP_MAXENT entries per opened directory, each with a name
 * of 1..RP_MAXNAME arbitrary bytes - a hostile image may put a NUL inside a
 * name - in a node allocated like the real one (name bytes + terminator).
 *
 *   C05.resolve_path.in_string   (CBMC pointer checks) the walk never reads
 *                                the path beyond its terminator, never reads
 *                                an entry name beyond size + 1 bytes
 *   C05.resolve_path.terminates  (unwinding assertions) at most PLEN rounds of
 *                                the outer loop, inner loop bounded by the
 *                                directory contract
 *   C05.resolve_path.result      ret == 0 => *out is the root reference (empty
 *                                path), the cache value, or the reference of
 *                                the last entry matched; every entry was
 *                                released
 * Bounded: PLEN <= 3 (4 did not finish in 170 s), RP_MAXENT 2, RP_MAXNAME 3.
 */
#include <stdlib.h>
#include <string.h>
#include "verif.h"
#define ENV_PROP "C05"
#define ENV_NO_MEM_OVERRIDE
#include "C10/rd_env.h"
#include "sqfs/meta_reader.h"
#include "sqfs/dir_reader.h"
#include "sqfs/inode.h"
#include "sqfs/dir.h"
#include "util/rbtree.h"

#ifndef PLEN
#error "define PLEN"
#endif
#ifndef RP_MAXENT
#define RP_MAXENT 2
#endif
#ifndef RP_MAXNAME
#define RP_MAXNAME 3
#endif

static unsigned g_opens, g_reads_in_dir, g_ents_alive, g_gets;
static sqfs_u64 g_last_ref, g_inum_val;
static bool g_inum_called;

static int stub_open_dir(sqfs_dir_reader_t *rd, const sqfs_inode_generic_t *inode,
			 sqfs_dir_reader_state_t *state, sqfs_u32 flags)
{
	VERIF_ASSERT(rd != NULL && inode != NULL && state != NULL && flags == 0,
		     "C05.env.open_dir.args");
	if (verif_nd_bool("od.fail"))
		return env_nd_error("od.err");
	++g_opens;
	g_reads_in_dir = 0;
	return 0;
}

static int stub_dir_read(sqfs_dir_reader_t *rd, sqfs_dir_reader_state_t *state,
			 sqfs_dir_node_t **out)
{
	sqfs_dir_node_t *e;
	sqfs_u16 sz;
	unsigned i;

	VERIF_ASSERT(rd != NULL && state != NULL && out != NULL && g_opens > 0,
		     "C05.env.dir_read.args");
	if (verif_nd_bool("rd.fail"))
		return env_nd_error("rd.err");
	if (g_reads_in_dir >= RP_MAXENT || verif_nd_bool("rd.eof"))
		return 1;
	++g_reads_in_dir;
	sz = verif_nd_u16("rd.size");
	VERIF_ASSUME(sz < RP_MAXNAME);
	e = calloc(1, sizeof(*e) + (size_t)sz + 2);
	if (e == NULL)
		return SQFS_ERROR_ALLOC;
	e->size = sz;
	for (i = 0; i < RP_MAXNAME; ++i) {
		if (i <= sz)
			e->name[i] = verif_nd_u8("rd.name");
	}
	state->ent_ref = verif_nd_u64("rd.ref");
	g_last_ref = state->ent_ref;
	++g_ents_alive;
	*out = e;
	return 0;
}

static int stub_get_inode(sqfs_dir_reader_t *rd, sqfs_u64 ref,
			  sqfs_inode_generic_t **inode)
{
	sqfs_inode_generic_t *ino;

	VERIF_ASSERT(rd != NULL && inode != NULL, "C05.env.get_inode.args");
	(void)ref;
	++g_gets;
	if (verif_nd_bool("gi.fail"))
		return env_nd_error("gi.err");
	ino = calloc(1, sizeof(*ino));
	if (ino == NULL)
		return SQFS_ERROR_ALLOC;
	ino->base.type = verif_nd_u16("gi.type");
	*inode = ino;
	return 0;
}

static int stub_resolve_inum(sqfs_dir_reader_t *rd, sqfs_u32 inode, sqfs_u64 *ref)
{
	VERIF_ASSERT(rd != NULL && ref != NULL, "C05.env.resolve_inum.args");
	(void)inode;
	g_inum_called = true;
	if (verif_nd_bool("ri.fail")) {
		*ref = 0;
		return SQFS_ERROR_NO_ENTRY;
	}
	g_inum_val = verif_nd_u64("ri.val");
	*ref = g_inum_val;
	return 0;
}

/* libc: cbmc 6.11 ships no model of strnlen */
size_t strnlen(const char *s, size_t maxlen)
{
	size_t i;

	for (i = 0; i < maxlen; ++i) {
		if (s[i] == '\0')
			break;
	}
	return i;
}

void sqfs_free(void *ptr)
{
	free(ptr);
}

static void rp_destroy(sqfs_object_t *o) { (void)o; }
static sqfs_object_t *rp_copy(const sqfs_object_t *o) { (void)o; return NULL; }

#include "lib/sqfs/src/dir_reader.c"

void harness(void)
{
	sqfs_dir_reader_t *rd = malloc(sizeof(*rd));
	char *path = malloc(PLEN + 1);
	sqfs_inode_generic_t root;
	bool with_root = verif_nd_bool("with_root");
	sqfs_u64 out = verif_nd_u64("out.before");
	unsigned i;
	int ret;

	(void)stub_open_dir; (void)stub_dir_read; (void)stub_get_inode;
	(void)stub_resolve_inum; (void)rp_destroy; (void)rp_copy;
	VERIF_ASSUME(rd != NULL && path != NULL);
	env_init();
	rd->base.refcount = 1;
	rd->base.destroy = dir_reader_destroy;
	rd->base.copy = dir_reader_copy;
	rd->meta_dir = NULL;
	rd->meta_inode = NULL;
	rd->super.root_inode_ref = verif_nd_u64("root_ref");
	rd->flags = verif_nd_u32("rd.flags");
	for (i = 0; i < PLEN; ++i) {
		sqfs_u8 c = verif_nd_u8("path.byte");
		path[i] = c < 128 ? (char)c : (char)((int)c - 256);
		VERIF_ASSUME(path[i] != '\0');
	}
	path[PLEN] = '\0';
	root.base.type = SQFS_INODE_DIR;
	root.base.inode_number = verif_nd_u32("root.inum");
	g_opens = g_reads_in_dir = g_ents_alive = g_gets = 0;
	g_inum_called = false;

	ret = sqfs_dir_reader_resolve_path(rd, path, with_root ? &root : NULL, &out);

	if (ret == 0) {
		if (g_opens == 0)
			VERIF_ASSERT(with_root ? (g_inum_called && out == g_inum_val) :
				     out == rd->super.root_inode_ref,
				     "C05.resolve_path.result");
		else
			VERIF_ASSERT(out == g_last_ref, "C05.resolve_path.result");
	}
	VERIF_COVER(ret == 0 && g_opens == (PLEN > 0 ? 1 : 0));
	VERIF_COVER(PLEN < 3 || (ret == 0 && g_opens == 2));
	VERIF_COVER(PLEN == 0 || ret == SQFS_ERROR_NO_ENTRY);
	free(path);
	free(rd);
}
