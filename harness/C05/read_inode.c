/* C05: sqfs_meta_reader_read_inode, one run per inode type (-DITYPE=1..14,
 * and 0 / 15 for "no such type"), every other on-disk field symbolic. The
 * metadata reader is its contract (mr_contract.h): arbitrary bytes, arbitrary
 * failures. -DNIDX fixes the number of directory index entries of an
 * extended directory inode (the realloc loop is unwound, bounded).
 *
 * ensures (wf_inode - what data_reader.c, readdir.c, inode.c, write_inode.c
 * and the tree readers rely on):
 *   C05.inode.wf_type         ret == 0 => base.type == on-disk type, and the
 *                             S_IFMT bits of base.mode are those of the type,
 *                             whatever the image said
 *   C05.inode.wf_payload      ret == 0 => payload_bytes_used <=
 *                             payload_bytes_available <= bytes allocated after
 *                             the structure
 *   C05.inode.wf_file_blocks  file inodes: payload_bytes_used == 4 * number of
 *                             blocks of (file_size, block_size, fragment), no
 *                             truncation
 *   C05.inode.wf_slink_nul    symlinks: payload_bytes_used == target_size and
 *                             the byte after the target is NUL, inside the
 *                             allocation
 *   C05.inode.wf_dir_index    ext. directories: the index blob is exactly the
 *                             entries delivered, each 12 + size + 1 bytes
 *   C05.inode.determined      every byte of the returned object is determined
 *                             by the image: what no read delivered and no
 *                             field assignment set is zero (unused tail of the
 *                             type union, payload bytes beyond payload_bytes_
 *                             used: the NUL behind a symlink target) - so the
 *                             object does not depend on what the allocator
 *                             handed back (C10: on earlier queries)
 *   C05.inode.reject_unknown  a type outside 1..14 => SQFS_ERROR_UNSUPPORTED
 *   C05.inode.fail_clean      ret != 0 => a reader call failed, or allocation
 *                             failed, or overflow / unsupported was reported
 *   (all CBMC memory / arithmetic checks; loop contracts on the two
 *    byte-swap loops: contracts/loops/C05.tbl)
 */
#include <stdlib.h>
#include <string.h>
#include <errno.h>
#include "verif.h"
#ifndef ENV_PROP
#define ENV_PROP "C05"	/* harness/C10/read_inode.c re-uses this file */
#endif
#define INO(s) ENV_PROP ".inode." s
#define ENV_NO_MEM_OVERRIDE
#include "C10/rd_env.h"

#ifndef ITYPE
#error "define ITYPE"
#endif
#ifndef NIDX
#define NIDX 0
#endif

/* make the discriminating tags concrete (shape concrete, values symbolic):
 * read #0 is the 16 byte base inode (type in bytes 0..1); for an extended
 * directory read #1 is the 24 byte body with inodex_count in bytes 16..17 */
/* (typed stores, so that symex sees the constants) */
#include "sqfs/inode.h"
#define MRC_FIXUP(m, b, n, idx) do { \
	if ((idx) == 0 && (n) == 16) ((sqfs_inode_t *)(void *)(b))->type = (ITYPE); \
	if ((ITYPE) == 8 && (idx) == 1 && (n) == 24) \
		((sqfs_inode_dir_ext_t *)(void *)(b))->inodex_count = (NIDX); \
	} while (0)
#include "C10/mr_contract.h"
#include "lib/util/src/alloc.c"

#if ITYPE == 8 && !defined(VERIF_REPLAY)
/* realloc by contract (cbmc's own model copies a symbolic number of bytes and
 * exhausts the memory cap from two index entries on): NULL and the old block
 * intact, or a fresh block of the new size that starts with the old inode
 * header and agrees with the old block at the witness position; the old
 * block is released. */
static void *ri_realloc(void *p, size_t n)
{
	unsigned char *q;

	VERIF_ASSERT(p != NULL && VERIF_R_OK(p, sizeof(sqfs_inode_generic_t)) &&
		     n >= VERIF_OBJECT_SIZE(p), ENV_NAME("realloc.args"));
	q = malloc(n);
	if (q == NULL)
		return NULL;
	(memcpy)(q, p, sizeof(sqfs_inode_generic_t));
	if (g_k >= sizeof(sqfs_inode_generic_t) && g_k < VERIF_OBJECT_SIZE(p))
		q[g_k] = ((unsigned char *)p)[g_k];
	free(p);
	return q;
}
#define realloc(p, n) ri_realloc((p), (n))
#endif
#include "lib/sqfs/src/read_inode.c"

static sqfs_u64 spec_block_count(sqfs_u64 size, sqfs_u64 bs, sqfs_u32 fidx,
				 sqfs_u32 foff)
{
	sqfs_u64 n = size / bs;
	if (size % bs != 0 && (fidx == 0xFFFFFFFF || foff == 0xFFFFFFFF))
		n += 1;
	return n;
}

/* bytes of the `data` union that belong to the on-disk record of a type */
static size_t spec_union_used(unsigned type)
{
	switch (type) {
	case 1: return sizeof(sqfs_inode_dir_t);
	case 2: return sizeof(sqfs_inode_file_t);
	case 3: return sizeof(sqfs_inode_slink_t);
	case 4: case 5: return sizeof(sqfs_inode_dev_t);
	case 6: case 7: return sizeof(sqfs_inode_ipc_t);
	case 8: return sizeof(sqfs_inode_dir_ext_t);
	case 9: return sizeof(sqfs_inode_file_ext_t);
	case 10: return sizeof(sqfs_inode_slink_ext_t);
	case 11: case 12: return sizeof(sqfs_inode_dev_ext_t);
	case 13: case 14: return sizeof(sqfs_inode_ipc_ext_t);
	}
	return 0;
}

static unsigned spec_ifmt(unsigned type)
{
	switch (type) {
	case 1: case 8: return 0040000;
	case 2: case 9: return 0100000;
	case 3: case 10: return 0120000;
	case 4: case 11: return 0060000;
	case 5: case 12: return 0020000;
	case 6: case 13: return 0010000;
	case 7: case 14: return 0140000;
	}
	return 0;
}

void harness(void)
{
	sqfs_meta_reader_t *ir = malloc(1);
	sqfs_inode_generic_t *ino = NULL;
	sqfs_super_t super;
	sqfs_u64 block_start = verif_nd_u64("block_start");
	size_t offset = verif_nd_size("offset");
	size_t extra_bytes;
	int ret;

	VERIF_ASSUME(ir != NULL);
	env_init();
	mrc_init();
	g_mrc_rd0 = ir;

	/* wf_super (ensured by sqfs_super_read, C05.super.wf_on_success) */
	super.block_size = verif_nd_u32("super.block_size");
	VERIF_ASSUME(super.block_size >= 4096 && super.block_size <= 1048576 &&
		     (super.block_size & (super.block_size - 1)) == 0);
	super.inode_table_start = verif_nd_u64("super.inode_table_start");

	ret = sqfs_meta_reader_read_inode(ir, &super, block_start, offset, &ino);

	VERIF_ASSERT(g_mrc.seeks == 1 && g_mrc.s[0].seq == 1 &&
		     g_mrc.s[0].to.block == block_start + super.inode_table_start &&
		     g_mrc.s[0].to.off == offset, INO("seeks_to_ref"));
	if (ret == 0) {
		VERIF_ASSERT(ino != NULL && !g_mrc.failed, INO("fail_clean"));
		VERIF_ASSERT(ITYPE >= 1 && ITYPE <= 14, INO("reject_unknown"));
		VERIF_ASSERT(ino->base.type == ITYPE &&
			     (ino->base.mode & 0170000) == spec_ifmt(ITYPE),
			     INO("wf_type"));
		extra_bytes = VERIF_OBJECT_SIZE(ino) - sizeof(*ino);
#if !defined(VERIF_REPLAY) && !defined(INO_ONLY_DETERMINISM)
		VERIF_ASSERT(VERIF_OBJECT_SIZE(ino) >= sizeof(*ino) &&
			     ino->payload_bytes_used <= ino->payload_bytes_available &&
			     ino->payload_bytes_available <= extra_bytes,
			     INO("wf_payload"));
#endif
		{
			/* witness byte: anything not delivered / assigned is 0 */
			size_t w = verif_nd_size("w");
			size_t u0 = offsetof(sqfs_inode_generic_t, data) +
				spec_union_used(ITYPE);
			const sqfs_u8 *raw = (const sqfs_u8 *)ino;
#if !defined(VERIF_REPLAY) && !defined(INO_LOOP_HAVOC)
			/* (not with a loop contract on the byte-swap loop: its
			   assigns clause has to name the whole object, so the
			   union tail is havocked by the instrumentation) */
			if (w >= u0 && w < sizeof(*ino))
				VERIF_ASSERT(raw[w] == 0, INO("determined"));
			/* (up to payload_bytes_available: what lies behind it in
			   a block grown by realloc is not part of the object) */
			if (w >= sizeof(*ino) + ino->payload_bytes_used &&
			    w < sizeof(*ino) + ino->payload_bytes_available &&
			    w < VERIF_OBJECT_SIZE(ino))
				VERIF_ASSERT(raw[w] == 0, INO("determined"));
#else
			(void)w; (void)u0; (void)raw;
#endif
		}
		if (ITYPE == SQFS_INODE_FILE) {
			sqfs_u64 n = spec_block_count(ino->data.file.file_size,
				super.block_size, ino->data.file.fragment_index,
				ino->data.file.fragment_offset);
			VERIF_ASSERT(ino->payload_bytes_used == n * 4 &&
				     g_mrc.r[2].buf == (void *)ino->extra &&
				     g_mrc.r[2].n == n * 4,
				     INO("wf_file_blocks"));
		} else if (ITYPE == SQFS_INODE_EXT_FILE) {
			sqfs_u64 n = spec_block_count(ino->data.file_ext.file_size,
				super.block_size, ino->data.file_ext.fragment_idx,
				ino->data.file_ext.fragment_offset);
			VERIF_ASSERT(ino->payload_bytes_used == n * 4 &&
				     g_mrc.r[2].buf == (void *)ino->extra &&
				     g_mrc.r[2].n == n * 4,
				     INO("wf_file_blocks"));
		} else if (ITYPE == SQFS_INODE_SLINK || ITYPE == SQFS_INODE_EXT_SLINK) {
			sqfs_u32 tsz = ino->data.slink.target_size;
			VERIF_ASSERT(ino->payload_bytes_used == tsz &&
				     (size_t)tsz + 1 <= extra_bytes &&
				     ((const char *)ino->extra)[tsz] == '\0' &&
				     g_mrc.r[2].buf == (void *)ino->extra &&
				     g_mrc.r[2].n == tsz,
				     INO("wf_slink_nul"));
		} else if (ITYPE == SQFS_INODE_EXT_DIR) {
			/* NIDX complete entries (or none for an empty dir) */
			size_t want = 0;
			unsigned i;
			bool complete = true;
			for (i = 0; i < NIDX && ino->data.dir_ext.size != 0; ++i) {
				/* header: start_block, index, size (bytes 8..11) */
				sqfs_u32 sz = (sqfs_u32)g_mrc.r[2 + 2 * i].val_hi;
				complete = complete && g_mrc.r[2 + 2 * i].n == 12 &&
					g_mrc.r[3 + 2 * i].n == (size_t)sz + 1 &&
					g_mrc.r[3 + 2 * i].buf ==
					(void *)((char *)ino->extra + want + 12);
				want += 12 + (size_t)sz + 1;
			}
			VERIF_ASSERT(complete && ino->payload_bytes_used == want &&
				     ino->data.dir_ext.inodex_count == NIDX,
				     INO("wf_dir_index"));
		}
	} else {
		VERIF_ASSERT(g_mrc.failed || ret == SQFS_ERROR_ALLOC ||
			     ret == SQFS_ERROR_OVERFLOW ||
			     (ret == SQFS_ERROR_UNSUPPORTED &&
			      (ITYPE < 1 || ITYPE > 14)),
			     INO("fail_clean"));
	}
	if (ITYPE < 1 || ITYPE > 14)
		VERIF_ASSERT(ret != 0, INO("reject_unknown"));

	VERIF_COVER(ret == 0 || ITYPE < 1 || ITYPE > 14);
	VERIF_COVER(ret != 0 && g_mrc.failed);
	VERIF_COVER(ret != 0 && !g_mrc.failed);
	if (ret == 0)
		free(ino);
	free(ir);
}
