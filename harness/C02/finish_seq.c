/* C02.io.seq at the end of the run: sqfs_block_processor_finish() and
 * sqfs_block_processor_sync() (block_processor.c) with dequeue_block() and
 * enqueue_block() replaced by their contracts.
 *   dequeue_block contract (what io_order.c / C09 establish): either fails
 *   with a non-zero status, or takes back at least one block (backlog
 *   decreases); it is the ONLY function that hands out sequence numbers to
 *   data blocks.
 *
 *   C02.io.seq.frag_finish  the last, partially filled fragment block gets
 *        its number in finish() - after sync() has taken back every block, so
 *        at a fixed point of the hand-back sequence - as io_seq_num = counter,
 *        counter + 1, then it is enqueued (once), then everything is drained
 *        again; if the first sync fails nothing is numbered or enqueued
 *   C02.backlog.sync_drains sync() calls dequeue_block() exactly until only
 *        the current block / fragment block remain and never touches
 *        sequence numbers itself
 */
#include <stdlib.h>
#include <string.h>
#include "verif.h"
#include "lib/sqfs/src/block_processor/internal.h"

static sqfs_block_processor_t g_proc;
static sqfs_block_t g_fb, g_cur;
static unsigned g_deq_calls, g_enq_calls;
static sqfs_u32 g_enq_seq, g_counter_at_enq, g_numbers_by_dequeue;
static int g_deq_failed;
static size_t g_backlog_at_enq;

int dequeue_block(sqfs_block_processor_t *proc)
{
	int r;

	VERIF_ASSERT(proc == &g_proc, "C02.backlog.sync_drains");
	/* called only while something is still inside the pipeline */
	VERIF_ASSERT(proc->backlog > (size_t)(proc->frag_block != NULL) +
					(proc->blk_current != NULL),
		     "C02.backlog.sync_drains");
	g_deq_calls += 1;
	if (verif_nd_bool("dequeue_fails")) {
		r = verif_nd_int("status");
		VERIF_ASSUME(r != 0);
		g_deq_failed = 1;
		return r;
	}
	proc->backlog -= 1;
	if (verif_nd_bool("numbered_a_data_block")) {
		proc->io_seq_num += 1;
		g_numbers_by_dequeue += 1;
	}
	return 0;
}

int enqueue_block(sqfs_block_processor_t *proc, sqfs_block_t *blk)
{
	int r = verif_nd_int("enqueue_status");

	VERIF_ASSERT(proc == &g_proc && blk == &g_fb, "C02.io.seq.frag_finish");
	g_enq_calls += 1;
	g_enq_seq = blk->io_seq_num;
	g_counter_at_enq = proc->io_seq_num;
	g_backlog_at_enq = proc->backlog;
	VERIF_ASSUME(r <= 0);
	return r;
}

/* function-pointer call sites of the translation unit: not reached here */
static void stub_unreach(void)
{
	VERIF_ASSERT(0, "C02.io.unreachable");
}

#include "lib/sqfs/src/block_processor/block_processor.c"

#ifndef NBACK
#define NBACK 2
#endif

void harness(void)
{
	sqfs_block_processor_t *proc = &g_proc;
	bool has_fb = verif_nd_bool("has_frag_block"), has_cur = verif_nd_bool("has_cur");
	size_t n = verif_nd_size("in_pipeline");
	sqfs_u32 seq0 = verif_nd_u32("io_seq_num");
	sqfs_u32 fbnum = verif_nd_u32("fb.io_seq_num");
	size_t rest = (size_t)(has_fb ? 1 : 0) + (has_cur ? 1 : 0);
	int ret;

	VERIF_ASSUME(n <= NBACK && seq0 < 0xFFFFFF00u);
	g_fb.io_seq_num = fbnum;
	g_fb.flags = SQFS_BLK_FRAGMENT_BLOCK;
	proc->frag_block = has_fb ? &g_fb : NULL;
	proc->blk_current = has_cur ? &g_cur : NULL;
	proc->backlog = n + rest;
	proc->io_seq_num = seq0;

#ifdef OP_SYNC
	ret = sqfs_block_processor_sync(proc);
	VERIF_ASSERT(g_enq_calls == 0, "C02.backlog.sync_drains");
	VERIF_ASSERT(proc->io_seq_num == seq0 + g_numbers_by_dequeue,
		     "C02.backlog.sync_drains");
	VERIF_ASSERT((ret != 0) == (g_deq_failed != 0), "C02.backlog.sync_drains");
	if (ret == 0)
		VERIF_ASSERT(proc->backlog == rest && g_deq_calls == n,
			     "C02.backlog.sync_drains");
	VERIF_ASSERT(g_fb.io_seq_num == fbnum, "C02.backlog.sync_drains");
	VERIF_COVER(ret == 0 && n == NBACK && rest == 2);
	VERIF_COVER(ret != 0 && g_deq_calls == 2);
#else
	ret = sqfs_block_processor_finish(proc);
	if (g_enq_calls > 0) {
		VERIF_ASSERT(has_fb && g_enq_calls == 1, "C02.io.seq.frag_finish");
		/* numbered after everything else was taken back, then enqueued */
		VERIF_ASSERT(g_backlog_at_enq == rest, "C02.io.seq.frag_finish");
		VERIF_ASSERT(g_counter_at_enq == g_enq_seq + 1, "C02.io.seq.frag_finish");
		VERIF_ASSERT(g_fb.io_seq_num == g_enq_seq && proc->frag_block == NULL,
			     "C02.io.seq.frag_finish");
	} else {
		VERIF_ASSERT(g_fb.io_seq_num == fbnum, "C02.io.seq.frag_finish");
		if (has_fb)
			VERIF_ASSERT(ret != 0 && proc->frag_block == &g_fb,
				     "C02.io.seq.frag_finish");
	}
	VERIF_ASSERT(proc->io_seq_num ==
		     seq0 + g_numbers_by_dequeue + (g_enq_calls > 0 ? 1 : 0),
		     "C02.io.seq.frag_finish");
	if (ret == 0)
		VERIF_ASSERT(!g_deq_failed && proc->frag_block == NULL,
			     "C02.io.seq.frag_finish");
	VERIF_COVER(ret == 0 && g_enq_calls == 1 && n == NBACK);
	VERIF_COVER(ret == 0 && g_enq_calls == 0);
	VERIF_COVER(ret != 0 && g_enq_calls == 0 && has_fb);
	VERIF_COVER(ret != 0 && g_enq_calls == 1);
#endif
}
