/* C02.serial_equiv: the image equals the one of the serial reference
 * implementation because the block processor sees BOTH pool implementations
 * only through one abstract contract - FIFO hand-back in submission order,
 * every item processed exactly once (with the pool's context) before it is
 * handed back, first failure status sticky - and every main-thread obligation
 * of C02 (io_order.c, frag_seq.c, finish_seq.c, frontend_seq.c) is proved
 * against that contract, not against an implementation.
 *   threaded pool  -> the contract: harness/C09 (try_dequeue, submit, dequeue,
 *                     worker_proc: C09.fifo / C09.once / C09.ctx)
 *   serial pool    -> the contract: this harness, which is harness/C09/serial.c
 *                     (threadpool_serial.c, i.e. the NO_THREAD_IMPL build and
 *                     thread_pool_create_serial) with the obligations named
 *                     C02.serial_equiv.{fifo,once,ctx,reports_status,
 *                     status_first,empty}
 */
#define SER_PREFIX "C02.serial_equiv"
#define SER_INV_PREFIX "C02.serial_equiv"
#include "../C09/serial.c"
