/* C02.backlog.transparent: the submitting side (frontend.c).
 *  default      get_new_block()  - the place where a full backlog makes the
 *               submitter drain the pipeline. For EVERY max_backlog and
 *               backlog it (a) drains only through dequeue_block() and
 *               stops on its first error,
 *               (b) writes no sequence number, counter or io_queue itself -
 *               whatever numbering happens, happens inside dequeue_block(),
 *               whose contract does not depend on who calls it or when -
 *               (c) returns a block whose header is all zero (no stale
 *               number or flag from a recycled block) and counts it.
 *               So -Q only moves the points in time at which dequeue_block()
 *               runs, not the numbers it hands out.
 *  -DOP_ENQUEUE enqueue_block() - hands the block to the pool exactly once,
 *               keeps its io_seq_num, touches no counter; a refused block
 *               goes to the free list and the pool status (or ALLOC) is
 *               returned.
 *   C02.backlog.transparent / C02.io.seq.enqueue_keeps_number
 * dequeue_block contract as in finish_seq.c; pool->submit: any status.
 */
#include <stdlib.h>
#include <string.h>
#include "verif.h"
#include "lib/sqfs/src/block_processor/internal.h"

#define BSZ 8
typedef struct { sqfs_block_t b; sqfs_u8 data[BSZ]; } fblk_t;

static sqfs_block_processor_t g_proc;
static thread_pool_t g_tp;
static fblk_t g_free, g_blk, g_q;
static unsigned g_deq_calls, g_submits;
static int g_deq_failed, g_submit_ret, g_pstatus;
static void *g_submitted;
/* sequence state as the last dequeue_block() left it */
static sqfs_u32 s_seq, s_deq, s_qnum;
static sqfs_block_t *s_ioq;

static void snap(void)
{
	s_seq = g_proc.io_seq_num;
	s_deq = g_proc.io_deq_seq_num;
	s_ioq = g_proc.io_queue;
	s_qnum = g_q.b.io_seq_num;
}

int dequeue_block(sqfs_block_processor_t *proc)
{
	int r;

	VERIF_ASSERT(proc == &g_proc, "C02.backlog.transparent");
	/* (when exactly the submitter drains is a tuning matter - the claim is
	 * that it cannot influence the numbering, not a particular threshold) */
	VERIF_ASSERT(proc->backlog > 0, "C02.backlog.transparent");
	/* nobody else moved the sequence state since the last call */
	VERIF_ASSERT(proc->io_seq_num == s_seq && proc->io_deq_seq_num == s_deq &&
		     proc->io_queue == s_ioq && g_q.b.io_seq_num == s_qnum,
		     "C02.backlog.transparent");
	g_deq_calls += 1;
	if (verif_nd_bool("dequeue_fails")) {
		r = verif_nd_int("status");
		VERIF_ASSUME(r != 0);
		g_deq_failed = 1;
		return r;
	}
	VERIF_ASSUME(proc->backlog > 0);
	proc->backlog -= 1;
	/* arbitrary progress of the numbering, as dequeue_block may make it */
	proc->io_seq_num += verif_nd_bool("numbered") ? 1 : 0;
	proc->io_deq_seq_num = verif_nd_u32("deq");
	snap();
	return 0;
}

static int stub_submit(thread_pool_t *pool, void *ptr)
{
	VERIF_ASSERT(pool == &g_tp, "C02.io.pool_pre");
	g_submits += 1;
	g_submitted = ptr;
	return g_submit_ret;
}

static int stub_get_status(thread_pool_t *pool)
{
	VERIF_ASSERT(pool == &g_tp, "C02.io.pool_pre");
	return g_pstatus;
}

void *alloc_flex(size_t base_size, size_t item_size, size_t nmemb)
{
	(void)base_size; (void)item_size; (void)nmemb;
	VERIF_ASSERT(0, "C02.io.unreachable");
	return NULL;
}

int sqfs_inode_get_file_size(const sqfs_inode_generic_t *inode, sqfs_u64 *size)
{
	(void)inode; (void)size;
	VERIF_ASSERT(0, "C02.io.unreachable");
	return 0;
}

int sqfs_inode_set_file_size(sqfs_inode_generic_t *inode, sqfs_u64 size)
{
	(void)inode; (void)size;
	VERIF_ASSERT(0, "C02.io.unreachable");
	return 0;
}

int sqfs_inode_set_frag_location(sqfs_inode_generic_t *inode, sqfs_u32 index,
				 sqfs_u32 offset)
{
	(void)inode; (void)index; (void)offset;
	VERIF_ASSERT(0, "C02.io.unreachable");
	return 0;
}

#include "lib/sqfs/src/block_processor/frontend.c"

void harness(void)
{
	sqfs_block_processor_t *proc = &g_proc;
	size_t backlog0 = verif_nd_size("backlog"), maxb = verif_nd_size("max_backlog");
	bool has_free = verif_nd_bool("has_free");

	VERIF_ASSUME(maxb >= 1 && maxb <= 1000 && backlog0 <= maxb + 1);
	g_tp.submit = stub_submit;
	g_tp.get_status = stub_get_status;
	proc->pool = &g_tp;
	proc->max_block_size = BSZ;
	proc->max_backlog = maxb;
	proc->backlog = backlog0;
	proc->file = NULL;
	proc->uncmp = NULL;
	proc->io_seq_num = verif_nd_u32("io_seq_num");
	VERIF_ASSUME(proc->io_seq_num < 0xFFFFFF00u);
	proc->io_deq_seq_num = verif_nd_u32("io_deq_seq_num");
	g_q.b.io_seq_num = verif_nd_u32("queued.io_seq_num");
	proc->io_queue = verif_nd_bool("has_ioq") ? &g_q.b : NULL;
	g_free.b.io_seq_num = verif_nd_u32("stale.io_seq_num");
	g_free.b.flags = verif_nd_u32("stale.flags");
	g_free.b.size = verif_nd_u32("stale.size");
	g_free.b.next = NULL;
	proc->free_list = has_free ? &g_free.b : NULL;
	snap();

#ifdef OP_ENQUEUE
	{
		sqfs_u32 num = verif_nd_u32("blk.io_seq_num");
		int ret;

		g_blk.b.io_seq_num = num;
		g_blk.b.flags = verif_nd_u32("blk.flags");
		g_blk.b.size = verif_nd_u32("blk.size");
		VERIF_ASSUME(g_blk.b.size <= BSZ);
		g_submit_ret = verif_nd_int("submit_ret");
		g_pstatus = verif_nd_int("pool_status");

		ret = enqueue_block(proc, &g_blk.b);

		VERIF_ASSERT(g_submits == 1 && g_submitted == &g_blk.b && g_deq_calls == 0,
			     "C02.io.seq.enqueue_keeps_number");
		VERIF_ASSERT(g_blk.b.io_seq_num == num && proc->io_seq_num == s_seq &&
			     proc->io_deq_seq_num == s_deq && proc->io_queue == s_ioq,
			     "C02.io.seq.enqueue_keeps_number");
		if (g_submit_ret == 0) {
			VERIF_ASSERT(ret == 0 && proc->free_list != &g_blk.b,
				     "C02.io.seq.enqueue_keeps_number");
		} else {
			VERIF_ASSERT(ret != 0 && ret == (g_pstatus != 0 ? g_pstatus
								       : SQFS_ERROR_ALLOC),
				     "C02.io.seq.enqueue_keeps_number");
			VERIF_ASSERT(proc->free_list == &g_blk.b,
				     "C02.io.seq.enqueue_keeps_number");
		}
		VERIF_COVER(ret == 0);
		VERIF_COVER(ret != 0 && g_pstatus == 0);
	}
#else
	{
		sqfs_block_t *out = NULL;
		int ret = get_new_block(proc, &out);

		VERIF_ASSERT(proc->io_seq_num == s_seq && proc->io_deq_seq_num == s_deq &&
			     proc->io_queue == s_ioq && g_q.b.io_seq_num == s_qnum,
			     "C02.backlog.transparent");
		VERIF_ASSERT(g_submits == 0, "C02.backlog.transparent");
		if (g_deq_failed) {
			VERIF_ASSERT(ret != 0 && out == NULL, "C02.backlog.transparent");
		} else if (ret == 0) {
			VERIF_ASSERT(out != NULL && proc->backlog >= 1,
				     "C02.backlog.transparent");
			VERIF_ASSERT(out->io_seq_num == 0 && out->flags == 0 &&
				     out->size == 0 && out->next == NULL &&
				     out->inode == NULL && out->checksum == 0 &&
				     out->index == 0 && out->user == NULL,
				     "C02.backlog.transparent");
			VERIF_ASSERT(has_free ? out == &g_free.b && proc->free_list == NULL
					      : out != &g_free.b, "C02.backlog.transparent");
		} else {
			VERIF_ASSERT(ret == SQFS_ERROR_ALLOC && !has_free,
				     "C02.backlog.transparent");
		}
		VERIF_COVER(ret == 0 && g_deq_calls == 2 && has_free);
		VERIF_COVER(ret == 0 && g_deq_calls == 0 && !has_free);
		VERIF_COVER(ret != 0 && g_deq_failed && g_deq_calls == 2);
		VERIF_COVER(ret == SQFS_ERROR_ALLOC);
	}
#endif
}
