/* C02.worker: process_block() (lib/sqfs/src/block_processor/block_processor.c),
 * the only code that runs on the worker threads.
 *
 *  -DWORKER_FRAME (dfcc, --enforce-contract cs_process_block)
 *    C02.worker.frame   every store of the real function is inside
 *                       block->{flags, checksum, size, data[0..BS)} and its
 *                       own worker->scratch[0..BS) (the latter only through
 *                       the compressor contract): nothing of the block
 *                       processor, no other block, no other worker's state,
 *                       not block->{next, inode, io_seq_num, index, user}
 *  default (plain, relational)
 *    C02.worker.deterministic   two runs on byte-identical blocks by two
 *                       DIFFERENT workers (different scratch contents,
 *                       different worker objects) give identical status,
 *                       flags, size, checksum and data[0..size): the result is
 *                       a function of the block and the (deterministic)
 *                       compressor contract, not of who processes it or what
 *                       the scratch buffer held before
 *    C02.worker.compressor_pre  the compressor is called with
 *                       (block->data, block->size, own scratch, scratch_size)
 *
 * Compressor contract: do_block(in, n, out, m) requires r_ok(in, n),
 * w_ok(out, m); returns r <= m (any negative = error) and writes only
 * out[0..r); deterministic: the same input gives the same r and bytes (ghost
 * g_ret / g_out fixed per harness run). xxh32: a simple function of the
 * bytes hashed (seeded arbitrarily), so that hashing anything but the block's
 * own bytes shows. is_memory_zero: its definition.
 */
#include <stdlib.h>
#include <string.h>
#include "verif.h"
#include "lib/sqfs/src/block_processor/internal.h"

#ifndef BS
#define BS 8
#endif

typedef struct { sqfs_block_t b; sqfs_u8 data[BS]; } blk_t;
typedef struct { worker_data_t w; sqfs_u8 scratch[BS]; } wrk_t;

static blk_t g_b1, g_b2;
static wrk_t g_w1, g_w2;
static sqfs_compressor_t g_cmp1, g_cmp2;
static sqfs_s32 g_ret;
static sqfs_u8 g_out[BS];
static sqfs_u32 g_hash;
static unsigned g_cmp_calls;

sqfs_u32 xxh32(const void *input, const size_t len)
{
	const sqfs_u8 *p = input;
	sqfs_u32 h = g_hash;
	size_t i;

	VERIF_ASSERT(len <= BS && VERIF_R_OK(input, len), "C02.worker.hash_pre");
	/* some function of the bytes (and nothing else) */
	for (i = 0; i < BS; ++i) {
		if (i < len)
			h = (h << 5) ^ (h >> 27) ^ p[i];
	}
	return h;
}

bool is_memory_zero(const void *blob, size_t size)
{
	const sqfs_u8 *p = blob;
	size_t i;

	VERIF_ASSERT(size <= BS && VERIF_R_OK(blob, size), "C02.worker.hash_pre");
	for (i = 0; i < BS; ++i) {
		if (i < size && p[i] != 0)
			return false;
	}
	return true;
}

static sqfs_s32 stub_do_block(sqfs_compressor_t *cmp, const sqfs_u8 *in,
			      sqfs_u32 size, sqfs_u8 *out, sqfs_u32 outsize)
{
	wrk_t *me = (cmp == &g_cmp1) ? &g_w1 : &g_w2;
	blk_t *blk = (cmp == &g_cmp1) ? &g_b1 : &g_b2;
	sqfs_u32 i;

	VERIF_ASSERT(cmp == &g_cmp1 || cmp == &g_cmp2, "C02.worker.compressor_pre");
	VERIF_ASSERT(in == blk->b.data && size == blk->b.size && size <= BS,
		     "C02.worker.compressor_pre");
	VERIF_ASSERT(out == me->w.scratch && outsize == BS,
		     "C02.worker.compressor_pre");
	g_cmp_calls += 1;
	if (g_ret > 0) {
		for (i = 0; i < BS; ++i) {
			if (i < (sqfs_u32)g_ret)
				out[i] = g_out[i];
		}
	}
	return g_ret;
}

/* other function-pointer call sites of the translation unit: unreachable
 * (external linkage, so that the symbols exist even while nothing calls them) */
int stub_unreach_read_at(sqfs_file_t *f, sqfs_u64 off, void *buf, size_t n)
{
	(void)f; (void)off; (void)buf; (void)n;
	VERIF_ASSERT(0, "C02.worker.unreachable");
	return -1;
}
void stub_unreach_destroy(sqfs_object_t *o)
{
	(void)o;
	VERIF_ASSERT(0, "C02.worker.unreachable");
}
sqfs_object_t *stub_unreach_copy(const sqfs_object_t *o)
{
	(void)o;
	VERIF_ASSERT(0, "C02.worker.unreachable");
	return NULL;
}
size_t stub_unreach_get_worker_count(thread_pool_t *p)
{
	(void)p;
	VERIF_ASSERT(0, "C02.worker.unreachable");
	return 1;
}
void stub_unreach_set_worker_ptr(thread_pool_t *p, size_t i, void *u)
{
	(void)p; (void)i; (void)u;
	VERIF_ASSERT(0, "C02.worker.unreachable");
}

#include "lib/sqfs/src/block_processor/block_processor.c"

static void build_block(blk_t *b)
{
	size_t i;

	b->b.next = NULL;
	b->b.inode = NULL;
	b->b.io_seq_num = verif_nd_u32("io_seq_num");
	b->b.flags = verif_nd_u32("flags");
	b->b.size = verif_nd_u32("size");
	b->b.checksum = verif_nd_u32("checksum");
	b->b.index = verif_nd_u32("index");
	b->b.user = NULL;
	VERIF_ASSUME(b->b.size <= BS);
	for (i = 0; i < BS; ++i)
		b->data[i] = verif_nd_u8("data");
}

static void build_worker(wrk_t *w, sqfs_compressor_t *cmp)
{
	size_t i;

	w->w.next = NULL;
	w->w.cmp = cmp;
	w->w.scratch_size = BS;
	cmp->do_block = stub_do_block;
	for (i = 0; i < BS; ++i)
		w->scratch[i] = verif_nd_u8("scratch");
}

static void build_env(void)
{
	size_t i;

	g_ret = verif_nd_int("cmp_ret");
	VERIF_ASSUME(g_ret <= BS);
	for (i = 0; i < BS; ++i)
		g_out[i] = verif_nd_u8("cmp_out");
	g_hash = verif_nd_u32("hash");
}

#ifdef WORKER_FRAME
static int cs_process_block(void *userptr, void *workitem)
__CPROVER_requires(userptr == &g_w1 && workitem == &g_b1)
__CPROVER_assigns(g_b1.b.flags, g_b1.b.checksum, g_b1.b.size,
		  __CPROVER_object_upto(g_b1.b.data, BS),
		  __CPROVER_object_upto(g_w1.w.scratch, BS),
		  g_cmp_calls)
{
	return process_block(userptr, workitem);
}

void harness(void)
{
	int ret;

	build_env();
	build_block(&g_b1);
	build_worker(&g_w1, &g_cmp1);
	VERIF_COVER(g_b1.b.size == BS && g_ret > 0);
	ret = cs_process_block(&g_w1, &g_b1);
	VERIF_COVER(ret == 0 && (g_b1.b.flags & SQFS_BLK_IS_COMPRESSED));
	VERIF_COVER(ret < 0);
}
#else
void harness(void)
{
	int r1, r2;
	size_t i;

	build_env();
	build_block(&g_b1);
	g_b2 = g_b1;
	/* the two copies differ in everything that is not block content */
	g_b2.b.io_seq_num = verif_nd_u32("io_seq_num2");
	g_b2.b.index = g_b1.b.index;
	build_worker(&g_w1, &g_cmp1);
	build_worker(&g_w2, &g_cmp2);

	r1 = process_block(&g_w1, &g_b1);
	r2 = process_block(&g_w2, &g_b2);

	VERIF_ASSERT(r1 == r2, "C02.worker.deterministic");
	VERIF_ASSERT(g_b1.b.flags == g_b2.b.flags && g_b1.b.size == g_b2.b.size,
		     "C02.worker.deterministic");
	if (r1 == 0) {
		/* the checksum of a block that is not hashed (empty / sparse)
		 * is never consumed; everywhere else it must agree */
		if (g_b1.b.size != 0 && !(g_b1.b.flags & SQFS_BLK_IS_SPARSE))
			VERIF_ASSERT(g_b1.b.checksum == g_b2.b.checksum,
				     "C02.worker.deterministic");
		for (i = 0; i < BS; ++i) {
			if (i < g_b1.b.size)
				VERIF_ASSERT(g_b1.data[i] == g_b2.data[i],
					     "C02.worker.deterministic");
		}
	}
	VERIF_COVER(r1 == 0 && (g_b1.b.flags & SQFS_BLK_IS_COMPRESSED) &&
		    g_b1.b.size > 1 && g_w1.scratch[0] != g_w2.scratch[0]);
	VERIF_COVER(r1 == 0 && (g_b1.b.flags & SQFS_BLK_IS_SPARSE));
	VERIF_COVER(r1 < 0);
	VERIF_COVER(r1 == 0 && g_cmp_calls == 0 && g_b1.b.size > 0 &&
		    !(g_b1.b.flags & SQFS_BLK_IS_SPARSE));
}
#endif
