/* C02.main (rely/guarantee at the hand-over point): enqueue_block()
 * (frontend.c) for a FRAGMENT BLOCK with deduplication-by-content enabled
 * (proc->file and proc->uncmp present), where the main thread keeps an
 * "in flight" copy of the uncompressed bytes for later comparisons.
 * From the moment pool->submit() is called the block belongs to a worker:
 * process_block may rewrite data, size, flags and checksum at any time
 * (C02.worker.frame lists exactly those). The submit contract therefore
 * HAVOCS these fields - whatever the main thread reads from the block after
 * the call is arbitrary, i.e. schedule dependent.
 *
 *   C02.main.copy_before_submit   the in-flight copy holds the size, index and
 *        bytes the block had when it was handed in (witness byte: every byte),
 *        so what later comparisons see does not depend on how far a worker
 *        got; it is linked at the head of fblk_in_flight
 *   C02.io.seq.enqueue_keeps_number   no sequence number / counter is touched
 * alloc_flex: typed-object contract (fresh zeroed block with room for the
 * data), may fail; pool->submit: any status.
 */
#include <stdlib.h>
#include <string.h>
#include "verif.h"
#include "lib/sqfs/src/block_processor/internal.h"

#define BSZ 8
typedef struct { sqfs_block_t b; sqfs_u8 data[BSZ]; } fblk_t;

static sqfs_block_processor_t g_proc;
static thread_pool_t g_tp;
static sqfs_file_t g_file;
static sqfs_compressor_t g_uncmp;
static fblk_t g_blk, g_copy, g_old;
static unsigned g_submits, g_allocs;
static int g_submit_ret, g_pstatus;
static bool g_alloc_fails;

static int stub_submit(thread_pool_t *pool, void *ptr)
{
	size_t i;

	VERIF_ASSERT(pool == &g_tp && ptr == &g_blk.b, "C02.io.pool_pre");
	g_submits += 1;
	if (g_submit_ret == 0) {
		/* a worker owns the block now */
		g_blk.b.size = verif_nd_u32("worker.size");
		g_blk.b.flags = verif_nd_u32("worker.flags");
		g_blk.b.checksum = verif_nd_u32("worker.checksum");
		VERIF_ASSUME(g_blk.b.size <= BSZ);
		for (i = 0; i < BSZ; ++i)
			g_blk.data[i] = verif_nd_u8("worker.data");
	}
	return g_submit_ret;
}

static int stub_get_status(thread_pool_t *pool)
{
	VERIF_ASSERT(pool == &g_tp, "C02.io.pool_pre");
	return g_pstatus;
}

void *alloc_flex(size_t base_size, size_t item_size, size_t nmemb)
{
	VERIF_ASSERT(base_size == sizeof(sqfs_block_t) && item_size == 1 &&
		     nmemb <= BSZ && g_allocs == 0, "C02.main.alloc_pre");
	g_allocs += 1;
	if (g_alloc_fails)
		return NULL;
	memset(&g_copy, 0, sizeof(g_copy));
	return &g_copy.b;
}

int dequeue_block(sqfs_block_processor_t *proc)
{
	(void)proc;
	VERIF_ASSERT(0, "C02.io.unreachable");
	return -1;
}

int sqfs_inode_get_file_size(const sqfs_inode_generic_t *inode, sqfs_u64 *size)
{
	(void)inode; (void)size;
	VERIF_ASSERT(0, "C02.io.unreachable");
	return 0;
}

int sqfs_inode_set_file_size(sqfs_inode_generic_t *inode, sqfs_u64 size)
{
	(void)inode; (void)size;
	VERIF_ASSERT(0, "C02.io.unreachable");
	return 0;
}

int sqfs_inode_set_frag_location(sqfs_inode_generic_t *inode, sqfs_u32 index,
				 sqfs_u32 offset)
{
	(void)inode; (void)index; (void)offset;
	VERIF_ASSERT(0, "C02.io.unreachable");
	return 0;
}

#include "lib/sqfs/src/block_processor/frontend.c"

void harness(void)
{
	sqfs_block_processor_t *proc = &g_proc;
	sqfs_u8 data0[BSZ];
	sqfs_u32 size0, index0, num0, seq0, deq0;
	size_t i, w = verif_nd_size("witness");
	int ret;

	g_submits = 0;
	g_allocs = 0;
	g_tp.submit = stub_submit;
	g_tp.get_status = stub_get_status;
	proc->pool = &g_tp;
	proc->max_block_size = BSZ;
	proc->max_backlog = 10;
	proc->backlog = 3;
	proc->file = &g_file;
	proc->uncmp = &g_uncmp;
	proc->free_list = NULL;
	proc->fblk_in_flight = verif_nd_bool("has_older") ? &g_old.b : NULL;
	proc->io_seq_num = seq0 = verif_nd_u32("io_seq_num");
	proc->io_deq_seq_num = deq0 = verif_nd_u32("io_deq_seq_num");
	proc->io_queue = NULL;

	g_blk.b.flags = SQFS_BLK_FRAGMENT_BLOCK |
		(verif_nd_bool("dont_compress") ? SQFS_BLK_DONT_COMPRESS : 0);
	g_blk.b.size = size0 = verif_nd_u32("blk.size");
	g_blk.b.index = index0 = verif_nd_u32("blk.index");
	g_blk.b.io_seq_num = num0 = verif_nd_u32("blk.io_seq_num");
	g_blk.b.next = NULL;
	VERIF_ASSUME(size0 <= BSZ && w < BSZ);
	for (i = 0; i < BSZ; ++i)
		g_blk.data[i] = data0[i] = verif_nd_u8("blk.data");
	g_submit_ret = verif_nd_int("submit_ret");
	g_pstatus = verif_nd_int("pool_status");
	g_alloc_fails = verif_nd_bool("alloc_fails");

	ret = enqueue_block(proc, &g_blk.b);

	if (ret == 0) {
		VERIF_ASSERT(g_submits == 1 && g_allocs == 1 && !g_alloc_fails,
			     "C02.main.copy_before_submit");
		VERIF_ASSERT(proc->fblk_in_flight == &g_copy.b,
			     "C02.main.copy_before_submit");
		VERIF_ASSERT(g_copy.b.size == size0 && g_copy.b.index == index0,
			     "C02.main.copy_before_submit");
		if (w < size0)
			VERIF_ASSERT(g_copy.data[w] == data0[w],
				     "C02.main.copy_before_submit");
	}
	VERIF_ASSERT(g_blk.b.io_seq_num == num0 && proc->io_seq_num == seq0 &&
		     proc->io_deq_seq_num == deq0 && proc->io_queue == NULL,
		     "C02.io.seq.enqueue_keeps_number");
	VERIF_COVER(ret == 0 && size0 == BSZ && g_blk.b.size != size0 &&
		    g_blk.data[w] != data0[w]);
	VERIF_COVER(ret != 0 && g_alloc_fails);
	VERIF_COVER(ret != 0 && !g_alloc_fails && g_submits == 1);
}
