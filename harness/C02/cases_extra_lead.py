# C02's "the write sequence is a function of submission order" stands on the
# thread pool handing work items back strictly in submit order (FIFO, exactly
# once) and on the serial pool doing the same. Those obligations (C09.fifo,
# C09.dequeue.inv, C09.serial_refines ...) are proved by the harnesses of
# harness/C09; they are run here as well so that C02's own check decides the
# clause (seed C02-4: a look-ahead slot in dequeue() that overtakes safe_done).
import os as _os, sys as _sys
_sys.path.insert(0, _os.path.join(_os.path.dirname(_os.path.abspath(__file__)), "..", "..", "tools"))
from borrow import borrow as _borrow

HARNESSES = _borrow(__file__, "C09", ["dequeue", "try_dequeue", "submit",
                                      "serial_dequeue", "serial_submit"])
FUNCTIONS = ["threadpool.c dequeue / try_dequeue_done / submit, threadpool_serial.c submit / dequeue (via harness/C09)"]
TRUSTED = ["pthread contracts of harness/C09/pool_model.h"]
ASSUMPTIONS = []
