/* C02.serial_bb.write_order - a thin BEHAVIOURAL harness of the block
 * processor on top of the real serial pool: the real
 * sqfs_block_processor_create_ex (block_processor.c), frontend.c, backend.c and
 * threadpool_serial.c (NO_THREAD_IMPL) linked together, a compressor contract
 * stub, a recording block writer stub. One CONCRETE scenario per case (-DSCN,
 * -DBACKLOG, -DFLG user flag bits, -DCMP_SHRINK / -DCMP_FAIL_AT the
 * compressor's verdict); block contents beyond the first byte, checksums,
 * write locations and num_workers are symbolic.
 *
 * Every input block carries a non-zero tag in its first byte (the compressor
 * contract keeps the first byte, so a block stays identifiable), and a
 * distinct user pointer per submission / file.
 *
 *  C02.serial_bb.write_order   the k-th call of write_data_block is the k-th
 *      block of the scenario's expected sequence: blocks in submission order,
 *      a fragment block at the point where the fragment that overflowed it (or
 *      finish) was handed back; with the submitted user pointer, the submitted
 *      size (or the compressor's size, then with SQFS_BLK_IS_COMPRESSED), the
 *      submitted flags (internal bits stripped); never more writes than
 *      expected; finish() == 0 => all of them were written. A failing worker
 *      only ever cuts the sequence short (every write is still the next
 *      expected one) and finish()/submit report it.
 *  C02.serial_bb.error_reported  a compressor failure surfaces as a non-zero
 *      result of the call that met it or of finish(); no failure => 0
 *  C02.serial_bb.env_pre       call-site preconditions of the stubs
 *  no leak after sqfs_drop(proc) (cbmc --memory-leak-check)
 *
 * Scenarios (BS = 8 byte blocks):
 *  1  four manual submissions (sizes 8, 5, 0, 8) then finish
 *  2  a file of 8+8+3 bytes with DONT_FRAGMENT (blocks 1,2 full, 3 = tail
 *     carrying LAST_BLOCK), a manual submission, finish
 *  3  file A of 8+3 bytes (data block, sentinel, 3-byte fragment), a manual
 *     block, file B of 6 bytes (a fragment that overflows the fragment block:
 *     A's fragment block is numbered and enqueued at that moment, i.e. BEHIND
 *     the next manual block in the pool but BEFORE it in the output), a manual
 *     block, finish (B's fragment block)
 */
#include <stdlib.h>
#include <string.h>
#include <errno.h>
#include "verif.h"

#ifndef NO_THREAD_IMPL
#define NO_THREAD_IMPL
#endif
#ifndef BS
#define BS 8
#endif
#ifndef SCN
#define SCN 1
#endif
#ifndef BACKLOG
#define BACKLOG 3
#endif
#ifndef BBP
#define BBP "C02.serial_bb"
#endif
#ifndef CMP_FAIL_AT
#define CMP_FAIL_AT 99		/* index of the do_block call that fails; 99: none */
#endif
#ifndef CMP_SHRINK
#define CMP_SHRINK 0		/* 1: every block of n > 1 bytes compresses to n - 1 */
#endif
#ifndef FLG
#define FLG 0			/* user-settable flag bits of every submission */
#endif

/* CBMC needs typed, fixed-size objects (DESIGN 2.4): the three flexible-array
 * allocations of the block processor are given typed wrappers of exactly the
 * requested size; everything else about them is the real code */
#include "lib/sqfs/src/block_processor/internal.h"

typedef struct { sqfs_block_t b; sqfs_u8 payload[BS]; } w21_blk_t;
typedef struct { worker_data_t w; sqfs_u8 scratch[BS]; } w21_worker_t;
typedef struct { sqfs_block_processor_t p; } w21_proc_t;

static void *w21_blk_malloc(size_t n)
{
	VERIF_ASSERT(n == sizeof(sqfs_block_t) + BS, BBP ".env_pre");
	return malloc(sizeof(w21_blk_t));
}

void *alloc_flex(size_t base_size, size_t item_size, size_t nmemb)
{
	VERIF_ASSERT(item_size == 1, BBP ".env_pre");
	if (base_size == sizeof(sqfs_block_processor_t)) {
		VERIF_ASSERT(nmemb == 0, BBP ".env_pre");
		return calloc(1, sizeof(w21_proc_t));
	}
	VERIF_ASSERT(base_size == sizeof(worker_data_t) && nmemb == BS, BBP ".env_pre");
	return calloc(1, sizeof(w21_worker_t));
}

/* for pool implementations that use it */
void *alloc_array(size_t item_size, size_t nmemb)
{
	return calloc(nmemb, item_size);
}

/* the serial pool's static names (destroy, submit, ...) stay file-local to it;
 * the block processor's files do not define any of them */
#include "lib/util/src/threadpool_serial.c"
#include "lib/util/src/is_memory_zero.c"
#include "lib/sqfs/src/block_processor/block_processor.c"
#define malloc w21_blk_malloc
#include "lib/sqfs/src/block_processor/frontend.c"
#undef malloc
#include "lib/sqfs/src/block_processor/backend.c"

#ifndef VERIF_REPLAY
static int bb_errno;
int *__errno_location(void) { return &bb_errno; }
#endif

/* ------------------------------------------------------------ expectations */
typedef struct {
	sqfs_u8 tag;		/* first data byte (0: size-0 block) */
	void *user;
	sqfs_u32 size;
	sqfs_u32 flags;
} exp_t;

#define MAXEXP 8
static exp_t g_exp[MAXEXP];
static unsigned g_nexp, g_writes;
static char g_users[8];
static unsigned g_cmp_calls;
static int g_cmp_failed;		/* the compressor contract returned an error */
static sqfs_s32 g_cmp_r[16];		/* its verdict per tag */

static void expect(sqfs_u8 tag, void *user, sqfs_u32 size, sqfs_u32 flags)
{
	g_exp[g_nexp].tag = tag;
	g_exp[g_nexp].user = user;
	g_exp[g_nexp].size = size;
	g_exp[g_nexp].flags = flags;
	g_nexp += 1;
}

/* ------------------------------------------------------------------- stubs */
static sqfs_compressor_t g_cmp, g_cmp_copy;
static sqfs_block_writer_t g_wr;
static struct hash_table g_ht;

void stub_obj_destroy(sqfs_object_t *obj) { (void)obj; }

sqfs_object_t *stub_cmp_copy(const sqfs_object_t *orig)
{
	VERIF_ASSERT(orig == (const sqfs_object_t *)&g_cmp, BBP ".env_pre");
	((sqfs_object_t *)&g_cmp_copy)->refcount = 1;
	((sqfs_object_t *)&g_cmp_copy)->destroy = stub_obj_destroy;
	((sqfs_object_t *)&g_cmp_copy)->copy = stub_cmp_copy;
	return (sqfs_object_t *)&g_cmp_copy;
}

/* compressor contract (DESIGN section 3): r <= outsize, compress mode r < n
 * or r == 0, negative = error, writes only out[0..r); keeps the first byte */
sqfs_s32 stub_do_block(sqfs_compressor_t *c, const sqfs_u8 *in, sqfs_u32 n,
		       sqfs_u8 *out, sqfs_u32 outsize)
{
	/* the verdict is a case parameter: a symbolic one makes the pool status,
	 * hence the shape of every list behind it, symbolic (> 200 s, measured) */
	sqfs_s32 r = (g_cmp_calls++ == CMP_FAIL_AT) ? SQFS_ERROR_COMPRESSOR :
		     (CMP_SHRINK && n > 1) ? (sqfs_s32)n - 1 : 0;
	sqfs_u8 tag;
	sqfs_u32 i;

	VERIF_ASSERT(c == &g_cmp_copy, BBP ".env_pre");
	VERIF_ASSERT(n > 0 && n <= BS && outsize == BS, BBP ".env_pre");
	VERIF_ASSERT(VERIF_R_OK(in, n) && VERIF_W_OK(out, outsize), BBP ".env_pre");
	tag = in[0];
	VERIF_ASSERT(tag > 0 && tag < 16, BBP ".env_pre");
	if (r < 0) {
		g_cmp_failed = 1;
		return r;
	}
	if (tag < 16)
		g_cmp_r[tag] = r;
	for (i = 0; i < BS; ++i) {
		if ((sqfs_s32)i < r)
			out[i] = i == 0 ? tag : verif_nd_u8("do_block.out");
	}
	return r;
}

sqfs_u32 xxh32(const void *input, const size_t len)
{
	VERIF_ASSERT(VERIF_R_OK(input, len), BBP ".env_pre");
	return verif_nd_u32("xxh32");
}

int stub_write_data_block(sqfs_block_writer_t *wr, void *user, sqfs_u32 size,
			  sqfs_u32 checksum, sqfs_u32 flags, const sqfs_u8 *data,
			  sqfs_u64 *location)
{
	(void)checksum;
	VERIF_ASSERT(wr == &g_wr, BBP ".env_pre");
	VERIF_ASSERT(size <= BS && VERIF_R_OK(data, size) &&
		     VERIF_W_OK(location, sizeof(*location)), BBP ".env_pre");
	VERIF_ASSERT(g_writes < g_nexp, BBP ".write_order");
	if (g_writes < g_nexp) {
		const exp_t *e = &g_exp[g_writes];
		sqfs_u32 kind = flags & ~(sqfs_u32)(SQFS_BLK_IS_COMPRESSED | SQFS_BLK_IS_SPARSE);

		VERIF_ASSERT(user == e->user, BBP ".write_order");
		VERIF_ASSERT(kind == e->flags, BBP ".write_order");
		VERIF_ASSERT(!(flags & SQFS_BLK_IS_SPARSE), BBP ".write_order");
		if (e->size == 0) {
			VERIF_ASSERT(size == 0 && !(flags & SQFS_BLK_IS_COMPRESSED),
				     BBP ".write_order");
		} else {
			VERIF_ASSERT(size > 0 && data[0] == e->tag, BBP ".write_order");
			if (flags & SQFS_BLK_IS_COMPRESSED) {
				VERIF_ASSERT(size < e->size &&
					     (sqfs_s32)size == g_cmp_r[e->tag & 15],
					     BBP ".write_order");
				VERIF_ASSERT(!(e->flags & SQFS_BLK_DONT_COMPRESS),
					     BBP ".write_order");
			} else {
				VERIF_ASSERT(size == e->size, BBP ".write_order");
			}
		}
	}
	g_writes += 1;
	*location = verif_nd_u64("location");
	return 0;
}

struct hash_table *
hash_table_create(sqfs_u32 (*key_hash_function)(void *user, const void *key),
		  bool (*key_equals_function)(void *user, const void *a,
					      const void *b))
{
	g_ht.key_hash_function = key_hash_function;
	g_ht.key_equals_function = key_equals_function;
	g_ht.user = NULL;
	return &g_ht;
}

void hash_table_destroy(struct hash_table *ht,
			void (*delete_function)(struct hash_entry *entry))
{
	(void)delete_function;
	VERIF_ASSERT(ht == &g_ht, BBP ".env_pre");
}

/* no two fragments of a scenario are equal (distinct tags): nothing found */
struct hash_entry *
hash_table_search_pre_hashed(struct hash_table *ht, sqfs_u32 hash, const void *key)
{
	(void)hash; (void)key;
	VERIF_ASSERT(ht == &g_ht, BBP ".env_pre");
	return NULL;
}

/* not reached: no inode is attached, there is no fragment table / file */
static int unreach(void)
{
	VERIF_ASSERT(0, BBP ".unreachable");
	return SQFS_ERROR_INTERNAL;
}
struct hash_entry *
hash_table_insert_pre_hashed(struct hash_table *ht, sqfs_u32 hash,
			     const void *key, void *data)
{
	(void)ht; (void)hash; (void)key; (void)data;
	unreach();
	return NULL;
}
int sqfs_frag_table_lookup(sqfs_frag_table_t *t, sqfs_u32 i, sqfs_fragment_t *o)
{ (void)t; (void)i; (void)o; return unreach(); }
int sqfs_frag_table_append(sqfs_frag_table_t *t, sqfs_u64 l, sqfs_u32 s, sqfs_u32 *i)
{ (void)t; (void)l; (void)s; (void)i; return unreach(); }
int sqfs_frag_table_set(sqfs_frag_table_t *t, sqfs_u32 i, sqfs_u64 l, sqfs_u32 s)
{ (void)t; (void)i; (void)l; (void)s; return unreach(); }
int sqfs_inode_get_file_size(const sqfs_inode_generic_t *i, sqfs_u64 *s)
{ (void)i; (void)s; return unreach(); }
int sqfs_inode_set_file_size(sqfs_inode_generic_t *i, sqfs_u64 s)
{ (void)i; (void)s; return unreach(); }
int sqfs_inode_set_frag_location(sqfs_inode_generic_t *i, sqfs_u32 a, sqfs_u32 b)
{ (void)i; (void)a; (void)b; return unreach(); }
int sqfs_inode_set_file_block_start(sqfs_inode_generic_t *i, sqfs_u64 l)
{ (void)i; (void)l; return unreach(); }
int sqfs_inode_make_extended(sqfs_inode_generic_t *i)
{ (void)i; return unreach(); }

/* ---------------------------------------------------------------- scenario */
static sqfs_block_processor_t *g_proc;
static int g_err;			/* first non-zero API result */
static sqfs_u8 g_buf[3 * BS];

/* flag words are concrete per case: a symbolic word (even masked to the bits
 * that select no block kind) sends symbolic execution into every kind's
 * branch of dequeue_block / process_block (no result in 15 min, measured) */
#define SOFT (SQFS_BLK_DONT_COMPRESS | SQFS_BLK_DONT_HASH | SQFS_BLK_IGNORE_SPARSE | \
	      SQFS_BLK_DONT_DEDUPLICATE)

static void note(int ret)
{
	if (ret != 0 && g_err == 0)
		g_err = ret;
}

/* n bytes: the first one of every BS-sized piece is the tag, the rest symbolic */
static void fill(sqfs_u8 tag0, size_t n)
{
	size_t i;

	for (i = 0; i < sizeof(g_buf); ++i) {
		if (i < n)
			g_buf[i] = (i % BS == 0) ? (sqfs_u8)(tag0 + i / BS) : verif_nd_u8("data");
	}
}

static void manual(sqfs_u8 tag, void *user, sqfs_u32 fl, size_t n)
{
	fill(tag, n);
	if (g_err == 0)
		note(sqfs_block_processor_submit_block(g_proc, user, fl, g_buf, n));
}

static void file(sqfs_u8 tag0, void *user, sqfs_u32 fl, size_t n)
{
	fill(tag0, n);
	if (g_err == 0)
		note(sqfs_block_processor_begin_file(g_proc, NULL, user, fl));
	if (g_err == 0)
		note(sqfs_block_processor_append(g_proc, g_buf, n));
	if (g_err == 0)
		note(sqfs_block_processor_end_file(g_proc));
}

void harness(void)
{
	sqfs_block_processor_desc_t desc;
	sqfs_u32 f1, f2, f3, f4;
	int ret;

	g_nexp = g_writes = 0;
	g_cmp_failed = 0;
	g_err = 0;
	g_proc = NULL;
	memset(g_cmp_r, 0, sizeof(g_cmp_r));

	((sqfs_object_t *)&g_cmp)->refcount = 1;
	((sqfs_object_t *)&g_cmp)->destroy = stub_obj_destroy;
	((sqfs_object_t *)&g_cmp)->copy = stub_cmp_copy;
	g_cmp_copy.do_block = stub_do_block;
	((sqfs_object_t *)&g_wr)->refcount = 1;
	((sqfs_object_t *)&g_wr)->destroy = stub_obj_destroy;
	((sqfs_object_t *)&g_wr)->copy = NULL;
	g_wr.write_data_block = stub_write_data_block;

	memset(&desc, 0, sizeof(desc));
	desc.size = sizeof(desc);
	desc.max_block_size = BS;
	desc.num_workers = verif_nd_u32("num_workers");
	desc.max_backlog = BACKLOG;
	desc.cmp = &g_cmp;
	desc.wr = &g_wr;
	desc.tbl = NULL;
	desc.file = NULL;
	desc.uncmp = NULL;

	ret = sqfs_block_processor_create_ex(&desc, &g_proc);
	VERIF_ASSERT(ret == 0 && g_proc != NULL, BBP ".create");
	if (ret != 0 || g_proc == NULL)
		return;

	/* the symbolic flag words first, then the expected output sequence
	 * (writes happen while the scenario is still submitting), then the
	 * submissions */
	f1 = (FLG) & SOFT;
	f2 = ((FLG) >> 1) & SOFT;	/* a different word per submission */
	f3 = ((FLG) << 1) & SOFT;
	f4 = (FLG) & SOFT & ~(sqfs_u32)SQFS_BLK_DONT_COMPRESS;
#if SCN == 1
	expect(1, &g_users[1], 8, f1);
	expect(2, &g_users[2], 5, f2);
	expect(0, &g_users[3], 0, f3);
	expect(4, &g_users[4], 8, f4);
	manual(1, &g_users[1], f1, 8);
	manual(2, &g_users[2], f2, 5);
	manual(3, &g_users[3], f3, 0);
	manual(4, &g_users[4], f4, 8);
#elif SCN == 2
	f1 |= SQFS_BLK_DONT_FRAGMENT;
	expect(1, &g_users[1], 8, f1 | SQFS_BLK_FIRST_BLOCK);
	expect(2, &g_users[1], 8, f1);
	expect(3, &g_users[1], 3, f1 | SQFS_BLK_LAST_BLOCK);
	expect(4, &g_users[2], 8, f2);
	file(1, &g_users[1], f1, 2 * BS + 3);
	manual(4, &g_users[2], f2, 8);
	(void)f3; (void)f4;
#else
	expect(1, &g_users[1], 8, f1 | SQFS_BLK_FIRST_BLOCK);
	expect(0, NULL, 0, f1 | SQFS_BLK_LAST_BLOCK);		/* sentinel */
	expect(4, &g_users[2], 8, f2);
	expect(2, &g_users[1], 3,				/* A's fragment block */
	       (f1 & (SQFS_BLK_DONT_COMPRESS | SQFS_BLK_IGNORE_SPARSE)) | SQFS_BLK_FRAGMENT_BLOCK);
	expect(6, &g_users[4], 7, f4);
	expect(5, &g_users[3], 6,				/* B's, at finish */
	       (f3 & (SQFS_BLK_DONT_COMPRESS | SQFS_BLK_IGNORE_SPARSE)) | SQFS_BLK_FRAGMENT_BLOCK);
	file(1, &g_users[1], f1, BS + 3);		/* tags 1 (block), 2 (fragment) */
	manual(4, &g_users[2], f2, 8);
	file(5, &g_users[3], f3, 6);			/* tag 5 (fragment) */
	manual(6, &g_users[4], f4, 7);
#endif

	if (g_err == 0)
		note(sqfs_block_processor_finish(g_proc));

	if (g_err == 0) {
		VERIF_ASSERT(g_writes == g_nexp, BBP ".write_order");
		VERIF_ASSERT(!g_cmp_failed, BBP ".error_reported");
	} else {
		/* the only failure source of the scenario is the compressor */
		VERIF_ASSERT(g_cmp_failed, BBP ".error_reported");
	}
#if CMP_FAIL_AT == 99
	VERIF_COVER(g_err == 0 && g_writes == g_nexp);
#else
	VERIF_COVER(g_err != 0 && g_writes < g_nexp);
#endif

	sqfs_drop(g_proc);
}
