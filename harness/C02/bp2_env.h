/*
 * bp2_env.h - C02: the block processor's main-thread code against the
 * ABSTRACT pool contract established by C09 (FIFO in submission order,
 * exactly once; the same contract for threadpool.c and threadpool_serial.c,
 * which is what makes the -j N build and the NO_THREAD_IMPL build agree),
 * and a recording block writer. No worker failure here (that is C09).
 *
 * Sequence-number invariant of the block processor (BP-INV):
 *   io_deq_seq_num <= io_seq_num; the numbers io_deq_seq_num .. io_seq_num-1
 *   are exactly the numbers of the blocks in io_queue plus the numbers of the
 *   fragment blocks that were numbered when they were enqueued and are still
 *   inside the pool; io_queue is sorted strictly increasing.
 * Case parameters (concrete shape, symbolic values):
 *   K0, K1   kinds of the blocks inside the pool, in submission order:
 *            0 none, 1 data block, 2 manual submission, 3 fragment block
 *            (numbered at enqueue)
 *   IQ       blocks waiting in io_queue (0..2)
 *   FPOS     which of the outstanding numbers belongs to the fragment block
 */
#ifndef C02_BP2_ENV_H
#define C02_BP2_ENV_H

#include "verif.h"
#include "lib/sqfs/src/block_processor/internal.h"

#define BLK_DATA 8
#define KIND_NONE 0
#define KIND_DATA 1
#define KIND_MANUAL 2
#define KIND_FRAGBLK 3

#ifndef K0
#define K0 KIND_DATA
#endif
#ifndef K1
#define K1 KIND_NONE
#endif
#ifndef IQ
#define IQ 0
#endif
#ifndef FPOS
#define FPOS 0
#endif
#define NPOOL ((K0 != KIND_NONE) + (K1 != KIND_NONE))
#define HASF ((K0 == KIND_FRAGBLK) + (K1 == KIND_FRAGBLK))

typedef struct {
	sqfs_block_t b;
	sqfs_u8 data[BLK_DATA];
} c02_blk_t;

static c02_blk_t g_p0, g_p1;		/* inside the pool, submission order */
static c02_blk_t g_i0, g_i1;		/* waiting in io_queue */
static c02_blk_t g_cur, g_frag;		/* blk_current / frag_block */
static size_t g_next;			/* pool blocks handed back so far */
static sqfs_block_t *g_handed[2];
static sqfs_u32 g_seq_at_handback[2];	/* proc->io_seq_num when handed back */
static unsigned g_writes;
static const sqfs_block_t *g_written[6];
static sqfs_u32 g_write_seq[6];
static int g_write_failed;
static sqfs_block_processor_t g_proc;
static thread_pool_t g_tp;
static sqfs_block_writer_t g_wr;

static c02_blk_t *PB(size_t i) { return i == 0 ? &g_p0 : &g_p1; }
static c02_blk_t *IB(size_t i) { return i == 0 ? &g_i0 : &g_i1; }
static int KIND(size_t i) { return i == 0 ? K0 : K1; }

static void *stub_dequeue(thread_pool_t *pool)
{
	sqfs_block_t *blk;

	VERIF_ASSERT(pool == &g_tp, "C02.io.pool_pre");
	if (g_next >= NPOOL)
		return NULL;
	blk = &PB(g_next)->b;
	g_handed[g_next] = blk;
	g_seq_at_handback[g_next] = g_proc.io_seq_num;
	g_next += 1;
	return blk;
}

static int stub_get_status(thread_pool_t *pool)
{
	VERIF_ASSERT(pool == &g_tp, "C02.io.pool_pre");
	return 0;
}

static int stub_write_data_block(sqfs_block_writer_t *wr, void *user,
				 sqfs_u32 size, sqfs_u32 checksum,
				 sqfs_u32 flags, const sqfs_u8 *data,
				 sqfs_u64 *location)
{
	int err = verif_nd_int("write_err");
	const sqfs_block_t *blk = (const sqfs_block_t *)
		((const char *)data - offsetof(sqfs_block_t, data));

	(void)user; (void)checksum; (void)flags;
	VERIF_ASSERT(wr == &g_wr && size <= BLK_DATA, "C02.io.writer_pre");
	VERIF_ASSUME(err <= 0);
	if (g_writes < 6) {
		g_written[g_writes] = blk;
		g_write_seq[g_writes] = blk->io_seq_num;
	}
	g_writes += 1;
	if (err != 0)
		g_write_failed = 1;
	*location = verif_nd_u64("location");
	return err;
}

/* call sites of backend.c this scenario never reaches */
static int stub_unreach_submit(thread_pool_t *pool, void *ptr)
{
	(void)pool; (void)ptr;
	VERIF_ASSERT(0, "C02.io.unreachable");
	return -1;
}

static void c02_block(c02_blk_t *w, int kind)
{
	w->b.next = NULL;
	w->b.inode = NULL;
	w->b.io_seq_num = verif_nd_u32("blk.io_seq_num");
	w->b.flags = kind == KIND_FRAGBLK ? SQFS_BLK_FRAGMENT_BLOCK :
		     kind == KIND_MANUAL ? BLK_FLAG_MANUAL_SUBMISSION : 0;
	w->b.size = verif_nd_u32("blk.size");
	VERIF_ASSUME(w->b.size <= BLK_DATA);
	w->b.checksum = verif_nd_u32("blk.checksum");
	w->b.index = verif_nd_u32("blk.index");
	w->b.user = NULL;
}

/* arbitrary BP-INV state of the given shape; returns deq0 */
static sqfs_u32 c02_build(void)
{
	sqfs_block_processor_t *proc = &g_proc;
	sqfs_u32 deq0 = verif_nd_u32("io_deq_seq_num");
	bool has_cur = verif_nd_bool("has_cur"), has_frag = verif_nd_bool("has_frag");
	unsigned j, qi = 0;

	VERIF_ASSUME(deq0 < 0xFFFFFF00u);
	c02_block(&g_p0, K0);
	c02_block(&g_p1, K1);
	c02_block(&g_i0, KIND_DATA);
	c02_block(&g_i1, KIND_DATA);
	c02_block(&g_cur, KIND_DATA);
	c02_block(&g_frag, KIND_FRAGBLK);

	/* outstanding numbers deq0 .. deq0 + IQ + HASF - 1 */
	for (j = 0; j < IQ + HASF; ++j) {
		if (HASF && j == FPOS) {
			if (K0 == KIND_FRAGBLK)
				g_p0.b.io_seq_num = deq0 + j;
			else
				g_p1.b.io_seq_num = deq0 + j;
		} else {
			IB(qi)->b.io_seq_num = deq0 + j;
			qi += 1;
		}
	}
	g_i0.b.next = IQ > 1 ? &g_i1.b : NULL;
	proc->io_queue = IQ > 0 ? &g_i0.b : NULL;
	proc->io_deq_seq_num = deq0;
	proc->io_seq_num = deq0 + IQ + HASF;

	g_tp.dequeue = stub_dequeue;
	g_tp.get_status = stub_get_status;
	g_tp.submit = stub_unreach_submit;
	g_wr.write_data_block = stub_write_data_block;
	proc->frag_tbl = NULL;
	proc->frag_block = has_frag ? &g_frag.b : NULL;
	proc->blk_current = has_cur ? &g_cur.b : NULL;
	proc->wr = &g_wr;
	proc->free_list = NULL;
	proc->max_block_size = BLK_DATA;
	proc->max_backlog = 10;
	proc->backlog = NPOOL + IQ + (has_cur ? 1 : 0) + (has_frag ? 1 : 0);
	proc->pool = &g_tp;
	proc->fblk_in_flight = NULL;
	proc->file = NULL;
	proc->uncmp = NULL;
	proc->stats.output_bytes_generated = verif_nd_u64("stats");
	proc->stats.data_block_count = verif_nd_u64("stats");
	proc->stats.frag_block_count = verif_nd_u64("stats");
	proc->stats.sparse_block_count = verif_nd_u64("stats");
	VERIF_ASSUME(proc->stats.output_bytes_generated < (1ULL << 60) &&
		     proc->stats.data_block_count < (1ULL << 60) &&
		     proc->stats.frag_block_count < (1ULL << 60) &&
		     proc->stats.sparse_block_count < (1ULL << 60));
	return deq0;
}

#endif /* C02_BP2_ENV_H */
