/* C02 supporting STATIC fact - reported as `static`, not as a proof.
 * The driver case computes STATIC_OK / STATIC_HITS / STATIC_FILES by running
 * harness/C02/static_scan.py over $VERIF_REPO (see there for method and
 * limits): no function in any translation unit linked into the packers calls
 * or takes the address of time/gettimeofday/clock_gettime/localtime/strftime/
 * rand/getpid/getenv/setlocale/umask/getcwd/..., except
 * getenv("SOURCE_DATE_EPOCH") in get_source_date_epoch().
 * CBMC only carries the verdict into the common report format here.
 *   C02.static.no_ambient_inputs
 */
#include "verif.h"

#ifdef STATIC_SCAN_ERROR
#error "static scan could not compile every translation unit (undecided)"
#endif

void harness(void)
{
	unsigned files = STATIC_FILES, hits = STATIC_HITS;

	VERIF_COVER(files > 50);
	VERIF_ASSERT(STATIC_OK && hits == 0, "C02.static.no_ambient_inputs");
}
