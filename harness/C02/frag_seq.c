/* C02.io.seq, fragment side: process_completed_fragment() (backend.c), the
 * function the main thread runs when a tail-end fragment comes back from the
 * pool. A fragment block is given its I/O sequence number when it OVERFLOWS
 * and is enqueued - an event in the main thread's hand-back sequence - never
 * when a worker completes it, and a fragment itself never gets a number.
 *
 * Case parameters: HASFB (a fragment block is being filled), DEDUP (fragment
 * deduplication lookup enabled), FTBL (fragment table present).
 * Callee contracts: hash table search returns NULL or an entry holding a
 * chunk; insert returns an entry or NULL; sqfs_frag_table_append returns any
 * status and an index; enqueue_block records its argument and returns any
 * status.
 *
 *   C02.io.seq.frag_overflow   overflow (old size + fragment size >
 *        max_block_size): the OLD fragment block gets io_seq_num = the
 *        counter's value, the counter advances by one, and enqueue_block() is
 *        called with it exactly once, after the numbering; otherwise the
 *        counter does not move and nothing is enqueued
 *   C02.io.seq.frag_unnumbered the fragment that came back keeps the
 *        io_seq_num field it had; io_deq_seq_num and io_queue are untouched
 */
#include <stdlib.h>
#include <string.h>
#include "bp2_env.h"

#ifndef HASFB
#define HASFB 1
#endif
#ifndef DEDUP
#define DEDUP 0
#endif
#ifndef FTBL
#define FTBL 0
#endif

static unsigned g_enq_calls;
static sqfs_block_t *g_enq_blk;
static sqfs_u32 g_enq_seq;		/* its io_seq_num at the call */
static sqfs_u32 g_counter_at_enq;
static chunk_info_t g_chunk;
static struct hash_entry g_entry;
static sqfs_inode_generic_t g_ino, *g_inop = &g_ino;

int enqueue_block(sqfs_block_processor_t *proc, sqfs_block_t *blk)
{
	int r = verif_nd_int("enqueue_status");

	VERIF_ASSERT(proc == &g_proc, "C02.io.pool_pre");
	g_enq_calls += 1;
	g_enq_blk = blk;
	g_enq_seq = blk->io_seq_num;
	g_counter_at_enq = proc->io_seq_num;
	VERIF_ASSUME(r <= 0);
	return r;
}

struct hash_entry *hash_table_search_pre_hashed(struct hash_table *ht, sqfs_u32 hash,
						const void *key)
{
	(void)ht; (void)hash; (void)key;
	if (verif_nd_bool("dedup_hit")) {
		g_chunk.index = verif_nd_u32("chunk.index");
		g_chunk.offset = verif_nd_u32("chunk.offset");
		g_entry.data = &g_chunk;
		return &g_entry;
	}
	return NULL;
}

struct hash_entry *hash_table_insert_pre_hashed(struct hash_table *ht, sqfs_u32 hash,
						const void *key, void *data)
{
	(void)ht; (void)hash; (void)key; (void)data;
	return verif_nd_bool("insert_ok") ? &g_entry : NULL;
}

int sqfs_frag_table_append(sqfs_frag_table_t *tbl, sqfs_u64 location,
			   sqfs_u32 size, sqfs_u32 *index)
{
	int r = verif_nd_int("append_status");

	(void)tbl; (void)location; (void)size;
	VERIF_ASSUME(r <= 0);
	*index = verif_nd_u32("frag_index");
	return r;
}

int sqfs_inode_set_frag_location(sqfs_inode_generic_t *inode, sqfs_u32 index,
				 sqfs_u32 offset)
{
	(void)inode; (void)index; (void)offset;
	return 0;
}

int sqfs_inode_make_extended(sqfs_inode_generic_t *inode)
{
	(void)inode;
	return 0;
}

#include "lib/sqfs/src/block_processor/backend.c"

void harness(void)
{
	sqfs_block_processor_t *proc = &g_proc;
	sqfs_u32 deq0 = c02_build(), seq0 = proc->io_seq_num;
	sqfs_block_t *frag = &g_p0.b, *fb = HASFB ? &g_frag.b : NULL;
	sqfs_block_t *ioq0 = proc->io_queue;
	sqfs_u32 frag_num = frag->io_seq_num, fb_num = g_frag.b.io_seq_num;
	sqfs_u32 fb_size = g_frag.b.size, fr_size;
	int overflow, ret;

	frag->flags = SQFS_BLK_IS_FRAGMENT | (DEDUP ? 0 : SQFS_BLK_DONT_DEDUPLICATE);
	frag->inode = verif_nd_bool("has_inode") ? &g_inop : NULL;
	fr_size = frag->size;
	proc->frag_block = fb;
	proc->frag_tbl = FTBL ? (sqfs_frag_table_t *)&g_chunk : NULL;
	proc->frag_ht = (struct hash_table *)&g_entry;
	overflow = HASFB && (size_t)fb_size + fr_size > proc->max_block_size;

	ret = process_completed_fragment(proc, frag);

	if (g_enq_calls > 0) {
		VERIF_ASSERT(overflow && g_enq_calls == 1 && g_enq_blk == fb,
			     "C02.io.seq.frag_overflow");
		VERIF_ASSERT(g_enq_seq == seq0 && g_counter_at_enq == seq0 + 1,
			     "C02.io.seq.frag_overflow");
		VERIF_ASSERT(proc->io_seq_num == seq0 + 1, "C02.io.seq.frag_overflow");
		VERIF_ASSERT(proc->frag_block != fb, "C02.io.seq.frag_overflow");
	} else {
		VERIF_ASSERT(proc->io_seq_num == seq0, "C02.io.seq.frag_overflow");
		if (HASFB)
			VERIF_ASSERT(g_frag.b.io_seq_num == fb_num,
				     "C02.io.seq.frag_overflow");
		/* it is only skipped when the fragment was deduplicated away */
		if (overflow)
			VERIF_ASSERT(DEDUP && ret == 0 && proc->frag_block == fb,
				     "C02.io.seq.frag_overflow");
	}
	VERIF_ASSERT(frag->io_seq_num == frag_num, "C02.io.seq.frag_unnumbered");
	VERIF_ASSERT(proc->io_deq_seq_num == deq0 && proc->io_queue == ioq0,
		     "C02.io.seq.frag_unnumbered");

#if HASFB
	VERIF_COVER(g_enq_calls == 1 && ret == 0);
	VERIF_COVER(g_enq_calls == 0 && ret == 0 && proc->frag_block == fb &&
		    g_frag.b.size == fb_size + fr_size && fr_size > 0);
#else
	VERIF_COVER(ret == 0 && proc->frag_block == frag);
#endif
#if DEDUP
	VERIF_COVER(ret == 0 && proc->frag_block == fb && g_frag.b.size == fb_size);
#endif
}
