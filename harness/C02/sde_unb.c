/* C02 environment: get_source_date_epoch() (lib/util/src/source_date_epoch.c),
 * the ONLY place where the packers read the process environment (static fact
 * C02.static.no_ambient_inputs).
 *   C02.env.sde_only      getenv() is called exactly once, with the literal
 *                         name SOURCE_DATE_EPOCH
 *   C02.env.sde_function  the result is a function of that one string: the
 *                         decimal value if it is all digits and fits 32 bit,
 *                         otherwise 0 - compared with an independent spec
 *                         for EVERY string of length <= LEN (default 255) over
 *                         the full byte alphabet: the digit loop is closed by
 *                         its loop contract (tval == spec value of the
 *                         consumed prefix, table g_sde_pv/g_sde_ok filled by
 *                         the harness from the property text), no unwinding
 *                         of the real loop
 * isdigit: glibc table lookup against a model of the "C" locale table;
 * fprintf (the two warnings): no effect.
 */
#include <stdlib.h>
#include <stdio.h>
#include <string.h>
#include "verif.h"

#ifndef LEN
#define LEN 255
#endif

/* ghosts of the loop contract (contracts/loops/C02.tbl) */
const char *g_sde_base;          /* start of the value string */
size_t g_sde_L;                  /* index of its first NUL */
unsigned long long g_sde_pv[LEN + 2]; /* spec: value of the first i bytes */
unsigned char g_sde_ok[LEN + 2];      /* spec: first i bytes are digits and fit */

char g_val[LEN + 1];
int g_present;
unsigned g_getenv_calls, g_name_ok;

static char *stub_getenv(const char *name)
{
	static const char want[] = "SOURCE_DATE_EPOCH";
	size_t i;
	int eq = 1;

	g_getenv_calls += 1;
	for (i = 0; i < sizeof(want); ++i) {
		if (name[i] != want[i]) {
			eq = 0;
			break;
		}
	}
	g_name_ok = eq;
	return g_present ? g_val : NULL;
}

static int stub_fprintf(FILE *fp, const char *fmt, ...)
{
	(void)fp; (void)fmt;
	return 0;
}

/* glibc's isdigit() is a table lookup through __ctype_b_loc(); model of the
 * "C" locale table: only '0'..'9' carry _ISdigit (trusted libc contract) */
#include <ctype.h>
#define D(c) [128 + (c)] = (unsigned short)_ISdigit
const unsigned short g_ctype_tab[384] = {
	D('0'), D('1'), D('2'), D('3'), D('4'), D('5'), D('6'), D('7'), D('8'), D('9')
};
#undef D
const unsigned short *g_ctype_ptr = &g_ctype_tab[128];
const unsigned short **__ctype_b_loc(void)
{
	return &g_ctype_ptr;   /* loop-free: called inside the contracted loop */
}

#define getenv stub_getenv
#define fprintf stub_fprintf
#include "lib/util/src/source_date_epoch.c"
#undef getenv
#undef fprintf


void harness(void)
{
	sqfs_u32 got, want;
	size_t i, L = verif_nd_size("L");
	unsigned long long v = 0;
	unsigned char ok = 1;

	/* loop-contract instrumentation leaves non-const statics nondet:
	 * initialise every global the run depends on explicitly */
	g_getenv_calls = 0;
	g_name_ok = 0;
	g_ctype_ptr = &g_ctype_tab[128];
	g_present = verif_nd_bool("present");
	VERIF_ASSUME(L <= LEN);
	verif_nd_bytes(g_val, LEN, "value");
#ifdef VERIF_REPLAY
	for (i = 0; i < L; ++i)
		VERIF_ASSUME(g_val[i] != 0);
#else
	__CPROVER_assume(__CPROVER_forall { size_t k; (k < LEN) ==>
			 (k < L ==> g_val[k] != 0) });
#endif
	g_val[L] = '\0';

	/* independent spec, as a table over the prefixes: value of an all-digit
	 * prefix that fits 32 bit */
	g_sde_pv[0] = 0;
	g_sde_ok[0] = 1;
	for (i = 0; i < LEN; ++i) {
		if (g_val[i] < '0' || g_val[i] > '9')
			ok = 0;
		if (ok) {
			v = v * 10 + (unsigned)(g_val[i] - '0');
			if (v > 0xFFFFFFFFULL)
				ok = 0;
		}
		if (!ok)
			v = 0;
		g_sde_pv[i + 1] = v;
		g_sde_ok[i + 1] = ok;
	}
	g_sde_base = g_val;
	g_sde_L = L;

	got = get_source_date_epoch();
	want = (g_present && L > 0 && g_sde_ok[L]) ? (sqfs_u32)g_sde_pv[L] : 0;

	VERIF_ASSERT(g_getenv_calls == 1 && g_name_ok, "C02.env.sde_only");
	VERIF_ASSERT(got == want, "C02.env.sde_unb.function");
	VERIF_COVER(got > 1000000000u);
	VERIF_COVER(got > 0 && L > 12);
	VERIF_COVER(g_present && L > 0 && got == 0);
	VERIF_COVER(g_present && L > 12 && g_val[0] != '0' && g_sde_ok[9] && got == 0);
	VERIF_COVER(!g_present);
}
