# w21: (A) the representation-independent black-box harness of the serial pool
# is borrowed from harness/C09 (cases_extra_w21.py there) - C02's "the image
# equals the one of the serial reference implementation" stands on the serial
# pool being a FIFO / exactly-once / sticky-status pool whatever its
# representation; (B) the block processor on top of the REAL serial pool,
# concrete scenarios, C02.serial_bb.write_order.
import os as _os, sys as _sys
_sys.path.insert(0, _os.path.join(_os.path.dirname(_os.path.abspath(__file__)), "..", "..", "tools"))
from borrow import borrow as _borrow

FUNCTIONS = [
    "threadpool_serial.c through include/util/threadpool.h (black box, via harness/C09/w21_serial_bb.c)",
    "sqfs_block_processor_create_ex + submit_block / begin_file / append / end_file / finish + dequeue_block / "
    "process_completed_block / process_completed_fragment / store_io_block / process_block on the real serial pool "
    "(w21_bp_serial: concrete scenarios)",
]
TRUSTED = [
    "w21_bp_serial: sqfs_compressor_t.do_block contract (r < n or error, writes out[0..r), keeps the first byte so that a block "
    "stays identifiable), xxh32 any value, write_data_block succeeds with any location, hash table lookup finds nothing "
    "(the scenario's fragments are pairwise different), allocation succeeds",
]
ASSUMPTIONS = [
    "w21_bp_serial: bounded(3 scenarios x 2 backlog sizes x 4 settings, 8-byte blocks): 4 manual blocks; a 19-byte DONT_FRAGMENT file + manual "
    "block; two files with tail fragments (the second overflows the fragment block) interleaved with manual blocks; flag words and "
    "the compressor's verdict (incompressible / shrinks by one byte / the 2nd call fails) are CONCRETE per case - symbolic ones "
    "did not finish; block contents, checksums, locations symbolic; no inode attached, no fragment table, no allocation or writer failure",
]

HARNESSES = _borrow(__file__, "C09", ["w21_serial_blackbox", "w21_serial_blackbox_oom"]) + [
    dict(name="w21_bp_serial", file="w21_bp_serial.c",
         label="bounded(3 concrete scenarios x backlog {3,10} x 4 compressor/flag settings, block size 8)",
         timeout=900, unwind=10, unwindset=["fill.0:25"],
         nochecks=["--conversion-check"],
         flags=["--no-malloc-may-fail"],
         # leak check only where the scenario runs to the end: after a worker failure the blocks that are
         # still inside the pool are never freed by block_processor_destroy (observed with the leak check on:
         # fails in every *_fail1 case; that is C13/C19 territory, reported to the lead, not part of
         # C02.serial_bb.write_order)
         cases=[dict(id="scn%d_q%d_%s" % (s, q, cn), defines=dict({"SCN": s, "BACKLOG": q}, **cd),
                     flags=([] if "CMP_FAIL_AT" in cd else ["--memory-leak-check"]), tier="quick")
                for s in (1, 2, 3) for q in (3, 10)
                for cn, cd in (("plain", {}), ("shrink", {"CMP_SHRINK": 1, "FLG": "0x12"}),
                               ("nocmp", {"FLG": "0x0b"}), ("fail1", {"CMP_FAIL_AT": 1, "CMP_SHRINK": 1}))]),
]
