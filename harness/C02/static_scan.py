#!/usr/bin/env python3
"""
C02 supporting STATIC fact (not a proof): no function in any translation unit
that is linked into the packers (gensquashfs, tar2sqfs: their own sources plus
every library under lib/) calls, or takes the address of, a source of ambient
nondeterminism - wall clock, time zone / locale formatting, random numbers,
process ids, environment, umask, working directory - with the single
exception of getenv("SOURCE_DATE_EPOCH") in get_source_date_epoch().

Method: every .c file is compiled with goto-cc (the same front end and
preprocessor configuration the harnesses use), `goto-instrument
--show-goto-functions` lists the instructions, and the call targets /
address_of operands are matched against the list below. It is a scan of the
whole link set, i.e. a superset of what is reachable from main(), so function
pointers cannot hide a call. What it does not see: calls made inside libc or
the codec libraries, and data-dependent effects (e.g. a struct stat time that
is copied into the image - those inputs are part of "the same input").

    static_scan.py [repo]      prints a JSON report, exit 0 clean / 1 findings
"""
import concurrent.futures as cf
import json
import os
import re
import subprocess
import sys
import tempfile
import shutil

FORBIDDEN = [
    "time", "gettimeofday", "clock_gettime", "clock", "times", "ftime",
    "localtime", "localtime_r", "gmtime", "gmtime_r", "mktime", "timegm",
    "ctime", "ctime_r", "asctime", "strftime", "tzset",
    "rand", "rand_r", "random", "srand", "srandom", "drand48", "lrand48",
    "arc4random", "getrandom", "getentropy",
    "getpid", "getppid", "gettid", "getuid", "geteuid", "getlogin",
    "getenv", "secure_getenv", "setlocale", "localeconv", "nl_langinfo",
    "umask", "getcwd", "get_current_dir_name", "gethostname", "uname",
    "mkstemp", "mktemp", "tmpnam", "tmpfile",
]
ALLOWED = {("lib/util/src/source_date_epoch.c", "get_source_date_epoch", "getenv"):
           'getenv(address_of("SOURCE_DATE_EPOCH"[0]))'}

HERE = os.path.dirname(os.path.abspath(__file__))
VERIF = os.path.dirname(os.path.dirname(HERE))


def sources(repo):
    out = []
    for top in ("lib", "bin/gensquashfs", "bin/tar2sqfs"):
        for d, _, files in os.walk(os.path.join(repo, top)):
            rel = os.path.relpath(d, repo)
            if "/test" in "/" + rel or rel.endswith("/test"):
                continue
            for f in files:
                if not f.endswith(".c"):
                    continue
                p = os.path.join(rel, f)
                # not part of this build configuration (config.h): Windows
                # back ends, the LZO compressor (WITH_LZO is off)
                if "win32" in f or "w32" in f or f == "comp_lzo.c":
                    continue
                out.append(p)
    return sorted(out)


def scan_one(repo, rel, tmp):
    gb = os.path.join(tmp, re.sub(r"[^\w]", "_", rel) + ".gb")
    inc = ["-I", repo, "-I", os.path.join(repo, "include"),
           "-I", os.path.join(repo, os.path.dirname(rel)),
           "-I", os.path.join(repo, "lib/sqfs/src"),
           "-I", os.path.join(repo, "lib/sqfs/src/block_processor"),
           "-I", os.path.join(repo, "lib/tar/src"),
           "-I", os.path.join(repo, "lib/fstree/src"),
           "-I", os.path.join(repo, "lib/common/src"),
           "-I", os.path.join(repo, "bin/gensquashfs/src"),
           "-I", os.path.join(repo, "bin/tar2sqfs/src"),
           "-I", os.path.join(VERIF, "include_fallback")]
    cmd = ["goto-cc", "-c", "-o", gb, "-DHAVE_CONFIG_H", "-D_GNU_SOURCE",
           "-DWITH_GZIP", "-DWITH_XZ", "-DWITH_LZ4", "-DWITH_ZSTD", "-DWITH_BZIP2"
           ] + inc + [os.path.join(repo, rel)]
    p = subprocess.run(cmd, capture_output=True, text=True, timeout=120)
    if p.returncode != 0:
        return rel, None, (p.stderr or p.stdout)[-400:]
    p = subprocess.run(["goto-instrument", "--show-goto-functions", gb],
                       capture_output=True, text=True, timeout=120)
    if p.returncode != 0:
        return rel, None, (p.stderr or p.stdout)[-400:]
    hits = []
    cur = None
    nfun = 0
    pat = re.compile(r"(?<![\w$:.])(" + "|".join(FORBIDDEN) + r")(?=\s*\()")
    addr = re.compile(r"address_of\((" + "|".join(FORBIDDEN) + r")\)")
    for line in p.stdout.splitlines():
        m = re.match(r"^(\S+) /\* (\S+) \*/$", line)
        if m:
            cur = m.group(1)
            nfun += 1
            continue
        s = line.strip()
        if s.startswith("//") or cur is None:
            continue
        if "CALL" in s:
            body = s.split("CALL", 1)[1]
            if ":=" in body:
                body = body.split(":=", 1)[1]
            body = body.strip()
            m = pat.match(body)
            if m:
                key = (rel, cur, m.group(1))
                if key in ALLOWED and ALLOWED[key] in body:
                    continue
                hits.append({"file": rel, "function": cur, "callee": m.group(1),
                             "text": body[:160]})
        for m in addr.finditer(s):
            hits.append({"file": rel, "function": cur, "callee": m.group(1),
                         "text": "address taken: " + s[:140]})
    return rel, {"functions": nfun, "hits": hits}, None


def scan(repo, jobs=4):
    tmp = tempfile.mkdtemp(prefix="verif_C02_static_", dir="/var/tmp")
    rep = {"repo": repo, "files": 0, "functions": 0, "hits": [], "errors": [],
           "forbidden": FORBIDDEN,
           "allowed": ["getenv(\"SOURCE_DATE_EPOCH\") in get_source_date_epoch"]}
    try:
        srcs = sources(repo)
        with cf.ThreadPoolExecutor(max_workers=jobs) as ex:
            for rel, res, err in ex.map(lambda r: scan_one(repo, r, tmp), srcs):
                if res is None:
                    rep["errors"].append({"file": rel, "error": err})
                    continue
                rep["files"] += 1
                rep["functions"] += res["functions"]
                rep["hits"] += res["hits"]
    finally:
        shutil.rmtree(tmp, ignore_errors=True)
    # the allowed call must still be there and literal (else the exception
    # list is stale)
    rep["ok"] = not rep["hits"] and not rep["errors"] and rep["files"] > 50
    return rep


if __name__ == "__main__":
    r = scan(sys.argv[1] if len(sys.argv) > 1 else os.environ.get("VERIF_REPO", "/repo"))
    print(json.dumps(r, indent=1))
    sys.exit(0 if r["ok"] else 1)
