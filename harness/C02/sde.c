/* C02 environment: get_source_date_epoch() (lib/util/src/source_date_epoch.c),
 * the ONLY place where the packers read the process environment (static fact
 * C02.static.no_ambient_inputs).
 *   C02.env.sde_only      getenv() is called exactly once, with the literal
 *                         name SOURCE_DATE_EPOCH
 *   C02.env.sde_function  the result is a function of that one string: the
 *                         decimal value if it is all digits and fits 32 bit,
 *                         otherwise 0 - compared with an independent spec
 *                         (bounded: strings of length <= LEN over the full
 *                         byte alphabet)
 * isdigit: glibc table lookup against a model of the "C" locale table;
 * fprintf (the two warnings): no effect.
 */
#include <stdlib.h>
#include <stdio.h>
#include <string.h>
#include "verif.h"

#ifndef LEN
#define LEN 11
#endif

static char g_val[LEN + 1];
static int g_present;
static unsigned g_getenv_calls, g_name_ok;

static char *stub_getenv(const char *name)
{
	static const char want[] = "SOURCE_DATE_EPOCH";
	size_t i;
	int eq = 1;

	g_getenv_calls += 1;
	for (i = 0; i < sizeof(want); ++i) {
		if (name[i] != want[i]) {
			eq = 0;
			break;
		}
	}
	g_name_ok = eq;
	return g_present ? g_val : NULL;
}

static int stub_fprintf(FILE *fp, const char *fmt, ...)
{
	(void)fp; (void)fmt;
	return 0;
}

/* glibc's isdigit() is a table lookup through __ctype_b_loc(); model of the
 * "C" locale table: only '0'..'9' carry _ISdigit (trusted libc contract) */
#include <ctype.h>
static unsigned short g_ctype_tab[384];
static const unsigned short *g_ctype_ptr = &g_ctype_tab[128];
const unsigned short **__ctype_b_loc(void)
{
	int c;

	for (c = '0'; c <= '9'; ++c)
		g_ctype_tab[128 + c] = (unsigned short)_ISdigit;
	return &g_ctype_ptr;
}

#define getenv stub_getenv
#define fprintf stub_fprintf
#include "lib/util/src/source_date_epoch.c"
#undef getenv
#undef fprintf

/* independent spec: value of an all-digit string that fits, else 0 */
static sqfs_u32 spec(const char *s, int present)
{
	unsigned long long v = 0;
	size_t i;

	if (!present || s[0] == '\0')
		return 0;
	for (i = 0; i <= LEN && s[i] != '\0'; ++i) {
		if (s[i] < '0' || s[i] > '9')
			return 0;
		v = v * 10 + (unsigned)(s[i] - '0');
		if (v > 0xFFFFFFFFULL)
			return 0;
	}
	return (sqfs_u32)v;
}

void harness(void)
{
	sqfs_u32 got, want;

	g_present = verif_nd_bool("present");
	verif_nd_bytes(g_val, LEN, "value");
	g_val[LEN] = '\0';

	got = get_source_date_epoch();
	want = spec(g_val, g_present);

	VERIF_ASSERT(g_getenv_calls == 1 && g_name_ok, "C02.env.sde_only");
	VERIF_ASSERT(got == want, "C02.env.sde_function");
	VERIF_COVER(got > 1000000000u);
	VERIF_COVER(g_present && g_val[0] != '\0' && got == 0);
	VERIF_COVER(!g_present);
}
