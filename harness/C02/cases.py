import collections.abc
import json
import os
import sys

PROPERTY = "C02"
LEVEL = "model_checking"
FUNCTIONS = [
    "process_block", "dequeue_block", "store_io_block", "process_completed_block",
    "process_completed_fragment", "release_old_block", "sqfs_block_processor_sync",
    "sqfs_block_processor_finish", "get_new_block", "enqueue_block", "get_source_date_epoch",
    "threadpool_serial.c: submit", "threadpool_serial.c: dequeue", "threadpool_serial.c: get_status",
]
TRUSTED = [
    "thread_pool_t as seen by the block processor: the abstract FIFO / exactly-once / sticky-status contract; that threadpool.c "
    "and threadpool_serial.c both meet it is C09 (monitor proof) and C02.serial_equiv (harness/C02/bp2_env.h)",
    "sqfs_compressor_t.do_block: writes only out[0..r), r <= outsize, and is deterministic (same input, same result); "
    "xxh32: a function of the bytes it is given",
    "sqfs_block_writer_t.write_data_block: any result <= 0; hash table search/insert, sqfs_frag_table_append, "
    "sqfs_inode_* helpers: any result (contracts in frag_seq.c)",
    "glibc isdigit(): table lookup, modelled with the \"C\" locale table; getenv(): returns NULL or any string; fprintf: no effect",
    "static_scan.py: goto-cc front end + goto-instrument --show-goto-functions list every call and address-taken function of a translation unit",
]
ASSUMPTIONS = [
    "NOT decided: real thread schedules (see C09), determinism of the codec libraries themselves, umask/locale effects inside libc, "
    "the kernel; the composition of the per-function obligations into 'byte-identical image' is the rely/guarantee argument in "
    "EXPLANATION, not a single machine-checked theorem",
    "C02.static.no_ambient_inputs is a STATIC scan of the packers' whole link set (call targets and address-taken functions per "
    "translation unit), reported with label static(...), not a proof: it does not see calls inside libc / codec libraries nor "
    "data that is itself an input (file times, ids from stat)",
    "bounded: blocks of <= 8 bytes (typed wrappers), <= 2 blocks inside the pool and <= 2 in io_queue per dequeue_block call with the "
    "block kinds (data / manual / fragment block) as case parameters, io_queue <= 3 for store_io_block, <= 2 drain calls in "
    "get_new_block, SOURCE_DATE_EPOCH strings of <= 11 bytes in the unwound harness (the loop-contract harness source_date_epoch_unb covers every string <= 63 quick / <= 255 thorough); sequence numbers, sizes, flags outside the kind bits, data symbolic",
    "io sequence counters do not wrap (fewer than 2^32 - 256 blocks per image)",
    "dequeue_block is used through its contract in finish/sync/get_new_block (fails, or takes back at least one block and is the "
    "only function that numbers data blocks) - established by io_order.c for the bounded shapes",
    "block writer, deduplication, fragment table contents, post_process.c (inode numbering) are other properties' business "
    "(C08, C03, C11); os_get_num_jobs/sqfs_writer_cfg_init are covered only by the static scan and the fact that num_workers "
    "is passed to thread_pool_create alone",
]
EXPLANATION = ("rely/guarantee: (1) worker side - process_block writes only its block and its own scratch (DFCC assigns) and its result "
               "is a function of the block and the compressor contract, whoever runs it; (2) main side, against the abstract FIFO "
               "pool contract shared by both pool implementations (C09, C02.serial_equiv) - I/O sequence numbers are handed out on "
               "the main thread in hand-back order (data blocks, manual submissions) or at the overflow / finish event (fragment "
               "blocks), never at completion; store_io_block keeps io_queue sorted and dequeue_block writes block k only when "
               "io_deq_seq_num = k, so the write sequence is 0,1,2,... - a function of the submission order alone; (3) the "
               "backlog only decides when dequeue_block runs (get_new_block, sync), never what it numbers; (4) the only "
               "environment input is SOURCE_DATE_EPOCH (static scan + harness)")

_HERE = os.path.dirname(os.path.abspath(__file__))
_REPO = os.environ.get("VERIF_REPO", "/repo")


class _StaticDefs(collections.abc.Mapping):
    """-D values of the static fact, computed only when that job is built."""
    _cache = None

    def _get(self):
        if _StaticDefs._cache is None:
            sys.path.insert(0, _HERE)
            import static_scan
            rep = static_scan.scan(_REPO)
            if _REPO == "/repo":
                try:
                    with open(os.path.join(_HERE, "static_report.json"), "w") as fp:
                        json.dump(rep, fp, indent=1)
                except OSError:
                    pass
            d = {"STATIC_OK": 1 if rep["ok"] else 0, "STATIC_HITS": len(rep["hits"]),
                 "STATIC_FILES": rep["files"]}
            if rep["errors"]:
                d["STATIC_SCAN_ERROR"] = 1
            for h in rep["hits"][:10]:
                sys.stderr.write("  static scan: %(file)s %(function)s -> %(text)s\n" % h)
            for e in rep["errors"][:5]:
                sys.stderr.write("  static scan: cannot compile %(file)s\n" % e)
            _StaticDefs._cache = d
        return _StaticDefs._cache

    def __getitem__(self, k):
        return self._get()[k]

    def __iter__(self):
        return iter(self._get())

    def __len__(self):
        return len(self._get())


BP_FP = {"do_block": "stub_do_block", "read_at": "stub_unreach_read_at",
         "destroy": "stub_unreach_destroy", "copy": "stub_unreach_copy",
         "get_worker_count": "stub_unreach_get_worker_count",
         "set_worker_ptr": "stub_unreach_set_worker_ptr"}

IO_FP = {"dequeue": "stub_dequeue", "get_status": "stub_get_status",
         "write_data_block": "stub_write_data_block", "submit": "stub_unreach_submit"}


def _io_cases():
    # (kinds in the pool, blocks waiting in io_queue, position of the
    # fragment block's number among the outstanding ones)
    shapes = [("d", 0, 0), ("dd", 0, 0), ("m", 0, 0), ("md", 0, 0), ("", 0, 0),
              ("f", 0, 0), ("f", 1, 0), ("f", 2, 0), ("f", 2, 1),
              ("df", 1, 0), ("df", 2, 0), ("fd", 1, 0), ("fd", 2, 1), ("mf", 1, 0),
              ("d", 1, 0), ("dd", 2, 0)]
    km = {"d": 1, "m": 2, "f": 3}
    out = []
    for kinds, iq, fpos in shapes:
        k = [km[c] for c in kinds] + [0, 0]
        if "f" not in kinds and iq > 0:
            # without a fragment block in flight a waiting block would carry
            # io_deq_seq_num: allowed, it is flushed first
            pass
        out.append(dict(id="%s_q%d_f%d" % (kinds or "none", iq, fpos),
                        defines={"K0": k[0], "K1": k[1], "IQ": iq, "FPOS": fpos},
                        tier="quick"))
    return out


HARNESSES = [
    dict(name="static_fact", file="static_fact.c", label="static(call scan of the packers' link set)",
         timeout=600, native=False, cases=[dict(id="scan", defines=_StaticDefs(), tier="quick")]),
    dict(name="worker_frame", file="process_block.c", label="bounded(block size <= 8)",
         mode="dfcc", enforce="cs_process_block", native=False, fp=BP_FP, unwind=10,
         timeout=600, cases=[dict(id="bs8", defines={"BS": 8, "WORKER_FRAME": None}, tier="quick"),
                            dict(id="bs16", defines={"BS": 16, "WORKER_FRAME": None}, unwind=18,
                                 label="bounded(block size <= 16)", tier="thorough")]),
    dict(name="worker_deterministic", file="process_block.c", label="bounded(block size <= 8)",
         fp=BP_FP, unwind=10, timeout=600,
         cases=[dict(id="bs8", defines={"BS": 8}, tier="quick"),
                dict(id="bs16", defines={"BS": 16}, unwind=18, label="bounded(block size <= 16)",
                     tier="thorough")]),
    dict(name="io_order", file="io_order.c", label="bounded(blocks in pool <= 2, io_queue <= 2)",
         fp=IO_FP, unwind=8, timeout=600, nochecks=["--conversion-check"],
         cases=_io_cases()),
    dict(name="store_io_block", file="store_io_block.c", label="bounded(io_queue <= 3)",
         fp={"*": "harness"}, unwind=7, timeout=600,
         cases=[dict(id="q3", defines={"QL": 3}, tier="quick"),
                dict(id="q4", defines={"QL": 4}, unwind=8, label="bounded(io_queue <= 4)", tier="thorough")]),
    dict(name="frag_seq", file="frag_seq.c", label="bounded(block size <= 8)",
         fp={"*": "harness"}, unwind=10, timeout=600, nochecks=["--conversion-check"],
         cases=[dict(id="fb%d_dd%d_ft%d" % (a, b, c), tier="quick",
                     defines={"HASFB": a, "DEDUP": b, "FTBL": c, "K0": 1, "K1": 0, "IQ": 1})
                for a in (0, 1) for b in (0, 1) for c in (0, 1)]),
    dict(name="finish_seq", file="finish_seq.c", label="bounded(blocks in pipeline <= 2)",
         fp={"*": "stub_unreach"}, unwind=6, timeout=600,
         cases=[dict(id="finish", defines={"NBACK": 2}, tier="quick"),
                dict(id="sync", defines={"NBACK": 2, "OP_SYNC": None}, tier="quick")]),
    dict(name="get_new_block", file="frontend_seq.c", label="bounded(drain calls <= 2)",
         fp={"submit": "stub_submit", "get_status": "stub_get_status"}, unwind=4,
         malloc_fail=True, timeout=600, cases=[dict(id="default", tier="quick")]),
    dict(name="enqueue_block", file="frontend_seq.c", label="bounded(no fragment-block copy path: file/uncmp absent)",
         fp={"submit": "stub_submit", "get_status": "stub_get_status"},
         defines={"OP_ENQUEUE": None}, unwind=4, timeout=600,
         cases=[dict(id="default", tier="quick")]),
    dict(name="source_date_epoch", file="sde.c", label="bounded(len<=11)",
         unwind=20, timeout=600, nochecks=["--conversion-check"], solver="cadical",
         cases=[dict(id="len11", defines={"LEN": 11}, tier="quick"),
                dict(id="len13", defines={"LEN": 13}, unwind=22, label="bounded(len<=13)", tier="thorough")]),
    dict(name="source_date_epoch_unb", file="sde_unb.c", label="proved",
         loops=["get_source_date_epoch"], timeout=900,
         nochecks=["--conversion-check"], solver="cadical",
         cases=[dict(id="n63", defines={"LEN": 63}, tier="quick"),
                dict(id="n255", defines={"LEN": 255}, tier="thorough")]),
    dict(name="serial_equiv_submit", file="serial_equiv.c", label="bounded(list nodes <= 3)",
         timeout=600, malloc_fail=True, defines={"OP_SUBMIT": None},
         cases=[dict(id="k3", defines={"KQ": 3, "KR": 2}, unwind=7, tier="quick")]),
    dict(name="serial_equiv_dequeue", file="serial_equiv.c", label="bounded(list nodes <= 3)",
         timeout=600, fp={"fun": "stub_fun"}, defines={"OP_DEQUEUE": None},
         cases=[dict(id="k3", defines={"KQ": 3, "KR": 2}, unwind=7, tier="quick")]),
    dict(name="enqueue_copy", file="enqueue_copy.c", label="bounded(block size <= 8)",
         fp={"submit": "stub_submit", "get_status": "stub_get_status"}, unwind=10,
         timeout=600, cases=[dict(id="default", tier="quick")]),
]
