import collections.abc
import json
import os
import sys

PROPERTY = "C02"
LEVEL = "model_checking"
FUNCTIONS = ["process_block"]
TRUSTED = []
ASSUMPTIONS = []
EXPLANATION = ""

_HERE = os.path.dirname(os.path.abspath(__file__))
_REPO = os.environ.get("VERIF_REPO", "/repo")


class _StaticDefs(collections.abc.Mapping):
    """-D values of the static fact, computed only when that job is built."""
    _cache = None

    def _get(self):
        if _StaticDefs._cache is None:
            sys.path.insert(0, _HERE)
            import static_scan
            rep = static_scan.scan(_REPO)
            if _REPO == "/repo":
                try:
                    with open(os.path.join(_HERE, "static_report.json"), "w") as fp:
                        json.dump(rep, fp, indent=1)
                except OSError:
                    pass
            d = {"STATIC_OK": 1 if rep["ok"] else 0, "STATIC_HITS": len(rep["hits"]),
                 "STATIC_FILES": rep["files"]}
            if rep["errors"]:
                d["STATIC_SCAN_ERROR"] = 1
            for h in rep["hits"][:10]:
                sys.stderr.write("  static scan: %(file)s %(function)s -> %(text)s\n" % h)
            for e in rep["errors"][:5]:
                sys.stderr.write("  static scan: cannot compile %(file)s\n" % e)
            _StaticDefs._cache = d
        return _StaticDefs._cache

    def __getitem__(self, k):
        return self._get()[k]

    def __iter__(self):
        return iter(self._get())

    def __len__(self):
        return len(self._get())


BP_FP = {"do_block": "stub_do_block", "read_at": "stub_unreach_read_at",
         "destroy": "stub_unreach_destroy", "copy": "stub_unreach_copy",
         "get_worker_count": "stub_unreach_get_worker_count",
         "set_worker_ptr": "stub_unreach_set_worker_ptr"}

IO_FP = {"dequeue": "stub_dequeue", "get_status": "stub_get_status",
         "write_data_block": "stub_write_data_block"}


def _io_cases():
    # (kinds in the pool, blocks waiting in io_queue, position of the
    # fragment block's number among the outstanding ones)
    shapes = [("d", 0, 0), ("dd", 0, 0), ("m", 0, 0), ("md", 0, 0), ("", 0, 0),
              ("f", 0, 0), ("f", 1, 0), ("f", 2, 0), ("f", 2, 1),
              ("df", 1, 0), ("df", 2, 0), ("fd", 1, 0), ("fd", 2, 1), ("mf", 1, 0),
              ("d", 1, 0), ("dd", 2, 0)]
    km = {"d": 1, "m": 2, "f": 3}
    out = []
    for kinds, iq, fpos in shapes:
        k = [km[c] for c in kinds] + [0, 0]
        if "f" not in kinds and iq > 0:
            # without a fragment block in flight a waiting block would carry
            # io_deq_seq_num: allowed, it is flushed first
            pass
        out.append(dict(id="%s_q%d_f%d" % (kinds or "none", iq, fpos),
                        defines={"K0": k[0], "K1": k[1], "IQ": iq, "FPOS": fpos},
                        tier="quick"))
    return out


HARNESSES = [
    dict(name="static_fact", file="static_fact.c", label="static(call scan of the packers' link set)",
         timeout=600, native=False, cases=[dict(id="scan", defines=_StaticDefs(), tier="quick")]),
    dict(name="worker_frame", file="process_block.c", label="bounded(block size <= 8)",
         mode="dfcc", enforce="cs_process_block", native=False, fp=BP_FP, unwind=10,
         timeout=600, cases=[dict(id="bs8", defines={"BS": 8, "WORKER_FRAME": None}, tier="quick")]),
    dict(name="worker_deterministic", file="process_block.c", label="bounded(block size <= 8)",
         fp=BP_FP, unwind=10, timeout=600,
         cases=[dict(id="bs8", defines={"BS": 8}, tier="quick")]),
    dict(name="io_order", file="io_order.c", label="bounded(blocks in pool <= 2, io_queue <= 2)",
         fp=IO_FP, unwind=8, timeout=600, nochecks=["--conversion-check"],
         cases=_io_cases()),
    dict(name="store_io_block", file="store_io_block.c", label="bounded(io_queue <= 3)",
         fp={"*": "harness"}, unwind=7, timeout=600,
         cases=[dict(id="q3", defines={"QL": 3}, tier="quick")]),
    dict(name="frag_seq", file="frag_seq.c", label="bounded(block size <= 8)",
         fp={"*": "harness"}, unwind=10, timeout=600, nochecks=["--conversion-check"],
         cases=[dict(id="fb%d_dd%d_ft%d" % (a, b, c), tier="quick",
                     defines={"HASFB": a, "DEDUP": b, "FTBL": c, "K0": 1, "K1": 0, "IQ": 1})
                for a in (0, 1) for b in (0, 1) for c in (0, 1)]),
    dict(name="finish_seq", file="finish_seq.c", label="bounded(blocks in pipeline <= 2)",
         fp={"*": "stub_unreach"}, unwind=6, timeout=600,
         cases=[dict(id="finish", defines={"NBACK": 2}, tier="quick"),
                dict(id="sync", defines={"NBACK": 2, "OP_SYNC": None}, tier="quick")]),
    dict(name="get_new_block", file="frontend_seq.c", label="bounded(drain calls <= 2)",
         fp={"submit": "stub_submit", "get_status": "stub_get_status"}, unwind=4,
         malloc_fail=True, timeout=600, cases=[dict(id="default", tier="quick")]),
    dict(name="enqueue_block", file="frontend_seq.c", label="bounded(no fragment-block copy path: file/uncmp absent)",
         fp={"submit": "stub_submit", "get_status": "stub_get_status"},
         defines={"OP_ENQUEUE": None}, unwind=4, timeout=600,
         cases=[dict(id="default", tier="quick")]),
    dict(name="source_date_epoch", file="sde.c", label="bounded(len<=11)",
         unwind=20, timeout=600, nochecks=["--conversion-check"],
         cases=[dict(id="len11", defines={"LEN": 11}, tier="quick")]),
]
