import collections.abc
import json
import os
import sys

PROPERTY = "C02"
LEVEL = "model_checking"
FUNCTIONS = ["process_block"]
TRUSTED = []
ASSUMPTIONS = []
EXPLANATION = ""

_HERE = os.path.dirname(os.path.abspath(__file__))
_REPO = os.environ.get("VERIF_REPO", "/repo")


class _StaticDefs(collections.abc.Mapping):
    """-D values of the static fact, computed only when that job is built."""
    _cache = None

    def _get(self):
        if _StaticDefs._cache is None:
            sys.path.insert(0, _HERE)
            import static_scan
            rep = static_scan.scan(_REPO)
            if _REPO == "/repo":
                try:
                    with open(os.path.join(_HERE, "static_report.json"), "w") as fp:
                        json.dump(rep, fp, indent=1)
                except OSError:
                    pass
            d = {"STATIC_OK": 1 if rep["ok"] else 0, "STATIC_HITS": len(rep["hits"]),
                 "STATIC_FILES": rep["files"]}
            if rep["errors"]:
                d["STATIC_SCAN_ERROR"] = 1
            for h in rep["hits"][:10]:
                sys.stderr.write("  static scan: %(file)s %(function)s -> %(text)s\n" % h)
            for e in rep["errors"][:5]:
                sys.stderr.write("  static scan: cannot compile %(file)s\n" % e)
            _StaticDefs._cache = d
        return _StaticDefs._cache

    def __getitem__(self, k):
        return self._get()[k]

    def __iter__(self):
        return iter(self._get())

    def __len__(self):
        return len(self._get())


BP_FP = {"do_block": "stub_do_block", "read_at": "stub_unreach_read_at",
         "destroy": "stub_unreach_destroy", "copy": "stub_unreach_copy",
         "get_worker_count": "stub_unreach_get_worker_count",
         "set_worker_ptr": "stub_unreach_set_worker_ptr"}

HARNESSES = [
    dict(name="static_fact", file="static_fact.c", label="static(call scan of the packers' link set)",
         timeout=600, native=False, cases=[dict(id="scan", defines=_StaticDefs(), tier="quick")]),
    dict(name="worker_frame", file="process_block.c", label="bounded(block size <= 8)",
         mode="dfcc", enforce="cs_process_block", native=False, fp=BP_FP, unwind=10,
         timeout=600, cases=[dict(id="bs8", defines={"BS": 8, "WORKER_FRAME": None}, tier="quick")]),
    dict(name="worker_deterministic", file="process_block.c", label="bounded(block size <= 8)",
         fp=BP_FP, unwind=10, timeout=600,
         cases=[dict(id="bs8", defines={"BS": 8}, tier="quick")]),
]
