/* C02.io.seq / C02.io.order: dequeue_block() (backend.c) with the real
 * store_io_block() / process_completed_block() underneath, from an arbitrary
 * state within BP-INV (bp2_env.h) of the shape given by the case parameters.
 *
 *   C02.io.seq    a data block or manual submission gets its I/O sequence
 *                 number when the MAIN thread takes it back from the pool:
 *                 the value of io_seq_num at that moment, which then advances
 *                 by exactly one - so numbers follow pool hand-back order
 *                 (= submission order, by the pool contract), strictly
 *                 increasing, each used once; a fragment block keeps the
 *                 number it was given when it was enqueued and does not
 *                 advance the counter
 *   C02.io.order  the k-th block passed to write_data_block() carries number
 *                 io_deq_seq_num(entry) + k: blocks reach the file in number
 *                 order 0,1,2,... whatever order they were completed or
 *                 handed back in; io_deq_seq_num advances by one per write;
 *                 what stays in io_queue is sorted strictly and above
 *                 io_deq_seq_num; every block is written at most once
 *   C02.io.inv    BP-INV afterwards (numbers outstanding = io_queue + fragment
 *                 blocks still inside the pool)
 */
#include <stdlib.h>
#include <string.h>
#include "bp2_env.h"
#include "lib/sqfs/src/block_processor/backend.c"

void harness(void)
{
	sqfs_block_processor_t *proc = &g_proc;
	sqfs_u32 deq0 = c02_build(), seq0 = proc->io_seq_num;
	sqfs_u32 fnum = HASF ? (K0 == KIND_FRAGBLK ? g_p0.b.io_seq_num
						     : g_p1.b.io_seq_num) : 0;
	unsigned i, j, dm = 0, qlen = 0, f_left = 0;
	const sqfs_block_t *it, *prev = NULL;
	int ret;

	ret = dequeue_block(proc);

	/* ---- numbering at hand-back ---- */
	for (i = 0; i < 2; ++i) {
		if (i < g_next) {
			if (KIND(i) == KIND_FRAGBLK) {
				VERIF_ASSERT(g_handed[i]->io_seq_num == fnum, "C02.io.seq");
			} else {
				VERIF_ASSERT(g_seq_at_handback[i] == seq0 + dm, "C02.io.seq");
				VERIF_ASSERT(g_handed[i]->io_seq_num == seq0 + dm,
					     "C02.io.seq");
				dm += 1;
			}
		} else if (i < NPOOL && KIND(i) == KIND_FRAGBLK) {
			VERIF_ASSERT(PB(i)->b.io_seq_num == fnum, "C02.io.seq");
			f_left = 1;
		}
	}
	VERIF_ASSERT(proc->io_seq_num == seq0 + dm, "C02.io.seq");

	/* ---- order of the writes ---- */
	for (i = 0; i < 6; ++i) {
		if (i < g_writes) {
			VERIF_ASSERT(g_write_seq[i] == deq0 + i, "C02.io.order");
			for (j = 0; j < i; ++j)
				VERIF_ASSERT(g_written[j] != g_written[i], "C02.io.order");
		}
	}
	VERIF_ASSERT(g_writes <= 6 && proc->io_deq_seq_num == deq0 + g_writes,
		     "C02.io.order");
	for (it = proc->io_queue, i = 0; it != NULL && i < 6; it = it->next, ++i) {
		VERIF_ASSERT(it->io_seq_num >= proc->io_deq_seq_num &&
			     it->io_seq_num < proc->io_seq_num, "C02.io.order");
		if (prev != NULL)
			VERIF_ASSERT(prev->io_seq_num < it->io_seq_num, "C02.io.order");
		for (j = 0; j < 6; ++j) {
			if (j < g_writes)
				VERIF_ASSERT(g_written[j] != it, "C02.io.order");
		}
		prev = it;
		qlen += 1;
	}
	VERIF_ASSERT(it == NULL, "C02.io.order");
	if (ret == 0 && proc->io_queue != NULL)
		VERIF_ASSERT(proc->io_queue->io_seq_num != proc->io_deq_seq_num,
			     "C02.io.order");

	/* ---- BP-INV: outstanding numbers = io_queue + fragment block in pool */
	VERIF_ASSERT(proc->io_seq_num - proc->io_deq_seq_num == qlen + f_left,
		     "C02.io.inv");
	VERIF_ASSERT(IQ + g_next == g_writes + qlen, "C02.io.inv");
	if (!g_write_failed)
		VERIF_ASSERT(ret == 0 || g_next == NPOOL, "C02.io.inv");

#if NPOOL > 0
	VERIF_COVER(ret == 0 && g_writes > 0);
	VERIF_COVER(g_write_failed);
#else
	VERIF_COVER(ret != 0);
#endif
}
