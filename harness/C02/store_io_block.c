/* C02.io.order (sorted insert): store_io_block() from an arbitrary io_queue
 * that is sorted strictly by io_seq_num (<= QL nodes, numbers symbolic) and a
 * block whose number is not in the queue.
 *   C02.io.store_sorted   the queue is again sorted strictly, it is the old
 *                         queue plus the block (each exactly once), nothing
 *                         but next links and proc->io_queue is written
 */
#include <stdlib.h>
#include <string.h>
#include "verif.h"
#include "lib/sqfs/src/block_processor/internal.h"
#include "lib/sqfs/src/block_processor/backend.c"

#ifndef QL
#define QL 3
#endif

static sqfs_block_t g_n0, g_n1, g_n2, g_n3, g_new;
static sqfs_block_processor_t g_proc;

static sqfs_block_t *N(size_t i)
{
	switch (i) {
	case 0: return &g_n0; case 1: return &g_n1;
	case 2: return &g_n2; default: return &g_n3;
	}
}

static size_t qlen(const sqfs_block_t *l)
{
	size_t n = 0;

	while (l != NULL && n <= QL + 1) {
		l = l->next;
		++n;
	}
	return n;
}

static int has(const sqfs_block_t *l, const sqfs_block_t *x)
{
	size_t n = 0;

	while (l != NULL && n <= QL + 1) {
		if (l == x)
			return 1;
		l = l->next;
		++n;
	}
	return 0;
}

void harness(void)
{
	size_t q = verif_nd_size("qlen"), i;
	sqfs_u32 num[4], newnum = verif_nd_u32("new.io_seq_num");
	const sqfs_block_t *it;

	VERIF_ASSUME(q <= QL);
	for (i = 0; i < 4; ++i)
		num[i] = verif_nd_u32("io_seq_num");
	for (i = 0; i < 4; ++i) {
		N(i)->io_seq_num = num[i];
		N(i)->next = (i + 1 < q) ? N(i + 1) : NULL;
		N(i)->flags = verif_nd_u32("flags");
		if (i + 1 < q && i + 1 < 4)
			VERIF_ASSUME(num[i] < num[i + 1]);
		if (i < q)
			VERIF_ASSUME(num[i] != newnum);
	}
	g_proc.io_queue = q > 0 ? N(0) : NULL;
	g_new.io_seq_num = newnum;
	g_new.next = NULL;
	VERIF_COVER(q == QL && newnum > num[0] && newnum < num[QL - 1]);
	VERIF_COVER(q == QL && newnum > num[QL - 1]);
	VERIF_COVER(q > 0 && newnum < num[0]);
	VERIF_COVER(q == 0);

	store_io_block(&g_proc, &g_new);

	VERIF_ASSERT(qlen(g_proc.io_queue) == q + 1, "C02.io.store_sorted");
	VERIF_ASSERT(has(g_proc.io_queue, &g_new), "C02.io.store_sorted");
	for (i = 0; i < 4; ++i) {
		if (i < q)
			VERIF_ASSERT(has(g_proc.io_queue, N(i)), "C02.io.store_sorted");
		VERIF_ASSERT(N(i)->io_seq_num == num[i], "C02.io.store_sorted");
	}
	VERIF_ASSERT(g_new.io_seq_num == newnum, "C02.io.store_sorted");
	for (it = g_proc.io_queue, i = 0; it != NULL && it->next != NULL && i <= QL + 1;
	     it = it->next, ++i)
		VERIF_ASSERT(it->io_seq_num < it->next->io_seq_num,
			     "C02.io.store_sorted");
}
