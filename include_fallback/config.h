/* config.h.  Generated from config.h.in by configure.  */
/* config.h.in.  Generated from configure.ac by autoheader.  */

/* Define to 1 if you have the <alloca.h> header file. */
#define HAVE_ALLOCA_H 1

/* Define to 1 if you have the <bzlib.h> header file. */
#define HAVE_BZLIB_H 1

/* Define to 1 if you have the <dlfcn.h> header file. */
#define HAVE_DLFCN_H 1

/* Define to 1 if you have the `fnmatch' function. */
#define HAVE_FNMATCH 1

/* Define to 1 if you have the `getopt' function. */
#define HAVE_GETOPT 1

/* Define to 1 if you have the `getopt_long' function. */
#define HAVE_GETOPT_LONG 1

/* Define to 1 if you have the `getsubopt' function. */
#define HAVE_GETSUBOPT 1

/* Define to 1 if you have the <inttypes.h> header file. */
#define HAVE_INTTYPES_H 1

/* Have PTHREAD_PRIO_INHERIT. */
#define HAVE_PTHREAD_PRIO_INHERIT 1

/* Define to 1 if you have the `sched_getaffinity' function. */
#define HAVE_SCHED_GETAFFINITY 1

/* Define to 1 if you have the <selinux/label.h> header file. */
#define HAVE_SELINUX_LABEL_H 1

/* Define to 1 if you have the <selinux/selinux.h> header file. */
#define HAVE_SELINUX_SELINUX_H 1

/* Define to 1 if you have the <stdint.h> header file. */
#define HAVE_STDINT_H 1

/* Define to 1 if you have the <stdio.h> header file. */
#define HAVE_STDIO_H 1

/* Define to 1 if you have the <stdlib.h> header file. */
#define HAVE_STDLIB_H 1

/* Define to 1 if you have the `strchrnul' function. */
#define HAVE_STRCHRNUL 1

/* Define to 1 if you have the <strings.h> header file. */
#define HAVE_STRINGS_H 1

/* Define to 1 if you have the <string.h> header file. */
#define HAVE_STRING_H 1

/* Define to 1 if you have the `strndup' function. */
#define HAVE_STRNDUP 1

/* Define to 1 if you have the <sys/stat.h> header file. */
#define HAVE_SYS_STAT_H 1

/* Define to 1 if you have the <sys/types.h> header file. */
#define HAVE_SYS_TYPES_H 1

/* Define to 1 if you have the <sys/xattr.h> header file. */
#define HAVE_SYS_XATTR_H 1

/* Define to 1 if you have the <unistd.h> header file. */
#define HAVE_UNISTD_H 1

/* Does zstd support stream compression? */
#define HAVE_ZSTD_STREAM 1

/* Define to the sub-directory where libtool stores uninstalled libraries. */
#define LT_OBJDIR ".libs/"

/* Name of package */
#define PACKAGE "squashfs-tools-ng"

/* Define to the address where bug reports for this package should be sent. */
#define PACKAGE_BUGREPORT "goliath@infraroot.at"

/* Define to the full name of this package. */
#define PACKAGE_NAME "squashfs-tools-ng"

/* Define to the full name and version of this package. */
#define PACKAGE_STRING "squashfs-tools-ng 1.2.0"

/* Define to the one symbol short name of this package. */
#define PACKAGE_TARNAME "squashfs-tools-ng"

/* Define to the home page for this package. */
#define PACKAGE_URL ""

/* Define to the version of this package. */
#define PACKAGE_VERSION "1.2.0"

/* Define to necessary symbol if this constant uses a non-standard name on
   your system. */
/* #undef PTHREAD_CREATE_JOINABLE */

/* Define to 1 if all of the C90 standard headers exist (not just the ones
   required in a freestanding environment). This macro is provided for
   backward compatibility; new code need not use it. */
#define STDC_HEADERS 1

/* Version number of package */
#define VERSION "1.2.0"

/* Number of bits in a file offset, on hosts where this is settable. */
/* #undef _FILE_OFFSET_BITS */

/* Define for large files, on AIX-style hosts. */
/* #undef _LARGE_FILES */
