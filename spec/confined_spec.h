/* Independent specification of the C06 path predicate, written from the text
 * of property C06 (not from the code):
 *
 *   confined(p): p is non-empty, relative (does not start with '/'), and
 *   splitting p at '/' gives only components that are non-empty and are
 *   neither "." nor "..".
 *
 * A path with this shape, resolved relative to the unpack root R after
 * chdir(R), names an object underneath R provided no proper prefix of it is
 * a symbolic link (C06.prefix_is_dir + C06.sort.strict take care of that).
 */
#ifndef CONFINED_SPEC_H
#define CONFINED_SPEC_H
#include <stddef.h>

static int spec_confined(const char *p)
{
	size_t i = 0, start, len;

	if (p[0] == '\0' || p[0] == '/')
		return 0;

	for (;;) {
		start = i;
		while (p[i] != '/' && p[i] != '\0')
			++i;
		len = i - start;
		if (len == 0)
			return 0; /* empty component, trailing slash */
		if (len == 1 && p[start] == '.')
			return 0;
		if (len == 2 && p[start] == '.' && p[start + 1] == '.')
			return 0;
		if (p[i] == '\0')
			return 1;
		++i;
	}
}

/* a single component as the property wants it: non-empty, no '/', not "."
 * and not ".." */
static int spec_component_ok(const char *s)
{
	size_t i;

	if (s[0] == '\0')
		return 0;
	if (s[0] == '.' && s[1] == '\0')
		return 0;
	if (s[0] == '.' && s[1] == '.' && s[2] == '\0')
		return 0;
	for (i = 0; s[i] != '\0'; ++i) {
		if (s[i] == '/')
			return 0;
	}
	return 1;
}

/* number of '/' in p */
static size_t spec_slashes(const char *p)
{
	size_t i, n = 0;

	for (i = 0; p[i] != '\0'; ++i) {
		if (p[i] == '/')
			++n;
	}
	return n;
}
#endif
