/* Independent specification of the token quoting used between
 * `rdsquashfs --describe` and `gensquashfs --pack-file`, written from the
 * text of property C16 and the documented pack-file syntax (gensquashfs.1:
 * fields are separated by blanks, a field may be enclosed in double quotes,
 * inside quotes \" and \\ stand for " and \), NOT from describe.c:
 *
 *   Q(s) = s                      if s is non-empty and has none of the bytes
 *                                 space, tab, carriage return, double quote
 *   Q(s) = '"' esc(s) '"'         otherwise, where esc puts a backslash in
 *                                 front of every '"' and every '\'
 *
 * (space/tab separate fields, a leading '"' opens a quoted field, a CR at the
 * end of a line is eaten by the line reader, the empty string has no
 * unquoted form; a backslash is literal outside quotes.)
 * The property holds for a field iff the printer emits Q(s) and the parser
 * maps Q(s) back to s; both halves are checked against this one function.
 */
#ifndef QUOTE_SPEC_H
#define QUOTE_SPEC_H
#include <stddef.h>

static int spec_must_quote(const char *s)
{
	size_t i;

	if (s[0] == '\0')
		return 1;
	for (i = 0; s[i] != '\0'; ++i) {
		if (s[i] == ' ' || s[i] == '\t' || s[i] == '\r' || s[i] == '"')
			return 1;
	}
	return 0;
}

/* writes Q(s) to out (capacity >= 2*strlen(s)+3), returns its length */
static size_t spec_Q(const char *s, char *out)
{
	size_t i, o = 0;

	if (!spec_must_quote(s)) {
		for (i = 0; s[i] != '\0'; ++i)
			out[o++] = s[i];
		out[o] = '\0';
		return o;
	}
	out[o++] = '"';
	for (i = 0; s[i] != '\0'; ++i) {
		if (s[i] == '"' || s[i] == '\\')
			out[o++] = '\\';
		out[o++] = s[i];
	}
	out[o++] = '"';
	out[o] = '\0';
	return o;
}

/* the classes of strings on which the printer of snapshot c02cd92 is known
 * to deviate from Q (used only to split obligations finely, see
 * harness/C16/proposed_known_findings.json) */
static int spec_has_tab_cr_backslash(const char *s)
{
	size_t i;

	for (i = 0; s[i] != '\0'; ++i) {
		if (s[i] == '\t' || s[i] == '\r' || s[i] == '\\')
			return 1;
	}
	return 0;
}
#endif
