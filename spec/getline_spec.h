/* Independent specification of "the next line of a text stream", written from
 * the documentation of istream_get_line (include/util/parse.h) and the C12
 * property: it looks at the WHOLE remaining text at once, so by construction
 * it knows nothing about chunks.
 *
 *   text[0..n)  remaining stream content (no NUL bytes)
 *   flags       ISTREAM_LINE_LTRIM=1, RTRIM=2, SKIP_EMPTY=4
 * Result: returns 1 at end of input, 0 otherwise with
 *   *start,*len  the line's bytes (a sub-range of text, after trimming)
 *   *consumed    bytes of the stream used up
 *   *skipped     number of skipped (empty) lines = line counter increments
 *
 * A line ends at '\n' (one '\r' directly before it is dropped) or at end of
 * input (no '\r' handling there; an empty rest is end of input).
 */
#ifndef GETLINE_SPEC_H
#define GETLINE_SPEC_H
#include <stddef.h>

static int spec_is_space(unsigned char c)
{
	return c == ' ' || (c >= '\t' && c <= '\r');
}

static int spec_get_line(const unsigned char *text, size_t n, int flags,
			 size_t *start, size_t *len, size_t *consumed,
			 size_t *skipped)
{
	size_t pos = 0;

	*skipped = 0;
	for (;;) {
		size_t b = pos, e, next;
		int at_eof;

		for (e = pos; e < n && text[e] != '\n'; ++e)
			;
		at_eof = (e == n);
		next = at_eof ? n : e + 1;
		if (at_eof && e == b) {
			*consumed = n;
			return 1;
		}
		if (!at_eof && e > b && text[e - 1] == '\r')
			--e;
		if (flags & 1) {
			while (b < e && spec_is_space(text[b]))
				++b;
		}
		if (flags & 2) {
			while (e > b && spec_is_space(text[e - 1]))
				--e;
		}
		if (e > b || !(flags & 4)) {
			*start = b;
			*len = e - b;
			*consumed = next;
			return 0;
		}
		if (at_eof) {
			*consumed = n;
			return 1;
		}
		*skipped += 1;
		pos = next;
	}
}
#endif
