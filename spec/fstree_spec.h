/* Independent specification pieces for C11 (packing is a function of the
 * contents, not of arrival order), written from the property text and the
 * SquashFS layout rules, not from lib/fstree:
 *
 * F(ent): the attributes a tree node carries for a directory entry are a
 * function of the entry alone, whether the node is created by that entry or
 * was created implicitly (as somebody's parent) before the entry arrived:
 *   uid, gid     the entry's ids (low 32 bit; wider ids are C01's business)
 *   mtime        the entry's time clamped to the 32 bit range 0 .. 2^32-1
 *   mode         the entry's mode; symbolic and hard links are S_IFLNK|0777
 */
#ifndef FSTREE_SPEC_H
#define FSTREE_SPEC_H
#include <sys/stat.h>
#include "sqfs/dir_entry.h"

struct spec_fields {
	sqfs_u32 uid, gid, mod_time;
	sqfs_u16 mode;
};

static sqfs_u32 spec_clamp_time(sqfs_s64 t)
{
	if (t < 0)
		return 0;
	if (t > 0xFFFFFFFFLL)
		return 0xFFFFFFFFU;
	return (sqfs_u32)t;
}

static struct spec_fields spec_node_fields(const sqfs_dir_entry_t *ent)
{
	struct spec_fields f;

	f.uid = (sqfs_u32)(ent->uid & 0xFFFFFFFFU);
	f.gid = (sqfs_u32)(ent->gid & 0xFFFFFFFFU);
	f.mod_time = spec_clamp_time(ent->mtime);
	if ((ent->flags & SQFS_DIR_ENTRY_FLAG_HARD_LINK) ||
	    (ent->mode & S_IFMT) == S_IFLNK)
		f.mode = S_IFLNK | 0777;
	else
		f.mode = ent->mode;
	return f;
}
#endif
