/* Independent specification of path canonicalisation, written from the text
 * of property C18 (not from the code):
 *   split the input at '/', drop empty components and "." components;
 *   if any component is ".." the result is "refuse";
 *   otherwise the result is the remaining components joined by single '/'.
 */
#ifndef CANON_SPEC_H
#define CANON_SPEC_H
#include <stddef.h>

/* returns -1 (refuse) or 0; on 0 writes the canonical form to out
 * (capacity >= strlen(in)+1) */
static int spec_canon(const char *in, char *out)
{
	size_t i = 0, o = 0, start, len;
	int refuse = 0;

	for (;;) {
		while (in[i] == '/')
			++i;
		if (in[i] == '\0')
			break;
		start = i;
		while (in[i] != '/' && in[i] != '\0')
			++i;
		len = i - start;
		if (len == 1 && in[start] == '.')
			continue;
		if (len == 2 && in[start] == '.' && in[start + 1] == '.') {
			refuse = 1;
			continue;
		}
		if (o > 0)
			out[o++] = '/';
		for (size_t k = 0; k < len; ++k)
			out[o++] = in[start + k];
	}
	out[o] = '\0';
	return refuse ? -1 : 0;
}

/* "clean": relative, no leading/trailing/double slash, no "." component */
static int spec_is_clean(const char *s)
{
	size_t i = 0;
	if (s[0] == '/')
		return 0;
	while (s[i] != '\0') {
		size_t start = i;
		while (s[i] != '/' && s[i] != '\0')
			++i;
		if (i == start)
			return 0; /* empty component */
		if (i - start == 1 && s[start] == '.')
			return 0;
		if (s[i] == '/') {
			++i;
			if (s[i] == '\0')
				return 0; /* trailing slash */
		}
	}
	return 1;
}
#endif
