/* Ghost state shared by the loop contracts of
 * lib/util/src/canonicalize_name.c (contracts/loops.tbl) and the harness
 * that enforces the function contract of canonicalize_name().
 *
 * Tool limit (DESIGN 7): with --dfcc the five nested pointer loops make
 * symex blow up (irept comparison, no verdict after 15 min even for an
 * 8-byte buffer), so the function contract is enforced by the harness
 * (assume requires / call / assert ensures) and the loop contracts by
 * goto-instrument --apply-loop-contracts.
 */
#ifndef CONTRACT_CANONICALIZE_NAME_H
#define CONTRACT_CANONICALIZE_NAME_H
#include "verif.h"

#ifndef CANON_MAX
#define CANON_MAX 4096
#endif

/* ghost: index of a NUL byte of the argument on entry (any one of them; the
 * proof holds for each, hence for the first = strlen) */
size_t g_canon_L;

#endif
