/*
 * verif.h - common harness vocabulary.
 *
 * Two build modes:
 *   (default)        compiled by goto-cc, decided by cbmc
 *   -DVERIF_REPLAY   compiled by gcc/clang with sanitizers; every
 *                    nondeterministic choice is read from a tape that was
 *                    extracted from a cbmc counterexample trace.
 *
 * All nondeterminism in a harness or an environment contract goes through
 * verif_nd_*() so that the counterexample is a complete input ("tape").
 */
#ifndef VERIF_H
#define VERIF_H

#include <stddef.h>
#include <stdint.h>
#include <stdbool.h>

#ifdef VERIF_REPLAY
/* ------------------------------------------------------------------ native */
#include <stdio.h>
#include <stdlib.h>
#include <string.h>

void verif_fail(const char *name);
void verif_assume_fail(const char *text);
unsigned long long verif_tape_next(const char *tag, unsigned long long mask);

#define VERIF_ASSERT(c, name) do { if (!(c)) verif_fail(name); } while (0)
#define VERIF_ASSUME(c) do { if (!(c)) verif_assume_fail(#c); } while (0)
#define VERIF_COVER(c) ((void)0)

/* contract clauses on declarations vanish natively */
#define __CPROVER_requires(...)
#define __CPROVER_ensures(...)
#define __CPROVER_assigns(...)
#define __CPROVER_frees(...)

#define VERIF_R_OK(p, n) (1)
#define VERIF_W_OK(p, n) (1)
#define VERIF_RW_OK(p, n) (1)
#define VERIF_SAME_OBJECT(a, b) (1)
#define VERIF_OBJECT_SIZE(p) ((size_t)-1)
#define VERIF_POINTER_OFFSET(p) ((size_t)0)

static inline uint8_t verif_nd_u8(const char *t) { return (uint8_t)verif_tape_next(t, 0xffULL); }
static inline uint16_t verif_nd_u16(const char *t) { return (uint16_t)verif_tape_next(t, 0xffffULL); }
static inline uint32_t verif_nd_u32(const char *t) { return (uint32_t)verif_tape_next(t, 0xffffffffULL); }
static inline uint64_t verif_nd_u64(const char *t) { return (uint64_t)verif_tape_next(t, ~0ULL); }
static inline size_t verif_nd_size(const char *t) { return (size_t)verif_tape_next(t, ~0ULL); }
static inline int verif_nd_int(const char *t) { return (int)(uint32_t)verif_tape_next(t, 0xffffffffULL); }
static inline long long verif_nd_i64(const char *t) { return (long long)verif_tape_next(t, ~0ULL); }
static inline bool verif_nd_bool(const char *t) { return verif_tape_next(t, 1ULL) != 0; }

#else
/* -------------------------------------------------------------------- cbmc */
#define VERIF_ASSERT(c, name) __CPROVER_assert((c), name)
#define VERIF_ASSUME(c) __CPROVER_assume(c)
/* cover points (vacuity guard): plain mode uses cbmc --cover cover on the
 * same binary; under --dfcc a body-less __CPROVER_cover would be turned into
 * assert(false);assume(false), so dfcc harnesses compile cover points away in
 * the proof pass and as must-fail assertions in a separate cover pass */
#if defined(VERIF_COVER_PASS)
#define VERIF_COVER(c) __CPROVER_assert(!(c), "VERIF-COVER " #c)
#elif defined(VERIF_DFCC)
#define VERIF_COVER(c) ((void)0)
#else
#define VERIF_COVER(c) __CPROVER_cover(c)
#endif

#define VERIF_R_OK(p, n) __CPROVER_r_ok((p), (n))
#define VERIF_W_OK(p, n) __CPROVER_w_ok((p), (n))
#define VERIF_RW_OK(p, n) __CPROVER_rw_ok((p), (n))
#define VERIF_SAME_OBJECT(a, b) __CPROVER_same_object((a), (b))
#define VERIF_OBJECT_SIZE(p) __CPROVER_OBJECT_SIZE(p)
#define VERIF_POINTER_OFFSET(p) ((size_t)__CPROVER_POINTER_OFFSET(p))

uint8_t nondet_verif_u8(void);
uint16_t nondet_verif_u16(void);
uint32_t nondet_verif_u32(void);
uint64_t nondet_verif_u64(void);
size_t nondet_verif_size(void);
int nondet_verif_int(void);
long long nondet_verif_i64(void);
_Bool nondet_verif_bool(void);

/* The local is named verif_tape_v on purpose: tools/trace2tape.py collects
 * the assignments to it, in trace order, as the tape. */
static inline uint8_t verif_nd_u8(const char *t) { (void)t; uint8_t verif_tape_v = nondet_verif_u8(); return verif_tape_v; }
static inline uint16_t verif_nd_u16(const char *t) { (void)t; uint16_t verif_tape_v = nondet_verif_u16(); return verif_tape_v; }
static inline uint32_t verif_nd_u32(const char *t) { (void)t; uint32_t verif_tape_v = nondet_verif_u32(); return verif_tape_v; }
static inline uint64_t verif_nd_u64(const char *t) { (void)t; uint64_t verif_tape_v = nondet_verif_u64(); return verif_tape_v; }
static inline size_t verif_nd_size(const char *t) { (void)t; size_t verif_tape_v = nondet_verif_size(); return verif_tape_v; }
static inline int verif_nd_int(const char *t) { (void)t; int verif_tape_v = nondet_verif_int(); return verif_tape_v; }
static inline long long verif_nd_i64(const char *t) { (void)t; long long verif_tape_v = nondet_verif_i64(); return verif_tape_v; }
static inline bool verif_nd_bool(const char *t) { (void)t; _Bool verif_tape_v = nondet_verif_bool(); return verif_tape_v; }
#endif

/* fill a small buffer byte by byte with tape values (names, headers, ...) */
static inline void verif_nd_bytes(void *p, size_t n, const char *tag)
{
	size_t i;
	for (i = 0; i < n; ++i)
		((uint8_t *)p)[i] = verif_nd_u8(tag);
}

#endif /* VERIF_H */
