#!/usr/bin/env python3
"""
Self-test (development aid, not registered in MANIFEST): apply small semantic
mutations / behaviour-preserving edits to a scratch worktree of /repo and run
the checks with VERIF_REPO pointing there.

    selftest/run.py <Cxx> [name-glob]

mutants.py: MUTANTS[Cxx] = [dict(name, file, old, new, only=<harness glob>,
                                 expect="violation"|"pass", obligation=<substr>)]
"""
import fnmatch
import os
import subprocess
import sys
import tempfile
import shutil

HERE = os.path.dirname(os.path.abspath(__file__))
VERIF = os.path.dirname(HERE)
sys.path.insert(0, HERE)
import glob as _glob
import importlib
import mutants  # noqa: E402
for _f in sorted(_glob.glob(os.path.join(HERE, "mutants_*.py"))):
    _m = importlib.import_module(os.path.basename(_f)[:-3])
    for _k, _v in _m.MUTANTS.items():
        mutants.MUTANTS.setdefault(_k, []).extend(_v)


def main():
    prop = sys.argv[1]
    glob = sys.argv[2] if len(sys.argv) > 2 else "*"
    ok = True
    for m in mutants.MUTANTS.get(prop, []):
        if not fnmatch.fnmatch(m["name"], glob):
            continue
        wt = tempfile.mkdtemp(prefix="verif_st_", dir="/var/tmp")
        os.rmdir(wt)
        subprocess.run(["git", "-C", "/repo", "worktree", "add", "--detach", wt, "HEAD"],
                       check=True, stdout=subprocess.DEVNULL, stderr=subprocess.DEVNULL)
        try:
            edits = m.get("edits") or [(m["file"], m["old"], m["new"])]
            for f, old, new in edits:
                path = os.path.join(wt, f)
                text = open(path).read()
                if text.count(old) != 1:
                    print("SELFTEST %s %s: pattern occurs %d times in %s" % (
                        prop, m["name"], text.count(old), f))
                    ok = False
                    raise StopIteration
                open(path, "w").write(text.replace(old, new))
            env = dict(os.environ, VERIF_REPO=wt)
            cmd = [os.path.join(VERIF, "verify"), prop, "--no-cover"]
            if m.get("only"):
                cmd += ["--only", m["only"]]
            if m.get("tier"):
                cmd += ["--tier", m["tier"]]
            p = subprocess.run(cmd, env=env, capture_output=True, text=True)
            want = m.get("expect", "violation")
            got = {0: "pass", 1: "violation"}.get(p.returncode, "undecided")
            hit = True
            if want == "violation" and m.get("obligation"):
                hit = m["obligation"] in p.stderr or m["obligation"] in p.stdout
            status = "ok" if (got == want and hit) else "MISMATCH"
            if status != "ok":
                ok = False
            print("SELFTEST %s %-28s want=%s got=%s %s" % (prop, m["name"], want, got, status))
            if status != "ok" or os.environ.get("SELFTEST_VERBOSE"):
                print("\n".join((p.stdout + p.stderr).splitlines()[-15:]))
            sys.stdout.flush()
        except StopIteration:
            pass
        finally:
            subprocess.run(["git", "-C", "/repo", "worktree", "remove", "--force", wt],
                           stdout=subprocess.DEVNULL, stderr=subprocess.DEVNULL)
            shutil.rmtree(wt, ignore_errors=True)
            # replays written for mutants are not evidence
    sys.exit(0 if ok else 1)


if __name__ == "__main__":
    main()
