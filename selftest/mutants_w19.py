"""Self-test mutants for worker w19's C04 tar-reader obligations
(harness/C04/cases_extra_w19.py). The first two are the slips the C04 check
had missed (must be detected)."""

T = "lib/tar/src/"

MUTANTS = {"C04": [
    # (A) read_header: GNU 'K' record resets what earlier extension records set
    dict(name="w19_A_K_assign", file=T + "read_header.c",
         old="\t\t\tset_by_pax |= PAX_SLINK_TARGET;", new="\t\t\tset_by_pax = PAX_SLINK_TARGET;",
         only="w19_ext_records:L_K_hard", obligation="C04.hdr.ext_records_accumulate.name"),
    dict(name="w19_A_K_assign_3rec", file=T + "read_header.c",
         old="\t\t\tset_by_pax |= PAX_SLINK_TARGET;", new="\t\t\tset_by_pax = PAX_SLINK_TARGET;",
         only="w19_ext_records:xnums_L_K", obligation="C04.hdr.ext_records_accumulate.n"),
    dict(name="w19_A_L_assign", file=T + "read_header.c",
         old="\t\t\tset_by_pax |= PAX_NAME;", new="\t\t\tset_by_pax = PAX_NAME;",
         only="w19_ext_records:K_L", obligation="C04.hdr.ext_records_accumulate.link"),
    dict(name="w19_A_uid_overwritten", file=T + "read_header.c",
         old="\tif (!(set_by_pax & PAX_UID)) {", new="\tif (!(set_by_pax & PAX_GID)) {",
         only="w19_ext_records:xuid_mtime", obligation="C04.hdr.ext_records_accumulate.numbers"),
    dict(name="w19_A_global_padding", file=T + "read_header.c",
         old="\t\t\t\tpax_size += 512 - (pax_size % 512);", new="\t\t\t\tpax_size += 511 - (pax_size % 512);",
         only="w19_ext_records:g_L", obligation="C04.hdr.ext_size_field"),
    dict(name="w19_A_noop_or", file=T + "read_header.c",
         old="\t\t\tset_by_pax |= PAX_NAME;", new="\t\t\tset_by_pax = set_by_pax | PAX_NAME;",
         only="w19_ext_records:?_?", expect="pass"),
    # (B) read_gnu_new_sparse: second and later map blocks do not reduce record_size
    dict(name="w19_B_later_blocks_not_counted", file=T + "read_sparse_map_new.c",
         old="\t\t\tdiff = diff + ret - 512;\n\t\t\tout->record_size -= 512;",
         new="\t\t\tdiff = diff + ret - 512;",
         only="w19_new_sparse:lw20_b2", obligation="C04.sparse_new.record_size_exact"),
    dict(name="w19_B_later_blocks_not_counted_aligned", file=T + "read_sparse_map_new.c",
         old="\t\t\tdiff = diff + ret - 512;\n\t\t\tout->record_size -= 512;",
         new="\t\t\tdiff = diff + ret - 512;",
         only="w19_new_sparse:lw16_b3", obligation="C04.sparse_new.record_size_exact"),
    dict(name="w19_B_exact_fit_refused", file=T + "read_sparse_map_new.c",
         old="\t\t\tif (out->record_size < 512)\n\t\t\t\tgoto fail_format;",
         new="\t\t\tif (out->record_size <= 512)\n\t\t\t\tgoto fail_format;",
         only="w19_new_sparse:lw16_b2", obligation="C04.sparse_new.accepts_wellformed"),
    dict(name="w19_B_list_value", file=T + "read_sparse_map_new.c",
         old="\t\t\tent->count = value;", new="\t\t\tent->count = value + 1;",
         only="w19_new_sparse:lw20_b1", obligation="C04.sparse_new.list_eq_spec"),
    dict(name="w19_B_decode_base", file=T + "read_sparse_map_new.c",
         old="\t\tif (SZ_MUL_OV(*out, 10, out))", new="\t\tif (SZ_MUL_OV(*out, 8, out))",
         only="w19_decode_line:d4", obligation="C04.sparse_new.decode_value"),
    dict(name="w19_B_noop_sub", file=T + "read_sparse_map_new.c",
         old="\tout->record_size -= 512;\n\n\tif (count == 0",
         new="\tout->record_size = out->record_size - 512;\n\n\tif (count == 0",
         only="w19_new_sparse:lw*_b2", expect="pass"),
    # (C) read_gnu_old_sparse: extension header chain
    dict(name="w19_C_old_chain_wrong_flag", file=T + "read_sparse_map_old.c",
         old="\t} while (ret == 0 && sph.isextended != 0);",
         new="\t} while (ret == 0 && hdr->tail.gnu.isextended != 0);",
         only="w19_old_sparse:ext1", obligation="C04.sparse_old.one_record_per_ext"),
    dict(name="w19_C_old_short_table", file=T + "read_sparse_map_old.c",
         old="\t\tret = parse(sph.sparse, 21, &list, &end);", new="\t\tret = parse(sph.sparse, 20, &list, &end);",
         only="w19_old_sparse:ext1", obligation="C04.sparse_old.list_eq_spec"),
    # (C) it_next: skip of the previous member (borrowed C07 harness)
    dict(name="w19_C_iter_padding", file=T + "iterator.c",
         old="\t\ttar->padding = 512 - tar->padding;", new="\t\ttar->padding = 511 - tar->padding;",
         only="w19_c07_iter_next:h2nex0", obligation="C07.it_next.skip"),
]}
