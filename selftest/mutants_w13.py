"""Self-test mutants of worker w13 (rdsquashfs stat / list, squashfs directory
iterator loop refusal + parent reference, sqfs2tar tar-compat iterator)."""

ST = "bin/rdsquashfs/src/stat.c"
LS = "bin/rdsquashfs/src/list_files.c"
PS = "lib/common/src/print_size.c"
DIT = "lib/sqfs/src/dir_iterator.c"
S2T = "bin/sqfs2tar/src/iterator.c"

_LOOP_CHECK = ("\t/* a directory that is its own ancestor would never end */\n"
               "\tfor (const iterator_t *p = it; p != NULL; p = p->parent) {\n"
               "\t\tif (p->dir_inode_num == it->inode->base.inode_number)\n"
               "\t\t\treturn SQFS_ERROR_LINK_LOOP;\n"
               "\t}\n\n")

MUTANTS = {
"C05": [
    # ---- dir_iterator.c: commit 2b61ea3 reverted (all five hunks) -------------
    dict(name="w13_dirit_revert_2b61ea3",
         edits=[(DIT, "typedef struct iterator_t {", "typedef struct {"),
                (DIT, "\t/* the directories we descended through, to detect loops */\n"
                      "\tstruct iterator_t *parent;\n\tsqfs_u32 dir_inode_num;\n\n", ""),
                (DIT, _LOOP_CHECK +
                      "\tret = sqfs_dir_iterator_create(it->rd, it->id, it->data, it->xattr,\n"
                      "\t\t\t\t       it->inode, out);\n"
                      "\tif (ret == 0)\n\t\t((iterator_t *)*out)->parent = sqfs_grab(it);\n\n"
                      "\treturn ret;\n",
                      "\t(void)ret;\n\treturn sqfs_dir_iterator_create(it->rd, it->id, it->data, it->xattr,\n"
                      "\t\t\t\t\tit->inode, out);\n"),
                (DIT, "\tsqfs_drop(it->parent);\n", ""),
                (DIT, "\tit->dir_inode_num = inode->base.inode_number;\n", "")],
         only="w13_dir_iter_loop:chain1_order0", obligation="C05.dir_iter.noloop"),
    dict(name="w13_dirit_loop_check_self_only", file=DIT,
         old="\tfor (const iterator_t *p = it; p != NULL; p = p->parent) {",
         new="\tfor (const iterator_t *p = it; p != NULL; p = NULL) {",
         only="w13_dir_iter_loop:chain1_order0", obligation="C05.dir_iter.noloop"),
    dict(name="w13_dirit_loop_check_skips_self", file=DIT,
         old="\tfor (const iterator_t *p = it; p != NULL; p = p->parent) {",
         new="\tfor (const iterator_t *p = it->parent; p != NULL; p = p->parent) {",
         only="w13_dir_iter_loop:chain0_order0", obligation="C05.dir_iter.noloop"),
    dict(name="w13_dirit_parent_not_grabbed", file=DIT,
         old="\t\t((iterator_t *)*out)->parent = sqfs_grab(it);",
         new="\t\t((iterator_t *)*out)->parent = it;",
         only="w13_dir_iter_loop:chain1_order1", obligation="C05.dir_iter.parent_kept"),
    dict(name="w13_dirit_parent_never_dropped", file=DIT,
         old="\tsqfs_drop(it->parent);\n", new="",
         only="w13_dir_iter_loop:chain1_order0", obligation="C05.dir_iter.parent_kept"),
    dict(name="w13_dirit_refuses_siblings", file=DIT,
         old="\t\tif (p->dir_inode_num == it->inode->base.inode_number)",
         new="\t\tif (p->dir_inode_num <= it->inode->base.inode_number)",
         only="w13_dir_iter_loop:chain0_order0", obligation="C05.dir_iter.open_subdir_ok"),
    # behaviour preserving
    dict(name="w13_dirit_keep_while", file=DIT,
         old="\tfor (const iterator_t *p = it; p != NULL; p = p->parent) {\n"
             "\t\tif (p->dir_inode_num == it->inode->base.inode_number)\n"
             "\t\t\treturn SQFS_ERROR_LINK_LOOP;\n\t}\n",
         new="\t{\n\t\tconst iterator_t *p = it;\n\t\twhile (p != NULL) {\n"
             "\t\t\tif (it->inode->base.inode_number == p->dir_inode_num)\n"
             "\t\t\t\treturn SQFS_ERROR_LINK_LOOP;\n\t\t\tp = p->parent;\n\t\t}\n\t}\n",
         only="w13_dir_iter_loop:chain2_order0", expect="pass"),
    # ---- stat.c ----------------------------------------------------------------
    dict(name="w13_stat_block_walk_off_by_one", file=ST,
         old="\t\tfor (i = 0; i < sqfs_inode_get_file_block_count(inode); ++i) {",
         new="\t\tfor (i = 0; i <= sqfs_inode_get_file_block_count(inode); ++i) {",
         only="w13_stat_file:file", obligation="stat_file"),
    dict(name="w13_stat_index_entry_leaked", file=ST,
         old="\t\t\tsqfs_free(idx);\n", new="",
         only="w13_stat:dir_ext_idx1", obligation="memory-leak"),
    dict(name="w13_stat_index_walk_no_exit", file=ST,
         old="\t\t\tif (ret == SQFS_ERROR_OUT_OF_BOUNDS)\n\t\t\t\tbreak;\n",
         new="\t\t\tif (ret == SQFS_ERROR_OUT_OF_BOUNDS && i > 5)\n\t\t\t\tbreak;\n",
         only="w13_stat:dir_ext_idx1", obligation="C05.stat.ok"),
    dict(name="w13_stat_index_error_ignored", file=ST,
         old="\t\t\tif (ret < 0) {\n\t\t\t\tsqfs_perror(NULL, \"reading directory index\",\n"
             "\t\t\t\t\t    ret);\n\t\t\t\treturn -1;\n\t\t\t}\n",
         new="\t\t\tif (ret < 0)\n\t\t\t\tbreak;\n",
         only="w13_stat:dir_ext_idx1", obligation="C05.stat.index_walk"),
    dict(name="w13_stat_name_read_past_entry", file=ST,
         old="\t\t\t       (int)(idx->size + 1), idx->name,",
         new="\t\t\t       (int)(idx->size + 1), idx->name + idx->size + 3,",
         only="w13_stat:dir_ext_idx1", obligation="C05.env.printf.string_arg"),
    dict(name="w13_stat_target_of_any_inode", file=ST,
         old="\tcase SQFS_INODE_FIFO:\n\tcase SQFS_INODE_SOCKET:\n\t\tnlinks = inode->data.ipc.nlink;\n",
         new="\tcase SQFS_INODE_FIFO:\n\tcase SQFS_INODE_SOCKET:\n\t\tnlinks = inode->data.ipc.nlink;\n"
             "\t\tlink_target = (const char *)inode->extra;\n\t\tlink_size = 1;\n",
         only="w13_stat:fifo", obligation="C05.env.printf.string_arg"),
    dict(name="w13_stat_strftime_small_buffer", file=ST,
         old="\tchar buffer[64];", new="\tchar buffer[24];",
         only="w13_stat:dir", obligation="C05.env.strftime.args"),
    dict(name="w13_stat_swap_prints", file=ST,
         old="\tprintf(\"Name: %s\\n\", (const char *)node->name);\n"
             "\tprintf(\"Inode type: %s\\n\", type == NULL ? \"UNKNOWN\" : type);\n",
         new="\tprintf(\"Inode type: %s\\n\", type == NULL ? \"UNKNOWN\" : type);\n"
             "\tprintf(\"Name: %s\\n\", (const char *)node->name);\n",
         only="w13_stat:slink", expect="pass"),
    # ---- list_files.c / print_size.c -------------------------------------------
    dict(name="w13_list_modestr_too_small", file=LS,
         old="\tchar modestr[12], sizestr[32];", new="\tchar modestr[10], sizestr[32];",
         only="w13_list:one_file", obligation="mode_to_str"),
    dict(name="w13_list_sizestr_too_small", file=LS,
         old="\tchar modestr[12], sizestr[32];", new="\tchar modestr[12], sizestr[4];",
         only="w13_list:one_bdev", obligation="C05.env.sprintf.fits"),
    dict(name="w13_list_size_by_type_not_mode", file=LS,
         old="\tcase S_IFLNK:\n\t\tprint_size(strlen((const char *)n->inode->extra), buffer, true);",
         new="\tcase S_IFLNK:\n\tcase S_IFIFO:\n\t\tprint_size(strlen((const char *)n->inode->extra), buffer, true);",
         only="w13_list:one_fifo", obligation="strlen"),
    dict(name="w13_list_suffix_overrun", file=PS,
         old="\t\tsize /= 1024;", new="\t\tsize /= 4;",
         only="w13_list:one_file_ext", obligation="print_size"),
    dict(name="w13_list_rename_local", file=LS,
         old="\tint count = 1;\n\n\twhile (i > 10) {\n\t\t++count;",
         new="\tint count = 1;\n\n\twhile (10 < i) {\n\t\t++count;",
         only="w13_list:one_dir", expect="pass"),
],
"C04": [
    # the seeded slip the lead describes: plain prefix test instead of a path
    # component test ("usr/lib" also selects "usr/lib64/...")
    dict(name="w13_keep_entry_plain_prefix", file=S2T,
         old="\t\t} else if (ent->name[plen] == '/' &&\n\t\t\t   strncmp(subdirs.strings[i], ent->name, plen) == 0) {",
         new="\t\t} else if (strncmp(subdirs.strings[i], ent->name, plen) == 0) {",
         only="w13_s2t_keep:nsub1", obligation="C04.s2t.keep_entry.component_filter"),
    dict(name="w13_keep_entry_parent_plain_prefix", file=S2T,
         old="\t\t\tif ((nlen == plen || subdirs.strings[i][nlen] == '/') &&\n",
         new="\t\t\tif (\n",
         only="w13_s2t_keep:nsub1", obligation="C04.s2t.keep_entry.component_filter"),
    dict(name="w13_keep_entry_only_first_subdir", file=S2T,
         old="\tfor (size_t i = 0; i < subdirs.count; ++i) {\n\t\tsize_t plen",
         new="\tfor (size_t i = 0; i < subdirs.count && i < 1; ++i) {\n\t\tsize_t plen",
         only="w13_s2t_keep:nsub2", obligation="C04.s2t.keep_entry.component_filter"),
    dict(name="w13_next_dir_mode_clobbered", file=S2T,
         old="\t\tent->name[nlen++] = '/';\n\t\tent->name[nlen  ] = '\\0';\n",
         new="\t\tent->name[nlen++] = '/';\n\t\tent->name[nlen  ] = '\\0';\n\t\tent->mode |= 0111;\n",
         only="w13_s2t_next:sub0_keep0_rb0_sl1_n33", obligation="C04.s2t.next.fields"),
    dict(name="w13_next_dir_slash_no_room", file=S2T,
         old="\t\tvoid *new = realloc(ent, sizeof(*ent) + nlen + 2);\n\t\tif (new == NULL)\n\t\t\tgoto fail_alloc;\n\n\t\tent = new;\n\t\tent->name[nlen++] = '/';",
         new="\t\tvoid *new = realloc(ent, sizeof(*ent) + nlen - 3);\n\t\tif (new == NULL)\n\t\t\tgoto fail_alloc;\n\n\t\tent = new;\n\t\tent->name[nlen++] = '/';",
         only="w13_s2t_next:sub0_keep0_rb0_sl1_n33", obligation="next"),
    dict(name="w13_next_error_not_sticky", file=S2T,
         old="\t\t\tit->state = ret < 0 ? ret : STATE_EOF;\n",
         new="",
         only="w13_s2t_next:sub0_keep0_rb0_sl1_n13", obligation="C05.s2t.next.fail_stop"),
    dict(name="w13_next_alloc_fail_leaks_entry", file=S2T,
         old="fail_alloc:\n\tsqfs_free(ent);\n", new="fail_alloc:\n",
         only="w13_s2t_next:sub0_keep0_rb0_sl1_n13", obligation="C05.s2t.next.fail_stop"),
    dict(name="w13_keep_entry_swap_operands", file=S2T,
         old="\t\t} else if (ent->name[plen] == '/' &&\n\t\t\t   strncmp(subdirs.strings[i], ent->name, plen) == 0) {",
         new="\t\t} else if (strncmp(ent->name, subdirs.strings[i], plen) == 0 &&\n\t\t\t   '/' == ent->name[plen]) {",
         only="w13_s2t_keep:nsub2", expect="pass"),
],
}
