# Self-test mutants of worker w17 (selftest/run.py C13|C17|C09 'w17_*').
#   C13: ownership invariant of the block processor (w17_own, w17_own_app,
#        w17_own_deq) - the seeded slip of round 2 is w17_seed_*
#   C17: nosparse tail end (w17_nosparse_tail); the core clause
#        C17.bp.nosparse_tail fails on the unchanged tree (known finding), the
#        mutants below aim at the other clauses
#   C09: the dequeue_block slip "status read before the blocking dequeue"
FE = "lib/sqfs/src/block_processor/frontend.c"
BE = "lib/sqfs/src/block_processor/backend.c"
BP = "lib/sqfs/src/block_processor/block_processor.c"

OWN = "C13.bp.single_owner"
ORPHAN = "C13.bp.no_orphan"
DESTROY = "C13.bp.destroy_safe"


def m(name, file, old, new, only, obligation=None, expect=None, tier=None):
    d = dict(name="w17_" + name, file=file, old=old, new=new, only=only)
    if tier:
        d["tier"] = tier
    if expect:
        d["expect"] = expect
    else:
        d["obligation"] = obligation
    return d


FULL = "s11111"
APP = "w17_own_app:append_rb0_s00000"
END = "w17_own:end_file_rb0_" + FULL

MUTANTS = {
    "C13": [
        # ---- the seeded slip: blk_current cleared only when enqueue_block
        # succeeded (the refused block is on the free list AND still current)
        m("seed_append_loop", FE,
          "\t\t\terr = enqueue_block(proc, proc->blk_current);\n\t\t\tproc->blk_current = NULL;\n\n"
          "\t\t\tif (err)\n\t\t\t\treturn err;\n\t\t\tcontinue;",
          "\t\t\terr = enqueue_block(proc, proc->blk_current);\n"
          "\t\t\tif (err)\n\t\t\t\treturn err;\n\t\t\tproc->blk_current = NULL;\n\t\t\tcontinue;",
          APP, OWN),
        m("seed_append_tail", FE,
          "\t\terr = enqueue_block(proc, proc->blk_current);\n\t\tproc->blk_current = NULL;\n\n"
          "\t\tif (err)\n\t\t\treturn err;\n\t}\n\n\treturn 0;\n}\n\nint sqfs_block_processor_end_file",
          "\t\terr = enqueue_block(proc, proc->blk_current);\n"
          "\t\tif (err)\n\t\t\treturn err;\n\t\tproc->blk_current = NULL;\n\t}\n\n\treturn 0;\n}\n\n"
          "int sqfs_block_processor_end_file",
          APP, OWN),
        m("seed_end_file", FE,
          "\t\terr = enqueue_block(proc, proc->blk_current);\n\t\tproc->blk_current = NULL;\n\n"
          "\t\tif (err)\n\t\t\treturn err;\n\t}\n\n\tproc->begin_called = false;",
          "\t\terr = enqueue_block(proc, proc->blk_current);\n"
          "\t\tif (err)\n\t\t\treturn err;\n\t\tproc->blk_current = NULL;\n\t}\n\n\tproc->begin_called = false;",
          END, OWN),
        # the same slip is also caught by the destructor run (double free)
        m("seed_end_file_destroy", FE,
          "\t\terr = enqueue_block(proc, proc->blk_current);\n\t\tproc->blk_current = NULL;\n\n"
          "\t\tif (err)\n\t\t\treturn err;\n\t}\n\n\tproc->begin_called = false;",
          "\t\terr = enqueue_block(proc, proc->blk_current);\n"
          "\t\tif (err)\n\t\t\treturn err;\n\t\tproc->blk_current = NULL;\n\t}\n\n\tproc->begin_called = false;",
          END, DESTROY),
        # ---- more of the same kind ------------------------------------------
        m("enq_refused_block_dropped", FE,
          "\t\tblk->next = proc->free_list;\n\t\tproc->free_list = blk;\n\t\treturn status;",
          "\t\treturn status;", "w17_own:enqueue_rb0_" + FULL, ORPHAN),
        m("enq_refused_block_kept_twice", FE,
          "\t\tblk->next = proc->free_list;\n\t\tproc->free_list = blk;\n\t\treturn status;",
          "\t\tblk->next = proc->free_list;\n\t\tproc->free_list = blk;\n"
          "\t\tblk->next = proc->free_list;\n\t\treturn status;",
          "w17_own:enqueue_rb0_" + FULL, OWN),
        m("gnb_free_list_not_advanced", FE,
          "\t\tblk = proc->free_list;\n\t\tproc->free_list = blk->next;\n",
          "\t\tblk = proc->free_list;\n", "w17_own:get_new_block_rb0_" + FULL, OWN),
        m("gnb_not_zeroed", FE, "\tmemset(blk, 0, sizeof(*blk));\n", "",
          "w17_own:get_new_block_rb0_" + FULL, "C13.bp.get_new_block.zeroed"),
        m("gnb_backpressure_off_by_one", FE, "while (proc->backlog >= proc->max_backlog) {",
          "while (proc->backlog > proc->max_backlog) {",
          "w17_own:get_new_block_rb0_" + FULL, "C13.bp.backlog_le_max"),
        m("submit_block_early_return_leaks", FE,
          "\tret = get_new_block(proc, &blk);\n\tif (ret != 0)\n\t\treturn ret;\n\n\tblk->flags = flags | BLK_FLAG_MANUAL_SUBMISSION;",
          "\tret = get_new_block(proc, &blk);\n\tif (ret != 0)\n\t\treturn ret;\n\n"
          "\tif (size == 0)\n\t\treturn SQFS_ERROR_ARG_INVALID;\n\n\tblk->flags = flags | BLK_FLAG_MANUAL_SUBMISSION;",
          "w17_own:submit_block_rb0_" + FULL, ORPHAN),
        m("pcf_fail_releases_frag_block", BE,
          "fail:\n\tfree(chunk);\n\tif (frag != proc->frag_block)\n\t\trelease_old_block(proc, frag);",
          "fail:\n\tfree(chunk);\n\trelease_old_block(proc, frag);",
          "w17_own:pcf_rb0_s00000", OWN),
        m("pcf_frag_block_kept_after_enqueue", BE,
          "\t\t\terr = enqueue_block(proc, proc->frag_block);\n\t\t\tproc->frag_block = NULL;\n\n\t\t\tif (err)\n\t\t\t\tgoto fail;",
          "\t\t\terr = enqueue_block(proc, proc->frag_block);\n\t\t\tif (err)\n\t\t\t\tgoto fail;\n\t\t\tproc->frag_block = NULL;",
          "w17_own:pcf_rb0_" + FULL, OWN),
        m("pcf_sparse_not_released", BE,
          "\t\tproc->stats.sparse_block_count += 1;\n\t\trelease_old_block(proc, frag);\n\t\treturn 0;",
          "\t\tproc->stats.sparse_block_count += 1;\n\t\treturn 0;",
          "w17_own:pcf_rb0_s00000", ORPHAN),
        m("pcb_copy_freed_but_linked", BE,
          "\t\t\tif (prev == NULL) {\n\t\t\t\tproc->fblk_in_flight = it->next;\n\t\t\t} else {\n\t\t\t\tprev->next = it->next;\n\t\t\t}\n\t\t\tfree(it);",
          "\t\t\tfree(it);", "w17_own:pcb_rb1_" + FULL, OWN),
        m("pcb_copy_never_freed", BE,
          "\t\t\tif (prev == NULL) {\n\t\t\t\tproc->fblk_in_flight = it->next;\n\t\t\t} else {\n\t\t\t\tprev->next = it->next;\n\t\t\t}\n\t\t\tfree(it);",
          "\t\t\tif (prev == NULL) {\n\t\t\t\tproc->fblk_in_flight = it->next;\n\t\t\t} else {\n\t\t\t\tprev->next = it->next;\n\t\t\t}",
          "w17_own:pcb_rb1_" + FULL, ORPHAN),
        m("pcb_write_error_skips_release", BE,
          "\tif (err)\n\t\tgoto out;\n\n\tproc->stats.output_bytes_generated += blk->size;",
          "\tif (err)\n\t\treturn err;\n\n\tproc->stats.output_bytes_generated += blk->size;",
          "w17_own:pcb_rb0_" + FULL, ORPHAN),
        m("deq_failed_block_dropped", BE,
          "\t\tif (status != 0) {\n\t\t\trelease_old_block(proc, blk);\n\t\t\treturn status;",
          "\t\tif (status != 0) {\n\t\t\treturn status;", "w17_own_deq:dequeue_rb0_" + FULL, ORPHAN, tier="thorough"),
        m("deq_io_block_kept_in_queue", BE,
          "\t\t\tblk = proc->io_queue;\n\t\t\tproc->io_queue = blk->next;\n",
          "\t\t\tblk = proc->io_queue;\n", "w17_own_deq:dequeue_rb0_" + FULL, OWN, tier="thorough"),
        m("deq_returns_without_progress", BE, "\t} while (proc->backlog >= backlog_old);",
          "\t} while (0);", "w17_own_deq:dequeue_rb0_" + FULL, "C13.bp.dequeue_lowers_backlog", tier="thorough"),
        m("finish_frag_block_kept", BP,
          "\t\tblk->next = NULL;\n\t\tproc->frag_block = NULL;\n", "\t\tblk->next = NULL;\n",
          "w17_own:finish_rb0_" + FULL, OWN),
        m("destroy_forgets_io_queue", BP, "\tfree_block_list(proc->io_queue);\n", "",
          "w17_own:sync_rb0_" + FULL, DESTROY),
        m("destroy_frees_current_twice", BP, "\tfree(proc->blk_current);\n",
          "\tfree(proc->blk_current);\n\tfree(proc->blk_current);\n", "w17_own:sync_rb0_" + FULL, DESTROY),
        m("destroy_forgets_pool", BP,
          "\tif (proc->pool != NULL)\n\t\tproc->pool->destroy(proc->pool);\n", "",
          "w17_own:sync_rb0_s00000", DESTROY),
        # ---- behaviour preserving ---------------------------------------------
        m("noop_append_err_test", FE,
          "\t\t\tproc->blk_current = NULL;\n\n\t\t\tif (err)\n\t\t\t\treturn err;\n\t\t\tcontinue;",
          "\t\t\tproc->blk_current = NULL;\n\n\t\t\tif (err != 0)\n\t\t\t\treturn err;\n\t\t\tcontinue;",
          APP, expect="pass"),
        m("noop_destroy_order", BP, "\tfree(proc->frag_block);\n\tfree(proc->blk_current);\n",
          "\tfree(proc->blk_current);\n\tfree(proc->frag_block);\n", "w17_own:sync_rb0_" + FULL,
          expect="pass"),
        m("noop_release_order", BE,
          "\tblk->next = proc->free_list;\n\tproc->free_list = blk;\n\n\tproc->backlog -= 1;",
          "\tproc->backlog -= 1;\n\n\tblk->next = proc->free_list;\n\tproc->free_list = blk;",
          "w17_own:pcb_rb0_" + FULL, expect="pass"),
    ],
    "C17": [
        m("tail_offset_wrong", BE, "\t\toffset = proc->frag_block->size;\n",
          "\t\toffset = proc->frag_block->size + 1;\n", "w17_nosparse_tail:fb1_m0",
          "C17.bp.nosparse_tail.located"),
        m("frag_block_entry_not_set", BE,
          "\t\t\tif (proc->frag_tbl != NULL) {\n\t\t\t\terr = sqfs_frag_table_set(",
          "\t\t\tif (proc->frag_tbl == NULL) {\n\t\t\t\terr = sqfs_frag_table_set(",
          "w17_nosparse_tail:fb0_m0", "C17.bp.nosparse_tail.written"),
        m("frag_block_size_word_on_inode", BE,
          "\t\tif (blk->flags & SQFS_BLK_FRAGMENT_BLOCK) {\n\t\t\tif (proc->frag_tbl != NULL) {",
          "\t\tif (blk->flags & SQFS_BLK_IS_FRAGMENT) {\n\t\t\tif (proc->frag_tbl != NULL) {",
          "w17_nosparse_tail:fb0_m0", "C17.bp.nosparse_tail.inode_untouched"),
        m("worker_ignores_nosparse", BP,
          "\tif (!(block->flags & SQFS_BLK_IGNORE_SPARSE) &&\n\t    is_memory_zero(block->data, block->size)) {",
          "\tif (is_memory_zero(block->data, block->size)) {",
          "w17_nosparse_tail:fb0_m0", "C17.bp.nosparse_tail.worker"),
        # (behaviour-preserving edits cannot be shown to pass here before the
        # proposed fix is applied: the core clause fails on the unchanged tree)
    ],
    "C09": [
        # round-2 seed: the status check moved before the blocking dequeue()
        m("deq_status_before_dequeue", BE,
          "\t\tblk = proc->pool->dequeue(proc->pool);\n\n\t\tif (blk == NULL) {\n"
          "\t\t\tstatus = proc->pool->get_status(proc->pool);\n"
          "\t\t\treturn status ? status : SQFS_ERROR_INTERNAL;\n\t\t}\n\n"
          "\t\t/*\n\t\t * The workers may have failed on this block (or an earlier\n"
          "\t\t * one). Don't treat it as completed, report the error.\n\t\t */\n"
          "\t\tstatus = proc->pool->get_status(proc->pool);\n\t\tif (status != 0) {",
          "\t\tstatus = proc->pool->get_status(proc->pool);\n"
          "\t\tblk = proc->pool->dequeue(proc->pool);\n\n\t\tif (blk == NULL) {\n"
          "\t\t\tstatus = proc->pool->get_status(proc->pool);\n"
          "\t\t\treturn status ? status : SQFS_ERROR_INTERNAL;\n\t\t}\n\n"
          "\t\tif (status != 0) {",
          "bp_dequeue_block*", "C09.bp.failure_reported"),
    ],
}
