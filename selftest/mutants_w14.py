# Self-test mutants of worker w14 (selftest/run.py C01|C08|C12 'w14_*').
#   C01: block processor front end, modular proof (bp_append, bp_get_new_block,
#        bp_enqueue, bp_sentinel)
#   C08: xxh32 (xxh32_safe, xxh32_fn)
#   C12: memory istream / std stream openers (mem_get, mem_advance, mem_create)
# A mutation inside a loop that carries a loop contract breaks the inductive
# step first (INV / INV_DFCC); the named postconditions are consequences of the
# invariant. Mutations outside the loops hit the named obligations directly.
FE = "lib/sqfs/src/block_processor/frontend.c"
XXH = "lib/util/src/xxhash.c"
STRM = "lib/common/src/stream.c"
INV = "loop invariant is preserved"
INV_DFCC = "invariant after step"
LEAK = "never freed"
PERR = "lib/common/src/perror.c"


def m(name, file, old, new, only, obligation=None, expect=None):
    d = dict(name="w14_" + name, file=file, old=old, new=new, only=only)
    if expect:
        d["expect"] = expect
    else:
        d["obligation"] = obligation
    return d


APP = "bp_append:cur1_bs4096"
APP0 = "bp_append:cur0_bs4096"
GNB = "bp_get_new_block"
ENQ = "bp_enqueue"
SEN = "bp_sentinel"

MUTANTS = {
    "C01": [
        # ------------------------------------------------------------ append
        m("app_no_data_adv", FE, "\t\t\tdata = (const char *)data + diff;\n", "", APP, INV),
        m("app_index_not_inc", FE, "proc->blk_current->index = proc->blk_index++;",
          "proc->blk_current->index = proc->blk_index;", APP0, INV),
        m("app_first_mark_kept", FE, "\t\t\tproc->blk_flags &= ~SQFS_BLK_FIRST_BLOCK;\n", "", APP0, INV),
        m("app_partial_submitted", FE,
          "\tif (proc->blk_current != NULL &&\n\t    proc->blk_current->size == proc->max_block_size) {\n\t\terr = enqueue_block(proc, proc->blk_current);",
          "\tif (proc->blk_current != NULL &&\n\t    proc->blk_current->size >= 1) {\n\t\terr = enqueue_block(proc, proc->blk_current);",
          APP, "C01.bp.blocks_full"),
        m("app_full_block_kept", FE,
          "\tif (proc->blk_current != NULL &&\n\t    proc->blk_current->size == proc->max_block_size) {\n\t\terr = enqueue_block(proc, proc->blk_current);",
          "\tif (proc->blk_current != NULL &&\n\t    proc->blk_current->size > proc->max_block_size) {\n\t\terr = enqueue_block(proc, proc->blk_current);",
          APP, "C01.bp.blocks_full"),
        m("app_filesize_off", FE, "filesize + size);", "filesize + size + 1);", APP, "C01.bp.file_size"),
        m("app_filesize_twice", FE,
          "\t\tsqfs_inode_set_file_size(*(proc->inode), filesize + size);\n",
          "\t\tsqfs_inode_set_file_size(*(proc->inode), filesize + size);\n"
          "\t\tsqfs_inode_set_file_size(*(proc->inode), filesize + size);\n",
          APP, "C01.bp.file_size"),
        m("app_last_err_dropped", FE,
          "\t\tif (err)\n\t\t\treturn err;\n\t}\n\n\treturn 0;\n}\n\nint sqfs_block_processor_end_file",
          "\t}\n\n\treturn 0;\n}\n\nint sqfs_block_processor_end_file", APP, "C01.bp.fail_stop"),
        m("app_gnb_err_masked", FE,
          "\t\t\terr = get_new_block(proc, &new);\n\t\t\tif (err != 0)\n\t\t\t\treturn err;\n",
          "\t\t\terr = get_new_block(proc, &new);\n\t\t\tif (err != 0)\n\t\t\t\treturn 0;\n",
          APP0, "C01.bp.fail_stop"),
        m("app_copy_at_start", FE, "dst = proc->blk_current->data + proc->blk_current->size;",
          "dst = proc->blk_current->data;", APP, "C01.bp.bytes_in_order"),
        m("app_diff_unclamped", FE, "\t\tif (diff > size)\n\t\t\tdiff = size;\n", "", APP,
          "C01.bp.bytes_in_order"),
        m("app_block_overrun", FE, "diff = proc->max_block_size - proc->blk_current->size;",
          "diff = proc->max_block_size - proc->blk_current->size + 1;", APP, "C01.bp.append_safe"),
        m("app_second_block", FE,
          "\t\t\terr = enqueue_block(proc, proc->blk_current);\n\t\t\tproc->blk_current = NULL;\n\n\t\t\tif (err)\n\t\t\t\treturn err;\n\t\t\tcontinue;",
          "\t\t\terr = get_new_block(proc, &new);\n\t\t\tif (err)\n\t\t\t\treturn err;\n\t\t\terr = enqueue_block(proc, proc->blk_current);\n\t\t\tproc->blk_current = NULL;\n\n\t\t\tif (err)\n\t\t\t\treturn err;\n\t\t\tcontinue;",
          APP, "C01.bp.one_block_in_hand"),
        m("app_stats_dropped", FE, "\t\tproc->stats.input_bytes_read += diff;\n", "", APP, INV),
        m("noop_app_cond", FE, "\twhile (size > 0) {\n\t\tif (proc->blk_current == NULL) {",
          "\twhile (size != 0) {\n\t\tif (proc->blk_current == NULL) {", APP, expect="pass"),
        m("noop_app_order", FE, "\t\tsize -= diff;\n\t\tproc->blk_current->size += diff;\n",
          "\t\tproc->blk_current->size += diff;\n\t\tsize -= diff;\n", APP, expect="pass"),
        # ----------------------------------------------------- get_new_block
        m("gnb_no_backlog_inc", FE, "\tproc->backlog += 1;\n", "", GNB, "C01.bp.get_new_block.backlog"),
        m("gnb_loop_off_by_one", FE, "while (proc->backlog >= proc->max_backlog) {",
          "while (proc->backlog > proc->max_backlog) {", GNB, "C01.bp.get_new_block.backlog"),
        m("gnb_malloc_header_only", FE, "blk = malloc(sizeof(*blk) + proc->max_block_size);",
          "blk = malloc(sizeof(*blk));", GNB, "C01.bp.get_new_block.capacity"),
        m("gnb_not_zeroed", FE, "\tmemset(blk, 0, sizeof(*blk));\n", "", GNB, "C01.bp.get_new_block.zeroed"),
        m("gnb_not_popped", FE, "\t\tproc->free_list = blk->next;\n", "", GNB, "C01.bp.get_new_block.fresh"),
        m("gnb_deq_err_dropped", FE, "\t\tint ret = dequeue_block(proc);\n\t\tif (ret != 0)\n\t\t\treturn ret;\n",
          "\t\tint ret = dequeue_block(proc);\n\t\tif (ret != 0)\n\t\t\tbreak;\n", GNB,
          "C01.bp.get_new_block.fail_stop"),
        m("noop_gnb_order", FE, "\t*out = blk;\n\n\tproc->backlog += 1;\n", "\tproc->backlog += 1;\n\n\t*out = blk;\n",
          GNB, expect="pass"),
        # ----------------------------------------------------- enqueue_block
        m("enq_refused_not_recycled", FE, "\t\tblk->next = proc->free_list;\n\t\tproc->free_list = blk;\n", "",
          ENQ, "C01.bp.enqueue.fail_stop"),
        m("enq_status_zero_returned", FE, "\t\tif (status == 0)\n\t\t\tstatus = SQFS_ERROR_ALLOC;\n", "",
          ENQ, "C01.bp.enqueue.fail_stop"),
        m("enq_copy_index", FE, "copy->index = blk->index;", "copy->index = 0;", ENQ, "C01.bp.enqueue.copy"),
        m("enq_copy_always", FE, "\tif ((blk->flags & SQFS_BLK_FRAGMENT_BLOCK) &&\n\t    proc->file != NULL && proc->uncmp != NULL) {",
          "\tif (proc->file != NULL && proc->uncmp != NULL) {", ENQ, "C01.bp.enqueue.copy"),
        m("enq_flags_touched", FE, "\tif (proc->pool->submit(proc->pool, blk) != 0) {",
          "\tblk->flags |= SQFS_BLK_LAST_BLOCK;\n\tif (proc->pool->submit(proc->pool, blk) != 0) {",
          ENQ, "C01.bp.enqueue.submitted"),
        m("noop_enq_status", FE, "\t\tif (status == 0)\n\t\t\tstatus = SQFS_ERROR_ALLOC;\n",
          "\t\tif (!status)\n\t\t\tstatus = SQFS_ERROR_ALLOC;\n", ENQ, expect="pass"),
        # ------------------------------------------------ add_sentinel_block
        m("sen_no_last_mark", FE, "blk->flags = proc->blk_flags | SQFS_BLK_LAST_BLOCK;",
          "blk->flags = proc->blk_flags;", SEN, "C01.bp.sentinel.block"),
        m("sen_no_inode", FE, "\tblk->inode = proc->inode;\n\tblk->flags = proc->blk_flags | SQFS_BLK_LAST_BLOCK;",
          "\tblk->flags = proc->blk_flags | SQFS_BLK_LAST_BLOCK;", SEN, "C01.bp.sentinel.block"),
        m("sen_err_dropped", FE, "\tret = get_new_block(proc, &blk);\n\tif (ret != 0)\n\t\treturn ret;\n\n\tblk->inode = proc->inode;",
          "\tret = get_new_block(proc, &blk);\n\tif (ret != 0)\n\t\treturn 0;\n\n\tblk->inode = proc->inode;",
          SEN, "C01.bp.sentinel.fail_stop"),
    ],
    "C08": [
        m("xxh_stripe_overrun", XXH, "} while (p <= limit);", "} while (p < b_end);", "xxh32_safe:slack4",
          INV_DFCC),
        m("xxh_word_overrun", XXH, "while (p + 4 <= b_end) {", "while (p + 3 <= b_end) {", "xxh32_safe:slack4",
          "C08.xxh32.reads_in_range"),
        m("xxh_byte_overrun", XXH, "while (p < b_end) {", "while (p <= b_end) {", "xxh32_safe:slack4", INV_DFCC),
        m("xxh_word_stuck", XXH, "\t\th32 = xxh_rotl32(h32, 17) * PRIME32_4;\n\t\tp += 4;\n",
          "\t\th32 = xxh_rotl32(h32, 17) * PRIME32_4;\n", "xxh32_safe:slack4", "decreases"),
        m("xxh_reads_behind_len", XXH, "while (p < b_end) {", "while (p <= b_end) {", "xxh32_fn:len7",
          "C08.xxh32.function_of_bytes"),
        m("xxh_hidden_state", XXH, "\th32 += (sqfs_u32)len;\n", "\t{ static sqfs_u32 calls; h32 += (sqfs_u32)len + calls++; }\n",
          "xxh32_fn:len7", "C08.xxh32.function_of_bytes"),
        m("noop_xxh_step", XXH, "\t\th32 = xxh_rotl32(h32, 17) * PRIME32_4;\n\t\tp += 4;\n",
          "\t\th32 = xxh_rotl32(h32, 17) * PRIME32_4;\n\t\tp = p + 4;\n", "xxh32_safe:slack4", expect="pass"),
        m("noop_xxh_const", XXH, "static const sqfs_u32 PRIME32_5 =  374761393U;",
          "static const sqfs_u32 PRIME32_5 =  374761395U;", "xxh32_fn:len1[0-9]", expect="pass"),
    ],
    "C12": [
        m("mem_get_have_unclamped", STRM, "\tif (have > mem->bufsz)\n\t\thave = mem->bufsz;\n", "", "mem_get",
          "C12.mem_get.copy_in_bounds"),
        m("mem_get_src_restart", STRM, "(const char *)mem->data + mem->offset + mem->visible,",
          "(const char *)mem->data + mem->offset,", "mem_get", "C12.mem_get.copy_args"),
        m("mem_get_dst_restart", STRM, "\t\tmemcpy(mem->buffer + mem->visible,\n", "\t\tmemcpy(mem->buffer,\n",
          "mem_get", "C12.mem_get.copy_args"),
        m("mem_get_eof_on_short", STRM, "return (mem->visible == 0) ? 1 : 0;", "return (mem->visible <= want) ? 1 : 0;",
          "mem_get", "C12.mem_get.eof"),
        m("mem_get_not_lazy", STRM, "if (mem->visible == 0 || mem->visible < want) {",
          "if (mem->visible == 0 || mem->visible <= want) {", "mem_get", "C12.mem_get.lazy"),
        m("mem_get_want_ignored", STRM, "if (mem->visible == 0 || mem->visible < want) {",
          "if (mem->visible == 0) {", "mem_get", "C12.mem_get.enough"),
        m("mem_get_size_want", STRM, "\t*size = mem->visible;\n\treturn (mem->visible == 0) ? 1 : 0;",
          "\t*size = want;\n\treturn (mem->visible == 0) ? 1 : 0;", "mem_get", "C12.mem_get.view"),
        m("mem_get_consumes", STRM, "\t*out = mem->buffer;\n\t*size = mem->visible;\n",
          "\t*out = mem->buffer;\n\t*size = mem->visible;\n\tmem->offset += mem->visible;\n", "mem_get",
          "C12.mem_get"),
        m("noop_mem_get_clamp", STRM, "\tif (want > have)\n\t\twant = have;\n", "\tif (have < want)\n\t\twant = have;\n",
          "mem_get", expect="pass"),
        m("mem_adv_no_offset", STRM, "\tmem->offset += count;\n", "", "mem_advance", "C12.mem_advance.consume"),
        m("mem_adv_move_len", STRM, "memmove(mem->buffer, mem->buffer + count, mem->visible - count);",
          "memmove(mem->buffer, mem->buffer + count, mem->visible);", "mem_advance", "C12.mem_advance.move_"),
        m("mem_adv_move_skipped", STRM, "\tif (count > 0 && count < mem->visible)\n", "\tif (count > 1 && count < mem->visible)\n",
          "mem_advance", "C12.mem_advance.stream"),
        m("mem_adv_wipes_unread", STRM, "\t\tmemset(mem->buffer + mem->visible, 0,\n", "\t\tmemset(mem->buffer, 0,\n",
          "mem_advance", "C12.mem_advance.stream"),
        m("mem_adv_wipe_len", STRM, "\t\t       mem->bufsz - mem->visible);\n", "\t\t       mem->bufsz);\n",
          "mem_advance", "C12.mem_advance.set_in_bounds"),
        m("noop_mem_adv_order", STRM, "\tmem->offset += count;\n\tmem->visible -= count;\n",
          "\tmem->visible -= count;\n\tmem->offset += count;\n", "mem_advance", expect="pass"),
        m("mem_create_no_bufsz", STRM, "\tmem->bufsz = bufsz;\n", "", "mem_create", "C12.mem_create.inv"),
        m("mem_create_small_buffer", STRM, "mem->buffer = malloc(bufsz);", "mem->buffer = malloc(bufsz / 2 + 1);",
          "mem_create", "C12.mem_create.inv"),
        m("mem_create_name_shared", STRM, "mem->name = strdup(name);", "mem->name = (char *)name;",
          "mem_create", "C12.mem_create.name"),
        m("mem_create_leak", STRM, "\tif (mem->buffer == NULL)\n\t\treturn sqfs_drop(mem);\n",
          "\tif (mem->buffer == NULL)\n\t\treturn NULL;\n", "mem_create:allocfail", LEAK),
        m("mem_destroy_leak", STRM, "\tfree(((mem_istream_t *)obj)->name);\n", "", "mem_create", LEAK),
        m("std_out_sparse", STRM, "\t\t\t\t\tSQFS_FILE_OPEN_NO_SPARSE);", "\t\t\t\t\t0);", "mem_create", "C12.std.stdout"),
        m("std_in_wrong_handle", STRM, "sqfs_file_handle_t hnd = GetStdHandle(STD_INPUT_HANDLE);",
          "sqfs_file_handle_t hnd = GetStdHandle(STD_OUTPUT_HANDLE);", "mem_create", "C12.std.stdin"),
        m("noop_mem_create_order", STRM, "\tmem->data = data;\n\tmem->size = size;\n", "\tmem->size = size;\n\tmem->data = data;\n",
          "mem_create", expect="pass"),
    ],
    "C13": [
        m("perr_text_reused", PERR, 'errstr = "I/O error";', 'errstr = "out of memory";', "perror:other1",
          "C13.perror.message"),
        m("perr_case_missing", PERR, '\tcase SQFS_ERROR_SEQUENCE:\n\t\terrstr = "illegal oder of operations";\n\t\tbreak;\n',
          "", "perror:other1", "C13.perror.message"),
        m("perr_errno_lost", PERR, "\tset_os_error_state(syserror);\n", "", "perror:other1", "C13.perror.errno_kept"),
        m("perr_oserror_always", PERR, "if (error_code == SQFS_ERROR_IO) {", "if (error_code != 0) {", "perror:other1",
          "C13.perror.errno_kept"),
        m("perr_action_first", PERR,
          '\tif (file != NULL)\n\t\tfprintf(stderr, "%s: ", file);\n\n\tif (action != NULL)\n\t\tfprintf(stderr, "%s: ", action);\n',
          '\tif (action != NULL)\n\t\tfprintf(stderr, "%s: ", action);\n\n\tif (file != NULL)\n\t\tfprintf(stderr, "%s: ", file);\n',
          "perror:other1", "C13.perror.prefix"),
        m("perr_null_file_printed", PERR, "\tif (file != NULL)\n", "", "perror:other1", "C13.perror.prefix"),
        m("noop_perr_case_order", PERR,
          '\tcase SQFS_ERROR_ALLOC:\n\t\terrstr = "out of memory";\n\t\tbreak;\n\tcase SQFS_ERROR_IO:\n\t\terrstr = "I/O error";\n\t\tbreak;\n',
          '\tcase SQFS_ERROR_IO:\n\t\terrstr = "I/O error";\n\t\tbreak;\n\tcase SQFS_ERROR_ALLOC:\n\t\terrstr = "out of memory";\n\t\tbreak;\n',
          "perror", expect="pass"),
        m("noop_perr_typo_fixed", PERR, '"illegal oder of operations"', '"illegal order of operations"', "perror", expect="pass"),
    ],
}
