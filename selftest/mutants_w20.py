# Self-test mutants of worker w20 (selftest/run.py C05|C11|C06 'w20_*').
#   C05: sqfsdiff main()/open_sfqs()/close_sfqs() ownership + exit status
#   C11: hard link resolution against the independent path lookup
#   C06: fill_dir delivers every directory entry (no silent drop, exact filters)
# w20_seed_* are the slips the reviewers planted and the old checks missed.
SD = "bin/sqfsdiff/src/sqfsdiff.c"
HL = "lib/fstree/src/hardlink.c"
FT = "lib/fstree/src/fstree.c"
RT = "lib/common/src/read_tree.c"


def m(name, file, old, new, only, obligation=None, expect=None):
    d = dict(name="w20_" + name, file=file, old=old, new=new, only=only)
    if expect:
        d["expect"] = expect
    else:
        d["obligation"] = obligation
    return d


MAIN = "w20_sqfsdiff_main"
HLR = "w20_hl_resolve:root_t3"
FD1 = "w20_fill_dir_nodrop:n1_file"

_HL_LOOKUP_OLD = (
    "\t\t\tnode = fstree_get_node_by_path(fs, fs->root,\n"
    "\t\t\t\t\t\t       node->data.target,\n"
    "\t\t\t\t\t\t       false, false);\n")
_HL_LOOKUP_NEW = "\t\t\tnode = find_by_path(fs->root, node->data.target);\n"
_HL_HELPERS = '''static bool path_matches(const tree_node_t *n, const char *path)
{
	const char *end = path + strlen(path);

	while (n->parent != NULL) {
		size_t len = strlen(n->name);

		if ((size_t)(end - path) < len)
			return false;
		end -= len;
		if (strncmp(end, n->name, len) != 0)
			return false;
		if (end > path) {
			if (end[-1] != '/')
				return false;
			--end;
		}
		n = n->parent;
	}
	return true;
}

static tree_node_t *find_by_path(tree_node_t *dir, const char *path)
{
	tree_node_t *it, *n;

	for (it = dir->data.children; it != NULL; it = it->next) {
		if (path_matches(it, path))
			return it;
	}
	for (it = dir->data.children; it != NULL; it = it->next) {
		if (S_ISDIR(it->mode)) {
			n = find_by_path(it, path);
			if (n != NULL)
				return n;
		}
	}
	return NULL;
}

static int resolve_link(fstree_t *fs, tree_node_t *node)
'''

MUTANTS = {
    "C05": [
        # the planted slip: "second image could not be opened" folded into the
        # common exit path -> close_sfqs() twice on the same state
        m("seed_double_close", SD,
          "\tif (open_sfqs(&sd.sqfs_new, sd.new_path)) {\n\t\tstatus = 2;\n\t\tgoto out_sqfs_old;\n\t}",
          "\tif (open_sfqs(&sd.sqfs_new, sd.new_path)) {\n\t\tret = -1;\n\t\tgoto out;\n\t}",
          MAIN, "C05.sqfsdiff.release_once"),
        m("leak_old_image", SD,
          "\t\tstatus = 2;\n\t\tgoto out_sqfs_old;",
          "\t\treturn 2;",
          MAIN, "C05.sqfsdiff.no_leak"),
        m("open_fail_no_cleanup", SD,
          "\t\tsqfs_perror(path, \"loading ID table\", ret);\n\t\tgoto fail;",
          "\t\tsqfs_perror(path, \"loading ID table\", ret);\n\t\treturn -1;",
          MAIN, "C05.sqfsdiff.no_leak"),
        m("status_error_as_diff", SD,
          "\tif (ret < 0) {\n\t\tstatus = 2;",
          "\tif (ret < 0) {\n\t\tstatus = 1;",
          MAIN, "C05.sqfsdiff.status"),
        m("status_second_image", SD,
          "\t\tstatus = 2;\n\t\tgoto out_sqfs_old;",
          "\t\tstatus = 0;\n\t\tgoto out_sqfs_old;",
          MAIN, "C05.sqfsdiff.status"),
        m("use_null_data_reader", SD,
          "\t\tsqfs_perror(path, \"creating data reader\", SQFS_ERROR_ALLOC);\n\t\tgoto fail;",
          "\t\tsqfs_perror(path, \"creating data reader\", SQFS_ERROR_ALLOC);",
          MAIN, "C05.sqfsdiff.use_live"),
        m("no_diag_chdir", SD,
          "\t\t\tperror(sd.extract_dir);\n", "",
          MAIN, "C05.sqfsdiff.diagnostic"),
        m("chdir_early", SD,
          "\t\tif (mkdir_p(sd.extract_dir))\n\t\t\treturn 2;",
          "\t\tif (mkdir_p(sd.extract_dir) || chdir(sd.extract_dir))\n\t\t\treturn 2;",
          MAIN, "C05.sqfsdiff.chdir_after_open"),
        m("compare_swapped_super", SD,
          "compare_super_blocks(&sd.sqfs_old.super,\n\t\t\t\t\t   &sd.sqfs_new.super);",
          "compare_super_blocks(&sd.sqfs_old.super,\n\t\t\t\t\t   &sd.sqfs_old.super);",
          MAIN, "C05.sqfsdiff.compare_args"),
        # behaviour preserving
        m("ok_drop_order", SD,
          "\tsqfs_drop(state->dr);\n\tsqfs_drop(state->idtbl);",
          "\tsqfs_drop(state->idtbl);\n\tsqfs_drop(state->dr);",
          MAIN, expect="pass"),
        m("ok_inline_exit", SD,
          "\t\tstatus = 2;\n\t\tgoto out_sqfs_old;",
          "\t\tclose_sfqs(&sd.sqfs_old);\n\t\treturn 2;",
          MAIN, expect="pass"),
    ],
    "C11": [
        # the planted slip, in a form cbmc can execute: "siblings first" - the
        # last path component is looked up among the link's siblings before the
        # real path look-up, i.e. a path SUFFIX is accepted as the path.
        # (My first reconstruction - a recursive whole-tree search with a
        # back-to-front strlen/strncmp comparison, kept below as _HL_HELPERS -
        # did not finish within 15 minutes in this harness: undecided, not
        # detected. See the w20 report.)
        dict(tier="thorough", **m("seed_suffix_siblings", HL, _HL_LOOKUP_OLD,
          "\t\t\tconst char *base = node->data.target, *p;\n"
          "\t\t\ttree_node_t *sib;\n\n"
          "\t\t\tfor (p = base; *p != '\\0'; ++p) {\n"
          "\t\t\t\tif (*p == '/')\n\t\t\t\t\tbase = p + 1;\n\t\t\t}\n"
          "\t\t\tfor (sib = node->parent->data.children; sib != NULL; sib = sib->next) {\n"
          "\t\t\t\tif (sib != node && strcmp(sib->name, base) == 0)\n\t\t\t\t\tbreak;\n\t\t\t}\n"
          "\t\t\tif (sib != NULL)\n\t\t\t\tnode = sib;\n\t\t\telse\n\t"
          + _HL_LOOKUP_OLD,
          "w20_hl_resolve:inU_t2_wide", "C11.hl.")),
        # the same slip under the quick tier's tight loop bounds: still exit 1,
        # but reported as the unwinding assertion of the renumbered loop
        m("seed_suffix_siblings_quick", HL, _HL_LOOKUP_OLD,
          "\t\t\tconst char *base = node->data.target, *p;\n"
          "\t\t\ttree_node_t *sib;\n\n"
          "\t\t\tfor (p = base; *p != '\\0'; ++p) {\n"
          "\t\t\t\tif (*p == '/')\n\t\t\t\t\tbase = p + 1;\n\t\t\t}\n"
          "\t\t\tfor (sib = node->parent->data.children; sib != NULL; sib = sib->next) {\n"
          "\t\t\t\tif (sib != node && strcmp(sib->name, base) == 0)\n\t\t\t\t\tbreak;\n\t\t\t}\n"
          "\t\t\tif (sib != NULL)\n\t\t\t\tnode = sib;\n\t\t\telse\n\t"
          + _HL_LOOKUP_OLD,
          "w20_hl_resolve:inU_t2", "resolve_link.unwind"),
        m("link_to_dir", HL,
          "\tif (S_ISDIR(node->mode)) {\n\t\terrno = EPERM;\n\t\treturn -1;\n\t}\n", "",
          "w20_hl_resolve:root_t1", "C11.hl.fail_iff"),
        m("count_wrong_node", HL,
          "\tnode->link_count++;", "\tstart->link_count++;",
          HLR, "C11.hl.link_count"),
        dict(m("list_not_cleared", HL,
               "\t\tn->next_by_type = NULL;\n", "",
               "w20_hl_resolve:chain_t2_o0", "C11.hl.tree_unchanged"), tier="thorough"),
        m("lookup_first_child", FT,
          "\t\tif (strncmp(n->name, name, len) == 0 && n->name[len] == '\\0')\n\t\t\tbreak;",
          "\t\tif (strncmp(n->name, name, len) <= 0 && n->name[len] == '\\0')\n\t\t\tbreak;",
          HLR, "C11.hl."),
        m("ok_swap_stores", HL,
          "\tstart->flags |= FLAG_LINK_RESOVED;\n\tstart->data.target_node = node;",
          "\tstart->data.target_node = node;\n\tstart->flags |= FLAG_LINK_RESOVED;",
          HLR, expect="pass"),
        m("ok_cmp_order", FT,
          "\t\tif (strncmp(n->name, name, len) == 0 && n->name[len] == '\\0')\n\t\t\tbreak;",
          "\t\tif (n->name[len] == '\\0' && strncmp(n->name, name, len) == 0)\n\t\t\tbreak;",
          "w20_hl_resolve:root_t2", expect="pass"),
    ],
    "C06": [
        # the planted slip: "." and ".." filtered while the tree is read
        m("seed_dot_filter", RT,
          "\t\tif (should_skip(ent->type, flags)) {\n\t\t\tfree(ent);\n\t\t\tcontinue;\n\t\t}\n",
          "\t\tif (should_skip(ent->type, flags)) {\n\t\t\tfree(ent);\n\t\t\tcontinue;\n\t\t}\n\n"
          "\t\tif (ent->name[0] == '.' && (ent->name[1] == '\\0' ||\n"
          "\t\t    (ent->name[1] == '.' && ent->name[2] == '\\0'))) {\n\t\t\tfree(ent);\n\t\t\tcontinue;\n\t\t}\n",
          FD1, "C06.read_tree.no_silent_drop"),
        m("filter_fifo_as_socket", RT,
          "\t\treturn (flags & SQFS_TREE_NO_FIFO);", "\t\treturn (flags & SQFS_TREE_NO_SOCKETS);",
          "w20_fill_dir_nodrop:n1_fifo", "C06.read_tree."),
        m("no_empty_ignores_flag", RT,
          "\t\t\tif (n->children == NULL &&\n\t\t\t    (flags & SQFS_TREE_NO_EMPTY)) {",
          "\t\t\tif (n->children == NULL) {",
          "w20_fill_dir_nodrop:n1_dir", "C06.read_tree."),
        m("prepend_instead_of_append", RT,
          "\t\t*tail = n;\n\t\ttail = &n->next;\n",
          "\t\tn->next = root->children;\n\t\troot->children = n;\n",
          "w20_fill_dir_nodrop:n2_slink_file", "C06.read_tree.no_silent_drop"),
        m("entry_leak_on_skip", RT,
          "\t\tif (should_skip(ent->type, flags)) {\n\t\t\tfree(ent);\n\t\t\tcontinue;",
          "\t\tif (should_skip(ent->type, flags)) {\n\t\t\tcontinue;",
          "w20_fill_dir_nodrop:n1_slink", "C06.read_tree.entry_released"),
        m("ok_free_order", RT,
          "\t\t\tfree(n);\n\t\t\tfree(inode);\n\t\t\treturn SQFS_ERROR_LINK_LOOP;",
          "\t\t\tfree(inode);\n\t\t\tfree(n);\n\t\t\treturn SQFS_ERROR_LINK_LOOP;",
          FD1, expect="pass"),
        m("ok_tail_rewrite", RT,
          "\t\t*tail = n;\n\t\ttail = &n->next;\n\t\tn->parent = root;",
          "\t\tn->parent = root;\n\t\t*tail = n;\n\t\ttail = &(n->next);",
          FD1, expect="pass"),
    ],
}
