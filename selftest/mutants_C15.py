# Self-test mutants for C15 (selftest/run.py C15 [glob]).
# On the unchanged tree the harnesses in_get and adapter_* already fail the
# obligations listed in harness/C15/proposed_known_findings.json (genuine
# defects - the current code is, so to speak, their mutant); the mutants
# below target the OTHER obligations of those harnesses.
XI = "lib/xfrm/src/istream.c"
XO = "lib/xfrm/src/ostream.c"
GZ = "lib/xfrm/src/gzip.c"
XZ = "lib/xfrm/src/xz.c"
ZS = "lib/xfrm/src/zstd.c"
BZ = "lib/xfrm/src/bzip2.c"
CMP = "lib/xfrm/src/compress.c"
IT = "lib/tar/src/iterator.c"
INV = "loop invariant is preserved"


def m(name, file, old, new, only, obligation=None, expect=None):
    d = dict(name=name, file=file, old=old, new=new, only=only)
    if expect:
        d["expect"] = expect
    else:
        d["obligation"] = obligation
    return d


MUTANTS = {"C15": [
    # ------------------------------------------------- xfrm/istream.c precache
    m("xi_no_advance", XI, "\t\txfrm->wrapped->advance_buffer(xfrm->wrapped, in_off);\n", "",
      "in_precache", "C15.in"),
    m("xi_advance_all", XI, "advance_buffer(xfrm->wrapped, in_off);", "advance_buffer(xfrm->wrapped, avail);",
      "in_precache", "C15.in.feed_once"),
    m("xi_never_flush", XI, "\t\tif (ret > 0)\n\t\t\tmode = XFRM_STREAM_FLUSH_FULL;\n", "",
      "in_precache", "C15.in.flush_at_eof"),
    m("xi_out_off_zero", XI, "sqfs_u32 in_off = 0, out_off = xfrm->buffer_used;", "sqfs_u32 in_off = 0, out_off = 0;",
      "in_precache", "C15.in.codec_args"),
    m("xi_no_compact", XI,
      "\tif (xfrm->buffer_offset > 0 &&\n\t    xfrm->buffer_offset < xfrm->buffer_used) {\n\t\tmemmove(xfrm->uncompressed,\n\t\t\txfrm->uncompressed + xfrm->buffer_offset,\n\t\t\txfrm->buffer_used - xfrm->buffer_offset);\n\t}\n",
      "", "in_precache", "C15.in"),
    m("xi_used_not_set", XI, "\t\txfrm->buffer_used = out_off;\n", "", "in_precache", "C15.in"),
    m("xi_one_call", XI, "\t\tif (mode == XFRM_STREAM_FLUSH_FULL)\n\t\t\tbreak;", "\t\tbreak;",
      "in_precache", "C15.in.stop_reason"),
    m("xi_err_ignored", XI, "\t\tif (ret == XFRM_STREAM_ERROR)\n\t\t\treturn SQFS_ERROR_COMPRESSOR;\n", "",
      "in_precache", "C15."),
    m("xi_in_ptr", XI, "\t\t\t\t\t       ptr, avail,", "\t\t\t\t\t       ptr, avail - 1,",
      "in_precache", "C15.in.codec_args"),
    m("noop_xi_full", XI, "if (ret == XFRM_STREAM_BUFFER_FULL || out_off >= BUFSZ)",
      "if (ret == XFRM_STREAM_BUFFER_FULL || out_off == BUFSZ)", "in_precache", expect="pass"),
    # ----------------------------------------- xfrm_get_buffered_data / advance
    m("xi_never_eof", XI, "\treturn (*size == 0) ? 1 : 0;", "\treturn 0;", "in_get", "C15.in.view"),
    m("xi_view_ptr", XI, "\t*out = xfrm->uncompressed + xfrm->buffer_offset;", "\t*out = xfrm->uncompressed;",
      "in_get", "C15.in.view"),
    m("xi_eager", XI, "\t    (xfrm->buffer_used - xfrm->buffer_offset) < want) {",
      "\t    (xfrm->buffer_used - xfrm->buffer_offset) <= want) {", "in_get", "C15.in.lazy"),
    m("xi_size_used", XI, "\t*size = xfrm->buffer_used - xfrm->buffer_offset;", "\t*size = xfrm->buffer_used;",
      "in_get", "C15.in.view"),
    m("xi_adv_plus1", XI, "\txfrm->buffer_offset += count;", "\txfrm->buffer_offset += count + 1;",
      "in_advance", "xfrm_advance_buffer"),
    # ------------------------------------------------------------- flush_inbuf
    m("xo_no_forward", XO,
      "\t\tioret = xfrm->wrapped->append(xfrm->wrapped,\n\t\t\t\t\t      xfrm->outbuf, off_out);",
      "\t\tioret = 0;", "out_flush_inbuf", INV),
    m("xo_off_out_kept", XO, "\t\toff_out = 0;\n\n\t\tif (ret == XFRM_STREAM_END)", "\n\t\tif (ret == XFRM_STREAM_END)",
      "out_flush_inbuf", INV),
    m("xo_mode_none", XO, "\tconst int mode = finish ? XFRM_STREAM_FLUSH_FULL :\n\t\tXFRM_STREAM_FLUSH_NONE;",
      "\tconst int mode = XFRM_STREAM_FLUSH_NONE;", "out_flush_inbuf", "C15.out.flush_mode"),
    m("xo_stop_early", XO, "\t\tif (ret == XFRM_STREAM_END)\n\t\t\tbreak;", "\t\tif (ret != XFRM_STREAM_OK)\n\t\t\tbreak;",
      "out_flush_inbuf", "C15.out"),
    m("xo_no_compact", XO,
      "\t\tmemmove(xfrm->inbuf, xfrm->inbuf + off_in, avail_in - off_in);\n", "",
      "out_flush_inbuf", "C15.out.consumed_once"),
    m("xo_used_zeroed", XO, "\t\txfrm->inbuf_used -= off_in;", "\t\txfrm->inbuf_used = 0;",
      "out_flush_inbuf", "C15.out.consumed_once"),
    m("xo_append_err_ignored", XO, "\t\tif (ioret)\n\t\t\treturn ioret;\n", "", "out_flush_inbuf", "C15.out"),
    m("xo_in_ptr", XO, "\t\t\t\t\t       xfrm->inbuf + off_in,\n", "\t\t\t\t\t       xfrm->inbuf,\n",
      "out_flush_inbuf", "C15.out.codec_args"),
    m("xo_codec_err_ignored", XO, "\t\tif (ret == XFRM_STREAM_ERROR)\n\t\t\treturn SQFS_ERROR_COMPRESSOR;\n", "",
      "out_flush_inbuf", "C15."),
    # ------------------------------------------------ xfrm_append / xfrm_flush
    m("xo_never_flush", XO, "\t\tif (xfrm->inbuf_used >= BUFSZ) {", "\t\tif (xfrm->inbuf_used > BUFSZ) {",
      "out_append", "C15.out.copy_args"),
    m("xo_copy_dst", XO, "\t\t\tmemcpy(xfrm->inbuf + xfrm->inbuf_used, data, diff);",
      "\t\t\tmemcpy(xfrm->inbuf, data, diff);", "out_append", "C15.out.copy_args"),
    m("xo_no_data_adv", XO, "\t\t\tdata = (const char *)data + diff;\n", "", "out_append", INV),
    m("xo_used_not_adv", XO, "\t\txfrm->inbuf_used += diff;\n", "", "out_append", INV),
    m("xo_flush_err_ignored", XO,
      "\t\t\tint ret = flush_inbuf(xfrm, false);\n\t\t\tif (ret)\n\t\t\t\treturn ret;",
      "\t\t\tflush_inbuf(xfrm, false);", "out_append", "C15.out"),
    m("xo_early_flush", XO, "\t\tif (xfrm->inbuf_used >= BUFSZ) {", "\t\tif (xfrm->inbuf_used >= BUFSZ / 2) {",
      "out_append", "C15.out.flush_when_full"),
    m("noop_xo_clip", XO, "\t\tif (diff > size)\n\t\t\tdiff = size;", "\t\tif (diff >= size)\n\t\t\tdiff = size;",
      "out_append", expect="pass"),
    m("xo_flush_no_finish", XO, "\t\tint ret = flush_inbuf(xfrm, true);", "\t\tint ret = flush_inbuf(xfrm, false);",
      "out_flush", "C15.out.trailer"),
    m("xo_flush_skips_one", XO, "\tif (xfrm->inbuf_used > 0) {", "\tif (xfrm->inbuf_used > 1) {",
      "out_flush", "C15.out"),
    m("xo_finish_err_ignored", XO, "\t\tint ret = flush_inbuf(xfrm, true);\n\t\tif (ret)\n\t\t\treturn ret;",
      "\t\tflush_inbuf(xfrm, true);", "out_flush", "C15.out.flush_order"),
    m("noop_xo_flush", XO, "\tif (xfrm->inbuf_used > 0) {", "\tif (xfrm->inbuf_used != 0) {", "out_flush", expect="pass"),
    # ---------------------------------------------------------------- adapters
    m("gz_in_read", GZ, "\t\tin_size -= diff;\n\t\t*in_read += diff;", "\t\tin_size -= diff;", "adapter_gzip",
      "C15.adapter.offsets"),
    m("gz_flush_map", GZ, "[XFRM_STREAM_FLUSH_FULL] = Z_FINISH,", "[XFRM_STREAM_FLUSH_FULL] = Z_SYNC_FLUSH,",
      "adapter_gzip", "C15.adapter.flush_mode"),
    m("gz_avail_out", GZ, "\t\tgzip->strm.avail_out = out_size;", "\t\tgzip->strm.avail_out = out_size + 1;",
      "adapter_gzip", "C15.adapter.lib_args"),
    m("gz_no_reset", GZ, "\t\t\t\tret = inflateReset(&gzip->strm);", "\t\t\t\tret = Z_OK;", "adapter_gzip",
      "C15.adapter.reset_after_end"),
    m("gz_end_is_ok", GZ, "\t\t\treturn XFRM_STREAM_END;\n\t\t}\n\n\t\tif (ret == Z_BUF_ERROR)",
      "\t\t\treturn XFRM_STREAM_OK;\n\t\t}\n\n\t\tif (ret == Z_BUF_ERROR)", "adapter_gzip",
      "C15.adapter.end_iff_lib_end"),
    m("gz_direction", GZ, "\t\tif (gzip->compress) {\n\t\t\tret = deflate(", "\t\tif (!gzip->compress) {\n\t\t\tret = deflate(",
      "adapter_gzip", "C15.adapter.lib_args"),
    m("xz_no_lzma_end", XZ, "\t\t\tlzma_end(&xz->strm);\n\t\t\txz->initialized = false;\n\t\t\treturn XFRM_STREAM_END;",
      "\t\t\txz->initialized = false;\n\t\t\treturn XFRM_STREAM_END;", "adapter_xz",
      "C15.adapter.end_after_stream_end"),
    m("xz_data_error_ok", XZ, "\t\tif (ret_xz != LZMA_OK && ret_xz != LZMA_BUF_ERROR &&",
      "\t\tif (ret_xz != LZMA_OK && ret_xz != LZMA_BUF_ERROR && ret_xz != LZMA_DATA_ERROR &&", "adapter_xz",
      "C15.adapter.error_propagates"),
    m("xz_reinit_always", XZ, "\tif (!xz->initialized) {\n\t\tif (xz->compress) {", "\tif (1) {\n\t\tif (xz->compress) {",
      "adapter_xz", "C15.adapter.lazy_init"),
    m("xz_out_written", XZ, "\t\tout_size -= diff;\n\t\t*out_written += diff;", "\t\tout_size -= diff;", "adapter_xz",
      "C15.adapter.offsets"),
    m("bz_out_written", BZ, "\t\tout_size -= diff;\n\t\t*out_written += diff;", "\t\tout_size -= diff;", "adapter_bzip2",
      "C15.adapter.offsets"),
    m("bz_never_initialized", BZ, "\t\tbzip2->initialized = true;\n", "", "adapter_bzip2", "C15.adapter.lazy_init"),
    m("bz_err_ignored", BZ, "\t\tif (ret < 0)\n\t\t\treturn XFRM_STREAM_ERROR;\n", "", "adapter_bzip2",
      "C15.adapter.error_propagates"),
    m("zs_in_read", ZS, "\t\t*in_read += in_desc.pos;\n", "", "adapter_zstd", "C15.adapter.offsets"),
    m("zs_err_ignored", ZS, "\t\tif (ZSTD_isError(ret))\n\t\t\treturn XFRM_STREAM_ERROR;\n", "", "adapter_zstd",
      "C15.adapter.error_propagates"),
    m("zs_flush_map", ZS, "[XFRM_STREAM_FLUSH_FULL] = ZSTD_e_end,", "[XFRM_STREAM_FLUSH_FULL] = ZSTD_e_flush,",
      "adapter_zstd", "C15.adapter.flush_mode"),
    # ----------------------------------------------------------------- probing
    m("pm_short_magic", CMP, '(const sqfs_u8 *)"\\x1F\\x8B\\x08", 3,', '(const sqfs_u8 *)"\\x1F\\x8B\\x08", 2,',
      "probe_magic", "C15.probe.magic_iff"),
    m("pm_count_ge", CMP, "\t\tif (compressors[i].count > count)", "\t\tif (compressors[i].count >= count)",
      "probe_magic", "C15.probe.magic_iff"),
    m("noop_pm_not", CMP, "\t\tif (ret == 0)\n\t\t\treturn compressors[i].id;", "\t\tif (!ret)\n\t\t\treturn compressors[i].id;",
      "probe_magic", expect="pass"),
    m("pt_offset_lt", IT, "\tif (offset + 5 <= size) {", "\tif (offset + 5 < size) {", "probe_tar", "C15.probe.ustar_iff"),
    m("pt_any_zero", IT, "\t\tif (i == TAR_RECORD_SIZE) {", "\t\tif (i > 0) {", "probe_tar", "C15.probe.ustar_iff"),
    m("pt_skip_two", IT, "\t\t\tdata += TAR_RECORD_SIZE;\n\t\t\tsize -= TAR_RECORD_SIZE;",
      "\t\t\tdata += 2 * TAR_RECORD_SIZE;\n\t\t\tsize -= TAR_RECORD_SIZE;", "probe_tar", ""),
    m("noop_pt_nonzero", IT, "\t\t\tif (data[i] != 0x00)\n\t\t\t\tbreak;", "\t\t\tif (data[i])\n\t\t\t\tbreak;",
      "probe_tar", expect="pass"),
    m("po_ustar_not_checked", IT, "\tret = tar_probe(ptr, size);\n\tif (ret > 0)\n\t\tgoto out_strm;\n",
      "\tret = tar_probe(ptr, size);\n", "probe_open", "C15.probe.route"),
    m("po_wrong_id", IT, "\txfrm = decompressor_stream_create(ret);", "\txfrm = decompressor_stream_create(ret + 1);",
      "probe_open", "C15.probe.route"),
    m("po_codec_leak", IT, "\t\tsqfs_drop(xfrm);\n\t\tsqfs_drop(it);", "\t\tsqfs_drop(it);", "probe_open", "C15.probe.fail"),
    m("po_consumes", IT, "\tret = tar_probe(ptr, size);\n", "\tstrm->advance_buffer(strm, 1);\n\tret = tar_probe(ptr, size);\n",
      "probe_open", "C15.probe.peek"),
    m("po_magic_zero_ok", IT, "\tif (ret <= 0)\n\t\tgoto out_strm;\n\n\t/* auto-wrap", "\tif (ret < 0)\n\t\tgoto out_strm;\n\n\t/* auto-wrap",
      "probe_open", expect="pass"),
]}
