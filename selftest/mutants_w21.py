"""Self-test mutants for the representation-independent black-box harness of
the serial pool (harness/C09/w21_serial_bb.c, cases_extra_w21.py).

w21_ring_rewrite* replace the whole representation of threadpool_serial.c
(linked list + recycle list -> growable ring buffer): the state-based harnesses
serial_submit / serial_dequeue stop compiling on it (undecided), the black-box
harness must still compile and decide it - the rewrite with the linear
grow_ring() copy is refuted (FIFO broken after growing while wrapped), the same
rewrite with the copy done in ring order passes.
"""
SER = "lib/util/src/threadpool_serial.c"
BE = "lib/sqfs/src/block_processor/backend.c"
BB = "w21_serial_blackbox"

# unified-diff hunks of the ring-buffer rewrite (threadpool_serial.c)
RING_HUNKS = r'''
@@ -10,18 +10,20 @@
 #include <stdlib.h>
 #include <string.h>
 
-typedef struct work_item_t {
-	struct work_item_t *next;
-	void *data;
-} work_item_t;
+#define INIT_RING_SIZE (16)
 
 typedef struct {
 	thread_pool_t base;
 
-	work_item_t *queue;
-	work_item_t *queue_last;
-
-	work_item_t *recycle;
+	/*
+	 * The queued work items are kept in a ring buffer that is grown on
+	 * demand. Saves us an allocation per work item and the juggling
+	 * with a separate list of recycled items.
+	 */
+	void **ring;
+	size_t ring_size;
+	size_t rd_idx;
+	size_t count;
 
 	thread_pool_worker_t fun;
 	void *user;
@@ -32,18 +34,7 @@ static void destroy(thread_pool_t *interface)
 {
 	serial_impl_t *pool = (serial_impl_t *)interface;
 
-	while (pool->queue != NULL) {
-		work_item_t *item = pool->queue;
-		pool->queue = item->next;
-		free(item);
-	}
-
-	while (pool->recycle != NULL) {
-		work_item_t *item = pool->recycle;
-		pool->recycle = item->next;
-		free(item);
-	}
-
+	free(pool->ring);
 	free(pool);
 }
 
@@ -63,59 +54,63 @@ static void set_worker_ptr(thread_pool_t *interface, size_t idx, void *ptr)
 	pool->user = ptr;
 }
 
+static int grow_ring(serial_impl_t *pool)
+{
+	size_t new_size;
+	void **new;
+
+	if (pool->ring_size == 0) {
+		new_size = INIT_RING_SIZE;
+	} else if (SZ_MUL_OV(pool->ring_size, 2, &new_size)) {
+		return -1;
+	}
+
+	new = alloc_array(sizeof(new[0]), new_size);
+	if (new == NULL)
+		return -1;
+
+	/* the ring is full at this point, carry over all of it */
+	if (pool->count > 0)
+		memcpy(new, pool->ring, pool->count * sizeof(new[0]));
+
+	free(pool->ring);
+	pool->ring = new;
+	pool->ring_size = new_size;
+	pool->rd_idx = 0;
+	return 0;
+}
+
 static int submit(thread_pool_t *interface, void *ptr)
 {
 	serial_impl_t *pool = (serial_impl_t *)interface;
-	work_item_t *item = NULL;
 
 	if (pool->status != 0)
 		return pool->status;
 
-	if (pool->recycle != NULL) {
-		item = pool->recycle;
-		pool->recycle = item->next;
-		item->next = NULL;
-	}
-
-	if (item == NULL) {
-		item = calloc(1, sizeof(*item));
-		if (item == NULL)
+	if (pool->count == pool->ring_size) {
+		if (grow_ring(pool))
 			return -1;
 	}
 
-	item->data = ptr;
-
-	if (pool->queue_last == NULL) {
-		pool->queue = item;
-	} else {
-		pool->queue_last->next = item;
-	}
-
-	pool->queue_last = item;
+	pool->ring[(pool->rd_idx + pool->count) % pool->ring_size] = ptr;
+	pool->count += 1;
 	return 0;
 }
 
 static void *dequeue(thread_pool_t *interface)
 {
 	serial_impl_t *pool = (serial_impl_t *)interface;
-	work_item_t *item;
 	void *ptr;
 	int ret;
 
-	if (pool->queue == NULL)
+	if (pool->count == 0)
 		return NULL;
 
-	item = pool->queue;
-	pool->queue = item->next;
-
-	if (pool->queue == NULL)
-		pool->queue_last = NULL;
-
-	ptr = item->data;
+	ptr = pool->ring[pool->rd_idx];
+	pool->ring[pool->rd_idx] = NULL;
 
-	memset(item, 0, sizeof(*item));
-	item->next = pool->recycle;
-	pool->recycle = item;
+	pool->rd_idx = (pool->rd_idx + 1) % pool->ring_size;
+	pool->count -= 1;
 
 	ret = pool->fun(pool->user, ptr);
 
'''


def _hunks(text, fixed):
    """(file, old, new) per hunk of the unified diff above"""
    hunks, cur = [], None
    for line in text.split("\n"):
        if line.startswith("@@"):
            cur = []
            hunks.append(cur)
        elif cur is not None:
            cur.append(line)
    out = []
    for lines in hunks:
        o = "".join(l[1:] + "\n" for l in lines if l[:1] in (" ", "-"))
        n = "".join(l[1:] + "\n" for l in lines if l[:1] in (" ", "+"))
        if fixed:
            n = n.replace(RING_COPY_LINEAR, RING_COPY_ORDERED).replace(
                "\tsize_t new_size;\n\tvoid **new;\n", "\tsize_t new_size, i;\n\tvoid **new;\n")
        out.append((SER, o, n))
    return out


RING_COPY_LINEAR = ("\tif (pool->count > 0)\n"
                    "\t\tmemcpy(new, pool->ring, pool->count * sizeof(new[0]));\n")
RING_COPY_ORDERED = ("\tfor (i = 0; i < pool->count; ++i)\n"
                     "\t\tnew[i] = pool->ring[(pool->rd_idx + i) % pool->ring_size];\n")

DEQ_CALL = "\tret = pool->fun(pool->user, ptr);\n"

MUTANTS = {"C09": [
    # (1) dequeue hands back the LAST queued item instead of the first
    dict(name="w21_dequeue_last", file=SER,
         old="\tptr = item->data;\n\n\tmemset(item, 0, sizeof(*item));",
         new="\tptr = pool->queue_last != NULL ? pool->queue_last->data : item->data;\n\n"
             "\tmemset(item, 0, sizeof(*item));",
         only=BB + ":SSDD", obligation="C09.serial_bb.fifo"),
    # (2) the recycled node keeps its stale next pointer (historic slip):
    # needs rounds 2,1,1 - the stale recycle entry is dragged into the queue
    dict(name="w21_submit_stale_next", file=SER,
         old="\t\tpool->recycle = item->next;\n\t\titem->next = NULL;\n",
         new="\t\tpool->recycle = item->next;\n",
         only=BB + ":r211", obligation="C09.serial_bb.once"),
    dict(name="w21_submit_stale_next_drain", file=SER,
         old="\t\tpool->recycle = item->next;\n\t\titem->next = NULL;\n",
         new="\t\tpool->recycle = item->next;\n",
         only=BB + ":r211", obligation="C09.serial_bb.drain"),
    # (3) the worker runs twice
    dict(name="w21_worker_twice", file=SER, old=DEQ_CALL,
         new=DEQ_CALL + "\tif (ret == 0)\n\t\tret = pool->fun(pool->user, ptr);\n",
         only=BB + ":SD", obligation="C09.serial_bb.once"),
    dict(name="w21_worker_not_run", file=SER, old=DEQ_CALL, new="\tret = 0;\n",
         only=BB + ":SD", obligation="C09.serial_bb.once"),
    dict(name="w21_worker_on_next", file=SER, old=DEQ_CALL,
         new="\tret = pool->fun(pool->user, pool->queue != NULL ? pool->queue->data : ptr);\n",
         only=BB + ":SSDD", obligation="C09.serial_bb.once"),
    dict(name="w21_worker_no_ctx", file=SER, old=DEQ_CALL, new="\tret = pool->fun(NULL, ptr);\n",
         only=BB + ":SD", obligation="C09.serial_bb.ctx"),
    dict(name="w21_ctx_not_rebound", file=SER,
         old="\tif (idx >= 1)\n\t\treturn;\n\n\tpool->user = ptr;",
         new="\tif (idx >= 1)\n\t\treturn;\n\n\tif (pool->user == NULL)\n\t\tpool->user = ptr;",
         only=BB + ":ctx", obligation="C09.serial_bb.ctx"),
    dict(name="w21_status_overwrite", file=SER,
         old="\tif (ret != 0 && pool->status == 0)\n\t\tpool->status = ret;",
         new="\tif (ret != 0)\n\t\tpool->status = ret;",
         only=BB + ":SSDD", obligation="C09.serial_bb.status_sticky"),
    dict(name="w21_status_reset_on_empty", file=SER,
         old="\tif (pool->queue == NULL)\n\t\treturn NULL;\n\n\titem = pool->queue;",
         new="\tif (pool->queue == NULL) {\n\t\tpool->status = 0;\n\t\treturn NULL;\n\t}\n\n\titem = pool->queue;",
         only=BB + ":SDD", obligation="C09.serial_bb.status_sticky"),
    dict(name="w21_submit_ignores_status", file=SER,
         old="\tif (pool->status != 0)\n\t\treturn pool->status;\n\n\tif (pool->recycle != NULL) {",
         new="\tif (pool->recycle != NULL) {",
         only=BB + ":SDS", obligation="C09.serial_bb.submit_reports"),
    dict(name="w21_submit_at_head", file=SER,
         old="\t\tpool->queue_last->next = item;\n\t}\n\n\tpool->queue_last = item;\n\treturn 0;",
         new="\t\titem->next = pool->queue;\n\t\tpool->queue = item;\n\t\treturn 0;\n\t}\n\n"
             "\tpool->queue_last = item;\n\treturn 0;",
         only=BB + ":SSDD", obligation="C09.serial_bb.fifo"),
    # stale queue_last after the queue ran empty: the next item is lost
    dict(name="w21_dequeue_stale_last", file=SER,
         old="\tpool->queue = item->next;\n\n\tif (pool->queue == NULL)\n\t\tpool->queue_last = NULL;\n\n\tptr = item->data;",
         new="\tpool->queue = item->next;\n\n\tptr = item->data;",
         only=BB + ":SDSD", obligation="C09.serial_bb.drain"),
    dict(name="w21_dequeue_gives_up_early", file=SER,
         old="\tif (pool->queue == NULL)\n\t\treturn NULL;\n\n\titem = pool->queue;",
         new="\tif (pool->queue == NULL || pool->queue->next == NULL)\n\t\treturn NULL;\n\n\titem = pool->queue;",
         only=BB + ":SSDD", obligation="C09.serial_bb.drain"),
    dict(name="w21_destroy_leaks_recycle", file=SER,
         old="\twhile (pool->recycle != NULL) {\n\t\twork_item_t *item = pool->recycle;\n"
             "\t\tpool->recycle = item->next;\n\t\tfree(item);\n\t}\n",
         new="",
         only=BB + ":SD", obligation="memory-leak"),
    dict(name="w21_destroy_leaks_queue_tail", file=SER,
         old="\twhile (pool->queue != NULL) {\n\t\twork_item_t *item = pool->queue;\n"
             "\t\tpool->queue = item->next;\n\t\tfree(item);\n\t}\n",
         new="\tif (pool->queue != NULL) {\n\t\twork_item_t *item = pool->queue;\n"
             "\t\tpool->queue = item->next;\n\t\tfree(item);\n\t}\n",
         only=BB + ":SS", obligation="memory-leak"),
    dict(name="w21_worker_count_zero", file=SER,
         old="\t(void)pool;\n\treturn 1;", new="\t(void)pool;\n\treturn 0;",
         only=BB + ":SD", obligation="C09.serial_bb.workers"),
    # allocation failure in submit not reported: the item is lost
    dict(name="w21_oom_not_reported", file=SER,
         old="\t\tif (item == NULL)\n\t\t\treturn -1;\n",
         new="\t\tif (item == NULL)\n\t\t\treturn 0;\n",
         only=BB + "_oom:SD", obligation="C09.serial_bb.drain"),
    dict(name="w21_oom_wrong_code", file=SER,
         old="\t\tif (item == NULL)\n\t\t\treturn -1;\n",
         new="\t\tif (item == NULL)\n\t\t\treturn 1;\n",
         only=BB + "_oom:SD", obligation="C09.serial_bb.submit_reports"),
    dict(name="w21_oom_sets_status", file=SER,
         old="\t\tif (item == NULL)\n\t\t\treturn -1;\n",
         new="\t\tif (item == NULL) {\n\t\t\tpool->status = -1;\n\t\t\treturn -1;\n\t\t}\n",
         only=BB + "_oom:SD", obligation="C09.serial_bb.status_sticky"),
    # ------------------------------------------- the ring-buffer rewrite
    dict(name="w21_ring_rewrite", edits=_hunks(RING_HUNKS, False),
         only=BB + ":s*", obligation="C09.serial_bb.fifo"),
    dict(name="w21_ring_rewrite_words", edits=_hunks(RING_HUNKS, False),
         only=BB + ":S*", expect="pass"),      # short schedules never wrap + grow
    dict(name="w21_ring_rewrite_state_based", edits=_hunks(RING_HUNKS, False),
         only="serial_*", expect="undecided"),  # the first line does not compile
    dict(name="w21_ring_rewrite_fixed", edits=_hunks(RING_HUNKS, True),
         only=BB + ":[!S]*", expect="pass"),
    # ------------------------------------ behaviour-preserving edits: pass
    dict(name="w21_noop_cond_order", file=SER,
         old="\tif (ret != 0 && pool->status == 0)", new="\tif (pool->status == 0 && ret != 0)",
         only=BB + "*:S[SD]D*", expect="pass"),
    dict(name="w21_noop_empty_test", file=SER,
         old="\tif (pool->queue_last == NULL) {\n\t\tpool->queue = item;",
         new="\tif (pool->queue == NULL) {\n\t\tpool->queue = item;",
         only=BB + "*:[rcS]*", expect="pass"),
    dict(name="w21_noop_destroy_order", file=SER,
         old="\twhile (pool->queue != NULL) {\n\t\twork_item_t *item = pool->queue;\n"
             "\t\tpool->queue = item->next;\n\t\tfree(item);\n\t}\n\n"
             "\twhile (pool->recycle != NULL) {\n\t\twork_item_t *item = pool->recycle;\n"
             "\t\tpool->recycle = item->next;\n\t\tfree(item);\n\t}\n",
         new="\twhile (pool->recycle != NULL) {\n\t\twork_item_t *item = pool->recycle;\n"
             "\t\tpool->recycle = item->next;\n\t\tfree(item);\n\t}\n\n"
             "\twhile (pool->queue != NULL) {\n\t\twork_item_t *item = pool->queue;\n"
             "\t\tpool->queue = item->next;\n\t\tfree(item);\n\t}\n",
         only=BB + ":[rsS]*", expect="pass"),
],
 "C02": [
    # the block processor on the real serial pool (harness/C02/w21_bp_serial.c)
    dict(name="w21_bp_pool_lifo", file=SER,
         old="\tptr = item->data;\n\n\tmemset(item, 0, sizeof(*item));",
         new="\tptr = pool->queue_last != NULL ? pool->queue_last->data : item->data;\n\n"
             "\tmemset(item, 0, sizeof(*item));",
         only="w21_bp_serial:scn1_q10_plain", obligation="C02.serial_bb.write_order"),
    dict(name="w21_bp_fragblk_renumbered", file=BE,
         old="\t\t\tif (!(blk->flags & SQFS_BLK_FRAGMENT_BLOCK) ||\n"
             "\t\t\t    (blk->flags & BLK_FLAG_MANUAL_SUBMISSION)) {\n",
         new="\t\t\tif (1) {\n",
         only="w21_bp_serial:scn3_q*_plain", obligation="C02.serial_bb."),
    dict(name="w21_bp_internal_flag_leaks", file=BE,
         old="\t\t\t\t\t blk->flags & ~BLK_FLAG_INTERNAL,", new="\t\t\t\t\t blk->flags,",
         only="w21_bp_serial:scn1_q3_plain", obligation="C02.serial_bb.write_order"),
    dict(name="w21_bp_io_queue_unsorted", file=BE,
         old="\twhile (it != NULL && (it->io_seq_num < blk->io_seq_num)) {",
         new="\twhile (it != NULL && (it->io_seq_num > blk->io_seq_num)) {",
         only="w21_bp_serial:scn3_q*_plain", obligation="C02.serial_bb."),
    dict(name="w21_bp_error_swallowed", file=BE,
         old="\t\tstatus = proc->pool->get_status(proc->pool);\n\t\tif (status != 0) {\n"
             "\t\t\trelease_old_block(proc, blk);\n\t\t\treturn status;\n\t\t}\n",
         new="",
         only="w21_bp_serial:scn1_q3_fail1", obligation="C02.serial_bb."),
    dict(name="w21_bp_ring_rewrite_compiles", edits=_hunks(RING_HUNKS, False),
         only="w21_bp_serial:scn[13]_q3_*", expect="pass"),   # < 16 blocks in flight: no wrap + growth
    dict(name="w21_bp_ring_rewrite_blackbox", edits=_hunks(RING_HUNKS, False),
         only="c09_w21_serial_blackbox:s*", obligation="C09.serial_bb.fifo"),
    dict(name="w21_bp_noop_io_le", file=BE,
         old="\twhile (it != NULL && (it->io_seq_num < blk->io_seq_num)) {",
         new="\twhile (it != NULL && (it->io_seq_num <= blk->io_seq_num)) {",
         only="w21_bp_serial:scn3_*", expect="pass"),
]}
