#!/usr/bin/env python3
"""Regenerate MANIFEST.json from tools/manifest_data.py (single source)."""
import json, os, sys
HERE = os.path.dirname(os.path.abspath(__file__))
sys.path.insert(0, HERE)
import manifest_data as md

props = [json.loads(l)["id"] for l in open(os.path.join(HERE, "..", "properties.jsonl"))]
checks = []
for pid in props:
    c = md.CHECKS.get(pid)
    if not c:
        continue
    checks.append({
        "property_id": pid,
        "quick_cmd": "./verify %s --tier quick" % pid,
        "thorough_cmd": "./verify %s --tier thorough" % pid,
        "evidence_file": "/verif/evidence/%s.json" % pid,
        "replay_cmd_template": "./verify %s --replay {path}" % pid,
        "engine": "cbmc-contracts",
        "level_claimed": {"category": c["category"], "text": c["text"],
                          "design_ref": c.get("design_ref", "DESIGN.md section 4, " + pid)},
        "level_note": c["note"],
        "technique": c.get("technique", "contract-based deductive verification of the real C code with CBMC (function contracts, loop invariants, ghost state)"),
    })
na = [{"property_id": pid, "reason": md.NOT_APPLICABLE[pid]} for pid in props
      if pid not in md.CHECKS]
man = {
    "version": 1,
    "setup_cmd": "true",
    "hooks": {
        "guard": "AGENTD_SQUASHFS_TOOLS_NG_VERIF",
        "enable": "goto-cc -DAGENTD_SQUASHFS_TOOLS_NG_VERIF (the guard currently selects nothing: no hook commits in /repo; loop clauses are inserted into scratch copies on every run)",
        "baseline_off_cmd": "cd /repo && make check",
        "source_commits": md.HOOK_COMMITS,
        "add_only": True,
    },
    "engines": [{
        "name": "cbmc-contracts", "path": "/verif/verify",
        "serves_properties": [c["property_id"] for c in checks],
        "kind_free_text": "goto-cc on the real translation units + goto-instrument (dfcc function contracts, loop contracts) + cbmc 6.11 SAT back end; native ASan/UBSan replay of counterexample tapes",
    }],
    "checks": checks,
    "not_applicable": na,
    "notes": md.NOTES,
}
json.dump(man, open(os.path.join(HERE, "..", "MANIFEST.json"), "w"), indent=1)
print("checks:", [c["property_id"] for c in checks], "n/a:", [n["property_id"] for n in na])
