#!/usr/bin/env python3
"""evalseeds.py <Cxx> [--tier thorough] : run the property's check against
every seeded change /verif/seeded/<Cxx>-*/patch.diff (scratch worktree,
VERIF_REPO) and record the outcome in meta.json (detected_by / missed)."""
import glob, json, os, re, subprocess, sys
prop = sys.argv[1]
extra = sys.argv[2:]
only = os.environ.get("SEEDS", "").split()
for d in sorted(glob.glob("/verif/seeded/%s-*" % prop)):
    if only and os.path.basename(d) not in only:
        continue
    patch = os.path.join(d, "patch.diff")
    p = subprocess.run(["/verif/tools/seedcheck.sh", prop, patch] + extra,
                       capture_output=True, text=True)
    out = p.stdout
    obl = sorted(set(re.findall(r"failed obligation (.*?) in (\S+?):", out)))
    m = re.search(r"exit=(\d+)", out)
    rc = int(m.group(1)) if m else -1
    nat = "reproduced natively" in out and "not reproduced natively" not in out
    anynat = re.search(r"\(reproduced natively", out) is not None
    meta = json.load(open(os.path.join(d, "meta.json")))
    if rc == 1:
        meta["detected_by"] = "DETECTED (%s tier): " % ("thorough" if "thorough" in extra else "quick") + \
            "; ".join("%s [%s]" % (o, h) for o, h in obl[:8]) + \
            (" ; native replay reproduced at least one" if anynat else " ; no native reproduction")
    elif rc == 0:
        meta["detected_by"] = "MISSED: check exits 0 on the changed tree"
    elif rc == 3:
        meta["detected_by"] = "NOT EVALUATED: patch does not apply to current /repo HEAD"
    else:
        meta["detected_by"] = "UNDECIDED (exit %d): %s" % (rc, " | ".join(re.findall(r"UNDECIDED.*", out)[:3])[:400])
    json.dump(meta, open(os.path.join(d, "meta.json"), "w"), indent=1)
    print(os.path.basename(d), "->", meta["detected_by"][:200])
    sys.stdout.flush()
