#!/usr/bin/env python3
"""seedprompt2.py <Cxx> <first k> <n> : prompt for a round-2 independent
seeded-change agent (property text only; the focus list is the property's own
anchor files minus the files round 1 already changed)."""
import json, sys
pid, k0, n = sys.argv[1], int(sys.argv[2]), int(sys.argv[3])
wt = "/tmp/seed4_" + pid.lower()
focus = json.load(open("/var/tmp/focus4.json"))[pid]
for l in open("/verif/properties.jsonl"):
    p = json.loads(l)
    if p["id"] == pid:
        break
ks = ", ".join(str(k) for k in range(k0, k0 + n))
print(f"""You are testing how robust a C project's guarantees are. Work ONLY inside the scratch git worktree {wt} (a checkout of the squashfs-tools-ng project, already configured and built in-tree: `make -j4` rebuilds, `make -j4 check` runs its 89-test suite, all passing now). Do not read or touch /verif or /repo. Do not commit.

Here is a property the project is supposed to guarantee:

Title: {p['title']}
Statement: {p['statement']}
Quantified over: {p['quantifier']['text']}
Files the property is anchored in: {', '.join(p['anchors']['files'])}
Mechanisms: {'; '.join(m['name'] + ' (' + m['where'] + ')' for m in p['anchors'].get('mechanism', []))}

Task: produce {n} different, realistic source changes (the kind of slip a maintainer could make in a refactoring, an "optimisation" or a bug fix elsewhere), each of which breaks this property while the project still compiles and `make check` still passes all 89 tests. Ask yourself for each: would it survive code review? Prefer changes that need something specific to manifest — a particular interleaving, a crash or fault at a particular point, a multi-step sequence of operations, an unusual input, or two cooperating sites that each look fine alone — not ones that ordinary use would expose at once. For this round every file is fair game (anchor files, their callers and callees, the command line tools' glue code under bin/, the shared helpers under lib/util and lib/common). Earlier rounds already produced many single-line slips (a flipped comparison, a dropped check, a lost return value, a missing |=); look for something of a different kind: a refactoring that moves state between two functions or two files so that each site looks fine alone, an error/cleanup path, a boundary that needs a particular size or count to be hit, an interaction between two options or two features. Spread the changes over different clauses of the statement.

For each change k in {{{ks}}} deliver, under {wt}_out/k/:
 * patch.diff — `git diff` of just that change against the clean worktree (revert to clean between changes: `git checkout -- .`);
 * a demonstration (demo.c, or demo.sh driving the built tools) that FAILS (non-zero exit) with the change and PASSES (exit 0) without it, with the exact build/run command in a comment at the top (link against the in-tree libs, e.g. `gcc -I include -I . demo.c .libs/libsquashfs.a libutil.a libcompat.a -lz -llzma -lzstd -llz4 -lbz2 -lpthread -o demo`; fault injection via LD_PRELOAD shims or small stub objects is fine);
 * run_demo.sh — a self-contained script that, run as `sh run_demo.sh` from the top of the worktree (after `make`), builds (if needed) and runs the demonstration and exits with its status (0 = property holds, non-zero = violated); it must not depend on files outside the worktree and this output directory;
 * notes.txt — which clause of the property is broken, what specific input/schedule/fault/sequence is needed for it to manifest, and confirmation (command + result) that `make check` still passes 89/89 with the change applied.
Verify all of this yourself before finishing: with the patch → builds, 89/89 tests pass, demo fails; without → demo passes. Leave the worktree clean (`git checkout -- .`) at the end. Keep CPU use modest (make -j4). Your final message: a short summary of the changes (file, function, what breaks, what is needed to trigger).""")
