#!/usr/bin/env python3
"""Write /verif/seeded/RESULTS.md from the meta.json files."""
import glob, json, os, re
rows = []
for d in sorted(glob.glob("/verif/seeded/C*-*")):
    m = json.load(open(os.path.join(d, "meta.json")))
    det = m.get("detected_by", "")
    status = det.split(":")[0].split("(")[0].strip() if det else "?"
    patch = open(os.path.join(d, "patch.diff")).read()
    files = sorted(set(re.findall(r"^\+\+\+ b/(\S+)", patch, re.M)))
    rows.append((os.path.basename(d), status, ", ".join(files), det, m.get("needs_to_manifest", ""), m.get("rebased", "")))
out = ["# Seeded changes: which check catches which change", "",
       "Each change was written by an independent sub-agent that saw only the property text and a scratch worktree, ",
       "and was confirmed by the lead (builds, `make check` 89/89, demo fails with / passes without). ",
       "`tools/evalseeds.py <Cxx>` applies the patch to a scratch worktree of /repo HEAD and runs the property's quick tier.", "",
       "| seed | result | files changed | obligations that fail (harness) |", "|---|---|---|---|"]
n = {"DETECTED": 0, "MISSED": 0}
for name, status, files, det, needs, reb in rows:
    n[status] = n.get(status, 0) + 1
    body = det.split(":", 1)[1].strip() if ":" in det else det
    out.append("| %s | %s | %s | %s%s |" % (name, status, files, body[:260].replace("|", "/"), " _(rebased)_" if reb else ""))
out += ["", "Totals: " + ", ".join("%s %d" % kv for kv in sorted(n.items()))]
open("/verif/seeded/RESULTS.md", "w").write("\n".join(out) + "\n")
print("\n".join(out[-3:]))
