"""borrow.py - helper for cases_extra_*.py files: run harnesses of another
property as part of this property's check (the obligation names keep the
lending property's prefix; the files stay where they are)."""
import copy, importlib.util, os


def borrow(here_file, lender, names, prefix=None, slow=()):
    base = os.path.dirname(os.path.abspath(here_file))
    out = []
    ldir = os.path.join(base, "..", lender)
    for fn in sorted(os.listdir(ldir)):
        if not (fn == "cases.py" or (fn.startswith("cases_extra_") and fn.endswith(".py"))):
            continue
        spec = importlib.util.spec_from_file_location(
            "borrow_%s_%s" % (lender, fn[:-3]), os.path.join(ldir, fn))
        mod = importlib.util.module_from_spec(spec)
        spec.loader.exec_module(mod)
        for h in getattr(mod, "HARNESSES", []):
            if h["name"] not in names:
                continue
            c = copy.deepcopy(h)
            if not c["file"].startswith("../"):
                c["file"] = "../%s/%s" % (lender, c["file"])
            c["name"] = (prefix or lender.lower() + "_") + h["name"]
            lt = list(c.get("loop_tables", []))
            if lender not in lt:
                lt.append(lender)
            c["loop_tables"] = lt
            if h["name"] in slow:      # too slow for the borrower's quick tier
                if c.get("cases"):
                    for cc in c["cases"]:
                        cc["tier"] = "thorough"
                else:
                    c["cases"] = [dict(id="default", tier="thorough")]
            out.append(c)
    missing = set(names) - {h["name"][len(prefix or lender.lower() + "_"):] for h in out}
    if missing:
        raise RuntimeError("borrow: %s has no harness %s" % (lender, sorted(missing)))
    return out
