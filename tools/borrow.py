"""borrow.py - helper for cases_extra_*.py files: run harnesses of another
property as part of this property's check (the obligation names keep the
lending property's prefix; the files stay where they are)."""
import copy, importlib.util, os


import re as _re


def _harness_names(path):
    """harness names defined in a cases file, read textually (cheap, and it
    keeps files that only borrow themselves from being executed)"""
    try:
        txt = open(path).read()
    except OSError:
        return set()
    return set(_re.findall(r'name="([^"]+)"', txt)) | \
        set(_re.findall(r'_h\("([^"]+)"', txt))


def borrow(here_file, lender, names, prefix=None, slow=(), max_quick=None, max_thorough=None):
    base = os.path.dirname(os.path.abspath(here_file))
    out = []
    ldir = os.path.join(base, "..", lender)
    for fn in sorted(os.listdir(ldir)):
        if not (fn == "cases.py" or (fn.startswith("cases_extra_") and fn.endswith(".py"))):
            continue
        if fn == "cases_extra_auto.py":
            continue        # generated borrow lists never lend (no cycles)
        if not (set(names) & _harness_names(os.path.join(ldir, fn))):
            continue        # nothing wanted in this file: do not execute it
        spec = importlib.util.spec_from_file_location(
            "borrow_%s_%s" % (lender, fn[:-3]), os.path.join(ldir, fn))
        mod = importlib.util.module_from_spec(spec)
        spec.loader.exec_module(mod)
        for h in getattr(mod, "HARNESSES", []):
            if h["name"] not in names:
                continue
            c = copy.deepcopy(h)
            if not c["file"].startswith("../"):
                c["file"] = "../%s/%s" % (lender, c["file"])
            c["name"] = (prefix or lender.lower() + "_") + h["name"]
            c["lender"] = lender
            c["lender_name"] = h["name"]
            lt = list(c.get("loop_tables", []))
            if lender not in lt:
                lt.append(lender)
            c["loop_tables"] = lt
            # a borrowed harness with many cases (tree shapes, option lines)
            # is sampled evenly: the lender's own check runs the full set
            if c.get("cases") and (max_quick or max_thorough):
                qc = [x for x in c["cases"] if x.get("tier", "quick") == "quick"]
                tc = [x for x in c["cases"] if x.get("tier", "quick") != "quick"]
                if max_quick and len(qc) > max_quick:
                    step = len(qc) / float(max_quick)
                    keep = [qc[int(i * step)] for i in range(max_quick)]
                    tc = [x for x in qc if x not in keep] + tc
                    for x in tc:
                        x["tier"] = "thorough"
                    qc = keep
                if max_thorough is not None and len(tc) > max_thorough:
                    if max_thorough == 0:
                        tc = []
                    else:
                        step = len(tc) / float(max_thorough)
                        tc = [tc[int(i * step)] for i in range(max_thorough)]
                c["cases"] = qc + tc
            if h["name"] in slow:      # too slow for the borrower's quick tier
                if c.get("cases"):
                    for cc in c["cases"]:
                        cc["tier"] = "thorough"
                else:
                    c["cases"] = [dict(id="default", tier="thorough")]
            out.append(c)
    missing = set(names) - {h["name"][len(prefix or lender.lower() + "_"):] for h in out}
    if missing:
        raise RuntimeError("borrow: %s has no harness %s" % (lender, sorted(missing)))
    return out
