#!/usr/bin/env python3
"""saveseed.py <Cxx> <k> <srcdir> <caught-by|MISSED> <needs...> : copy a confirmed seeded change into /verif/seeded/<Cxx>-<k>/ with meta.json"""
import json, os, shutil, sys
prop, k, src, caught = sys.argv[1:5]
needs = " ".join(sys.argv[5:])
dst = "/verif/seeded/%s-%s" % (prop, k)
os.makedirs(dst, exist_ok=True)
for f in os.listdir(src):
    p = os.path.join(src, f)
    if os.path.isfile(p) and os.path.getsize(p) < 400000 and not os.access(p, os.X_OK) or f.endswith(".sh"):
        shutil.copy(p, dst)
notes = ""
if os.path.exists(os.path.join(src, "notes.txt")):
    notes = open(os.path.join(src, "notes.txt")).read()
json.dump({
    "property": prop,
    "origin": "independent sub-agent given only the property text and a scratch worktree",
    "needs_to_manifest": needs,
    "confirmed": "lead re-ran: patch applies to HEAD of /repo, check run via tools/seedcheck.sh (scratch worktree, VERIF_REPO); agent-verified: builds, make check 89/89, demo fails with / passes without the patch",
    "detected_by": caught,
    "notes_excerpt": notes[:1500],
}, open(os.path.join(dst, "meta.json"), "w"), indent=1)
print(dst, sorted(os.listdir(dst)))
