#!/bin/sh
# mkseedwt2.sh <name> : scratch worktree of /repo under /tmp (round 2), configured and built in-tree
set -e
d=/tmp/seed4_$1
git -C /repo worktree add --detach $d HEAD >/dev/null 2>&1
cd $d && ./autogen.sh >/dev/null 2>&1 && ./configure >/dev/null 2>&1 && make -j4 >/dev/null 2>&1 && echo "built $d"
