#!/bin/sh
# seedcheck.sh <Cxx> <patch.diff> [verify args...]
# Apply a seeded change to a scratch worktree of /repo (never to /repo while
# workers are reading it), run the property's check with VERIF_REPO pointing
# there, remove the worktree. Prints the check's last lines and exit status.
prop=$1; patch=$2; shift 2
wt=$(mktemp -d /var/tmp/verif_seed_XXXXXX); rmdir $wt
git -C /repo worktree add --detach $wt ${SEED_BASE:-HEAD} >/dev/null 2>&1 || exit 3
if ! git -C $wt apply "$patch"; then echo "patch does not apply"; git -C /repo worktree remove --force $wt; exit 3; fi
VERIF_REPO=$wt /verif/verify $prop --no-cover "$@" > $wt.log 2>&1
rc=$?
grep -E "VIOLATION|KNOWN-FINDING|UNDECIDED|failed obligation|tier=" $wt.log | sed "s#$wt#<wt>#g" | cut -c1-260 | head -40
echo "exit=$rc"
git -C /repo worktree remove --force $wt; rm -f $wt.log
exit $rc
