/*
 * replay_rt.c - native runtime for -DVERIF_REPLAY builds of a harness.
 * The tape is a text file, one unsigned decimal value per line (optionally
 * followed by a tag); VERIF_TAPE names it. When the harness asks for more
 * values than the trace supplied, zeros are served and the fact is reported.
 */
#include <stdio.h>
#include <stdlib.h>
#include <string.h>
#include <unistd.h>

static unsigned long long *tape;
static size_t tape_n, tape_i, tape_over;

void verif_fail(const char *name)
{
	fflush(stdout);
	fprintf(stderr, "VERIF-OBLIGATION-FAILED %s\n", name);
	fflush(stderr);
	_exit(42);
}

void verif_assume_fail(const char *text)
{
	fflush(stdout);
	fprintf(stderr, "VERIF-ASSUMPTION-NOT-MET %s\n", text);
	fflush(stderr);
	_exit(43);
}

unsigned long long verif_tape_next(const char *tag, unsigned long long mask)
{
	(void)tag;
	if (tape_i < tape_n)
		return tape[tape_i++] & mask;
	++tape_over;
	return 0;
}

#ifndef VERIF_ENTRY
#define VERIF_ENTRY harness
#endif
void VERIF_ENTRY(void);

int main(void)
{
	const char *path = getenv("VERIF_TAPE");
	char line[256];
	FILE *fp;

	if (path != NULL && (fp = fopen(path, "r")) != NULL) {
		size_t cap = 0;
		while (fgets(line, sizeof(line), fp) != NULL) {
			if (tape_n == cap) {
				cap = cap ? cap * 2 : 64;
				tape = realloc(tape, cap * sizeof(*tape));
				if (tape == NULL)
					return 3;
			}
			tape[tape_n++] = strtoull(line, NULL, 10);
		}
		fclose(fp);
	}

	alarm(20);
	VERIF_ENTRY();
	fflush(stdout);
	fprintf(stderr, "VERIF-REPLAY-COMPLETED tape_used=%zu tape_len=%zu over=%zu\n",
		tape_i, tape_n, tape_over);
	return 0;
}
