#!/bin/sh
# confirmseed.sh <worktree> <seed dir (patch.diff ...)> '<demo command, run in worktree>'
# Lead's own confirmation of a seeded change: clean tree -> demo passes;
# patched tree -> builds, make check 89/0, demo fails. Leaves the worktree clean.
wt=$1; sd=$2; cmd=$3
cd $wt || exit 3
git checkout -- . ; make -j4 >/dev/null 2>&1
sh -c "$cmd" >/dev/null 2>&1; c0=$?
git apply $sd/patch.diff || { echo "PATCH DOES NOT APPLY"; exit 3; }
make -j4 >/dev/null 2>&1; b=$?
t=$(make -j4 check 2>&1 | grep -E "^# (PASS|FAIL):" | tr -s ' ' | tr '\n' ' ')
sh -c "$cmd" >/dev/null 2>&1; c1=$?
git checkout -- . ; make -j4 >/dev/null 2>&1
echo "CONFIRM $sd: clean demo exit=$c0; patched: build rc=$b, suite: $t demo exit=$c1"
