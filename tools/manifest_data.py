HOOK_COMMITS = []
NOTES = ("All checks are contract-based deductive verification with CBMC on the real C sources of /repo "
         "(see DESIGN.md). 'proved' harnesses have every loop closed by a loop contract or a code constant; "
         "bounded stand-ins are labelled and counted separately in each evidence file.")

_PENDING = "harness set not built yet in this session (planned in DESIGN.md section 4); not claimed until its check exists and passes"

CHECKS = {
 "C18": dict(category="proof",
    text="canonicalize_name/normalize_slashes and is_filename_sane are proved memory-safe, terminating, never-growing and status-correct for every string shorter than 4096 bytes (symbolic length, loop contracts on all six loops, no unwinding). The functional equivalence with an independent spec (fails iff a '..' component, output equals spec, clean, idempotent; sane iff not '.', '..' and slash-free) is a bounded stand-in over every byte string up to length 7 (quick) / 10 (thorough) resp. 12, reported separately and not counted as proved.",
    note="Function contract enforced by harness assume/assert (dfcc hangs on the nested pointer loops, DESIGN 7); CBMC library strcmp model; call-site funnelling is covered under C06/C07, not here."),
 "C10": dict(category="proof",
    text="Tag-payload coherence of every reader cache is proved per operation from an arbitrary well-formed cache state (= any history of earlier successful or failed calls): sqfs_meta_reader_seek/read, the data reader's block and fragment caches, the xattr reader's out-of-line value detour, readdir's caller-owned cursor, and the pure id/fragment table lookups. On success the cache tag equals the requested key; on failure the cache is either untouched or invalidated, so every answer is a function of (image, query). Environment (file read_at, compressor) is a contract stub returning arbitrary bytes/errors at every call.",
    note="Determinism of read_at/do_block for equal arguments is assumed (witness offset/value pair); copies are C19; the cross-API agreement clause (stream vs positional read) is argued from the shared get_block path, not separately proved."),
 "C14": dict(category="proof",
    text="Three lemmas over contracts give the crash property for every prefix of the output-file write log: (1) for all arguments the provisional superblock written by sqfs_writer_init is rejected by sqfs_super_read/sqfs_id_table_read, also when torn (loop-free, full domain); (2) every write_at/truncate issued by the data, metadata, table, xattr and compressor-option writers is append-only beyond the superblock (checked at each call site by the file contract with a ghost size; loop contracts where the writers loop); (3) in sqfs_writer_finish the final superblock write happens once, after every stage succeeded, with bytes_used equal to the ghost file size, and never on a failure path.",
    note="Crash model = process kill between output-file system calls (no fsync is issued); the sqfs_file_t contract (write_at complete or failing), constructor side-effect freedom and the stage contracts of finish are assumed here and listed in the evidence; kernel write-back order is out of scope."),
}

NOT_APPLICABLE = {p: _PENDING for p in
  ["C01","C02","C03","C04","C05","C06","C07","C08","C09","C11","C12","C13","C15","C16","C17","C19"]}
