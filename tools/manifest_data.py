HOOK_COMMITS = []
NOTES = ("All checks are contract-based deductive verification with CBMC on the real C sources of /repo "
         "(see DESIGN.md). 'proved' harnesses have every loop closed by a loop contract or a code constant; "
         "bounded stand-ins are labelled and counted separately in each evidence file.")

_PENDING = "harness set not built yet in this session (planned in DESIGN.md section 4); not claimed until its check exists and passes"

CHECKS = {
 "C18": dict(category="proof",
    text="canonicalize_name/normalize_slashes and is_filename_sane are proved memory-safe, terminating, never-growing and status-correct for every string shorter than 4096 bytes (symbolic length, loop contracts on all six loops, no unwinding). The functional equivalence with an independent spec (fails iff a '..' component, output equals spec, clean, idempotent; sane iff not '.', '..' and slash-free) is a bounded stand-in over every byte string up to length 7 (quick) / 10 (thorough) resp. 12, reported separately and not counted as proved.",
    note="Function contract enforced by harness assume/assert (dfcc hangs on the nested pointer loops, DESIGN 7); CBMC library strcmp model; call-site funnelling is covered under C06/C07, not here."),
}

NOT_APPLICABLE = {p: _PENDING for p in
  ["C01","C02","C03","C04","C05","C06","C07","C08","C09","C10","C11","C12","C13","C14","C15","C16","C17","C19"]}
