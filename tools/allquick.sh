#!/bin/sh
cd /verif
for p in C01 C02 C03 C04 C05 C06 C07 C08 C09 C10 C11 C12 C13 C14 C15 C16 C17 C18 C19; do
  s=$(date +%s)
  ./verify $p --tier quick --jobs ${JOBS:-10} > /var/tmp/aq_$p.log 2>&1
  rc=$?
  e=$(date +%s)
  echo "$p exit=$rc wall=$((e-s))s $(grep -E 'tier=quick' /var/tmp/aq_$p.log | tail -1 | cut -c1-150)"
done
