#!/usr/bin/env python3
"""
annotate.py - insert CBMC loop-contract clauses into a scratch copy of a real
repository file, mechanically, on every run.

Table format (contracts/loops.tbl):

    @ <relative file> <function> <loop ordinal> <for|while|do>
    <clause text ...>            (one or more lines, joined with a blank)
    @ ...

The clause text is inserted on the SAME line directly after the closing ')'
of the loop head (for `do` loops: directly after the `do` keyword),
wrapped in marker comments, so line numbers of the real file are preserved
and stripping  ` /*@V{*/ ... /*@V}*/`  gives back the repository file byte for
byte (checked here on every run).

Exit status / exceptions: AnnotateError means "extraction broke" (renamed
function, loop removed, keyword mismatch) - the driver maps it to exit 2
(undecided), never to a violation.
"""
import re
import sys
import os

MARK_OPEN = " /*@V{*/ "
MARK_CLOSE = " /*@V}*/"
STRIP_RE = re.compile(r" /\*@V\{\*/ .*? /\*@V\}\*/", re.S)


class AnnotateError(Exception):
    pass


def parse_table(path):
    rows = []
    cur = None
    with open(path) as fp:
        for raw in fp:
            line = raw.rstrip("\n")
            if line.startswith("#") or not line.strip():
                continue
            if line.startswith("@"):
                parts = line[1:].split()
                if len(parts) != 4:
                    raise AnnotateError("bad table header: " + line)
                cur = {"file": parts[0], "function": parts[1],
                       "ordinal": int(parts[2]), "keyword": parts[3],
                       "clauses": []}
                rows.append(cur)
            else:
                if cur is None:
                    raise AnnotateError("clause before header: " + line)
                cur["clauses"].append(line.strip())
    return rows


def tokenize(text):
    """Yield (kind, value, start, end); kinds: id, punct, other. Comments,
    strings, char literals and preprocessor lines are skipped."""
    i, n = 0, len(text)
    toks = []
    at_line_start = True
    while i < n:
        c = text[i]
        if c == "\n":
            at_line_start = True
            i += 1
            continue
        if c in " \t\r\f\v":
            i += 1
            continue
        if text.startswith("/*", i):
            j = text.find("*/", i + 2)
            i = n if j < 0 else j + 2
            continue
        if text.startswith("//", i):
            j = text.find("\n", i)
            i = n if j < 0 else j
            continue
        if c == "#" and at_line_start:
            # preprocessor line incl. continuations
            while i < n:
                j = text.find("\n", i)
                if j < 0:
                    i = n
                    break
                if text[j - 1] == "\\":
                    i = j + 1
                    continue
                i = j
                break
            continue
        at_line_start = False
        if c == '"' or c == "'":
            j = i + 1
            while j < n and text[j] != c:
                if text[j] == "\\":
                    j += 1
                j += 1
            i = j + 1
            toks.append(("other", "lit", i, i))
            continue
        if c.isalpha() or c == "_":
            j = i + 1
            while j < n and (text[j].isalnum() or text[j] == "_"):
                j += 1
            toks.append(("id", text[i:j], i, j))
            i = j
            continue
        if c in "(){};":
            toks.append(("punct", c, i, i + 1))
            i += 1
            continue
        toks.append(("other", c, i, i + 1))
        i += 1
    return toks


def match_forward(toks, k, open_c, close_c):
    """toks[k] is open_c; return index of the matching close_c."""
    depth = 0
    while k < len(toks):
        kind, val = toks[k][0], toks[k][1]
        if kind == "punct":
            if val == open_c:
                depth += 1
            elif val == close_c:
                depth -= 1
                if depth == 0:
                    return k
        k += 1
    raise AnnotateError("unbalanced " + open_c)


def find_function_body(toks, fname):
    """Return (index of '{', index of matching '}') of the definition.
    'name#N' selects the N-th file-scope definition (1-based; files with a
    _WIN32 and a POSIX variant of the same function)."""
    fname, _, nth = fname.partition("#")
    nth = int(nth or 1)
    for k, t in enumerate(toks):
        if t[0] == "id" and t[1] == fname and k + 1 < len(toks) \
                and toks[k + 1][1] == "(":
            close = match_forward(toks, k + 1, "(", ")")
            # skip contract-like macro invocations between ')' and '{'
            j = close + 1
            while j < len(toks) and toks[j][0] == "id" and \
                    j + 1 < len(toks) and toks[j + 1][1] == "(":
                j = match_forward(toks, j + 1, "(", ")") + 1
            if j < len(toks) and toks[j][1] == "{":
                # must be at file scope: brace depth before k is zero
                depth = 0
                for u in toks[:k]:
                    if u[0] == "punct" and u[1] == "{":
                        depth += 1
                    elif u[0] == "punct" and u[1] == "}":
                        depth -= 1
                if depth == 0:
                    nth -= 1
                    if nth == 0:
                        return j, match_forward(toks, j, "{", "}")
    raise AnnotateError("function definition not found: " + fname)


def loop_heads(toks, lo, hi):
    """List loops in token range (lo, hi): (keyword, insert_position) in
    source order of the loop keyword. For do-loops the insert position is
    after the ')' of the trailing while."""
    loops = []
    do_tail_whiles = set()
    k = lo
    # first pass: find do ... while tails
    k = lo
    while k < hi:
        t = toks[k]
        if t[0] == "id" and t[1] == "do":
            j = k + 1
            if toks[j][1] == "{":
                end = match_forward(toks, j, "{", "}")
                w = end + 1
            else:
                # single statement body: ends at the first ';' at depth 0
                d = 0
                w = j
                while w < hi:
                    if toks[w][1] in "({":
                        d += 1
                    elif toks[w][1] in ")}":
                        d -= 1
                    elif toks[w][1] == ";" and d == 0:
                        break
                    w += 1
                w += 1
            if not (toks[w][0] == "id" and toks[w][1] == "while"):
                raise AnnotateError("do without trailing while")
            do_tail_whiles.add(w)
            # goto-cc 6.11 accepts the clauses of a do loop only directly
            # after the `do` keyword:  do <clauses> { body } while (cond);
            loops.append((k, "do", toks[k][3]))
        k += 1
    k = lo
    while k < hi:
        t = toks[k]
        if t[0] == "id" and t[1] in ("for", "while") and k not in do_tail_whiles:
            if toks[k + 1][1] != "(":
                raise AnnotateError("loop keyword without '('")
            close = match_forward(toks, k + 1, "(", ")")
            loops.append((k, t[1], toks[close][3]))
        k += 1
    loops.sort()
    return [(kw, pos) for (_, kw, pos) in loops]


def annotate_text(text, rows):
    """rows: table rows for this file. Returns (annotated text, report)."""
    toks = tokenize(text)
    inserts = []
    report = {}
    by_fn = {}
    for r in rows:
        by_fn.setdefault(r["function"], []).append(r)
    for fn, frows in by_fn.items():
        lo, hi = find_function_body(toks, fn)
        loops = loop_heads(toks, lo, hi)
        report[fn] = {"loops_in_source": len(loops), "annotated": len(frows)}
        seen = set()
        for r in frows:
            o = r["ordinal"]
            if o in seen:
                raise AnnotateError("duplicate row %s:%d" % (fn, o))
            seen.add(o)
            if o >= len(loops):
                raise AnnotateError(
                    "%s has %d loops, table names ordinal %d" %
                    (fn, len(loops), o))
            kw, pos = loops[o]
            if kw != r["keyword"]:
                raise AnnotateError(
                    "%s loop %d is '%s', table says '%s'" %
                    (fn, o, kw, r["keyword"]))
            clause = " ".join(r["clauses"])
            if "/*@V" in clause or "\n" in clause:
                raise AnnotateError("bad clause text")
            inserts.append((pos, MARK_OPEN + clause + MARK_CLOSE))
    inserts.sort(reverse=True)
    out = text
    for pos, s in inserts:
        out = out[:pos] + s + out[pos:]
    if STRIP_RE.sub("", out) != text:
        raise AnnotateError("strip check failed: annotated file is not the "
                            "repository file plus inserted clauses")
    if out.count("\n") != text.count("\n"):
        raise AnnotateError("line structure changed")
    return out, report


def annotate_file(repo, relpath, rows, outdir):
    src = os.path.join(repo, relpath)
    with open(src, encoding="utf-8", errors="surrogateescape") as fp:
        text = fp.read()
    out, report = annotate_text(text, rows)
    dst = os.path.join(outdir, relpath)
    os.makedirs(os.path.dirname(dst), exist_ok=True)
    with open(dst, "w", encoding="utf-8", errors="surrogateescape") as fp:
        fp.write(out)
    return dst, report


if __name__ == "__main__":
    # annotate.py <repo> <table> <outdir> <relfile> [function ...]
    repo, table, outdir, rel = sys.argv[1:5]
    fns = set(sys.argv[5:])
    rows = [r for r in parse_table(table) if r["file"] == rel and
            (not fns or r["function"] in fns)]
    try:
        dst, rep = annotate_file(repo, rel, rows, outdir)
    except AnnotateError as e:
        print("annotate: " + str(e), file=sys.stderr)
        sys.exit(2)
    print(dst, rep)
