#!/bin/sh
# intake2.sh <Cxx> <k> : lead's intake of a round-4 seeded change produced in
# /tmp/seed4_<cxx>_out/<k>/ : confirm (clean demo passes; patched: builds,
# make check 89/0, demo fails), save to /verif/seeded/<Cxx>-<k>/, evaluate
# with the property's quick tier in a scratch worktree.
P=$1; k=$2; lc=$(echo $P | tr A-Z a-z)
wt=/tmp/seed4_$lc; sd=${wt}_out/$k
[ -f $sd/patch.diff ] || { echo "no patch in $sd"; exit 3; }
if [ -n "$CONFIRMLOG" ] && grep -q "CONFIRM $sd: clean demo exit=0; patched: build rc=0, suite: # PASS: 89 # FAIL: 0 *demo exit=[1-9]" "$CONFIRMLOG"; then
  out=$(grep "CONFIRM $sd:" "$CONFIRMLOG" | head -1)
else
  out=$(/verif/tools/confirmseed.sh $wt $sd "sh $sd/run_demo.sh")
fi
echo "$out"
echo "$out" | grep -q "clean demo exit=0; patched: build rc=0, suite: # PASS: 89 # FAIL: 0 *demo exit=[1-9]" || { echo "NOT CONFIRMED"; exit 4; }
python3 /verif/tools/saveseed.py $P $k $sd "PENDING evaluation" "see notes.txt" >/dev/null
python3 - <<EOF
import json
p='/verif/seeded/$P-$k/meta.json'; m=json.load(open(p))
m["round"]=4
m['confirmed']="lead confirmed with tools/confirmseed.sh in the seeding worktree: $out"
json.dump(m,open(p,'w'),indent=1)
EOF
SEEDS=$P-$k python3 /verif/tools/evalseeds.py $P
